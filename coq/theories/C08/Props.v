(* C08 — property theorems only.  Every theorem is closed by [exact] of a lemma proved in
   Proofs.v and followed by [Print Assumptions].

   Vocabulary (Spec.v): [decode cfg fs doc] is the typed decoding of the document at the struct
   type (supplied values converted at the field's kind, declared defaults for absent keys, zero
   values otherwise; None when a supplied value is not of its field's type); [meets cfg fs doc]
   says that every declared constraint holds of the document (well-formed tags, dependency
   options respected, every field that is neither optional in its context nor defaulted is
   supplied, supplied numbers inside their range with open/closed ends, supplied optioned values
   among their options — recursively through nested structs, slices and maps).

   All theorems quantify over every unmarshaller configuration [cfg] (plain / string-valued /
   from-array / canonical keys), every struct type [fs] of the deep embedding (14 primitive kinds,
   pointers, slices, maps, nested structs, every combination of optional / optional=dep /
   optional=!dep / default / range / options / string on every field) and every document [d]
   (including the undecodable stream [None]).  The model speaks for go-zero on the fragment
   [fields_ok fs = true] (Model.v) and for decimal literals of at most 15 significant digits
   below 2^53, where exact and float64 comparison coincide; see notes/C08.md. *)
From Coq Require Import List ZArith Bool String Ascii.
From GZ Require Import C08.Model C08.Spec C08.Proofs C08.ProofsB.
From GZ Require Import C08.KModel C08.KSpec C08.KProofs C08.KProofsB C08.KProofsC C08.Rounding C08.Check C08.CheckProofs C08.TagModel C08.TagProofs C08.ReqModel C08.ReqProofs C08.SrcModel C08.SrcProofs.
From GZgen Require Import C08Consts.
Import ListNotations.
Open Scope Z_scope.
Open Scope string_scope.

(* acceptance is characterised exactly *)
Theorem accepts_iff_welltyped_and_constraints_met : forall cfg fs d v,
  unmarshal fixed cfg fs d = Ok v <-> decode cfg fs d = Some v /\ meets cfg fs d = true.
Proof. exact unmarshal_iff. Qed.
Print Assumptions accepts_iff_welltyped_and_constraints_met.

(* accepted input satisfies every declared constraint *)
Theorem accept_sound : forall cfg fs d v,
  unmarshal fixed cfg fs d = Ok v -> meets cfg fs d = true.
Proof. exact accept_sound_lemma. Qed.
Print Assumptions accept_sound.

(* ... and then the target holds exactly the supplied values, defaults for the absent ones *)
Theorem accept_exact : forall cfg fs d v,
  unmarshal fixed cfg fs d = Ok v -> decode cfg fs d = Some v.
Proof. exact accept_exact_lemma. Qed.
Print Assumptions accept_exact.

(* correctly typed input meeting all declared constraints is accepted *)
Theorem accept_complete : forall cfg fs d v,
  decode cfg fs d = Some v -> meets cfg fs d = true -> unmarshal fixed cfg fs d = Ok v.
Proof. exact accept_complete_lemma. Qed.
Print Assumptions accept_complete.

(* the "panic" observable is never produced *)
Theorem total : forall cfg fs d, unmarshal fixed cfg fs d <> Panic.
Proof. exact unmarshal_no_panic. Qed.
Print Assumptions total.

(* What [meets] says about one scalar field (possibly behind pointers) of the top-level struct,
   spelled out: whatever options the field itself or its siblings carry, *)

(* a field that is neither defaulted nor optional in the context of this document was supplied; *)
Theorem required_scalar_was_supplied : forall cfg fs obj v key o t k,
  unmarshal fixed cfg fs (Some (JObj obj)) = Ok v ->
  field_in key o t fs -> scalar_kind t = Some k ->
  opt_default o = None -> declared_optional o obj = false ->
  exists x, field_input cfg t key obj = Some x /\ x <> JNull.
Proof. exact required_supplied_lemma. Qed.
Print Assumptions required_scalar_was_supplied.

(* a supplied number lies inside the declared range, open / closed ends respected; *)
Theorem supplied_number_in_range : forall cfg fs obj v key o t k x r,
  unmarshal fixed cfg fs (Some (JObj obj)) = Ok v ->
  field_in key o t fs -> scalar_kind t = Some k ->
  field_input cfg t key obj = Some x -> x <> JNull -> opt_range o = Some r ->
  exists d, supplied_num (reads_strings cfg o) k x = Some (FDec d) /\
            match r_l r with None => True | Some l => if r_li r then dec_leb l d = true else dec_ltb l d = true end /\
            match r_r r with None => True | Some h => if r_ri r then dec_leb d h = true else dec_ltb d h = true end.
Proof. exact supplied_in_range_lemma. Qed.
Print Assumptions supplied_number_in_range.

(* a supplied value of a field with declared options is one of them. *)
Theorem supplied_value_among_options : forall cfg fs obj v key o t k x,
  unmarshal fixed cfg fs (Some (JObj obj)) = Ok v ->
  field_in key o t fs -> scalar_kind t = Some k ->
  field_input cfg t key obj = Some x -> x <> JNull -> opt_options o <> [] ->
  exists s, supplied_text x = Some s /\ In s (opt_options o).
Proof. exact supplied_in_options_lemma. Qed.
Print Assumptions supplied_value_among_options.

(* dependency options: "optional=b" both or neither, "optional=!b" exactly one *)
Theorem dependency_respected : forall cfg fs obj v key o t,
  unmarshal fixed cfg fs (Some (JObj obj)) = Ok v ->
  field_in key o t fs -> dep_respected key o obj = true.
Proof. exact dependency_respected_lemma. Qed.
Print Assumptions dependency_respected.

(* Requests served one after the other by the same process are independent: whatever came
   before (accepted, rejected for any reason) and whatever follows, request number |pre| gets
   the result of unmarshalling its own document, *)
Theorem requests_independent : forall pre r post,
  nth_error (run_requests fixed (pre ++ r :: post)) (List.length pre) = Some (serve fixed r).
Proof. exact requests_independent_lemma. Qed.
Print Assumptions requests_independent.

(* so every accepted request of a sequence meets its OWN constraints and holds the decoding of
   its OWN document — nothing of an earlier request appears — and no request panics. *)
Theorem sequence_each_sound_and_exact : forall rs i r v,
  nth_error rs i = Some r ->
  nth_error (run_requests fixed rs) i = Some (Ok v) ->
  decode (rq_cfg r) (rq_type r) (rq_doc r) = Some v /\ meets (rq_cfg r) (rq_type r) (rq_doc r) = true.
Proof. exact sequence_each_lemma. Qed.
Print Assumptions sequence_each_sound_and_exact.

Theorem sequence_total : forall rs i, nth_error (run_requests fixed rs) i <> Some Panic.
Proof. exact sequence_no_panic_lemma. Qed.
Print Assumptions sequence_total.

(* ---------------------------------------------------------------- non-vacuity *)

Definition jcfg : ucfg := mkCfg false false false.
Definition r15 : range := mkRange true (Some (mkDec 1 0)) (Some (mkDec 5 0)) false.   (* [1:5) *)

(* the F2 shape: range together with optional=dep *)
Definition ex_fs : fields :=
  FCons "a" (Some (mkOpts true (Some (false, "b")) None (Some r15) [] false)) (TPrim (KInt W0))
 (FCons "b" (Some (mkOpts true None None None [] false)) (TPrim (KInt W8))
 (FCons "c" (Some (mkOpts false None (Some "x") None ["x"; "y"] false)) (TPtr (TPrim KStr))
 (FCons "m" None (TMap (TSlice (TStruct (FCons "k" None (TPrim KF64) FNil)))) FNil))).

Definition ex_doc (a : string) : option jv :=
  Some (JObj [("a", JNum a); ("b", JNum "1");
              ("m", JObj [("p", JArr [JObj [("k", JNum "2.50")]; JNull])])]).

Example ex_accepts :
  unmarshal fixed jcfg ex_fs (ex_doc "4") =
  Ok (VStruct [VInt 4; VInt 1; VPtr (VStr "x");
               VMap [("p", VSlice [VStruct [VFloat (FDec (mkDec 250 (-2)))]; VStruct [VFloat (FDec (mkDec 0 0))]])]])
  /\ meets jcfg ex_fs (ex_doc "4") = true
  /\ fields_ok ex_fs = true.
Proof. vm_compute. repeat split. Qed.

(* right end open: 5 is outside [1:5) although the dependency made the field required *)
Example ex_rejects_open_end :
  unmarshal fixed jcfg ex_fs (ex_doc "5") = Err ERange /\ meets jcfg ex_fs (ex_doc "5") = false.
Proof. vm_compute. split; reflexivity. Qed.

(* hypotheses of the per-field theorems are satisfiable *)
Example ex_field : field_in "a" (Some (mkOpts true (Some (false, "b")) None (Some r15) [] false)) (TPrim (KInt W0)) ex_fs
  /\ declared_optional (Some (mkOpts true (Some (false, "b")) None (Some r15) [] false))
       [("a", JNum "4"); ("b", JNum "1")] = false.
Proof. split; [left; repeat split | vm_compute; reflexivity]. Qed.

(* completeness is not vacuous: decode and meets hold of a document that omits the optional pair *)
Example ex_complete :
  exists v, decode jcfg ex_fs (Some (JObj [("m", JObj [])])) = Some v /\
            meets jcfg ex_fs (Some (JObj [("m", JObj [])])) = true.
Proof. eexists. vm_compute. split; reflexivity. Qed.

(* anonymous (embedded) structs: members are read from the enclosing object; one tagged
   ",optional" is built only when some member is supplied, must then be fully set (every member
   supplied, defaulted or optional), and its absent defaulted members hold their defaults *)
Definition ex_embedded : fields :=
  FCons "z" (Some (mkOpts true None None None [] false)) (TPrim (KInt W0))
 (FEmbed true true
    (FCons "a" (Some (mkOpts false None None (Some r15) [] false)) (TPrim (KInt W0))
    (FCons "b" (Some (mkOpts false None (Some "5") None ["5"; "6"] false)) (TPrim (KInt W0))
    (FCons "c" (Some (mkOpts true None (Some "7") None [] false)) (TPrim (KInt W8)) FNil)))
 (FEmbed false false (FCons "q" None (TPrim KStr) FNil) FNil)).

Example ex_embedded_cases :
  unmarshal fixed jcfg ex_embedded (Some (JObj [("q", JStr "s")])) = Ok (VStruct [VInt 0; VNil; VStruct [VStr "s"]])
  /\ unmarshal fixed jcfg ex_embedded (Some (JObj [("q", JStr "s"); ("a", JNum "2")])) =
     Ok (VStruct [VInt 0; VPtr (VStruct [VInt 2; VInt 5; VInt 7]); VStruct [VStr "s"]])
  /\ unmarshal fixed jcfg ex_embedded (Some (JObj [("q", JStr "s"); ("c", JNum "1")])) = Err ENotSet
  /\ unmarshal fixed jcfg ex_embedded (Some (JObj [("q", JStr "s"); ("a", JNum "9")])) = Err ERange
  /\ meets jcfg ex_embedded (Some (JObj [("q", JStr "s"); ("c", JNum "1")])) = false
  /\ fields_ok ex_embedded = true.
Proof. vm_compute. repeat split. Qed.

(* a rejected request carrying b, c and m followed by one that omits them: the second is decided
   on its own document (c takes its default, nothing of the first request appears) *)
Example ex_sequence :
  run_requests fixed [mkReq jcfg ex_fs (ex_doc "100"); mkReq jcfg ex_fs (Some (JObj [("m", JObj [])]))] =
  [Err ERange; Ok (VStruct [VInt 0; VInt 0; VPtr (VStr "x"); VMap []])].
Proof. vm_compute. reflexivity. Qed.

(* ================================================================== key look-up semantics

   Everything above reads a field with the key as one name.  go-zero has two meanings for a key
   text: the parameter of that name (opaque keys: form and path parameters) and the member at the
   end of the dotted path (chained keys: json / yaml / toml bodies, conf, UnmarshalKey, headers).
   KModel.v carries the meaning in the unmarshaller's configuration ([kcfg], a segmenter);
   [decodeK] / [meetsK] are the vocabulary above with "supplied" read through [getv].

   The theorems quantify over every [kc : kcfg] — every unmarshaller configuration AND every
   segmenter, so in particular over the four unmarshallers of rest/httpx and mapping
   ([kc_json], [kc_header], [kc_form], [kc_path]) — every struct type of the deep embedding
   (embedded structs, maps, slices, pointers, nested structs) and every document. *)

Theorem keyed_accepts_iff_welltyped_and_constraints_met : forall kc fs d v,
  unmarshalK kc fs d = Ok v <-> decodeK kc fs d = Some v /\ meetsK kc fs d = true.
Proof. exact unmarshalK_iff. Qed.
Print Assumptions keyed_accepts_iff_welltyped_and_constraints_met.

Theorem keyed_accept_sound : forall kc fs d v,
  unmarshalK kc fs d = Ok v -> meetsK kc fs d = true.
Proof. exact acceptK_sound_lemma. Qed.
Print Assumptions keyed_accept_sound.

Theorem keyed_accept_exact : forall kc fs d v,
  unmarshalK kc fs d = Ok v -> decodeK kc fs d = Some v.
Proof. exact acceptK_exact_lemma. Qed.
Print Assumptions keyed_accept_exact.

Theorem keyed_accept_complete : forall kc fs d v,
  decodeK kc fs d = Some v -> meetsK kc fs d = true -> unmarshalK kc fs d = Ok v.
Proof. exact acceptK_complete_lemma. Qed.
Print Assumptions keyed_accept_complete.

Theorem keyed_total : forall kc fs d, unmarshalK kc fs d <> Panic.
Proof. exact unmarshalK_no_panic. Qed.
Print Assumptions keyed_total.

(* what "supplied" means per kind *)

(* opaque keys: the entry of that name, whatever characters the key contains *)
Theorem opaque_key_is_the_parameter_name : forall cfg env key o,
  getv (mkK cfg seg_opaque) env key o = lookup key o.
Proof. exact getv_opaque. Qed.
Print Assumptions opaque_key_is_the_parameter_name.

(* chained keys: a non-empty key without a dot is one segment, so it is the entry of that name too *)
Theorem simple_key_is_one_segment : forall key,
  no_dot key = true -> String.eqb key "" = false -> seg_dotted key = [key].
Proof. exact seg_dotted_simple. Qed.
Print Assumptions simple_key_is_one_segment.

(* chained keys, two segments: the member of the nested object *)
Theorem chained_key_is_the_nested_member : forall kc env key k0 k1 o vm v,
  k_seg kc key = [k0; k1] -> lookup k0 o = Some (JObj vm) -> lookup k1 vm = Some v ->
  (forall m, v <> JObj m) -> getv kc env key o = Some v.
Proof. exact getv_nested. Qed.
Print Assumptions chained_key_is_the_nested_member.

(* ... and never an entry whose name is the whole dotted text when the first segment is absent *)
Theorem chained_key_needs_its_first_segment : forall kc env key k0 ks o,
  k_seg kc key = k0 :: ks -> lookup k0 o = None -> getv kc env key o = None.
Proof. exact getv_first_segment_absent. Qed.
Print Assumptions chained_key_needs_its_first_segment.

(* on keys that are their own single segment (and not "-"), without defaults on slice fields, and on
   documents none of whose strings spells a JSON array or null (KModel.v reads such a string given
   to a slice field, Model.v refuses it) this is the unmarshaller of Model.v, about which the theorems
   of the first part (and C17) speak *)
Theorem keyed_model_extends_plain_model : forall kc fs d,
  plain_fields kc fs = true -> match d with Some v => doc_inert v | None => true end = true ->
  unmarshalK kc fs d = unmarshal fixed (k_cfg kc) fs d.
Proof. exact unmarshalK_plain. Qed.
Print Assumptions keyed_model_extends_plain_model.

(* one field, at ANY depth: [reach kc [] fs ob env' fs' ob'] = the struct object ob' of type fs' is
   reached from the top-level object through supplied struct-typed fields, struct elements of
   supplied slices and struct values of supplied maps (behind any pointers) *)

Theorem every_field_everywhere_meets_its_constraints : forall kc fs ob v env' fs' ob' key o t,
  unmarshalK kc fs (Some (JObj ob)) = Ok v ->
  reach kc [] fs ob env' fs' ob' -> field_in key o t fs' ->
  field_condK kc env' key o t ob' = true.
Proof. exact field_everywhere_lemma. Qed.
Print Assumptions every_field_everywhere_meets_its_constraints.

Theorem keyed_required_scalar_was_supplied : forall kc fs ob v env' fs' ob' key o t k,
  unmarshalK kc fs (Some (JObj ob)) = Ok v ->
  reach kc [] fs ob env' fs' ob' -> field_in key o t fs' -> ignored key = false ->
  scalar_kind t = Some k -> opt_default o = None -> declared_optional o ob' = false ->
  exists x, field_inputK kc env' t key ob' = Some x /\ x <> JNull.
Proof. exact requiredK_supplied_lemma. Qed.
Print Assumptions keyed_required_scalar_was_supplied.

Theorem keyed_supplied_number_in_range : forall kc fs ob v env' fs' ob' key o t k x r,
  unmarshalK kc fs (Some (JObj ob)) = Ok v ->
  reach kc [] fs ob env' fs' ob' -> field_in key o t fs' -> ignored key = false ->
  scalar_kind t = Some k ->
  field_inputK kc env' t key ob' = Some x -> x <> JNull -> opt_range o = Some r ->
  exists d, supplied_num (reads_strings (k_cfg kc) o) k x = Some (FDec d) /\
            match r_l r with None => True | Some l => if r_li r then dec_leb l d = true else dec_ltb l d = true end /\
            match r_r r with None => True | Some h => if r_ri r then dec_leb d h = true else dec_ltb d h = true end.
Proof. exact suppliedK_in_range_lemma. Qed.
Print Assumptions keyed_supplied_number_in_range.

Theorem keyed_supplied_value_among_options : forall kc fs ob v env' fs' ob' key o t k x,
  unmarshalK kc fs (Some (JObj ob)) = Ok v ->
  reach kc [] fs ob env' fs' ob' -> field_in key o t fs' -> ignored key = false ->
  scalar_kind t = Some k ->
  field_inputK kc env' t key ob' = Some x -> x <> JNull -> opt_options o <> [] ->
  exists s, supplied_text x = Some s /\ In s (opt_options o).
Proof. exact suppliedK_in_options_lemma. Qed.
Print Assumptions keyed_supplied_value_among_options.

Theorem keyed_dependency_respected : forall kc fs ob v env' fs' ob' key o t,
  unmarshalK kc fs (Some (JObj ob)) = Ok v ->
  reach kc [] fs ob env' fs' ob' -> field_in key o t fs' -> dep_respected key o ob' = true.
Proof. exact dependencyK_respected_lemma. Qed.
Print Assumptions keyed_dependency_respected.

(* "lies inside its declared range": bound and value are decimal texts, [in_range] compares them
   exactly.  go-zero compares roundings (float64 of both).  For ANY rounding that is monotone and
   applied to value and bounds alike this is the same judgement, except at a near tie (two different
   numbers with one rounding); a value that is the bound (in any spelling) is never a near tie. *)

Theorem rounded_range_agrees : forall rnd,
  (forall a b, dec_leb a b = true -> dec_leb (rnd a) (rnd b) = true) ->
  forall r d, no_near_tie rnd r d = true -> in_range (round_range rnd r) (rnd d) = in_range r d.
Proof. exact rounded_range_agrees_lemma. Qed.
Print Assumptions rounded_range_agrees.

Theorem same_number_has_same_rounding : forall rnd,
  (forall a b, dec_leb a b = true -> dec_leb (rnd a) (rnd b) = true) ->
  forall d x, dec_eqb d x = true -> dec_eqb (rnd d) (rnd x) = true.
Proof. exact same_number_same_rounding. Qed.
Print Assumptions same_number_has_same_rounding.

Theorem value_equal_to_bound_is_no_near_tie : forall rnd a b, dec_eqb a b = true -> near_tie rnd a b = false.
Proof. exact equal_is_no_near_tie. Qed.
Print Assumptions value_equal_to_bound_is_no_near_tie.

(* the hypotheses are satisfiable: the identity is a monotone rounding without near ties *)
Example ex_identity_rounding :
  (forall a b, dec_leb a b = true -> dec_leb ((fun d => d) a) ((fun d => d) b) = true) /\
  no_near_tie (fun d => d) (mkRange false (Some (mkDec 3 (-1))) (Some (mkDec 1 0)) true) (mkDec 30 (-2)) = true /\
  in_range (mkRange false (Some (mkDec 3 (-1))) (Some (mkDec 1 0)) true) (mkDec 30 (-2)) = false.
Proof. split; [intros a b H; exact H | vm_compute; split; reflexivity]. Qed.

(* calls: one entry point = its passes in order (httpx.Parse: path, form, header, json body),
   then the request validator *)

Theorem call_accepted_iff_every_pass_fine_and_validator_agrees : forall c vs,
  serve_call c = CAccepted vs <-> Forall2 pass_ok (c_passes c) vs /\ c_validator c <> Some false.
Proof. exact call_accepted_iff. Qed.
Print Assumptions call_accepted_iff_every_pass_fine_and_validator_agrees.

Theorem call_rejected_by_a_pass_iff_some_pass_not_fine : forall c,
  serve_call c = CRejected false <-> ~ exists vs, Forall2 pass_ok (c_passes c) vs.
Proof. exact call_rejected_iff. Qed.
Print Assumptions call_rejected_by_a_pass_iff_some_pass_not_fine.

Theorem validator_decides_only_about_valid_input : forall c,
  serve_call c = CRejected true -> c_validator c = Some false /\ exists vs, Forall2 pass_ok (c_passes c) vs.
Proof. exact validator_last_word. Qed.
Print Assumptions validator_decides_only_about_valid_input.

Theorem call_total : forall c, serve_call c <> CPanic.
Proof. exact call_no_panic. Qed.
Print Assumptions call_total.

(* one process, calls of any kinds in any order: call number |pre| returns what it returns alone *)
Theorem calls_independent : forall pre c post,
  nth_error (run_calls (pre ++ c :: post)) (List.length pre) = Some (serve_call c).
Proof. exact calls_independent_lemma. Qed.
Print Assumptions calls_independent.

Theorem calls_each_sound_and_exact : forall cs i c vs,
  nth_error cs i = Some c -> nth_error (run_calls cs) i = Some (CAccepted vs) ->
  Forall2 pass_ok (c_passes c) vs /\ c_validator c <> Some false.
Proof. exact calls_each_lemma. Qed.
Print Assumptions calls_each_sound_and_exact.

Theorem calls_total : forall cs i, nth_error (run_calls cs) i <> Some CPanic.
Proof. exact calls_no_panic_lemma. Qed.
Print Assumptions calls_total.

(* the same call at position i of one history and position j of another returns the same *)
Theorem calls_order_irrelevant : forall cs cs' i j c,
  nth_error cs i = Some c -> nth_error cs' j = Some c ->
  nth_error (run_calls cs) i = nth_error (run_calls cs') j.
Proof. exact calls_order_irrelevant_lemma. Qed.
Print Assumptions calls_order_irrelevant.

(* the judgement of Check.v ([prop_ok]: the property evaluated on what the implementation returned)
   never reports an implementation that behaves like the model ([agrees]): the property oracle is
   consistent with the model's calls, a VIOLATION always is a difference from the model *)
Theorem check_never_reports_the_model : forall cs, agrees cs = true -> prop_ok cs = true.
Proof. exact agrees_implies_prop_ok_case. Qed.
Print Assumptions check_never_reports_the_model.

(* the tag grammar (TagModel.v: parseSegments, parseOption, parseProperty, parseOptions,
   parseNumberRange): whatever the text of a tag, if it is accepted its option set is well formed —
   in particular its range has a bound and is not empty — and a refused tag can only be claimed (by the
   generator, checked on every case) as an option set the unmarshaller refuses as well *)
Theorem accepted_tag_is_wellformed : forall raw k o, parse_tag raw = TagOk k o -> opts_ok o = true.
Proof. exact parse_tag_wellformed_lemma. Qed.
Print Assumptions accepted_tag_is_wellformed.

Theorem refused_tag_is_claimed_as_refused : forall raw key o,
  parse_tag raw = TagErr -> claim_ok raw key o = true -> opts_ok o = false.
Proof. exact claim_of_refused_tag_lemma. Qed.
Print Assumptions refused_tag_is_claimed_as_refused.

Example ex_tag_grammar :
  parse_tag "a, optional=!b , range=(1:5], options=[x\,y,z],string" =
    TagOk "a" (Some (mkOpts true (Some (true, "b")) None (Some (mkRange false (Some (mkDec 1 0)) (Some (mkDec 5 0)) true)) ["x,y"; "z"] true))
  /\ parse_tag "a,range=[5:1]" = TagErr /\ parse_tag "a,range=(2:2]" = TagErr /\ parse_tag "a,default=x=y" = TagErr
  /\ parse_tag "a,omitempty" = TagOk "a" (Some (mkOpts false None None None [] false))
  /\ parse_tag "a,options=x|y,options=" = TagOk "a" (Some (mkOpts false None None None [] false))
  /\ parse_tag ",optionalx" = TagOk "" (Some (mkOpts true None None None [] false)).
Proof. vm_compute. repeat split. Qed.

(* ---------------------------------------------------------------- non-vacuity (keys) *)

Definition r100 : range := mkRange true (Some (mkDec 1 0)) (Some (mkDec 100 0)) true.   (* [1:100] *)
Definition ex_dotted : fields :=
  FCons "page.size" (Some (mkOpts true None None (Some r100) [] false)) (TPrim (KInt W0))
 (FCons "s" None (TStruct (FCons "lim.max" (Some (mkOpts false None None (Some r100) [] false)) (TPrim (KInt W0)) FNil)) FNil).

(* the two meanings of one key text differ *)
Example ex_two_meanings :
  (* json: the nested member, the literal entry is not looked at *)
  unmarshalK kc_json ex_dotted (Some (JObj [("page", JObj [("size", JNum "10")]); ("page.size", JNum "1000");
                                            ("s", JObj [("lim", JObj [("max", JNum "7")])])]))
    = Ok (VStruct [VInt 10; VStruct [VInt 7]])
  /\ unmarshalK kc_json ex_dotted (Some (JObj [("page", JObj [("size", JNum "1000")]);
                                               ("s", JObj [("lim", JObj [("max", JNum "7")])])])) = Err ERange
  (* a further segment missing in the nested object is taken from an enclosing one: max sits in s, not in lim *)
  /\ unmarshalK kc_json ex_dotted (Some (JObj [("s", JObj [("lim", JObj []); ("max", JNum "8")])]))
    = Ok (VStruct [VInt 0; VStruct [VInt 8]])
  (* ... even from the object of the enclosing struct field *)
  /\ unmarshalK kc_json ex_dotted (Some (JObj [("s", JObj [("lim", JObj [])]); ("max", JNum "1000")])) = Err ERange
  (* form: the parameter of that name; the range is enforced on it *)
  /\ unmarshalK kc_form (FCons "page.size" (Some (mkOpts true None None (Some r100) [] false)) (TPrim (KInt W0)) FNil)
                 (Some (JObj [("page.size", JArr [JStr "1000"])])) = Err ERange
  /\ unmarshalK kc_form (FCons "page.size" (Some (mkOpts true None None (Some r100) [] false)) (TPrim (KInt W0)) FNil)
                 (Some (JObj [("page.size", JArr [JStr "10"])])) = Ok (VStruct [VInt 10])
  /\ fields_okK ex_dotted = true.
Proof. vm_compute. repeat split. Qed.

(* the hypotheses of the any-depth theorems are satisfiable: lim.max of the struct under s *)
Example ex_reach :
  let ob := [("s", JObj [("lim", JObj [("max", JNum "7")])])] in
  reach kc_json [] ex_dotted ob [ob] (FCons "lim.max" (Some (mkOpts false None None (Some r100) [] false)) (TPrim (KInt W0)) FNil)
        [("lim", JObj [("max", JNum "7")])].
Proof.
  intro ob.
  eapply (reach_field kc_json [] ex_dotted ob "s" None _ (JObj [("lim", JObj [("max", JNum "7")])])).
  - right. left. repeat split.
  - reflexivity.
  - reflexivity.
  - apply in_struct.
  - apply reach_here.
Qed.

(* httpx.Parse: four passes over one struct, then the validator *)
Definition ex_parse (size : string) (validator : option bool) : call :=
  mkCall [mkPass kc_path (FCons "id" None (TPrim (KUint W32)) FNil) (Some (JObj [("id", JStr "7")]));
          mkPass kc_form (FCons "q" (Some (mkOpts true None (Some "x") None ["x"; "y"] false)) (TPrim KStr) FNil) (Some (JObj []));
          mkPass kc_header (FCons "X-Trace" (Some (mkOpts true None None None [] false)) (TPrim KStr) FNil)
                 (Some (JObj [("X-Trace", JStr "t1")]));
          mkPass kc_json (FCons "page.size" (Some (mkOpts true None None (Some r100) [] false)) (TPrim (KInt W0)) FNil)
                 (Some (JObj [("page", JObj [("size", JNum size)])]))]
         validator.

Example ex_parse_cases :
  serve_call (ex_parse "10" None) = CAccepted [VStruct [VInt 7]; VStruct [VStr "x"]; VStruct [VStr "t1"]; VStruct [VInt 10]]
  /\ serve_call (ex_parse "1000" (Some true)) = CRejected false
  /\ serve_call (ex_parse "10" (Some false)) = CRejected true
  /\ run_calls [ex_parse "1000" None; ex_parse "10" (Some true)] =
     [CRejected false; CAccepted [VStruct [VInt 7]; VStruct [VStr "x"]; VStruct [VStr "t1"]; VStruct [VInt 10]]].
Proof. vm_compute. repeat split. Qed.

(* ---------------------------------------------------------------- one request, looked at several times

   ReqModel.v: the request object of the caller (path variables, r.Form, r.Header, the decoded body)
   and what each REST entry point makes of it.  "Supplied" for a form parameter: GetFormValues hands
   the unmarshaller exactly the non-empty values of the parameter, in the order sent — an empty value
   in front of, between or behind them changes nothing — and a parameter without one is absent. *)

Theorem empty_form_values_are_ignored_in_every_position : forall a b, kept (a ++ "" :: b) = kept (a ++ b).
Proof. exact kept_ignores_empty. Qed.
Print Assumptions empty_form_values_are_ignored_in_every_position.

Theorem kept_values_are_the_nonempty_ones : forall v vs, In v (kept vs) <-> In v vs /\ v <> "".
Proof. exact kept_in. Qed.
Print Assumptions kept_values_are_the_nonempty_ones.

Theorem form_parameter_supplied_iff_it_has_a_value : forall max cfg env f name vs,
  total_kept f <= max -> NoDup (stripped_names f) -> In (name, vs) f ->
  exists o, form_values max f = Some (JObj o) /\
            getv (mkK cfg seg_opaque) env (strip_suffix name) o =
            match kept vs with [] => None | ks => Some (JArr (map JStr ks)) end.
Proof. exact form_field_supplied. Qed.
Print Assumptions form_parameter_supplied_iff_it_has_a_value.

Theorem form_values_holds_nothing_else : forall f k v,
  In (k, v) (params_of f) ->
  exists name vs, In (name, vs) f /\ k = strip_suffix name /\ kept vs <> [] /\ v = JArr (map JStr (kept vs)).
Proof. exact params_only. Qed.
Print Assumptions form_values_holds_nothing_else.

Theorem too_many_form_values_iff : forall max f, form_values max f = None <-> total_kept f > max.
Proof. exact form_values_refuses_iff. Qed.
Print Assumptions too_many_form_values_iff.

(* any number of looks at ONE request, through any entry points, in any order, with any target
   types: the request is left as it was, and every look returns what its entry point returns on
   that request alone — the k-th parse of a request is its first parse *)
Theorem looks_at_one_request_are_independent : forall max r ls,
  serve_shared max touch_head r ls = (r, map (fun l => serve_call (call_on max r l)) ls).
Proof. exact serve_shared_head. Qed.
Print Assumptions looks_at_one_request_are_independent.

Theorem look_served_as_if_alone : forall max r pre l post,
  nth_error (snd (serve_shared max touch_head r (pre ++ l :: post))) (List.length pre) =
  Some (serve_call (call_on max r l)).
Proof. exact shared_look_alone. Qed.
Print Assumptions look_served_as_if_alone.

Theorem every_look_sound_and_exact : forall max r ls i l vs,
  nth_error ls i = Some l ->
  nth_error (snd (serve_shared max touch_head r ls)) i = Some (CAccepted vs) ->
  Forall2 pass_ok (c_passes (call_on max r l)) vs /\ c_validator (call_on max r l) <> Some false.
Proof. exact shared_each_sound_exact. Qed.
Print Assumptions every_look_sound_and_exact.

Theorem same_look_same_result : forall max r ls i j l,
  nth_error ls i = Some l -> nth_error ls j = Some l ->
  nth_error (snd (serve_shared max touch_head r ls)) i = nth_error (snd (serve_shared max touch_head r ls)) j.
Proof. exact shared_same_look_same_result. Qed.
Print Assumptions same_look_same_result.

Theorem looks_total : forall max r ls i, nth_error (snd (serve_shared max touch_head r ls)) i <> Some CPanic.
Proof. exact shared_no_panic. Qed.
Print Assumptions looks_total.

(* the tie: a checked case that agrees with the model carries, for every form pass, the document
   [form_values] makes of the parameters that were sent (maxFormParamCount re-read from the source) *)
Theorem agreed_form_documents_are_get_form_values : forall cs c f d,
  agrees cs = true -> In c cs -> In (f, d) (oc_forms c) -> form_values gen_max_form_values f = d.
Proof. exact agreed_forms_case. Qed.
Print Assumptions agreed_form_documents_are_get_form_values.

(* non-vacuity: ?ids=&ids=2&ids=3&tags[]=&tags[]=x&n= looked at by a validator's ParseForm and the handler's Parse *)
Definition ex_views : views :=
  mkViews (FCons "id" None (TPrim (KInt W0)) FNil)
          (FCons "ids" None (TSlice (TPrim (KInt W0)))
            (FCons "tags" (Some (mkOpts true None None None [] false)) (TSlice (TPrim KStr))
              (FCons "n" (Some (mkOpts true None None (Some r100) [] false)) (TPrim (KInt W0)) FNil)))
          FNil FNil.
Definition ex_request : hrequest :=
  mkHReq [("id", "5")] [("ids", [""; "2"; "3"]); ("tags[]", [""; "x"]); ("n", [""])] [] (Some (JObj [])).

Example ex_looks :
  form_values 2048 (hr_form ex_request) = Some (JObj [("ids", JArr [JStr "2"; JStr "3"]); ("tags", JArr [JStr "x"])])
  /\ NoDup (stripped_names (hr_form ex_request)) /\ total_kept (hr_form ex_request) <= 2048
  /\ serve_shared 2048 touch_head ex_request [mkLook EParseForm ex_views; mkLook (EParse (Some true)) ex_views; mkLook EGetFormValues ex_views] =
     (ex_request,
      [CAccepted [VStruct [VSlice [VInt 2; VInt 3]; VSlice [VStr "x"]; VInt 0]];
       CAccepted [VStruct [VInt 5]; VStruct [VSlice [VInt 2; VInt 3]; VSlice [VStr "x"]; VInt 0]; VStruct []; VStruct []];
       CAccepted [VStruct [VSlice [VInt 2; VInt 3]; VSlice [VStr "x"]; VInt 0]]]).
Proof.
  split; [vm_compute; reflexivity|]. split.
  - repeat constructor; simpl; intuition discriminate.
  - split; vm_compute; [discriminate | reflexivity].
Qed.

(* ---------------------------------------------------------------- which sources httpx.Parse consults

   SrcModel.v.  go-zero's Parse runs the path, form and header passes whatever the request type.
   A Parse that skips sources is the same function exactly when every source with a member to
   read is consulted: a view without members ([no_members]: no field, or embedded structs by value
   without one) accepts every parameter map and leaves its fields zero; a form that is not looked
   at must be one that GetFormValues would have let through. *)
Theorem parse_reads_every_source_with_a_tagged_member : forall max c r vw vd,
  (c_path c = false -> no_members (v_path vw) = true) ->
  (c_form c = false -> no_members (v_form vw) = true /\ total_kept (hr_form r) <= max) ->
  (c_header c = false -> no_members (v_header vw) = true) ->
  serve_skipping max c r vw vd = serve_call (call_on max r (mkLook (EParse vd) vw)).
Proof. exact skipping_sound. Qed.
Print Assumptions parse_reads_every_source_with_a_tagged_member.

Theorem parse_consulting_every_source_is_parse : forall max r vw vd,
  serve_skipping max all_sources r vw vd = serve_call (call_on max r (mkLook (EParse vd) vw)).
Proof. exact serve_all_sources. Qed.
Print Assumptions parse_consulting_every_source_is_parse.

Theorem memberless_view_accepts_and_stores_nothing : forall kc fs o,
  no_members fs = true -> unmarshalK kc fs (Some (JObj o)) = Ok (VStruct (zero_fields fs)).
Proof. exact empty_view_pass. Qed.
Print Assumptions memberless_view_accepts_and_stores_nothing.

(* what a scan of the declared type may rely on: IsExported-first finds nothing the unmarshaller
   does not read, and everything it reads when no embedded struct has an unexported type name
   (PinnedK.exported_first_scan_refuted: not otherwise) *)
Theorem exported_first_scan_finds_no_more : forall k d, scan_exported_first k d = true -> reads k d = true.
Proof. exact scan_finds_no_more. Qed.
Print Assumptions exported_first_scan_finds_no_more.

Theorem exported_first_scan_complete_for_exported_names : forall k d,
  names_exported d = true -> scan_exported_first k d = reads k d.
Proof. exact scan_complete_when_names_exported. Qed.
Print Assumptions exported_first_scan_complete_for_exported_names.

Example ex_skipping :
  let vw := mkViews (FEmbed false false FNil FNil) (FEmbed false false FNil FNil) FNil
                    (FCons "filter" (Some (mkOpts true None None None [] false)) (TPrim KStr) FNil) in
  no_members (v_path vw) = true /\ no_members (v_form vw) = true /\ no_members (v_header vw) = true /\
  serve_skipping 2048 (mkConsulted false false false) (mkHReq [("id", "5")] [("page", ["2"])] [] (Some (JObj [("filter", JStr "q")]))) vw None =
    CAccepted [VStruct [VStruct []]; VStruct [VStruct []]; VStruct []; VStruct [VStr "q"]].
Proof. vm_compute. repeat split. Qed.
