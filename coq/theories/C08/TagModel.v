(* C08 — the tag grammar of go-zero (core/mapping/utils.go doParseKeyAndOptions, parseSegments,
   parseOption, parseProperty, parseOptions, parseNumberRange) as an executable function from the
   TEXT of a tag value to the key and option set the unmarshaller model works with.  No proofs here.

   Check.v uses it to check every tag text the generator writes against the structured options
   the generator claims for it; the correspondence run ties it to go-zero through behaviour.

   Outside the fragment ([TagUnsupported]): the options inherit and env=, range bounds that are
   NaN / infinite (strconv.ParseFloat accepts them; hexadecimal and '_' spellings are not
   recognised by the number reader of Model.v and count as malformed here — never generated). *)
From Coq Require Import List ZArith Bool String Ascii.
From GZ Require Import C08.Model C08.KModel.
Import ListNotations.
Open Scope Z_scope.

Inductive tag_result :=
| TagOk (key : string) (o : option fopts)
| TagErr                      (* go-zero refuses the tag: every unmarshal of the struct fails *)
| TagUnsupported.

Definition trim (s : string) : string := string_of_list_ascii (trim_l (list_ascii_of_string s)).

(* strings.Split(s, sep) for a one-character separator *)
Fixpoint split_go (c : N) (l : list ascii) (buf : list ascii) : list string :=
  match l with
  | [] => [string_of_list_ascii (rev buf)]
  | x :: r => if ch x c then string_of_list_ascii (rev buf) :: split_go c r [] else split_go c r (x :: buf)
  end.
Definition split_char (c : N) (s : string) : list string := split_go c (list_ascii_of_string s) [].

Definition has_prefix (p s : string) : bool := String.prefix p s.

(* parseProperty: exactly one '=', the value trimmed *)
Definition property (opt : string) : option string :=
  match split_char 61 opt with
  | [_; v] => Some (trim v)
  | _ => None
  end.

(* parseOptions *)
Definition options_of (val : string) : list string :=
  match val with
  | EmptyString => []
  | String c _ => if ch c 91 then grouped_segments val else split_char 124 val
  end.

Inductive bound := BNone | BDec (d : dec) | BBad | BOdd.

Definition bound_of (s : string) : bound :=
  match s with
  | EmptyString => BNone
  | _ => match parse_float false s with
         | Some (FDec d) => BDec d
         | Some _ => BOdd                 (* NaN, +-Inf *)
         | None => BBad
         end
  end.

Inductive range_result := ROk (r : range) | RErr | ROdd.

Definition last_and_init (l : list ascii) : option (ascii * list ascii) :=
  match rev l with c :: r => Some (c, rev r) | [] => None end.

(* parseNumberRange *)
Definition range_of (str : string) : range_result :=
  match list_ascii_of_string str with
  | [] => RErr
  | c0 :: rest =>
    if negb (ch c0 91 || ch c0 40) then RErr else
    match last_and_init rest with
    | None => RErr
    | Some (cl, mid) =>
      if negb (ch cl 93 || ch cl 41) then RErr else
      match split_go 58 mid [] with
      | [f0; f1] =>
        match bound_of f0, bound_of f1 with
        | BNone, BNone => RErr
        | BBad, _ | _, BBad => RErr
        | BOdd, _ | _, BOdd => ROdd
        | b0, b1 =>
          let r := mkRange (ch c0 91) (match b0 with BDec d => Some d | _ => None end)
                           (match b1 with BDec d => Some d | _ => None end) (ch cl 93) in
          if range_valid r then ROk r else RErr
        end
      | _ => RErr
      end
    end
  end.

Record acc := mkAcc { a_opt : bool; a_dep : option (bool * string); a_def : option string;
                      a_range : option range; a_options : list string; a_str : bool }.

Definition dep_of (d : string) : option (bool * string) :=
  match d with
  | EmptyString => None
  | String c r => if ch c 33 then Some (true, r) else Some (false, d)
  end.

Inductive step_result := SOk (a : acc) | SErr | SOdd.

(* parseOption on one trimmed segment; later options overwrite earlier ones *)
Definition option_step (a : acc) (opt : string) : step_result :=
  if String.eqb opt "inherit" then SOdd
  else if String.eqb opt "string" then SOk (mkAcc (a_opt a) (a_dep a) (a_def a) (a_range a) (a_options a) true)
  else if has_prefix "optional" opt then
    match split_char 61 opt with
    | [_] => SOk (mkAcc true (a_dep a) (a_def a) (a_range a) (a_options a) (a_str a))
    | [_; d] => SOk (mkAcc true (dep_of d) (a_def a) (a_range a) (a_options a) (a_str a))
    | _ => SErr
    end
  else if has_prefix "options" opt then
    match property opt with
    | Some v => SOk (mkAcc (a_opt a) (a_dep a) (a_def a) (a_range a) (options_of v) (a_str a))
    | None => SErr
    end
  else if has_prefix "default" opt then
    match property opt with
    | Some v => SOk (mkAcc (a_opt a) (a_dep a) (match v with EmptyString => None | _ => Some v end)
                           (a_range a) (a_options a) (a_str a))
    | None => SErr
    end
  else if has_prefix "env" opt then (match property opt with Some _ => SOdd | None => SErr end)
  else if has_prefix "range" opt then
    match property opt with
    | Some v => match range_of v with
                | ROk r => SOk (mkAcc (a_opt a) (a_dep a) (a_def a) (Some r) (a_options a) (a_str a))
                | RErr => SErr
                | ROdd => SOdd
                end
    | None => SErr
    end
  else SOk a.

Fixpoint options_go (a : acc) (l : list string) : step_result :=
  match l with
  | [] => SOk a
  | o :: r => match option_step a (trim o) with
              | SOk a' => options_go a' r
              | e => e
              end
  end.

(* doParseKeyAndOptions on the (trimmed, non-empty) tag value *)
Definition parse_tag (value : string) : tag_result :=
  match segs_go (list_ascii_of_string (trim value)) false false [] [] with
  | [] => TagErr                                   (* nothing but an escape character (repaired: used to panic) *)
  | k :: opts =>
    match opts with
    | [] => TagOk (trim k) None
    | _ =>
      match options_go (mkAcc false None None None [] false) opts with
      | SOk a => TagOk (trim k) (Some (mkOpts (a_opt a) (a_dep a) (a_def a) (a_range a) (a_options a) (a_str a)))
      | SErr => TagErr
      | SOdd => TagUnsupported
      end
    end
  end.

(* ---- comparing with the options a generator claims ---- *)

Definition odec_eqb (a b : option dec) : bool :=
  match a, b with Some x, Some y => dec_eqb x y | None, None => true | _, _ => false end.
Definition range_eqb (a b : range) : bool :=
  Bool.eqb (r_li a) (r_li b) && odec_eqb (r_l a) (r_l b) && odec_eqb (r_r a) (r_r b) && Bool.eqb (r_ri a) (r_ri b).
Fixpoint strs_eqb (a b : list string) : bool :=
  match a, b with
  | [], [] => true
  | x :: a', y :: b' => String.eqb x y && strs_eqb a' b'
  | _, _ => false
  end.
Definition ostr_eqb (a b : option string) : bool :=
  match a, b with Some x, Some y => String.eqb x y | None, None => true | _, _ => false end.
Definition dep_eqb (a b : option (bool * string)) : bool :=
  match a, b with
  | Some (n1, d1), Some (n2, d2) => Bool.eqb n1 n2 && String.eqb d1 d2
  | None, None => true
  | _, _ => false
  end.
Definition fopts_eqb (a b : fopts) : bool :=
  Bool.eqb (o_optional a) (o_optional b) && dep_eqb (o_dep a) (o_dep b) && ostr_eqb (o_default a) (o_default b) &&
  match o_range a, o_range b with Some x, Some y => range_eqb x y | None, None => true | _, _ => false end &&
  strs_eqb (o_options a) (o_options b) && Bool.eqb (o_string a) (o_string b).

(* the tag text [raw] stands for key [key] and options [o]; a refused tag is claimed as an option
   set that [opts_ok] refuses *)
Definition claim_ok (raw key : string) (o : option fopts) : bool :=
  match parse_tag raw with
  | TagOk k o' =>
    String.eqb k key &&
    match o, o' with
    | Some a, Some b => fopts_eqb a b
    | None, None => true
    | _, _ => false
    end
  | TagErr => negb (opts_ok o)
  | TagUnsupported => false
  end.
