(* C08 — obligations about the constants and constructions regenerated from the Go sources on
   every run (coq/gen/C08Consts.v, tools/c08consts.py).  A changed constant breaks one of these
   instead of passing silently: the model's key semantics per unmarshaller kind, the order of the
   passes of httpx.Parse, the tag grammar the generator writes. *)
From Coq Require Import List ZArith Bool String Ascii.
From GZ Require Import C08.Model C08.KModel.
From GZgen Require Import C08Consts.
Import ListNotations.
Open Scope string_scope.

Definition has_opt (o : string) (opts : list string) : bool := existsb (String.eqb o) opts.

(* NewUnmarshaler's options -> the configuration of KModel.v *)
Definition kc_of (opts : list string) : kcfg :=
  mkK (mkCfg (has_opt "WithStringValues" opts) (has_opt "WithFromArray" opts) (has_opt "WithCanonicalKeyFunc" opts))
      (if has_opt "WithOpaqueKeys" opts then seg_opaque else seg_dotted).

Definition known_options : list string :=
  ["WithStringValues"; "WithFromArray"; "WithCanonicalKeyFunc"; "WithOpaqueKeys"].

Definition only_known (opts : list string) : bool := forallb (fun o => has_opt o known_options) opts.

(* the delimiter of chained keys is the dot that [seg_dotted] cuts at; "-" is the ignored key *)
Theorem delimiter_is_the_dot : forall c, is_dot c = true <-> String c "" = gen_delimiter.
Proof.
  intro c. unfold gen_delimiter. split.
  - destruct c as [[|] [|] [|] [|] [|] [|] [|] [|]]; vm_compute; intro H; try discriminate; reflexivity.
  - intro H. inversion H. reflexivity.
Qed.

Theorem ignore_key_is_the_dash : forall k, ignored k = String.eqb k gen_ignore_key.
Proof. reflexivity. Qed.

(* each unmarshaller of go-zero is the [kcfg] the checks use for it, under the tag key they use *)
Theorem json_unmarshaler_is_kc_json :
  gen_json_unmarshaler = ("json", snd gen_json_unmarshaler) /\ only_known (snd gen_json_unmarshaler) = true /\
  kc_of (snd gen_json_unmarshaler) = kc_json.
Proof. repeat split. Qed.

Theorem key_unmarshaler_is_kc_json :
  gen_key_unmarshaler = ("key", snd gen_key_unmarshaler) /\ only_known (snd gen_key_unmarshaler) = true /\
  kc_of (snd gen_key_unmarshaler) = kc_json.
Proof. repeat split. Qed.

Theorem form_unmarshaler_is_kc_form :
  gen_form_unmarshaler = ("form", snd gen_form_unmarshaler) /\ only_known (snd gen_form_unmarshaler) = true /\
  kc_of (snd gen_form_unmarshaler) = kc_form.
Proof. repeat split. Qed.

Theorem path_unmarshaler_is_kc_path :
  gen_path_unmarshaler = ("path", snd gen_path_unmarshaler) /\ only_known (snd gen_path_unmarshaler) = true /\
  kc_of (snd gen_path_unmarshaler) = kc_path.
Proof. repeat split. Qed.

Theorem header_unmarshaler_is_kc_header :
  gen_header_unmarshaler = ("header", snd gen_header_unmarshaler) /\ only_known (snd gen_header_unmarshaler) = true /\
  kc_of (snd gen_header_unmarshaler) = kc_header.
Proof. repeat split. Qed.

(* parameters are opaque names, documents are paths: the distinction the property rests on *)
Theorem parameters_opaque_documents_chained :
  k_seg (kc_of (snd gen_form_unmarshaler)) = seg_opaque /\ k_seg (kc_of (snd gen_path_unmarshaler)) = seg_opaque /\
  k_seg (kc_of (snd gen_json_unmarshaler)) = seg_dotted /\ k_seg (kc_of (snd gen_header_unmarshaler)) = seg_dotted /\
  gen_opaque_bypasses_table = true.
Proof. repeat split. Qed.

(* no answer memoised across calls depends on less than what determines it *)
Theorem required_memo_keyed_by_tag_and_type : gen_required_memo_per_tag = true.
Proof. reflexivity. Qed.

Theorem default_memo_keyed_by_reading_and_text : gen_default_memo_per_reading = true.
Proof. reflexivity. Qed.

(* F31: the map that absent struct / map / slice values are filled from is not a package-level
   one that a map[string]any field would receive *)
Theorem empty_map_not_handed_out : gen_empty_map_private = true.
Proof. reflexivity. Qed.

(* F33: a float32 field read from a string has its range checked on the number as written, like a
   json number (one rounding for value and bounds, Rounding.v) *)
Theorem float32_range_checked_on_the_text : gen_f32_range_on_text = true.
Proof. reflexivity. Qed.

(* httpx.Parse: path, form, headers, body — the order of the passes of a call in Check.v — then the validator *)
Theorem parse_order_is_path_form_header_body :
  gen_parse_order = ["ParsePath"; "ParseForm"; "ParseHeaders"; "ParseJsonBody"] /\ gen_validator_after_passes = true.
Proof. split; reflexivity. Qed.

(* the tag grammar the generator writes (tools/props/c08.py tag_text) *)
Theorem tag_grammar :
  gen_option_words = ["optional"; "default"; "range"; "options"; "string"; "inherit"; "env"] /\
  gen_tag_separators = [","; "="; "|"; "\"; "("; ")"; "["; "]"] /\ gen_array_suffix = "[]".
Proof. repeat split. Qed.

Theorem front_end_limits_positive : (0 < gen_max_form_values)%Z /\ (0 < gen_max_body)%Z.
Proof. split; reflexivity. Qed.
