(* C08 — executable model of go-zero's declarative unmarshaller
   (core/mapping/unmarshaler.go, fieldoptions.go, utils.go).  No proofs here.

   Reusable entry points (also meant for C17, configuration loading):
     [unmarshal vr cfg fs doc]   a whole document into a struct type [TStruct fs]
     [um_fields vr cfg fs obj]   the fields [fs] of a struct against the object [obj]
     [um_present] / [um_elem]    one supplied value against a field type / an element type
   over the generic document tree [jv] (what jsonx.Unmarshal with UseNumber yields; YAML and
   TOML documents are converted to the same tree by go-zero before unmarshalling).

   Correspondence with the Go control flow:
     processField/processNamedField            -> body of [um_fields]
     processAnonymousField(Required|Optional),
       processAnonymousStructFieldOptional     -> the [FEmbed] case of [um_fields], [um_opt_members]
     parseKeyAndOptions (range syntax errors)  -> [opts_ok]
     fieldOptions.toOptionsWithContext         -> [resolve]
     processNamedFieldWithoutValue             -> [um_default] / [zero] / [um_absent]
     implicitValueRequiredStruct               -> [required_fields]
     processNamedFieldWithValue (nil check)    -> the [JNull] branch of [um_fields]
     processFieldNotFromString                 -> [um_present] (struct / slice / map / primitive)
     processFieldPrimitive(WithJSONNumber)     -> [prim_plain], [prim_json_number]
     processNamedFieldWithValueFromString,
       fillPrimitive, validateAndSetValue      -> [prim_from_string]
     fillSlice / fillSliceValue                -> [slice_with], [um_elem false]
     generateMap                               -> [map_with], [um_elem true]
     convertTypeFromString                     -> [conv_string]
     validateNumberRange                       -> [check_range]

   [variant] switches the six repaired defects back on (used by Pinned.v only);
   [fixed] is the current code. *)
From Coq Require Import List ZArith Bool String Ascii.
Import ListNotations.
Open Scope Z_scope.

(* ------------------------------------------------------------------ results *)

Inductive err := ENotSet | ENil | ERange | EOptions | EType | EDep | ETag | EConv | EDoc.

(* [Panic] is the observable "the Go code panicked" (recovered by the harness). *)
Inductive result (A : Type) := Ok (a : A) | Err (e : err) | Panic.
Arguments Ok {A} a.
Arguments Err {A} e.
Arguments Panic {A}.

Definition bind {A B} (r : result A) (f : A -> result B) : result B :=
  match r with Ok a => f a | Err e => Err e | Panic => Panic end.
Notation "x <- r ;; k" := (bind r (fun x => k)) (at level 61, r at next level, right associativity).
Definition rmap {A B} (f : A -> B) (r : result A) : result B := bind r (fun a => Ok (f a)).

Fixpoint mapM {A B} (f : A -> result B) (l : list A) : result (list B) :=
  match l with
  | [] => Ok []
  | x :: l' => y <- f x ;; ys <- mapM f l' ;; Ok (y :: ys)
  end.

Definition guard (b : bool) (e : err) : result unit := if b then Ok tt else Err e.

(* ------------------------------------------------------------------ kinds, numbers *)

Inductive width := W0 (* int / uint: 64 bit on the platform of the check *) | W8 | W16 | W32 | W64.
Inductive kind := KBool | KInt (w : width) | KUint (w : width) | KF32 | KF64 | KStr.

Definition bits (w : width) : Z :=
  match w with W0 => 64 | W8 => 8 | W16 => 16 | W32 => 32 | W64 => 64 end.

Definition width_eqb (a b : width) : bool :=
  match a, b with
  | W0, W0 | W8, W8 | W16, W16 | W32, W32 | W64, W64 => true
  | _, _ => false
  end.

Definition kind_eqb (a b : kind) : bool :=
  match a, b with
  | KBool, KBool | KF32, KF32 | KF64, KF64 | KStr, KStr => true
  | KInt x, KInt y | KUint x, KUint y => width_eqb x y
  | _, _ => false
  end.

(* exact decimal: dm * 10^de *)
Record dec := mkDec { dm : Z; de : Z }.

Definition dec_cmp (a b : dec) : comparison :=
  let e := Z.min (de a) (de b) in
  Z.compare (dm a * 10 ^ (de a - e)) (dm b * 10 ^ (de b - e)).
Definition dec_ltb a b := match dec_cmp a b with Lt => true | _ => false end.
Definition dec_leb a b := match dec_cmp a b with Gt => false | _ => true end.
Definition dec_eqb a b := match dec_cmp a b with Eq => true | _ => false end.

(* a float64/float32 value: exact decimal (the literal it was read from), NaN or +-Inf *)
Inductive fval := FDec (d : dec) | FNaN | FInf (neg : bool).

Definition fval_eqb (a b : fval) : bool :=
  match a, b with
  | FDec x, FDec y => dec_eqb x y
  | FNaN, FNaN => true
  | FInf x, FInf y => Bool.eqb x y
  | _, _ => false
  end.

(* ---- scanning of number literals (strconv syntax, decimal only) ---- *)

Definition is_digit (c : ascii) : bool :=
  let n := Z.of_N (N_of_ascii c) in (48 <=? n) && (n <=? 57).
Definition digit_val (c : ascii) : Z := Z.of_N (N_of_ascii c) - 48.

Fixpoint scan_digits (s : string) (acc n : Z) : Z * Z * string :=
  match s with
  | String c r => if is_digit c then scan_digits r (acc * 10 + digit_val c) (n + 1) else (acc, n, s)
  | EmptyString => (acc, n, s)
  end.

Record numsyn := mkSyn
  { sy_sign : option bool  (* Some true: '-', Some false: '+' *);
    sy_int : Z; sy_intn : Z; sy_dot : bool; sy_frac : Z; sy_fracn : Z;
    sy_exp : option Z }.

Definition scan_sign (s : string) : option bool * string :=
  match s with
  | String "-"%char r => (Some true, r)
  | String "+"%char r => (Some false, r)
  | _ => (None, s)
  end.

Definition is_e (c : ascii) : bool :=
  let n := Z.of_N (N_of_ascii c) in (n =? 101) || (n =? 69).

(* [+-]? digits* ( . digits* )? ( [eE] [+-]? digits+ )?   with at least one mantissa digit *)
Definition scan_num (s : string) : option numsyn :=
  let '(sg, s1) := scan_sign s in
  let '(iv, inn, s2) := scan_digits s1 0 0 in
  let '(dot, fv, fnn, s3) :=
    match s2 with
    | String "."%char r => let '(fv, fnn, r') := scan_digits r 0 0 in (true, fv, fnn, r')
    | _ => (false, 0, 0, s2)
    end in
  if (inn =? 0) && (fnn =? 0) then None else
  match s3 with
  | EmptyString => Some (mkSyn sg iv inn dot fv fnn None)
  | String c r =>
    if is_e c then
      let '(esg, r1) := scan_sign r in
      let '(ev, en, r2) := scan_digits r1 0 0 in
      if en =? 0 then None else
      match r2 with
      | EmptyString =>
        Some (mkSyn sg iv inn dot fv fnn
                (Some (match esg with Some true => - ev | _ => ev end)))
      | _ => None
      end
    else None
  end.

Definition syn_neg (y : numsyn) : bool := match sy_sign y with Some true => true | _ => false end.

Definition syn_dec (y : numsyn) : dec :=
  let m := sy_int y * 10 ^ sy_fracn y + sy_frac y in
  mkDec (if syn_neg y then - m else m)
        (match sy_exp y with Some e => e | None => 0 end - sy_fracn y).

Definition syn_is_int (y : numsyn) : bool :=
  negb (sy_dot y) && match sy_exp y with None => true | Some _ => false end.

Definition lower_ascii (c : ascii) : ascii :=
  let n := N_of_ascii c in
  if (65 <=? n)%N && (n <=? 90)%N then ascii_of_N (n + 32) else c.
Fixpoint lower (s : string) : string :=
  match s with EmptyString => EmptyString | String c r => String (lower_ascii c) (lower r) end.

Definition str_in (s : string) (l : list string) : bool := existsb (String.eqb s) l.

Inductive lit := LNum (y : numsyn) | LNaN | LInf (neg : bool) | LBad.

Definition classify (s : string) : lit :=
  match scan_num s with
  | Some y => LNum y
  | None =>
    let l := lower s in
    if String.eqb l "nan" then LNaN
    else if str_in l ["inf"; "+inf"; "infinity"; "+infinity"]%string then LInf false
    else if str_in l ["-inf"; "-infinity"]%string then LInf true
    else LBad
  end.

(* smallest magnitudes that no longer round to a finite float (ParseFloat reports a range error) *)
Definition bound64 : Z := 2 ^ 1024 - 2 ^ 970.
Definition bound32 : Z := 2 ^ 128 - 2 ^ 103.
Definition max32 : Z := (2 ^ 24 - 1) * 2 ^ 104.

(* bound <= |d| *)
Definition mag_ge (bound : Z) (d : dec) : bool :=
  if 0 <=? de d then bound <=? Z.abs (dm d) * 10 ^ de d
  else bound * 10 ^ (- de d) <=? Z.abs (dm d).
(* bound < |d| *)
Definition mag_gt (bound : Z) (d : dec) : bool :=
  if 0 <=? de d then bound <? Z.abs (dm d) * 10 ^ de d
  else bound * 10 ^ (- de d) <? Z.abs (dm d).

(* strconv.ParseFloat(s, 32|64) *)
Definition parse_float (is32 : bool) (s : string) : option fval :=
  match classify s with
  | LNum y =>
    let d := syn_dec y in
    if mag_ge (if is32 then bound32 else bound64) d then None else Some (FDec d)
  | LNaN => Some FNaN
  | LInf n => Some (FInf n)
  | LBad => None
  end.

(* strconv.ParseInt(s, 10, b) *)
Definition parse_int (b : Z) (s : string) : option Z :=
  match classify s with
  | LNum y =>
    if syn_is_int y then
      let v := dm (syn_dec y) in
      if (- 2 ^ (b - 1) <=? v) && (v <? 2 ^ (b - 1)) then Some v else None
    else None
  | _ => None
  end.

(* strconv.ParseUint(s, 10, b): no sign at all *)
Definition parse_uint (b : Z) (s : string) : option Z :=
  match classify s with
  | LNum y =>
    if syn_is_int y && match sy_sign y with None => true | Some _ => false end then
      let v := dm (syn_dec y) in
      if v <? 2 ^ b then Some v else None
    else None
  | _ => None
  end.

(* ------------------------------------------------------------------ types, options *)

Record range := mkRange { r_li : bool; r_l : option dec; r_r : option dec; r_ri : bool }.

(* parseNumberRange's admissibility conditions *)
Definition range_valid (r : range) : bool :=
  match r_l r, r_r r with
  | None, None => false
  | Some l, Some h => dec_ltb l h || (dec_eqb l h && r_li r && r_ri r)
  | _, _ => true
  end.

Definition in_range (r : range) (d : dec) : bool :=
  match r_l r with None => true | Some l => if r_li r then dec_leb l d else dec_ltb l d end &&
  match r_r r with None => true | Some h => if r_ri r then dec_leb d h else dec_ltb d h end.

Record fopts := mkOpts
  { o_optional : bool;                      (* "optional", "optional=dep" or "optional=!dep" present *)
    o_dep : option (bool * string);         (* (negated, dependency key) *)
    o_default : option string;              (* non-empty text *)
    o_range : option range;
    o_options : list string;                (* [] = none declared *)
    o_string : bool }.

Inductive ftype :=
| TPrim (k : kind)
| TPtr (t : ftype)
| TSlice (t : ftype)
| TMap (t : ftype)                          (* map[string]T *)
| TStruct (fs : fields)
with fields :=
| FNil
| FCons (key : string) (o : option fopts) (t : ftype) (rest : fields)
| FEmbed (optional : bool) (ptr : bool) (inner : fields) (rest : fields).
(* [o = None]: the tag holds only the key (Go: options == nil).
   [FEmbed optional ptr inner]: an anonymous (embedded) struct ([ptr]: pointer to struct) with the
   members [inner], untagged or tagged ",optional"; its members are read from the SAME object as
   the enclosing struct's fields. *)

(* decoded Go values *)
Inductive gval :=
| VBool (b : bool)
| VInt (z : Z)                              (* every signed / unsigned integer kind *)
| VFloat (f : fval)
| VStr (s : string)
| VNil                                      (* nil pointer, nil slice, nil map *)
| VPtr (v : gval)
| VSlice (l : list gval)
| VMap (l : list (string * gval))
| VStruct (l : list gval).

(* documents *)
Inductive jv :=
| JNull
| JBool (b : bool)
| JNum (s : string)                         (* json.Number: the literal's text *)
| JStr (s : string)
| JArr (l : list jv)
| JObj (l : list (string * jv))             (* keys distinct (decoder keeps the last duplicate) *)
| JNat (k : kind) (s : string).             (* a native Go number of kind k (UnmarshalKey input), canonical text *)

Fixpoint lookup {A} (k : string) (l : list (string * A)) : option A :=
  match l with
  | [] => None
  | (k', v) :: l' => if String.eqb k k' then Some v else lookup k l'
  end.
Definition has {A} (k : string) (l : list (string * A)) : bool :=
  match lookup k l with Some _ => true | None => false end.

Definition is_null (v : jv) : bool := match v with JNull => true | _ => false end.

Fixpoint zero (t : ftype) : gval :=
  match t with
  | TPrim KBool => VBool false
  | TPrim (KInt _) | TPrim (KUint _) => VInt 0
  | TPrim KF32 | TPrim KF64 => VFloat (FDec (mkDec 0 0))
  | TPrim KStr => VStr ""
  | TPtr _ | TSlice _ | TMap _ => VNil
  | TStruct fs => VStruct (zero_fields fs)
  end
with zero_fields (fs : fields) : list gval :=
  match fs with
  | FNil => []
  | FCons _ _ t rest => zero t :: zero_fields rest
  | FEmbed _ ptr inner rest => (if ptr then VNil else VStruct (zero_fields inner)) :: zero_fields rest
  end.

(* the unmarshaller's own options *)
Record ucfg := mkCfg
  { u_fromString : bool   (* WithStringValues: form, path, header *);
    u_fromArray : bool    (* WithFromArray: form *);
    u_canonical : bool    (* WithCanonicalKeyFunc: header (keys are compared in canonical form) *) }.

(* the six repaired defects, switchable for Pinned.v *)
Record variant := mkVariant
  { v_dep_drops_range : bool;     (* F2: rebuilt option set lacked Range *)
    v_nan_in_range : bool;        (* NaN passed every range *)
    v_nil_slice_panics : bool;    (* null element of map[string][]T *)
    v_map_ptr_panics : bool;      (* scalar element of map[string]*T *)
    v_negdep_blind : bool;        (* header: the key behind "optional=!" was looked up un-canonicalised,
                                     i.e. never found in the canonical header map *)
    v_embed_defaults_skipped : bool }.  (* optional embedded struct: defaulted members counted as
                                     required and absent members never given their default *)
Definition fixed : variant := mkVariant false false false false false false.

(* ------------------------------------------------------------------ options in context *)

(* fieldOptionsWithContext *)
Record ropts := mkRopts
  { ro_optional : bool; ro_default : option string; ro_range : option range;
    ro_options : list string; ro_string : bool }.

Definition no_ropts : ropts := mkRopts false None None [] false.

Definition with_optional (vr : variant) (o : fopts) (optional : bool) : ropts :=
  mkRopts optional (o_default o)
          (if v_dep_drops_range vr && negb (Bool.eqb (o_optional o) optional) then None else o_range o)
          (o_options o) (o_string o).

(* fieldOptions.toOptionsWithContext: dependencies are resolved against the presence of the
   sibling key in the same object (a key mapped to null counts as present) *)
Definition resolve {A} (vr : variant) (canon : bool) (key : string) (o : option fopts) (obj : list (string * A)) : result ropts :=
  match o with
  | None => Ok no_ropts
  | Some o =>
    if o_optional o then
      match o_dep o with
      | None => Ok (with_optional vr o true)
      | Some (neg, dep) =>
        if String.eqb dep "" then (if neg then Err EDep else Ok (with_optional vr o true))
        else
          let baseOn := if v_negdep_blind vr && (neg && canon) then false else has dep obj in
          let selfOn := has key obj in
          if neg then
            if Bool.eqb baseOn selfOn then Err EDep else Ok (with_optional vr o baseOn)
          else
            if Bool.eqb baseOn selfOn then Ok (with_optional vr o (negb baseOn)) else Err EDep
      end
    else Ok (with_optional vr o false)
  end.

Definition opts_ok (o : option fopts) : bool :=
  match o with
  | None => true
  | Some o => match o_range o with None => true | Some r => range_valid r end
  end.

(* implicitValueRequiredStruct: must an absent, non-optional struct field be reported? *)
Fixpoint required_fields (fs : fields) : bool :=
  match fs with
  | FNil => false
  | FCons _ o t rest =>
    match o with
    | None => match t with TStruct fs' => required_fields fs' | _ => true end
    | Some o' =>
      negb (opts_ok o)
      || (negb (o_optional o') && match o_default o' with None => true | Some _ => false end)
      || match o_dep o' with Some (true, _) => true | _ => false end
    end || required_fields rest
  | FEmbed opt ptr inner rest =>
    (if opt then false else if ptr then true else required_fields inner) || required_fields rest
  end.

(* processAnonymousStructFieldOptional: is any member's key present in the object? *)
Fixpoint any_present {A} (fs : fields) (obj : list (string * A)) : bool :=
  match fs with
  | FNil => false
  | FCons key _ _ rest => has key obj || any_present rest obj
  | FEmbed _ _ _ rest => any_present rest obj
  end.

(* a member that may stay absent in a set optional embedded struct *)
Definition member_excused (vr : variant) (ro : ropts) : bool :=
  ro_optional ro ||
  (negb (v_embed_defaults_skipped vr) && match ro_default ro with Some _ => true | None => false end).

(* ------------------------------------------------------------------ primitives *)

Definition check_range (vr : variant) (r : range) (f : fval) : bool :=
  match f with
  | FDec d => in_range r d
  | FNaN => v_nan_in_range vr
  | FInf _ => false
  end.

(* convertTypeFromString *)
Definition conv_string (k : kind) (s : string) : option gval :=
  match k with
  | KBool =>
    let l := lower s in
    if String.eqb l "1" || String.eqb l "true" then Some (VBool true)
    else if String.eqb l "0" || String.eqb l "false" then Some (VBool false)
    else None
  | KInt w => option_map VInt (parse_int (bits w) s)
  | KUint w => option_map VInt (parse_uint (bits w) s)
  | KF32 => option_map VFloat (parse_float true s)
  | KF64 => option_map VFloat (parse_float false s)
  | KStr => Some (VStr s)
  end.

Definition of_opt {A} (o : option A) (e : err) : result A :=
  match o with Some a => Ok a | None => Err e end.

(* toFloat64 *)
Definition gval_num (v : gval) : option fval :=
  match v with
  | VInt z => Some (FDec (mkDec z 0))
  | VFloat f => Some f
  | _ => None
  end.

Definition chk_options (ro : ropts) (txt : string) : bool :=
  match ro_options ro with [] => true | l => str_in txt l end.

(* validateJsonNumberRange *)
Definition json_number_range (vr : variant) (ro : ropts) (s : string) : result unit :=
  match ro_range ro with
  | None => Ok tt
  | Some r => f <- of_opt (parse_float false s) EConv ;; guard (check_range vr r f) ERange
  end.

(* validateValueRange *)
Definition value_range (vr : variant) (ro : ropts) (v : gval) : result unit :=
  match ro_range ro with
  | None => Ok tt
  | Some r => f <- of_opt (gval_num v) ERange ;; guard (check_range vr r f) ERange
  end.

Definition overflow32 (f : fval) : bool :=
  match f with FDec d => mag_gt max32 d | _ => false end.

(* processFieldPrimitiveWithJSONNumber *)
Definition prim_json_number (vr : variant) (k : kind) (ro : ropts) (s : string) : result gval :=
  _ <- json_number_range vr ro s ;;
  _ <- guard (chk_options ro s) EOptions ;;
  match k with
  | KInt _ | KUint _ => of_opt (conv_string k s) EConv
  | KF32 =>
    f <- of_opt (parse_float false s) EConv ;;
    _ <- guard (negb (overflow32 f)) EConv ;; Ok (VFloat f)
  | KF64 => f <- of_opt (parse_float false s) EConv ;; Ok (VFloat f)
  | KBool | KStr => Err EType
  end.

Definition is_numeric (k : kind) : bool :=
  match k with KBool | KStr => false | _ => true end.

Definition bool_text (b : bool) : string := if b then "true" else "false".

(* processFieldPrimitive (values that are not from strings) *)
Definition prim_plain (vr : variant) (k : kind) (ro : ropts) (v : jv) : result gval :=
  match v with
  | JNum s => prim_json_number vr k ro s
  | JBool b =>
    _ <- guard (kind_eqb k KBool) EType ;;
    _ <- guard (chk_options ro (bool_text b)) EOptions ;;
    _ <- value_range vr ro (VBool b) ;; Ok (VBool b)
  | JStr s =>
    _ <- guard (kind_eqb k KStr) EType ;;
    _ <- guard (chk_options ro s) EOptions ;;
    _ <- value_range vr ro (VStr s) ;; Ok (VStr s)
  | JNat k' s =>
    _ <- guard (kind_eqb k k' && is_numeric k) EType ;;
    _ <- guard (chk_options ro s) EOptions ;;
    x <- of_opt (conv_string k s) EConv ;;
    _ <- value_range vr ro x ;; Ok x
  | _ => Err EType
  end.

(* processNamedFieldWithValueFromString + fillPrimitive *)
Definition prim_from_string (vr : variant) (k : kind) (ro : ropts) (v : jv) : result gval :=
  match v with
  | JStr s =>
    _ <- guard (chk_options ro s) EOptions ;;
    x <- of_opt (conv_string k s) EConv ;;
    _ <- value_range vr ro x ;; Ok x
  | JNum s =>
    _ <- guard (chk_options ro s) EOptions ;;
    _ <- json_number_range vr ro s ;;
    of_opt (conv_string k s) EConv
  | _ => Err EType
  end.

Definition prim_present (vr : variant) (cfg : ucfg) (k : kind) (ro : ropts) (v : jv) : result gval :=
  if u_fromString cfg || ro_string ro then prim_from_string vr k ro v else prim_plain vr k ro v.

(* one element of a slice (inmap = false: fillSliceValue) or of a map (inmap = true:
   generateMap's primitive branch); no range / options validation happens here *)
Definition prim_elem (inmap : bool) (k : kind) (v : jv) : result gval :=
  match v with
  | JNum s => of_opt (conv_string k s) EConv
  | JStr s => if inmap then (if kind_eqb k KStr then Ok (VStr s) else Err EType)
              else of_opt (conv_string k s) EConv
  | JBool b => if kind_eqb k KBool then Ok (VBool b) else Err EType
  | JNat k' s => if inmap then Err EType
                 else if kind_eqb k k' && is_numeric k then of_opt (conv_string k s) EConv else Err EType
  | _ => Err EType
  end.

(* fillSlice: null elements are skipped (left zero); if every element is null the target is
   left untouched (nil); an empty array gives an empty non-nil slice *)
Definition slice_with (f : jv -> result gval) (z : gval) (l : list jv) : result gval :=
  match l with
  | [] => Ok (VSlice [])
  | _ =>
    xs <- mapM (fun v => match v with JNull => Ok z | _ => f v end) l ;;
    Ok (if forallb is_null l then VNil else VSlice xs)
  end.

Definition map_with (f : jv -> result gval) (o : list (string * jv)) : result gval :=
  xs <- mapM (fun kv => x <- f (snd kv) ;; Ok (fst kv, x)) o ;; Ok (VMap xs).

Fixpoint is_prim_deref (t : ftype) : bool :=
  match t with TPrim _ => true | TPtr t' => is_prim_deref t' | _ => false end.

(* processNamedFieldWithoutValue with a default: setValueFromString on the dereferenced kind *)
Fixpoint um_default (t : ftype) (d : string) : result gval :=
  match t with
  | TPrim k => of_opt (conv_string k d) EConv
  | TPtr t' => rmap VPtr (um_default t' d)
  | _ => Err EType
  end.

(* WithFromArray: a non-slice field takes the first element of an array value *)
Definition from_array (cfg : ucfg) (t : ftype) (v : jv) : jv :=
  if u_fromArray cfg then
    match t with
    | TSlice _ => v
    | _ => match v with JArr (x :: _) => x | _ => v end
    end
  else v.

Definition field_input (cfg : ucfg) (t : ftype) (key : string) (obj : list (string * jv)) : option jv :=
  option_map (from_array cfg t) (lookup key obj).

(* ------------------------------------------------------------------ the unmarshaller *)

Fixpoint um_present (vr : variant) (cfg : ucfg) (t : ftype) (ro : ropts) (v : jv) {struct t} : result gval :=
  match t with
  | TPrim k => prim_present vr cfg k ro v
  | TPtr t' => rmap VPtr (um_present vr cfg t' ro v)
  | TStruct fs =>
    match v with
    | JObj o => rmap VStruct (um_fields vr cfg fs o)
    | _ => Err EType
    end
  | TSlice e =>
    match v with
    | JArr l => slice_with (um_elem vr cfg false e) (zero e) l
    | _ => Err EType
    end
  | TMap e =>
    match v with
    | JObj o => map_with (um_elem vr cfg true e) o
    | _ => Err EType
    end
  end

(* an element of a slice (never called on null) or of a map *)
with um_elem (vr : variant) (cfg : ucfg) (inmap : bool) (t : ftype) (v : jv) {struct t} : result gval :=
  match t with
  | TPrim k => prim_elem inmap k v
  | TPtr t' =>
    x <- um_elem vr cfg inmap t' v ;;
    if inmap && v_map_ptr_panics vr && is_prim_deref t' then Panic else Ok (VPtr x)
  | TStruct fs =>
    match v with
    | JObj o => rmap VStruct (um_fields vr cfg fs o)
    | _ => Err EType
    end
  | TSlice e =>
    match v with
    | JArr l => slice_with (um_elem vr cfg false e) (zero e) l
    | JNull => if v_nil_slice_panics vr then Panic else Err EType
    | _ => Err EType
    end
  | TMap e =>
    match v with
    | JObj o => map_with (um_elem vr cfg true e) o
    | _ => Err EType
    end
  end

(* key absent, field not optional, no default *)
with um_absent (vr : variant) (cfg : ucfg) (t : ftype) {struct t} : result gval :=
  match t with
  | TPrim _ => Err ENotSet
  | TPtr t' => rmap VPtr (um_absent vr cfg t')
  | TSlice _ => Err EType
  | TMap _ => Ok (VMap [])
  | TStruct fs =>
    if required_fields fs then Err ENotSet else rmap VStruct (um_fields vr cfg fs [])
  end

with um_fields (vr : variant) (cfg : ucfg) (fs : fields) (obj : list (string * jv)) {struct fs} : result (list gval) :=
  match fs with
  | FNil => Ok []
  | FCons key o t rest =>
    x <- (_ <- guard (opts_ok o) ETag ;;
          ro <- resolve vr (u_canonical cfg) key o obj ;;
          match field_input cfg t key obj with
          | None =>
            match ro_default ro with
            | Some d => um_default t d
            | None => if ro_optional ro then Ok (zero t) else um_absent vr cfg t
            end
          | Some JNull => if ro_optional ro then Ok (zero t) else Err ENil
          | Some v => um_present vr cfg t ro v
          end) ;;
    xs <- um_fields vr cfg rest obj ;;
    Ok (x :: xs)
  | FEmbed opt ptr inner rest =>
    (* processAnonymousField: members come from the same object *)
    x <- (if opt then
            let filled := any_present inner obj in
            r <- um_opt_members vr cfg inner obj filled ;;
            _ <- guard (negb filled || snd r) ENotSet ;;          (* "is not fully set" *)
            Ok (if ptr then (if filled then VPtr (VStruct (fst r)) else VNil) else VStruct (fst r))
          else
            xs <- um_fields vr cfg inner obj ;;
            Ok (if ptr then VPtr (VStruct xs) else VStruct xs)) ;;
    ys <- um_fields vr cfg rest obj ;;
    Ok (x :: ys)
  end

(* processAnonymousStructFieldOptional: only members whose key is present are unmarshalled;
   absent ones stay zero, except that once the struct is set at all ([filled]) an absent
   member with a default gets it.  The boolean: every member is present or may be absent. *)
with um_opt_members (vr : variant) (cfg : ucfg) (fs : fields) (obj : list (string * jv)) (filled : bool)
                    {struct fs} : result (list gval * bool) :=
  match fs with
  | FNil => Ok ([], true)
  | FCons key o t rest =>
    xb <- (_ <- guard (opts_ok o) ETag ;;
           ro <- resolve vr (u_canonical cfg) key o obj ;;
           x <- match field_input cfg t key obj with
                | None =>
                  match ro_default ro with
                  | Some d => if filled && negb (v_embed_defaults_skipped vr) then um_default t d else Ok (zero t)
                  | None => Ok (zero t)
                  end
                | Some JNull => if ro_optional ro then Ok (zero t) else Err ENil
                | Some v => um_present vr cfg t ro v
                end ;;
           Ok (x, has key obj || member_excused vr ro)) ;;
    r <- um_opt_members vr cfg rest obj filled ;;
    Ok (fst xb :: fst r, snd xb && snd r)
  | FEmbed opt ptr inner rest =>
    (* an embedded struct nested in an optional embedded one is looked up under its Go field
       name, which no document key equals: never set *)
    r <- um_opt_members vr cfg rest obj filled ;;
    Ok ((if ptr then VNil else VStruct (zero_fields inner)) :: fst r, opt && snd r)
  end.

(* Unmarshaler.Unmarshal on a decoded document ([None]: the decoder rejected the stream) *)
Definition unmarshal (vr : variant) (cfg : ucfg) (fs : fields) (d : option jv) : result gval :=
  match d with
  | Some (JObj o) => rmap VStruct (um_fields vr cfg fs o)
  | _ => Err EDoc
  end.

(* A process serves requests one after the other.  The unmarshaller keeps no state between
   them (the option / struct caches only memoise pure functions of the type): the result of
   each request is [unmarshal] of its own document. *)
Record request := mkReq { rq_cfg : ucfg; rq_type : fields; rq_doc : option jv }.

Definition serve (vr : variant) (r : request) : result gval :=
  unmarshal vr (rq_cfg r) (rq_type r) (rq_doc r).

Definition run_requests (vr : variant) (rs : list request) : list (result gval) := map (serve vr) rs.

(* ------------------------------------------------------------------ the modelled fragment *)

(* Types the model speaks for: no pointer to slice / map, no []uint8 (base64 path), no
   default on a slice-typed field (fillSliceWithDefault is not modelled). *)
Fixpoint ptr_target_ok (t : ftype) : bool :=
  match t with TSlice _ | TMap _ => false | TPtr t' => ptr_target_ok t' | _ => true end.

Fixpoint is_slice_deref (t : ftype) : bool :=
  match t with TSlice _ => true | TPtr t' => is_slice_deref t' | _ => false end.

Fixpoint no_embed (fs : fields) : bool :=
  match fs with
  | FNil => true
  | FCons _ _ _ rest => no_embed rest
  | FEmbed _ _ _ _ => false
  end.

Fixpoint type_ok (t : ftype) : bool :=
  match t with
  | TPrim _ => true
  | TPtr t' => ptr_target_ok t' && type_ok t'
  | TSlice (TPrim (KUint W8)) => false
  | TSlice e => type_ok e
  | TMap e => type_ok e
  | TStruct fs => fields_ok fs
  end
with fields_ok (fs : fields) : bool :=
  match fs with
  | FNil => true
  | FCons _ o t rest =>
    type_ok t
    && match o with
       | Some o' => match o_default o' with Some _ => negb (is_slice_deref t) | None => true end
       | None => true
       end
    && fields_ok rest
  | FEmbed opt _ inner rest =>
    fields_ok inner && (negb opt || no_embed inner) && fields_ok rest
  end.
