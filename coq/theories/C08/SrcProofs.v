(* C08 — proofs about the sources httpx.Parse consults (SrcModel.v). *)
From Coq Require Import List ZArith Bool String Ascii Lia.
From GZ Require Import C08.Model C08.Spec C08.KModel C08.KSpec C08.KProofsB C08.ReqModel C08.ReqProofs C08.SrcModel.
Import ListNotations.
Local Open Scope Z_scope.
Local Open Scope string_scope.

(* an unmarshaller over a view without members accepts every object and stores nothing *)
Lemma no_members_fields : forall kc fs env o, no_members fs = true -> umk_fields kc env fs o = Ok (zero_fields fs).
Proof.
  intros kc fs. induction fs as [|key op t rest IHr|opt ptr inner IHi rest IHr]; intros env o H.
  - reflexivity.
  - discriminate.
  - simpl in H. apply andb_true_iff in H. destruct H as [H Hr]. apply andb_true_iff in H. destruct H as [H Hi].
    apply andb_true_iff in H. destruct H as [Ho Hp]. apply negb_true_iff in Ho. apply negb_true_iff in Hp. subst.
    simpl. rewrite (IHi env o Hi). simpl. rewrite (IHr env o Hr). reflexivity.
Qed.

Lemma empty_view_pass : forall kc fs o, no_members fs = true ->
  unmarshalK kc fs (Some (JObj o)) = Ok (VStruct (zero_fields fs)).
Proof. intros kc fs o H. unfold unmarshalK. rewrite (no_members_fields kc fs [] o H). reflexivity. Qed.

Lemma skip_path_harmless : forall vw r, no_members (v_path vw) = true ->
  pass_or_skip false (pass_path vw r) = pass_or_skip true (pass_path vw r).
Proof. intros vw r H. unfold pass_or_skip, pass_path, path_doc. cbn [p_kc p_type p_doc]. rewrite (empty_view_pass _ _ _ H). reflexivity. Qed.

Lemma skip_header_harmless : forall vw r, no_members (v_header vw) = true ->
  pass_or_skip false (pass_header vw r) = pass_or_skip true (pass_header vw r).
Proof. intros vw r H. unfold pass_or_skip, pass_header, header_doc. cbn [p_kc p_type p_doc]. rewrite (empty_view_pass _ _ _ H). reflexivity. Qed.

Lemma skip_form_harmless : forall max vw r, no_members (v_form vw) = true -> total_kept (hr_form r) <= max ->
  pass_or_skip false (pass_form max vw r) = pass_or_skip true (pass_form max vw r).
Proof.
  intros max vw r H Hm. unfold pass_or_skip, pass_form. cbn [p_kc p_type p_doc]. unfold form_values.
  destruct (total_kept (hr_form r) >? max) eqn:E; [apply Z.gtb_lt in E; lia |]. rewrite (empty_view_pass _ _ _ H). reflexivity.
Qed.

Lemma serve_all_sources : forall max r vw vd,
  serve_skipping max all_sources r vw vd = serve_call (call_on max r (mkLook (EParse vd) vw)).
Proof.
  intros. unfold serve_skipping, serve_call, call_on, all_sources, pass_or_skip.
  cbn [l_entry l_views c_passes c_validator run_passes c_path c_form c_header].
  set (u1 := unmarshalK (p_kc (pass_path vw r)) (p_type (pass_path vw r)) (p_doc (pass_path vw r))).
  set (u2 := unmarshalK (p_kc (pass_form max vw r)) (p_type (pass_form max vw r)) (p_doc (pass_form max vw r))).
  set (u3 := unmarshalK (p_kc (pass_header vw r)) (p_type (pass_header vw r)) (p_doc (pass_header vw r))).
  change (unmarshalK kc_json (v_json vw) (hr_body r))
    with (unmarshalK (p_kc (pass_json vw r)) (p_type (pass_json vw r)) (p_doc (pass_json vw r))).
  set (u4 := unmarshalK (p_kc (pass_json vw r)) (p_type (pass_json vw r)) (p_doc (pass_json vw r))).
  destruct u1; cbn [bind]; try reflexivity.
  destruct u2; cbn [bind]; try reflexivity.
  destruct u3; cbn [bind]; try reflexivity.
  destruct u4; cbn [bind]; reflexivity.
Qed.

(* skipping sources is the same Parse provided every source with a member to read is consulted
   (and the form, if not looked at, is one GetFormValues would have let through) *)
Lemma skipping_sound : forall max c r vw vd,
  (c_path c = false -> no_members (v_path vw) = true) ->
  (c_form c = false -> no_members (v_form vw) = true /\ total_kept (hr_form r) <= max) ->
  (c_header c = false -> no_members (v_header vw) = true) ->
  serve_skipping max c r vw vd = serve_call (call_on max r (mkLook (EParse vd) vw)).
Proof.
  intros max c r vw vd Hp Hf Hh. rewrite <- serve_all_sources. unfold serve_skipping, all_sources. simpl.
  assert (E1 : pass_or_skip (c_path c) (pass_path vw r) = pass_or_skip true (pass_path vw r)).
  { destruct (c_path c); [reflexivity|]. apply skip_path_harmless. apply Hp. reflexivity. }
  assert (E2 : pass_or_skip (c_form c) (pass_form max vw r) = pass_or_skip true (pass_form max vw r)).
  { destruct (c_form c); [reflexivity|]. destruct (Hf eq_refl) as [H1 H2]. apply skip_form_harmless; assumption. }
  assert (E3 : pass_or_skip (c_header c) (pass_header vw r) = pass_or_skip true (pass_header vw r)).
  { destruct (c_header c); [reflexivity|]. apply skip_header_harmless. apply Hh. reflexivity. }
  rewrite E1, E2, E3. reflexivity.
Qed.

(* the scan that looks at Anonymous first finds what the unmarshaller reads: by definition it is
   [reads]; the scan that looks at IsExported first finds no more, and finds everything when no
   embedded struct has an unexported type name *)
Fixpoint names_exported (d : decl) : bool :=
  match d with
  | DField _ _ => true
  | DEmbed ex inner => ex && (fix all (l : list decl) : bool := match l with [] => true | x :: r => names_exported x && all r end) inner
  end.

Lemma scan_finds_no_more : forall k d, scan_exported_first k d = true -> reads k d = true.
Proof.
  intro k. fix IH 1. intros [ex keys | ex inner]; simpl; [tauto|].
  intro H. apply andb_true_iff in H. destruct H as [_ H]. revert H.
  induction inner as [|x r IHr]; [discriminate|].
  intro H. apply orb_true_iff in H. apply orb_true_iff. destruct H as [H | H]; [left; apply IH; exact H | right; apply IHr; exact H].
Qed.

Lemma scan_complete_when_names_exported : forall k d, names_exported d = true -> scan_exported_first k d = reads k d.
Proof.
  intro k. fix IH 1. intros [ex keys | ex inner]; simpl; [reflexivity|].
  intro H. apply andb_true_iff in H. destruct H as [He H]. rewrite He. simpl. revert H.
  induction inner as [|x r IHr]; [reflexivity|].
  intro H. apply andb_true_iff in H. destruct H as [Hx Hr]. rewrite (IH x Hx), (IHr Hr). reflexivity.
Qed.
