(* C19 — property theorems only.  Every theorem is closed by [exact] of a lemma proved in
   Proofs.v / GenProofs.v and followed by [Print Assumptions].

   The objects: [step key s o] is one call on the model = the GENERATED Lua script
   (coq/gen/Lua_lock.v, Lua_del.v) run atomically on the Redis store model + the Go wrapper.
   [s] is ANY state: any store content (other keys, a foreign value under the lock key, expired
   leftovers), any number of RedisLock instances.  Hypotheses: the instances' ids are pairwise
   distinct ([NoDup (ids s)]) and their `seconds` are uint32 values ([secs_ok]).
   Concurrent calls: Redis runs each script atomically and a call touches nothing else, so
   concurrent Acquire/Release attempts are some sequence of steps; the theorems hold for all. *)
From Coq Require Import List ZArith String Bool.
From GZ Require Import Lib.RedisStore C19.Model C19.GenProofs C19.Proofs C19.ProofsMore.
From GZgen Require Lua_lock Lua_del.
Import ListNotations.
Open Scope string_scope.
Open Scope Z_scope.

(* What the two generated scripts compute, for every store and every argument. *)
Theorem lockscript_meaning : forall st key id px,
  eval Lua_lock.script [key] [BStr id; BInt px] st =
  if px <=? 0 then (RErr EExpire, st) else
  let taken := store_put st key (mkEntry (BStr id) (Some (rnow st + px))) in
  match lookup st key with
  | None => (RStatus "OK", taken)
  | Some e => if bulk_eqb (evalue e) (BStr id) then (RBulk (BStr "OK"), taken) else (RNil, st)
  end.
Proof. exact lock_script_spec. Qed.
Print Assumptions lockscript_meaning.

Theorem delscript_meaning : forall st key id,
  eval Lua_del.script [key] [BStr id] st =
  match lookup st key with
  | Some e => if bulk_eqb (evalue e) (BStr id) then (RInt 1, store_del st key) else (RInt 0, st)
  | None => (RInt 0, st)
  end.
Proof. exact del_script_spec. Qed.
Print Assumptions delscript_meaning.

(* On every history, from every state, the answers of the lock are those of the lease
   specification [sp_step] (Model.v): a holder and its expiry time, nothing else. *)
Theorem lock_refines_lease_spec : forall key ops s, run key s ops = sp_run (abs key s) ops.
Proof. exact lock_refines_spec. Qed.
Print Assumptions lock_refines_lease_spec.

(* MUTUAL EXCLUSION.
   (a) in no state do two different instances hold the key;
   (b) Acquire by instance i answers true iff the key is free (never set, released or expired)
       or already held by i itself; on success i holds it with a fresh lease (re-acquiring
       refreshes), the clock and all other keys are untouched; on refusal NOTHING changes, in
       particular the current holder keeps its lease;
   (c) over histories: after a successful Acquire by i, for as long as less than the lease
       has elapsed and i itself neither releases nor re-acquires (and nobody writes the key
       behind the lock's back), i still holds the key and EVERY Acquire and Release attempted by
       any other instance, however many and in whatever order, was answered false. *)
Theorem mutual_exclusion : forall key s,
  NoDup (ids s) -> secs_ok s ->
  (forall i j li lj,
      nth_error (insts s) i = Some li -> nth_error (insts s) j = Some lj ->
      held_by key s (iid li) = true -> held_by key s (iid lj) = true -> i = j) /\
  (forall i l, nth_error (insts s) i = Some l ->
      let s' := fst (step key s (OAcquire i)) in
      let ok := key_free key s || held_by key s (iid l) in
      snd (step key s (OAcquire i)) = RB ok false /\
      insts s' = insts s /\
      (if ok
       then seen key s' = Some (mkEntry (BStr (iid l)) (Some (rnow (store s) + lease (isecs l))))
            /\ rnow (store s') = rnow (store s)
            /\ (forall k, k <> key -> lookup (store s') k = lookup (store s) k)
       else s' = s)) /\
  (forall i l ops, nth_error (insts s) i = Some l ->
      snd (step key s (OAcquire i)) = RB true false ->
      forallb (quiet i) ops = true -> elapsed ops < lease (isecs l) ->
      let s1 := fst (step key s (OAcquire i)) in
      held_by key (final key s1 ops) (iid l) = true /\
      all_refused (List.length (insts s)) ops (run key s1 ops)).
Proof. exact mutual_exclusion_all. Qed.
Print Assumptions mutual_exclusion.

(* LEASE LENGTH: the lease is exactly seconds*1000 + 500 ms.  After a successful Acquire by i
   and any quiet history that took [elapsed ops] ms in total, d more ms later i holds the key
   iff [before incl (elapsed + d) (seconds*1000 + 500)], and otherwise the key is free:
   elapsed + d < seconds*1000+500 under miniredis' convention (expiry_inclusive = true),
   elapsed + d <= seconds*1000+500 under real Redis' (false: a key lives through the
   millisecond at which its TTL reaches 0).  Both conventions are covered: [s] is any state. *)
Theorem lease_length : forall key s i l ops d,
  NoDup (ids s) -> secs_ok s -> nth_error (insts s) i = Some l ->
  snd (step key s (OAcquire i)) = RB true false ->
  forallb (quiet i) ops = true -> elapsed ops < lease (isecs l) ->
  let s1 := fst (step key s (OAcquire i)) in
  let s3 := fst (step key (final key s1 ops) (OAdvance d)) in
  let incl := expiry_inclusive (store s) in
  lease (isecs l) = isecs l * 1000 + 500 /\
  held_by key s3 (iid l) = before incl (elapsed ops + d) (isecs l * 1000 + 500) /\
  key_free key s3 = negb (before incl (elapsed ops + d) (isecs l * 1000 + 500)).
Proof. exact lease_is_exact. Qed.
Print Assumptions lease_length.

(* ONLY THE HOLDER RELEASES.
   (a) Release by i answers true iff i is the current holder; then the key is free and nothing
       else changed; otherwise it answers false and NOTHING changes;
   (b) in particular a (late) Release by i while another instance j holds the key - e.g. i's
       lease expired and j acquired since - leaves the state, hence j's lock, untouched. *)
Theorem only_holder_releases : forall key s,
  NoDup (ids s) ->
  (forall i l, nth_error (insts s) i = Some l ->
      let s' := fst (step key s (ORelease i)) in
      let mine := held_by key s (iid l) in
      snd (step key s (ORelease i)) = RB mine false /\
      insts s' = insts s /\
      (if mine
       then key_free key s' = true /\ rnow (store s') = rnow (store s)
            /\ (forall k, k <> key -> lookup (store s') k = lookup (store s) k)
       else s' = s)) /\
  (forall i j li lj,
      nth_error (insts s) i = Some li -> nth_error (insts s) j = Some lj -> i <> j ->
      held_by key s (iid lj) = true ->
      step key s (ORelease i) = (s, RB false false)).
Proof. exact only_holder_releases_all. Qed.
Print Assumptions only_holder_releases.

(* MUTUAL EXCLUSION AT EVERY INSTANT, ALL INTERLEAVINGS.  Take any state with pairwise distinct
   ids and ANY history [kops] over ANY keys: Acquire / Release / SetExpire by any instances in any
   order (= every interleaving of concurrent calls, Redis runs a script atomically), clock
   advances forwards or backwards, foreign writes, TTL reads, faulted calls.  In the state
   reached, no key is held by two different instances. *)
Theorem mutex_always : forall kops s key i j li lj,
  NoDup (ids s) ->
  let s' := kfinal s kops in
  nth_error (insts s') i = Some li -> nth_error (insts s') j = Some lj ->
  held_by key s' (iid li) = true -> held_by key s' (iid lj) = true -> i = j.
Proof. exact mutex_always_all. Qed.
Print Assumptions mutex_always.

(* SEVERAL KEYS ON ONE STORE.  In any history in which every operation names its key, what is
   observed on key k (answers and TTL reads) is exactly the lease specification of k run on the
   operations that concern k (its own, clock advances, SetExpire): locks on other keys do not
   interfere.  This is the statement Check.prop_ok evaluates per key. *)
Theorem keys_independent : forall k kops s,
  proj_obs k kops (krun s kops) = sp_run (abs k s) (proj_ops k kops).
Proof. exact keys_independent_all. Qed.
Print Assumptions keys_independent.

(* A STORE FAULT IS NEVER "ACQUIRED" / "RELEASED".  If the command of an Acquire (rel = false) or
   Release (rel = true) is answered [r] by a faulty store instead of being executed, nothing
   changes; an error reply is reported as (false, error); and whatever the reply - nil, a number,
   any string - the call answers false, unless the reply is literally the success reply
   ("OK" resp. 1), which no wrapper could tell from success. *)
Theorem fault_is_never_success : forall key s i rel r l,
  nth_error (insts s) i = Some l ->
  fst (step key s (OFault i rel r)) = s /\
  (forall e, r = RErr e -> snd (step key s (OFault i rel r)) = RB false true) /\
  (forged_success rel r = false -> exists e, snd (step key s (OFault i rel r)) = RB false e).
Proof. exact fault_step_all. Qed.
Print Assumptions fault_is_never_success.

(* THE LEASE EXPRESSION.  The model computes seconds*1000+500 in Z (the property's value) for the
   uint32 `seconds` (SetExpire converts with uint32(): [to_uint32_in_range]); the Go expression
   int(seconds)*millisPerSecond+tolerance is evaluated in int: it stays below 2^63, so it is exact
   on 64-bit platforms for every uint32; it exceeds a 32-bit int from seconds = 2147484 on and a
   uint32 from 4294967 on (seeded C19-3: Pinned.lease_in_uint32_refuted). *)
Theorem lease_range : forall secs, 0 <= secs < 4294967296 ->
  lease secs = secs * 1000 + 500 /\ 0 < lease secs < 2 ^ 63 /\
  (lease secs < 2 ^ 31 <-> secs <= 2147483) /\
  (lease secs < 2 ^ 32 <-> secs <= 4294966).
Proof. exact lease_range_all. Qed.
Print Assumptions lease_range.

Theorem to_uint32_in_range : forall z, 0 <= to_uint32 z < 4294967296.
Proof. exact to_uint32_range. Qed.
Print Assumptions to_uint32_in_range.

(* THE LEASE DOES NOT DEPEND ON THE REQUEST CONTEXT.  AcquireCtx with a live context - no deadline,
   or a deadline any number of ms away, closer than the lease or not - is Acquire: same answer, same
   state; and whenever it succeeds (first acquisition or the holder's refresh) the key's TTL read
   right after is seconds*1000+500 exactly.  (Seeded C19-7 capped it: Pinned.lease_capped_by_context_refuted.) *)
Theorem lease_independent_of_context : forall key s i dl,
  step key s (OAcquireCtx i dl) = step key s (OAcquire i).
Proof. exact lease_independent_of_context_all. Qed.
Print Assumptions lease_independent_of_context.

Theorem context_lease_exact : forall key s i l dl,
  NoDup (ids s) -> secs_ok s -> nth_error (insts s) i = Some l ->
  snd (step key s (OAcquireCtx i dl)) = RB true false ->
  snd (step key (fst (step key s (OAcquireCtx i dl))) OTtl) = RT (Some (Some (isecs l * 1000 + 500))).
Proof. exact ctx_lease_exact_all. Qed.
Print Assumptions context_lease_exact.

(* ---- non-vacuity: concrete histories meeting the hypotheses ---- *)
Definition ex_key := BStr "lk".
Definition ex_s := fst (step ex_key (init false ["idA"; "idB"; "idC"]) (OSetExpire 0 2)).

Example ex_hyps : NoDup (ids ex_s) /\ secs_ok ex_s /\
  nth_error (insts ex_s) 0 = Some (mkInst "idA" 2) /\
  snd (step ex_key ex_s (OAcquire 0)) = RB true false.
Proof.
  repeat split.
  - repeat constructor; cbn; intuition discriminate.
  - repeat constructor; cbn; discriminate.
Qed.

(* real-Redis convention (expiry_inclusive = false).  B and C hammer the lock for 2499 ms: all
   refused; A still holds; 2 ms later (2501 > 2500) B gets it,
   and A's late Release is answered false and does not free B's lock *)
Definition ex_ops := [OAcquire 1; ORelease 2; OAdvance 2000; OAcquire 2; OSetExpire 1 9; ORelease 1; OAdvance 499; OAcquire 1].
Example ex_quiet : forallb (quiet 0) ex_ops = true /\ elapsed ex_ops = 2499 /\ lease 2 = 2500.
Proof. repeat split. Qed.
Example ex_run :
  run ex_key ex_s (OAcquire 0 :: ex_ops ++ [OAdvance 2; OAcquire 1; ORelease 0; OAcquire 2; OAcquire 1; ORelease 1; ORelease 1])
  = [RB true false; RB false false; RB false false; RU; RB false false; RU; RB false false; RU; RB false false;
     RU; RB true false; RB false false; RB false false; RB true false; RB true false; RB false false].
Proof. vm_compute. reflexivity. Qed.

(* the boundary millisecond under the two conventions: at elapsed = lease exactly *)
Example ex_boundary :
  run ex_key (fst (step ex_key (init true ["idA"; "idB"] ) (OSetExpire 0 2))) [OAcquire 0; OAdvance 2500; OAcquire 1] = [RB true false; RU; RB true false] /\
  run ex_key (fst (step ex_key (init false ["idA"; "idB"]) (OSetExpire 0 2))) [OAcquire 0; OAdvance 2500; OAcquire 1] = [RB true false; RU; RB false false].
Proof. vm_compute. split; reflexivity. Qed.

(* two keys, a fault and a TTL read in one history (miniredis convention) *)
Definition ex_k2 := BStr "other key".
Example ex_two_keys :
  krun (init true ["idA"; "idB"; "idC"])
       [(ex_key, OSetExpire 0 4294968); (ex_key, OAcquire 0); (ex_key, OTtl); (ex_k2, OAcquire 2); (ex_key, OAcquire 1);
        (ex_key, OFault 1 false (RErr EConn)); (ex_key, OFault 0 true (RBulk (BStr "1"))); (ex_k2, OTtl);
        (ex_key, OAdvance 500); (ex_k2, OAcquire 1); (ex_key, ORelease 0)]
  = [RU; RB true false; RT (Some (Some 4294968500)); RB true false; RB false false;
     RB false true; RB false false; RT (Some (Some 500)); RU; RB true false; RB true false].
Proof. vm_compute. reflexivity. Qed.
