(* C19 — pinned wrong variants and the hypotheses that cannot be dropped, each refuted by a
   concrete history (vm_compute).  The variant scripts are real Lua (translate/pinned/*.lua)
   translated by the same translator as the scripts of the tree. *)
From Coq Require Import List ZArith String Bool.
From GZ Require Import Lib.RedisStore C19.Model.
From GZgen Require Lua_lock Lua_del LuaPin_lock_refresh_expire LuaPin_del_unconditional.
Import ListNotations.
Open Scope string_scope.
Open Scope Z_scope.

Section Variant.
  Variable lockS delS : list lval -> list lval -> M lval.
  Variable leasef : Z -> option Z -> Z.      (* seconds, ms left until the context's deadline *)

  Definition v_acq (key : bulk) (s : state) (i : nat) (dl : option Z) : state * obs :=
    match nth_error (insts s) i with
    | Some l => let '(r, st') := eval lockS [key] [BStr (iid l); BInt (leasef (isecs l) dl)] (store s) in
                (mkState st' (insts s), acquire_reply r)
    | None => (s, RU)
    end.

  Definition v_step (key : bulk) (s : state) (o : op) : state * obs :=
    match o with
    | OAcquire i => v_acq key s i None
    | OAcquireCtx i dl => v_acq key s i dl
    | ORelease i =>
      match nth_error (insts s) i with
      | Some l => let '(r, st') := eval delS [key] [BStr (iid l)] (store s) in
                  (mkState st' (insts s), release_reply r)
      | None => (s, RU)
      end
    | _ => step key s o
    end.

  Fixpoint v_run (key : bulk) (s : state) (ops : list op) : list obs :=
    match ops with
    | [] => []
    | o :: ops' => let '(s', r) := v_step key s o in r :: v_run key s' ops'
    end.
End Variant.

(* the variant machinery instantiated with today's scripts and lease IS the model *)
Lemma variant_today key s o : v_step Lua_lock.script Lua_del.script (fun secs _ => lease secs) key s o = step key s o.
Proof.
  destruct o as [i|i| | | | | |i dl]; try reflexivity; cbn [v_step step]; unfold v_acq;
    (destruct (nth_error (insts s) i) as [l|]; [|reflexivity]); unfold acquire, release;
    match goal with |- context [eval ?sc ?a ?b ?c] => destruct (eval sc a b c) end; reflexivity.
Qed.

Definition k := BStr "lk".
Definition three := init true ["idA"; "idB"; "idC"].
Definition spec_of (ops : list op) := sp_run (abs k three) ops.

(* seeded C19-1: the holder's refresh uses EXPIRE with the millisecond value: the refreshed
   lease is 1000 times too long; after the configured 5.5 s nobody else gets the lock *)
Definition h1 := [OSetExpire 0 5; OAcquire 0; OAcquire 0; OTtl; OAdvance 5501; OAcquire 1].
Theorem refresh_by_expire_refuted :
  v_run LuaPin_lock_refresh_expire.script Lua_del.script (fun secs _ => lease secs) k three h1
    = [RU; RB true false; RB true false; RT (Some (Some 5500000)); RU; RB false false] /\
  spec_of h1 = [RU; RB true false; RB true false; RT (Some (Some 5500)); RU; RB true false].
Proof. vm_compute. split; reflexivity. Qed.

(* seeded C19-2: Release without the owner check: the expired holder's late Release frees the
   new holder's lock and a third instance gets in *)
Definition h2 := [OSetExpire 0 1; OAcquire 0; OAdvance 1500; OAcquire 1; ORelease 0; OAcquire 2].
Theorem release_without_owner_check_refuted :
  v_run Lua_lock.script LuaPin_del_unconditional.script (fun secs _ => lease secs) k three h2
    = [RU; RB true false; RU; RB true false; RB true false; RB true false] /\
  spec_of h2 = [RU; RB true false; RU; RB true false; RB false false; RB false false].
Proof. vm_compute. split; reflexivity. Qed.

(* seeded C19-3: the lease computed in uint32 wraps for seconds >= 4294967: SetExpire(4294968)
   gives 1204 ms instead of 4294968500 ms, and another instance acquires inside the lease *)
Definition lease_u32 (secs : Z) : Z := (secs * 1000 + 500) mod 4294967296.
Definition h3 := [OSetExpire 0 4294968; OAcquire 0; OTtl; OAdvance 1204; OAcquire 1].
Theorem lease_in_uint32_refuted :
  v_run Lua_lock.script Lua_del.script (fun secs _ => lease_u32 secs) k three h3
    = [RU; RB true false; RT (Some (Some 1204)); RU; RB true false] /\
  spec_of h3 = [RU; RB true false; RT (Some (Some 4294968500)); RU; RB false false] /\
  (forall secs, 0 <= secs <= 4294966 -> lease_u32 secs = secs * 1000 + 500).
Proof.
  split; [vm_compute; reflexivity|]. split; [vm_compute; reflexivity|].
  intros secs H. unfold lease_u32. apply Z.mod_small. split.
  - apply Z.add_nonneg_nonneg; [apply Z.mul_nonneg_nonneg; [apply H|]|]; discriminate.
  - apply Z.le_lt_trans with (4294966 * 1000 + 500); [|reflexivity].
    apply Z.add_le_mono_r. apply Z.mul_le_mono_nonneg_r; [discriminate|apply H].
Qed.

(* the hypothesis "ids are pairwise distinct" cannot be dropped: two RedisLock objects with the
   SAME id both "hold" the key (the second Acquire is taken for a refresh) and either one's
   Release frees the other's lock *)
Definition twins := init true ["same"; "same"; "idC"].
Definition h4 := [OAcquire 0; OAcquire 1; ORelease 1; OAcquire 2; ORelease 0].
Theorem equal_ids_refuted :
  run k twins h4 = [RB true false; RB true false; RB true false; RB true false; RB false false] /\
  (let s := final k twins [OAcquire 0; OAcquire 1] in
   exists i j li lj, i <> j /\ nth_error (insts s) i = Some li /\ nth_error (insts s) j = Some lj /\
                     held_by k s (iid li) = true /\ held_by k s (iid lj) = true).
Proof.
  split; [vm_compute; reflexivity|].
  exists 0%nat, 1%nat, (mkInst "same" 0), (mkInst "same" 0).
  repeat split; try reflexivity. discriminate.
Qed.

(* seeded C19-7: AcquireCtx caps the lease at the time left until the context's deadline + 500 ms.
   SetExpire(10), a request context with 2 s left: the holder is told (true, nil) but the key lives
   2500 ms instead of 10500; a refresh SHRINKS a full lease; 3 s later another instance acquires
   inside the configured lease and the first holder's Release answers false. *)
Definition lease_capped (secs : Z) (dl : option Z) : Z :=
  match dl with Some d => Z.min (lease secs) (Z.max d 0 + 500) | None => lease secs end.
Definition h5 := [OSetExpire 0 10; OAcquireCtx 0 (Some 2000); OTtl; OAdvance 3000; OAcquire 1; ORelease 0].
Definition h6 := [OSetExpire 0 10; OAcquire 0; OTtl; OAcquireCtx 0 (Some 2000); OTtl].
Theorem lease_capped_by_context_refuted :
  v_run Lua_lock.script Lua_del.script lease_capped k three h5
    = [RU; RB true false; RT (Some (Some 2500)); RU; RB true false; RB false false] /\
  spec_of h5 = [RU; RB true false; RT (Some (Some 10500)); RU; RB false false; RB true false] /\
  v_run Lua_lock.script Lua_del.script lease_capped k three h6
    = [RU; RB true false; RT (Some (Some 10500)); RB true false; RT (Some (Some 2500))] /\
  spec_of h6 = [RU; RB true false; RT (Some (Some 10500)); RB true false; RT (Some (Some 10500))].
Proof. vm_compute. repeat split; reflexivity. Qed.
