(* C19 — what the GENERATED scripts (coq/gen/Lua_lock.v, Lua_del.v) compute, proved against
   whatever lockscript.lua / delscript.lua say in the tree today. *)
From Coq Require Import List ZArith String Bool Lia ZifyBool.
From GZ Require Import Lib.RedisStore Lib.RedisStoreFacts Lib.LuaExec.
From GZgen Require Lua_lock Lua_del C19Consts.
Import ListNotations.
Open Scope Z_scope.

(* redislock.go constants as they are in the tree today: the property text says "the configured
   seconds plus 500 ms"; ids are 16 random alphanumerics (62^16 values) *)
Lemma consts_today : C19Consts.gen_tolerance = 500 /\ C19Consts.gen_millisPerSecond = 1000.
Proof. split; reflexivity. Qed.

Lemma id_length_today : 16 <= C19Consts.gen_randomLen.
Proof. discriminate. Qed.

(* The two script lemmas are proved by SYMBOLIC EXECUTION of whatever the generated scripts are today
   (Lib/LuaExec.v); nothing in the proofs depends on the text of the scripts (locals for the holder / key /
   id, exchanged operands of == or ~=, exchanged branches, early returns, lower-case commands ... are
   re-proved as they are: translate/neutral/*.lua, `python3 translate/neutraltest.py`). *)

(* lockscript.lua: refresh when the caller's id is stored, otherwise SET NX; always PX px *)
Definition lock_script_meets (script : list lval -> list lval -> M lval) : Prop :=
  forall st key id px,
  eval script [key] [BStr id; BInt px] st =
  if px <=? 0 then (RErr EExpire, st) else
  let taken := store_put st key (mkEntry (BStr id) (Some (rnow st + px))) in
  match lookup st key with
  | None => (RStatus "OK", taken)
  | Some e => if bulk_eqb (evalue e) (BStr id) then (RBulk (BStr "OK"), taken) else (RNil, st)
  end.

Ltac lock_script_tac := intros st key id px; lua_exec; lua_finish.

Lemma lock_script_today : lock_script_meets Lua_lock.script.
Proof. lock_script_tac. Qed.

Lemma lock_script_spec st key id px :
  eval Lua_lock.script [key] [BStr id; BInt px] st =
  if px <=? 0 then (RErr EExpire, st) else
  let taken := store_put st key (mkEntry (BStr id) (Some (rnow st + px))) in
  match lookup st key with
  | None => (RStatus "OK", taken)
  | Some e => if bulk_eqb (evalue e) (BStr id) then (RBulk (BStr "OK"), taken) else (RNil, st)
  end.
Proof. exact (lock_script_today st key id px). Qed.

(* delscript.lua: DEL only when the caller's id is stored *)
Definition del_script_meets (script : list lval -> list lval -> M lval) : Prop :=
  forall st key id,
  eval script [key] [BStr id] st =
  match lookup st key with
  | Some e => if bulk_eqb (evalue e) (BStr id) then (RInt 1, store_del st key) else (RInt 0, st)
  | None => (RInt 0, st)
  end.

Ltac del_script_tac := intros st key id; lua_exec; lua_finish.

Lemma del_script_today : del_script_meets Lua_del.script.
Proof. del_script_tac. Qed.

Lemma del_script_spec st key id :
  eval Lua_del.script [key] [BStr id] st =
  match lookup st key with
  | Some e => if bulk_eqb (evalue e) (BStr id) then (RInt 1, store_del st key) else (RInt 0, st)
  | None => (RInt 0, st)
  end.
Proof. exact (del_script_today st key id). Qed.
