(* C19 — what the GENERATED scripts (coq/gen/Lua_lock.v, Lua_del.v) compute, proved against
   whatever lockscript.lua / delscript.lua say in the tree today. *)
From Coq Require Import List ZArith String Bool Lia.
From GZ Require Import Lib.RedisStore Lib.RedisStoreFacts.
From GZgen Require Lua_lock Lua_del C19Consts.
Import ListNotations.
Open Scope Z_scope.

(* redislock.go constants as they are in the tree today: the property text says "the configured
   seconds plus 500 ms"; ids are 16 random alphanumerics (62^16 values) *)
Lemma consts_today : C19Consts.gen_tolerance = 500 /\ C19Consts.gen_millisPerSecond = 1000.
Proof. split; reflexivity. Qed.

Lemma id_length_today : 16 <= C19Consts.gen_randomLen.
Proof. discriminate. Qed.

(* lockscript.lua: refresh when the caller's id is stored, otherwise SET NX; always PX px *)
Lemma lock_script_spec st key id px :
  eval Lua_lock.script [key] [BStr id; BInt px] st =
  if px <=? 0 then (RErr EExpire, st) else
  let taken := store_put st key (mkEntry (BStr id) (Some (rnow st + px))) in
  match lookup st key with
  | None => (RStatus "OK", taken)
  | Some e => if bulk_eqb (evalue e) (BStr id) then (RBulk (BStr "OK"), taken) else (RNil, st)
  end.
Proof.
  unfold eval, Lua_lock.script. index_simp. unfold bind, redis_call, ret. cbn -[bulk_eqb].
  destruct (lookup st key) as [e|] eqn:L; cbn -[bulk_eqb].
  - rewrite ?(bulk_eqb_sym (BStr id) (evalue e)).      (* either operand order of == *)
    destruct (bulk_eqb (evalue e) (BStr id)) eqn:E; cbn -[bulk_eqb]; rewrite ?L;
      destruct (px <=? 0); cbn; reflexivity.
  - rewrite ?L. destruct (px <=? 0); cbn; reflexivity.
Qed.

(* delscript.lua: DEL only when the caller's id is stored *)
Lemma del_script_spec st key id :
  eval Lua_del.script [key] [BStr id] st =
  match lookup st key with
  | Some e => if bulk_eqb (evalue e) (BStr id) then (RInt 1, store_del st key) else (RInt 0, st)
  | None => (RInt 0, st)
  end.
Proof.
  unfold eval, Lua_del.script. index_simp. unfold bind, redis_call, ret. cbn -[bulk_eqb].
  destruct (lookup st key) as [e|] eqn:L; cbn -[bulk_eqb].
  - rewrite ?(bulk_eqb_sym (BStr id) (evalue e)).
    destruct (bulk_eqb (evalue e) (BStr id)) eqn:E; cbn -[bulk_eqb]; rewrite ?L; reflexivity.
  - reflexivity.
Qed.
