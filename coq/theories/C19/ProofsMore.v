(* C19 — follow-up proofs: several keys on one store, history-level mutual exclusion, store
   faults, the range of the lease expression. *)
From Coq Require Import List ZArith String Bool Lia.
From GZ Require Import Lib.RedisStore Lib.RedisStoreFacts C19.Model C19.GenProofs C19.Proofs.
Import ListNotations.
Open Scope Z_scope.

(* ------------------------------------------------------------ operations on another key *)
Lemma abs_other_key k k' s o : bulk_eqb k k' = false -> global_op o = false ->
  abs k (fst (step k' s o)) = abs k s.
Proof.
  intros N G.
  assert (P : forall e, abs k (mkState (store_put (store s) k' e) (insts s)) = abs k s).
  { intro e. unfold abs, store_put; cbn. now rewrite find_put_other. }
  destruct o as [i|i|i secs|ms|v ttl| |i rel r|i dl]; cbn [step global_op] in *; try discriminate.
  - destruct (nth_error (insts s) i) as [l|]; [|reflexivity]. rewrite acquire_step.
    destruct (lease (isecs l) <=? 0); [destruct s; reflexivity|].
    destruct (lookup (store s) k') as [e|]; [destruct (bulk_eqb (evalue e) (BStr (iid l)))|];
      cbn [fst]; try apply P; destruct s; reflexivity.
  - destruct (nth_error (insts s) i) as [l|]; [|reflexivity]. rewrite release_step.
    destruct (lookup (store s) k') as [e|]; [destruct (bulk_eqb (evalue e) (BStr (iid l)))|];
      cbn [fst]; try (destruct s; reflexivity).
    unfold abs, store_del; cbn. now rewrite find_remove_other.
  - cbn [fst]. apply P.
  - reflexivity.
  - destruct (nth_error (insts s) i); reflexivity.
  - destruct (nth_error (insts s) i) as [l|]; [|reflexivity]. rewrite acquire_step.
    destruct (lease (isecs l) <=? 0); [destruct s; reflexivity|].
    destruct (lookup (store s) k') as [e|]; [destruct (bulk_eqb (evalue e) (BStr (iid l)))|];
      cbn [fst]; try apply P; destruct s; reflexivity.
Qed.

(* the state-changing part of SetExpire / Advance does not depend on the key they are filed under *)
Lemma step_global k k' s o : global_op o = true -> step k s o = step k' s o.
Proof. destruct o; cbn; try discriminate; reflexivity. Qed.

(* SEVERAL KEYS: in any history over any keys, what is observed on key k is the lease
   specification of k run on the part of the history that concerns k *)
Lemma keys_independent_all k : forall kops s,
  proj_obs k kops (krun s kops) = sp_run (abs k s) (proj_ops k kops).
Proof.
  induction kops as [|[k' o] kops IH]; intro s; [reflexivity|].
  cbn [krun proj_obs proj_ops]. destruct (step k' s o) as [s' r] eqn:E.
  unfold concerns; cbn [fst snd].
  destruct (bulk_eqb k k') eqn:K; cbn [orb].
  - apply bulk_eqb_eq in K. subst k'. cbn [sp_run]. rewrite step_abs, E. cbn [fst snd]. now rewrite IH.
  - destruct (global_op o) eqn:G.
    + cbn [sp_run]. rewrite step_abs, (step_global k k' s o G), E. cbn [fst snd]. now rewrite IH.
    + rewrite IH. f_equal. rewrite <- (abs_other_key k k' s o K G), E. reflexivity.
Qed.

(* ------------------------------------------------------------ mutual exclusion at every instant *)
Lemma kfinal_ids : forall kops s, ids (kfinal s kops) = ids s.
Proof.
  induction kops as [|[k o] kops IH]; intro s; cbn [kfinal]; [reflexivity|]. now rewrite IH, step_ids.
Qed.

Lemma mutex_always_all : forall kops s key i j li lj,
  NoDup (ids s) ->
  let s' := kfinal s kops in
  nth_error (insts s') i = Some li -> nth_error (insts s') j = Some lj ->
  held_by key s' (iid li) = true -> held_by key s' (iid lj) = true -> i = j.
Proof.
  intros kops s key i j li lj ND s' Hi Hj H1 H2.
  apply (no_two_holders key s' i j li lj); auto. unfold s'. now rewrite kfinal_ids.
Qed.

(* ------------------------------------------------------------ store faults *)
Lemma fault_step_all : forall key s i rel r l,
  nth_error (insts s) i = Some l ->
  fst (step key s (OFault i rel r)) = s /\
  (forall e, r = RErr e -> snd (step key s (OFault i rel r)) = RB false true) /\
  (forged_success rel r = false -> exists e, snd (step key s (OFault i rel r)) = RB false e).
Proof.
  intros key s i rel r l Hn. cbn [step]. rewrite Hn. cbn [fst snd]. split; [reflexivity|]. split.
  - intros e ->. apply fault_error_is_error.
  - apply fault_not_success.
Qed.

(* ------------------------------------------------------------ the lease expression *)
(* int(seconds)*millisPerSecond + tolerance, seconds a uint32: the model computes it in Z; the
   Go expression is evaluated in int.  It never overflows a 64-bit int; on a platform with a
   32-bit int it would from seconds = 2147484 on. *)
Lemma lease_range_all : forall secs, 0 <= secs < 4294967296 ->
  lease secs = secs * 1000 + 500 /\ 0 < lease secs < 2 ^ 63 /\
  (lease secs < 2 ^ 31 <-> secs <= 2147483) /\
  (lease secs < 2 ^ 32 <-> secs <= 4294966).
Proof. intros secs H. rewrite lease_today. repeat split; lia. Qed.

(* ------------------------------------------------------------ the request context *)
(* AcquireCtx with a live request context - with or without a deadline, however close - is
   Acquire: same answer, same lease (seconds*1000+500 ms from now), same state *)
Lemma lease_independent_of_context_all key s i dl : step key s (OAcquireCtx i dl) = step key s (OAcquire i).
Proof. reflexivity. Qed.

Lemma ctx_lease_exact_all key s i l dl :
  NoDup (ids s) -> secs_ok s -> nth_error (insts s) i = Some l ->
  snd (step key s (OAcquireCtx i dl)) = RB true false ->
  snd (step key (fst (step key s (OAcquireCtx i dl))) OTtl) = RT (Some (Some (isecs l * 1000 + 500))).
Proof.
  intros ND HS Hn Hok. rewrite lease_independent_of_context_all in *.
  destruct (acquire_spec key s i l Hn (secs_ok_nth _ _ _ HS Hn)) as [A [B C]].
  rewrite A in Hok. inversion Hok as [Hok']. rewrite Hok' in C. destruct C as [C1 [C2 C3]].
  set (s' := fst (step key s (OAcquire i))) in *.
  change (snd (step key s' OTtl)) with (RT (pttl (store s') key)).
  unfold pttl. unfold seen in C1. rewrite C1. cbn [eexp]. rewrite C2, lease_today.
  do 3 f_equal. lia.
Qed.

Lemma to_uint32_range z : 0 <= to_uint32 z < 4294967296.
Proof. unfold to_uint32. apply Z.mod_pos_bound. lia. Qed.
