(* C19 — correspondence / property evaluation on histories observed on the implementation.
   Executable only. *)
From Coq Require Import List ZArith String Bool.
From GZ Require Export Lib.CheckLib C19.Model.
Import ListNotations.
Open Scope Z_scope.

Record case := mkCase
  { cids : list string;        (* the random ids of the RedisLock objects, read back from them *)
    cops : list (bulk * op);   (* every operation with the key it works on *)
    cobs : list obs }.         (* per operation: what the implementation returned *)

Definition obs_eqb (a b : obs) : bool :=
  match a, b with
  | RB x e, RB y f => Bool.eqb x y && Bool.eqb e f
  | RT t, RT t' => opt_eqb (opt_eqb Z.eqb) t t'
  | RU, RU => true
  | _, _ => false
  end.

Fixpoint nodup_str (l : list string) : bool :=
  match l with
  | [] => true
  | x :: l' => negb (existsb (String.eqb x) l') && nodup_str l'
  end.

(* the executor runs on miniredis: expiry_inclusive = true *)
(* hypotheses of the theorems on the history, as a boolean: time does not run backwards, the
   faulty store does not forge a success reply, SetExpire arguments are uint32 values.  (Distinct ids are NOT an excuse: "a random id
   per RedisLock object" is part of the mechanism, see prop_ok.) *)
Definition op_wf (ko : bulk * op) : bool :=
  match snd ko with
  | OAdvance ms => 0 <=? ms
  | OPoke _ (Some t) => 0 <? t
  | OFault _ rel r => negb (forged_success rel r)
  | OSetExpire _ secs => (0 <=? secs) && (secs <? 4294967296)
      (* "the configured seconds" of the property are a uint32 value; SetExpire(int) converts with
         uint32(): for other arguments only the correspondence ([agrees]) is checked *)
  | _ => true
  end.
Definition wf (c : case) : bool := forallb op_wf (cops c).

(* the generated scripts + Go wrappers reproduce what the implementation answered *)
Definition agrees (c : case) : bool :=
  list_eqb obs_eqb (krun (init true (cids c)) (cops c)) (cobs c).

(* a faulted call is never a success, and an error reply is reported as an error (judged on the
   implementation's own answers, without the model) *)
Fixpoint faults_ok (kops : list (bulk * op)) (rs : list obs) : bool :=
  match kops, rs with
  | (_, OFault _ _ r) :: kops', x :: rs' =>
    match x with
    | RB b e => negb b && match r with RErr _ => e | _ => true end
    | _ => false
    end && faults_ok kops' rs'
  | _ :: kops', _ :: rs' => faults_ok kops' rs'
  | _, _ => true
  end.

(* the property on the implementation's own answers: on every key they are the answers of the
   lease specification (one holder until seconds*1000+500 ms after its last successful Acquire or
   until it releases; only the holder's Release frees; the TTL right after an Acquire is the
   lease computed in Z), run on the part of the history that concerns the key *)
Definition prop_ok (c : case) : bool :=
  (* every RedisLock object got its own id (a collision of 16 random alphanumerics by chance has
     probability < 2^-90 per pair; objects sharing an id are not excluded from each other:
     Pinned.equal_ids_refuted) *)
  nodup_str (cids c) &&
  if wf c then
    forallb (fun k => list_eqb obs_eqb (sp_run (abs k (init true (cids c))) (proj_ops k (cops c)))
                                        (proj_obs k (cops c) (cobs c)))
            (map fst (cops c))
    && faults_ok (cops c) (cobs c)
    && Nat.eqb (List.length (cops c)) (List.length (cobs c))
  else true.

Definition model_obs (c : case) : list obs := krun (init true (cids c)) (cops c).
