(* C19 — correspondence / property evaluation on histories observed on the implementation.
   Executable only. *)
From Coq Require Import List ZArith String Bool.
From GZ Require Export Lib.CheckLib C19.Model.
Import ListNotations.
Open Scope Z_scope.

Record case := mkCase
  { ckey : bulk;
    cids : list string;        (* the random ids of the RedisLock objects, read back from them *)
    cops : list op;
    cobs : list obs }.         (* per operation: what the implementation returned *)

Definition obs_eqb (a b : obs) : bool :=
  match a, b with
  | RB x e, RB y f => Bool.eqb x y && Bool.eqb e f
  | RU, RU => true
  | _, _ => false
  end.

Fixpoint nodup_str (l : list string) : bool :=
  match l with
  | [] => true
  | x :: l' => negb (existsb (String.eqb x) l') && nodup_str l'
  end.

(* the executor runs on miniredis: expiry_inclusive = true *)
(* hypotheses of the theorems, as a boolean: distinct ids, time does not run backwards *)
Definition op_wf (o : op) : bool :=
  match o with OAdvance ms => 0 <=? ms | OPoke _ (Some t) => 0 <? t | _ => true end.
Definition wf (c : case) : bool := nodup_str (cids c) && forallb op_wf (cops c).

(* the generated scripts + Go wrappers reproduce what the implementation answered *)
Definition agrees (c : case) : bool :=
  list_eqb obs_eqb (run (ckey c) (init true (cids c)) (cops c)) (cobs c).

(* the property on the implementation's own answers: they are the answers of the lease
   specification (one holder until seconds*1000+500 ms after its last successful Acquire or
   until it releases; only the holder's Release frees) *)
Definition prop_ok (c : case) : bool :=
  if wf c then list_eqb obs_eqb (sp_run (abs (ckey c) (init true (cids c))) (cops c)) (cobs c)
  else true.

Definition model_obs (c : case) : list obs := run (ckey c) (init true (cids c)) (cops c).
