(* C19 — Redis lock.  Executable model only (no proofs).
   The atomic core is GENERATED from lockscript.lua / delscript.lua (coq/gen/Lua_lock.v,
   Lua_del.v, translate/lua2coq.py); this file adds the Go wrappers of
   core/stores/redis/redislock.go: argument construction (id, seconds*1000+tolerance) and the
   mapping of the script reply to (bool, error).

   Concurrency: Redis executes a script atomically, so concurrent Acquire/Release calls of
   several RedisLock instances (each call = exactly one EVAL and no other shared state) are
   executed in SOME sequential order; a history below is that order.  All theorems quantify
   over every history, hence over every interleaving of concurrent calls. *)
From Coq Require Import List ZArith String Bool.
From GZ Require Export Lib.RedisStore.
From GZgen Require Lua_lock Lua_del C19Consts.
Import ListNotations.
Open Scope Z_scope.

(* redislock.go constants, re-extracted from the source on every run (coq/gen/C19Consts.v);
   C19/GenProofs.v proves that today's values are the property's (500 ms, 1000 ms/s) *)
Definition tolerance : Z := C19Consts.gen_tolerance.          (* ms *)
Definition millisPerSecond : Z := C19Consts.gen_millisPerSecond.

(* one RedisLock object: its random id (case data: what stringx.Randn produced) and the
   `seconds` field (uint32, 0 until SetExpire is called) *)
Record inst := mkInst { iid : string; isecs : Z }.

Record state := mkState { store : rstate; insts : list inst }.

Inductive op :=
| OAcquire (i : nat)
| ORelease (i : nat)
| OSetExpire (i : nat) (seconds : Z)       (* atomic.StoreUint32(&rl.seconds, uint32(seconds)) *)
| OAdvance (ms : Z)                        (* time passes *)
| OPoke (v : bulk) (ttl : option Z)        (* a foreign client writes the key directly *)
| OTtl                                     (* observe the key's remaining time to live (PTTL) *)
| OFault (i : nat) (rel : bool) (r : reply)
| OAcquireCtx (i : nat) (deadline : option Z).
      (* AcquireCtx with a request context: [deadline] = ms left until the context's deadline (None:
         no deadline), the context being alive during the call.  The lease does NOT depend on it:
         the step is OAcquire's (Props.lease_independent_of_context). *)
      (* STORE FAULT: instance i's Acquire (rel = false) / Release (rel = true) whose command is
         answered [r] by a faulty store / connection instead of being executed *)

Inductive obs :=
| RB (b : bool) (error : bool)             (* (bool, err != nil) of Acquire / Release *)
| RT (t : option (option Z))               (* None: absent; Some None: no expiry; Some (Some ms) *)
| RU.                                      (* nothing to observe *)

(* the PX argument: int(seconds)*millisPerSecond + tolerance *)
Definition lease (seconds : Z) : Z := seconds * millisPerSecond + tolerance.
Definition to_uint32 (z : Z) : Z := z mod 4294967296.

(* AcquireCtx: what the wrapper makes of the store's reply *)
Definition acquire_reply (r : reply) : obs :=
  match r with
  | RNil => RB false false                      (* errors.Is(err, red.Nil) *)
  | RErr _ => RB false true
  | RStatus s | RBulk (BStr s) => RB (String.eqb s "OK") false
  | RBulk (BInt _) | RInt _ => RB false false   (* "unknown reply" *)
  end.

Definition acquire (key : bulk) (l : inst) (st : rstate) : rstate * obs :=
  let '(r, st') := eval Lua_lock.script [key] [BStr (iid l); BInt (lease (isecs l))] st in
  (st', acquire_reply r).

(* ReleaseCtx *)
Definition release_reply (r : reply) : obs :=
  match r with
  | RNil | RErr _ => RB false true              (* err != nil (red.Nil included) *)
  | RInt n => RB (n =? 1) false
  | RBulk _ | RStatus _ => RB false false       (* resp.(int64) fails *)
  end.

Definition release (key : bulk) (l : inst) (st : rstate) : rstate * obs :=
  let '(r, st') := eval Lua_del.script [key] [BStr (iid l)] st in
  (st', release_reply r).

(* a forged reply that the wrapper cannot tell from success *)
Definition forged_success (rel : bool) (r : reply) : bool :=
  if rel then match r with RInt 1 => true | _ => false end
  else match r with RStatus s | RBulk (BStr s) => String.eqb s "OK" | _ => false end.

Fixpoint set_secs (i : nat) (secs : Z) (ls : list inst) : list inst :=
  match ls, i with
  | [], _ => []
  | l :: ls', O => mkInst (iid l) secs :: ls'
  | l :: ls', S i' => l :: set_secs i' secs ls'
  end.

Definition step (key : bulk) (s : state) (o : op) : state * obs :=
  match o with
  | OAcquire i | OAcquireCtx i _ =>
    match nth_error (insts s) i with
    | Some l => let '(st', r) := acquire key l (store s) in (mkState st' (insts s), r)
    | None => (s, RU)
    end
  | ORelease i =>
    match nth_error (insts s) i with
    | Some l => let '(st', r) := release key l (store s) in (mkState st' (insts s), r)
    | None => (s, RU)
    end
  | OSetExpire i secs => (mkState (store s) (set_secs i (to_uint32 secs) (insts s)), RU)
  | OAdvance ms => (mkState (advance (store s) ms) (insts s), RU)
  | OPoke v ttl => (mkState (store_put (store s) key (mkEntry v (exp_after (store s) ttl))) (insts s), RU)
  | OTtl => (s, RT (pttl (store s) key))
  | OFault i rel r =>
    match nth_error (insts s) i with
    | Some _ => (s, if rel then release_reply r else acquire_reply r)
    | None => (s, RU)
    end
  end.

Fixpoint run (key : bulk) (s : state) (ops : list op) : list obs :=
  match ops with
  | [] => []
  | o :: ops' => let '(s', r) := step key s o in r :: run key s' ops'
  end.

Fixpoint final (key : bulk) (s : state) (ops : list op) : state :=
  match ops with
  | [] => s
  | o :: ops' => final key (fst (step key s o)) ops'
  end.

Definition init (incl : bool) (ids : list string) : state :=
  mkState (mkR 0 [] incl) (map (fun id => mkInst id 0) ids).

(* ---------------------------------------------------------------- observations on a state *)
(* the value (and expiry) every client sees at the key now *)
Definition seen (key : bulk) (s : state) : option entry := lookup (store s) key.

Definition held_by (key : bulk) (s : state) (id : string) : bool :=
  match seen key s with Some e => bulk_eqb (evalue e) (BStr id) | None => false end.

Definition key_free (key : bulk) (s : state) : bool :=
  match seen key s with Some _ => false | None => true end.

(* ---------------------------------------------------------------- the lease specification *)
(* abstract state: who holds the key until when, the clock, and each instance's seconds *)
Record astate := mkA { aheld : option (bulk * option Z); anow : Z; ainsts : list inst; aincl : bool }.

Definition a_seen (a : astate) : option (bulk * option Z) :=
  match aheld a with
  | Some (v, Some t) => if before (aincl a) (anow a) t then Some (v, Some t) else None
  | h => h
  end.

Definition sp_step (a : astate) (o : op) : astate * obs :=
  match o with
  | OAcquire i | OAcquireCtx i _ =>
    match nth_error (ainsts a) i with
    | None => (a, RU)
    | Some l =>
      if 0 <? lease (isecs l) then
        let grant := mkA (Some (BStr (iid l), Some (anow a + lease (isecs l)))) (anow a) (ainsts a) (aincl a) in
        match a_seen a with
        | None => (grant, RB true false)
        | Some (v, _) => if bulk_eqb v (BStr (iid l)) then (grant, RB true false)
                         else (a, RB false false)
        end
      else (a, RB false true)                        (* unreachable for uint32 seconds *)
    end
  | ORelease i =>
    match nth_error (ainsts a) i with
    | None => (a, RU)
    | Some l =>
      match a_seen a with
      | Some (v, _) => if bulk_eqb v (BStr (iid l))
                       then (mkA None (anow a) (ainsts a) (aincl a), RB true false)
                       else (a, RB false false)
      | None => (a, RB false false)
      end
    end
  | OSetExpire i secs => (mkA (aheld a) (anow a) (set_secs i (to_uint32 secs) (ainsts a)) (aincl a), RU)
  | OAdvance ms => (mkA (aheld a) (anow a + ms) (ainsts a) (aincl a), RU)
  | OPoke v ttl => (mkA (Some (v, match ttl with Some t => Some (anow a + t) | None => None end))
                        (anow a) (ainsts a) (aincl a), RU)
  | OTtl => (a, RT match a_seen a with
                   | None => None
                   | Some (_, None) => Some None
                   | Some (_, Some t) => Some (Some (t - anow a))
                   end)
  | OFault i rel r =>
    match nth_error (ainsts a) i with
    | Some _ => (a, if rel then release_reply r else acquire_reply r)
    | None => (a, RU)
    end
  end.

Fixpoint sp_run (a : astate) (ops : list op) : list obs :=
  match ops with
  | [] => []
  | o :: ops' => let '(a', r) := sp_step a o in r :: sp_run a' ops'
  end.

(* abstraction of a model state *)
Definition abs (key : bulk) (s : state) : astate :=
  mkA (match find key (rdata (store s)) with Some e => Some (evalue e, eexp e) | None => None end)
      (rnow (store s)) (insts s) (expiry_inclusive (store s)).

(* ---------------------------------------------------------------- several keys on one store *)
(* a history in which every operation names the key it works on (each RedisLock object has
   one key; SetExpire and Advance do not depend on it) *)
Fixpoint krun (s : state) (kops : list (bulk * op)) : list obs :=
  match kops with
  | [] => []
  | (k, o) :: kops' => let '(s', r) := step k s o in r :: krun s' kops'
  end.

Fixpoint kfinal (s : state) (kops : list (bulk * op)) : state :=
  match kops with
  | [] => s
  | (k, o) :: kops' => kfinal (fst (step k s o)) kops'
  end.

Definition global_op (o : op) : bool :=
  match o with OSetExpire _ _ | OAdvance _ => true | _ => false end.

(* the part of a multi-key history that concerns key k: its own operations, clock, SetExpire *)
Definition concerns (k : bulk) (ko : bulk * op) : bool := bulk_eqb k (fst ko) || global_op (snd ko).

Fixpoint proj_ops (k : bulk) (kops : list (bulk * op)) : list op :=
  match kops with
  | [] => []
  | ko :: kops' => if concerns k ko then snd ko :: proj_ops k kops' else proj_ops k kops'
  end.

Fixpoint proj_obs (k : bulk) (kops : list (bulk * op)) (rs : list obs) : list obs :=
  match kops, rs with
  | ko :: kops', r :: rs' => if concerns k ko then r :: proj_obs k kops' rs' else proj_obs k kops' rs'
  | _, _ => []
  end.
