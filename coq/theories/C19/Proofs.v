(* C19 — proofs over the model (generated scripts + Go wrappers). *)
From Coq Require Import List ZArith String Bool Lia.
From GZ Require Import Lib.RedisStore Lib.RedisStoreFacts C19.Model C19.GenProofs.
Import ListNotations.
Open Scope Z_scope.

(* ------------------------------------------------------------ one call = one atomic step *)
Definition taken (key : bulk) (l : inst) (st : rstate) : rstate :=
  store_put st key (mkEntry (BStr (iid l)) (Some (rnow st + lease (isecs l)))).

Lemma acquire_step key l st :
  acquire key l st =
  if lease (isecs l) <=? 0 then (st, RB false true) else
  match lookup st key with
  | None => (taken key l st, RB true false)
  | Some e => if bulk_eqb (evalue e) (BStr (iid l)) then (taken key l st, RB true false)
              else (st, RB false false)
  end.
Proof.
  unfold acquire. rewrite lock_script_spec.
  destruct (lease (isecs l) <=? 0); [reflexivity|]. cbv zeta.
  destruct (lookup st key) as [e|]; [|reflexivity].
  destruct (bulk_eqb (evalue e) (BStr (iid l))); reflexivity.
Qed.

Lemma release_step key l st :
  release key l st =
  match lookup st key with
  | Some e => if bulk_eqb (evalue e) (BStr (iid l)) then (store_del st key, RB true false)
              else (st, RB false false)
  | None => (st, RB false false)
  end.
Proof.
  unfold release. rewrite del_script_spec.
  destruct (lookup st key) as [e|]; [|reflexivity].
  destruct (bulk_eqb (evalue e) (BStr (iid l))); reflexivity.
Qed.

(* ------------------------------------------------------------ refinement of the lease spec *)
Lemma a_seen_abs key s :
  a_seen (abs key s) =
  match lookup (store s) key with Some e => Some (evalue e, eexp e) | None => None end.
Proof.
  unfold a_seen, abs, lookup, live; cbn.
  destruct (find key (rdata (store s))) as [[v [t|]]|]; cbn; try reflexivity.
  destruct (before (expiry_inclusive (store s)) (rnow (store s)) t); reflexivity.
Qed.

Lemma abs_taken key l s :
  abs key (mkState (taken key l (store s)) (insts s)) =
  mkA (Some (BStr (iid l), Some (rnow (store s) + lease (isecs l)))) (rnow (store s)) (insts s) (expiry_inclusive (store s)).
Proof. unfold abs, taken; cbn. now rewrite find_put_same. Qed.

Lemma step_abs key s o :
  sp_step (abs key s) o = (abs key (fst (step key s o)), snd (step key s o)).
Proof.
  destruct o as [i|i|i secs|ms|v ttl| |i rel r|i dl]; cbn [step sp_step].
  - change (ainsts (abs key s)) with (insts s).
    destruct (nth_error (insts s) i) as [l|]; [|reflexivity].
    rewrite acquire_step, a_seen_abs. rewrite Z.ltb_antisym.
    change (anow (abs key s)) with (rnow (store s)).
    destruct (lease (isecs l) <=? 0); cbn [negb]; [destruct s; reflexivity|].
    destruct (lookup (store s) key) as [e|].
    + destruct (bulk_eqb (evalue e) (BStr (iid l))); cbn [fst snd].
      * now rewrite abs_taken.
      * destruct s; reflexivity.
    + cbn [fst snd]. now rewrite abs_taken.
  - change (ainsts (abs key s)) with (insts s).
    destruct (nth_error (insts s) i) as [l|]; [|reflexivity].
    rewrite release_step, a_seen_abs.
    destruct (lookup (store s) key) as [e|].
    + destruct (bulk_eqb (evalue e) (BStr (iid l))); cbn [fst snd].
      * unfold abs, store_del; cbn. now rewrite find_remove_same.
      * destruct s; reflexivity.
    + destruct s; reflexivity.
  - reflexivity.
  - reflexivity.
  - cbn [fst snd]. unfold abs, store_put, exp_after; cbn. rewrite find_put_same. cbn.
    destruct ttl; reflexivity.
  - cbn [fst snd]. rewrite a_seen_abs. unfold pttl.
    destruct (lookup (store s) key) as [[v [t|]]|]; reflexivity.
  - change (ainsts (abs key s)) with (insts s).
    destruct (nth_error (insts s) i); reflexivity.
  - change (ainsts (abs key s)) with (insts s).
    destruct (nth_error (insts s) i) as [l|]; [|reflexivity].
    rewrite acquire_step, a_seen_abs. rewrite Z.ltb_antisym.
    change (anow (abs key s)) with (rnow (store s)).
    destruct (lease (isecs l) <=? 0); cbn [negb]; [destruct s; reflexivity|].
    destruct (lookup (store s) key) as [e|].
    + destruct (bulk_eqb (evalue e) (BStr (iid l))); cbn [fst snd].
      * now rewrite abs_taken.
      * destruct s; reflexivity.
    + cbn [fst snd]. now rewrite abs_taken.
Qed.

Lemma lock_refines_spec key ops : forall s, run key s ops = sp_run (abs key s) ops.
Proof.
  induction ops as [|o ops IH]; intro s; cbn [run sp_run]; [reflexivity|].
  rewrite step_abs. destruct (step key s o) as [s' r]. cbn [fst snd]. now rewrite IH.
Qed.

(* ------------------------------------------------------------ single calls *)
Lemma held_by_seen key s id :
  held_by key s id = true <-> exists e, seen key s = Some e /\ evalue e = BStr id.
Proof.
  unfold held_by. destruct (seen key s) as [e|]; split.
  - intro H. apply bulk_eqb_eq in H. eauto.
  - intros [e' [H1 H2]]. inversion H1; subst. apply bulk_eqb_eq. assumption.
  - discriminate.
  - intros [e' [H1 _]]. discriminate.
Qed.

(* at most one value is stored under the key: two different ids cannot both hold it *)
Lemma one_holder key s id1 id2 :
  held_by key s id1 = true -> held_by key s id2 = true -> id1 = id2.
Proof.
  intros H1 H2. apply held_by_seen in H1. apply held_by_seen in H2.
  destruct H1 as [e1 [A1 B1]]. destruct H2 as [e2 [A2 B2]]. congruence.
Qed.

Lemma lease_today secs : lease secs = secs * 1000 + 500.
Proof. unfold lease, millisPerSecond, tolerance. destruct consts_today as [-> ->]. reflexivity. Qed.

Lemma lease_pos secs : 0 <= secs -> (lease secs <=? 0) = false.
Proof. intro H. rewrite lease_today. apply Z.leb_gt. lia. Qed.

Lemma seen_taken key l s : 0 < lease (isecs l) ->
  seen key (mkState (taken key l (store s)) (insts s)) =
  Some (mkEntry (BStr (iid l)) (Some (rnow (store s) + lease (isecs l)))).
Proof.
  intro H. unfold seen, taken; cbn. rewrite lookup_put_same. unfold live; cbn.
  rewrite before_lt by lia. reflexivity.
Qed.

Lemma acquire_spec key s i l :
  nth_error (insts s) i = Some l -> 0 <= isecs l ->
  let s' := fst (step key s (OAcquire i)) in
  let ok := key_free key s || held_by key s (iid l) in
  snd (step key s (OAcquire i)) = RB ok false /\
  insts s' = insts s /\
  (if ok
   then seen key s' = Some (mkEntry (BStr (iid l)) (Some (rnow (store s) + lease (isecs l))))
        /\ rnow (store s') = rnow (store s)
        /\ (forall k, k <> key -> lookup (store s') k = lookup (store s) k)
   else s' = s).
Proof.
  intros Hn Hs. cbn [step]. rewrite Hn, acquire_step, (lease_pos _ Hs).
  unfold key_free, held_by, seen.
  assert (P : 0 < lease (isecs l)).
  { pose proof (lease_pos _ Hs) as Q. apply Z.leb_gt in Q. exact Q. }
  assert (T : forall k, k <> key -> lookup (taken key l (store s)) k = lookup (store s) k).
  { intros k Hk. unfold taken. apply lookup_put_other. now apply bulk_eqb_neq. }
  destruct (lookup (store s) key) as [e|] eqn:L.
  - destruct (bulk_eqb (evalue e) (BStr (iid l))) eqn:E; cbn.
    + repeat split; auto. pose proof (seen_taken key l s P) as S. unfold seen in S. cbn in S.
      rewrite S. reflexivity.
    + repeat split; auto. destruct s; reflexivity.
  - cbn. repeat split; auto. pose proof (seen_taken key l s P) as S. unfold seen in S. cbn in S.
    rewrite S. reflexivity.
Qed.

Lemma release_spec key s i l :
  nth_error (insts s) i = Some l ->
  let s' := fst (step key s (ORelease i)) in
  let mine := held_by key s (iid l) in
  snd (step key s (ORelease i)) = RB mine false /\
  insts s' = insts s /\
  (if mine
   then key_free key s' = true /\ rnow (store s') = rnow (store s)
        /\ (forall k, k <> key -> lookup (store s') k = lookup (store s) k)
   else s' = s).
Proof.
  intros Hn. cbn [step]. rewrite Hn, release_step. unfold key_free, held_by, seen.
  destruct (lookup (store s) key) as [e|] eqn:L.
  - destruct (bulk_eqb (evalue e) (BStr (iid l))) eqn:E; cbn.
    + repeat split; auto.
      * now rewrite lookup_del_same.
      * intros k Hk. apply lookup_del_other. now apply bulk_eqb_neq.
    + repeat split; auto. destruct s; reflexivity.
  - cbn. repeat split; auto. destruct s; reflexivity.
Qed.

Lemma step_incl key s o :
  expiry_inclusive (store (fst (step key s o))) = expiry_inclusive (store s).
Proof.
  destruct o as [i|i|i secs|ms|v ttl| |i rel r|i dl]; cbn [step]; try reflexivity.
  - destruct (nth_error (insts s) i) as [l|]; [|reflexivity]. rewrite acquire_step.
    destruct (lease (isecs l) <=? 0); [reflexivity|].
    destruct (lookup (store s) key) as [e|]; [destruct (bulk_eqb (evalue e) (BStr (iid l)))|]; reflexivity.
  - destruct (nth_error (insts s) i) as [l|]; [|reflexivity]. rewrite release_step.
    destruct (lookup (store s) key) as [e|]; [destruct (bulk_eqb (evalue e) (BStr (iid l)))|]; reflexivity.
  - destruct (nth_error (insts s) i); reflexivity.
  - destruct (nth_error (insts s) i) as [l|]; [|reflexivity]. rewrite acquire_step.
    destruct (lease (isecs l) <=? 0); [reflexivity|].
    destruct (lookup (store s) key) as [e|]; [destruct (bulk_eqb (evalue e) (BStr (iid l)))|]; reflexivity.
Qed.

Lemma final_incl key : forall ops s,
  expiry_inclusive (store (final key s ops)) = expiry_inclusive (store s).
Proof. induction ops as [|o ops IH]; intro s; cbn [final]; [reflexivity|]. now rewrite IH, step_incl. Qed.

(* ------------------------------------------------------------ histories during a lease *)
Fixpoint elapsed (ops : list op) : Z :=
  match ops with
  | [] => 0
  | OAdvance ms :: ops' => ms + elapsed ops'
  | _ :: ops' => elapsed ops'
  end.

(* operations that leave instance i's lease alone: anything by the other instances, SetExpire
   by anybody, time passing; not i's own Acquire/Release, no foreign write to the key *)
Definition quiet (i : nat) (o : op) : bool :=
  match o with
  | OAcquire j | ORelease j | OAcquireCtx j _ => negb (Nat.eqb j i)
  | OSetExpire _ _ => true
  | OAdvance ms => 0 <=? ms
  | OPoke _ _ => false
  | OTtl => true
  | OFault _ _ _ => true         (* a faulted call never reaches the store *)
  end.

(* every Acquire/Release of an existing instance in the history was answered (false, nil) *)
Fixpoint all_refused (n : nat) (ops : list op) (rs : list obs) : Prop :=
  match ops, rs with
  | o :: ops', r :: rs' =>
    match o with
    | OAcquire j | ORelease j | OAcquireCtx j _ => (j < n)%nat -> r = RB false false
    | OFault j rel rp => (j < n)%nat -> forged_success rel rp = false -> exists e, r = RB false e
    | _ => True
    end /\ all_refused n ops' rs'
  | [], [] => True
  | _, _ => False
  end.

Definition ids (s : state) : list string := map iid (insts s).

Lemma ids_set_secs i secs ls : map iid (set_secs i secs ls) = map iid ls.
Proof.
  revert i. induction ls as [|l ls IH]; intro i; destruct i; cbn; auto. now rewrite IH.
Qed.

Lemma length_set_secs i secs ls : List.length (set_secs i secs ls) = List.length ls.
Proof. revert i. induction ls as [|l ls IH]; intro i; destruct i; cbn; auto. Qed.

Lemma step_ids key s o : ids (fst (step key s o)) = ids s.
Proof.
  unfold ids. destruct o as [i|i|i secs|ms|v ttl| |i rel r|i dl]; cbn [step]; try reflexivity.
  - destruct (nth_error (insts s) i); [|reflexivity]. destruct (acquire key i0 (store s)). reflexivity.
  - destruct (nth_error (insts s) i); [|reflexivity]. destruct (release key i0 (store s)). reflexivity.
  - cbn. apply ids_set_secs.
  - destruct (nth_error (insts s) i); reflexivity.
  - destruct (nth_error (insts s) i); [|reflexivity]. destruct (acquire key i0 (store s)). reflexivity.
Qed.

Lemma other_id s i j id l :
  NoDup (ids s) -> nth_error (ids s) i = Some id -> nth_error (insts s) j = Some l -> j <> i ->
  bulk_eqb (BStr id) (BStr (iid l)) = false.
Proof.
  intros ND Hi Hj Hne. apply bulk_eqb_neq. intro E. inversion E as [E']. apply Hne.
  assert (Hj' : nth_error (ids s) j = Some (iid l)) by (unfold ids; now rewrite nth_error_map, Hj).
  rewrite NoDup_nth_error in ND. apply ND.
  - apply nth_error_Some. congruence.
  - congruence.
Qed.

Definition leased (key : bulk) (s : state) (id : string) (T : Z) : Prop :=
  find key (rdata (store s)) = Some (mkEntry (BStr id) (Some T)).

(* the `seconds` fields are uint32 values *)
Definition secs_ok (s : state) : Prop := Forall (fun l => 0 <= isecs l) (insts s).

Lemma secs_ok_set i secs ls :
  Forall (fun l => 0 <= isecs l) ls -> Forall (fun l => 0 <= isecs l) (set_secs i (to_uint32 secs) ls).
Proof.
  revert i. induction ls as [|l ls IH]; intros i H; destruct i; cbn; auto; inversion H; subst; constructor; auto.
  cbn. unfold to_uint32. apply Z.mod_pos_bound. lia.
Qed.

(* a faulted call is answered false unless the forged reply is indistinguishable from success;
   an error reply is reported as an error *)
Lemma fault_not_success (rel : bool) r : forged_success rel r = false ->
  exists e, (if rel then release_reply r else acquire_reply r) = RB false e.
Proof.
  destruct rel; cbn.
  - destruct r as [|z|b|st|e]; cbn; eauto.
    destruct z as [|p|p]; cbn; eauto. destruct p; cbn; eauto. discriminate.
  - destruct r as [|z|[z|st]|st|e]; cbn; eauto; intros ->; eauto.
Qed.

Lemma fault_error_is_error (rel : bool) e :
  (if rel then release_reply (RErr e) else acquire_reply (RErr e)) = RB false true.
Proof. destruct rel; reflexivity. Qed.

Definition dt (o : op) : Z := match o with OAdvance ms => ms | _ => 0 end.

Lemma quiet_step key i id T s o :
  NoDup (ids s) -> nth_error (ids s) i = Some id -> secs_ok s ->
  leased key s id T -> rnow (store s) < T -> quiet i o = true ->
  let s' := fst (step key s o) in
  leased key s' id T /\ rnow (store s') = rnow (store s) + dt o /\ ids s' = ids s /\
  secs_ok s' /\ List.length (insts s') = List.length (insts s) /\
  match o with
  | OAcquire j | ORelease j | OAcquireCtx j _ => (j < List.length (insts s))%nat -> snd (step key s o) = RB false false
  | OFault j rel rp => (j < List.length (insts s))%nat -> forged_success rel rp = false ->
                       exists e, snd (step key s o) = RB false e
  | _ => True
  end.
Proof.
  intros ND Hi HS HL Hnow Hq.
  assert (Hseen : lookup (store s) key = Some (mkEntry (BStr id) (Some T))).
  { unfold lookup. rewrite HL. unfold live; cbn. now rewrite before_lt. }
  destruct o as [j|j|j secs|ms|v ttl| |j rel rp|j dl]; cbn [quiet] in Hq; cbn [step dt].
  - apply negb_true_iff, Nat.eqb_neq in Hq.
    destruct (nth_error (insts s) j) as [l|] eqn:Hj.
    + rewrite acquire_step, Hseen. cbn [evalue].
      rewrite (other_id s i j id l ND Hi Hj Hq).
      assert (Hl : 0 <= isecs l).
      { unfold secs_ok in HS. rewrite Forall_forall in HS. apply HS. eapply nth_error_In; eauto. }
      rewrite (lease_pos _ Hl). cbn [fst snd]. destruct s; cbn in *.
      repeat split; auto. lia.
    + cbn [fst snd]. repeat split; auto; try lia. intro Hlt. apply nth_error_None in Hj. lia.
  - apply negb_true_iff, Nat.eqb_neq in Hq.
    destruct (nth_error (insts s) j) as [l|] eqn:Hj.
    + rewrite release_step, Hseen. cbn [evalue].
      rewrite (other_id s i j id l ND Hi Hj Hq). cbn [fst snd]. destruct s; cbn in *.
      repeat split; auto. lia.
    + cbn [fst snd]. repeat split; auto; try lia. intro Hlt. apply nth_error_None in Hj. lia.
  - cbn [fst snd]. unfold leased, ids, secs_ok in *; cbn. rewrite ids_set_secs, length_set_secs.
    repeat split; auto; try lia. now apply secs_ok_set.
  - cbn [fst snd]. unfold leased, ids, secs_ok in *; cbn. repeat split; auto.
  - discriminate.
  - cbn [fst snd]. repeat split; auto. lia.
  - destruct (nth_error (insts s) j) as [l|] eqn:Hj; cbn [fst snd].
    + repeat split; auto; try lia. intros _ Hf. now apply fault_not_success.
    + repeat split; auto; try lia. intro Hlt. apply nth_error_None in Hj. lia.
  - apply negb_true_iff, Nat.eqb_neq in Hq.
    destruct (nth_error (insts s) j) as [l|] eqn:Hj.
    + rewrite acquire_step, Hseen. cbn [evalue].
      rewrite (other_id s i j id l ND Hi Hj Hq).
      assert (Hl : 0 <= isecs l).
      { unfold secs_ok in HS. rewrite Forall_forall in HS. apply HS. eapply nth_error_In; eauto. }
      rewrite (lease_pos _ Hl). cbn [fst snd]. destruct s; cbn in *.
      repeat split; auto. lia.
    + cbn [fst snd]. repeat split; auto; try lia. intro Hlt. apply nth_error_None in Hj. lia.
Qed.

Lemma elapsed_nonneg i ops : forallb (quiet i) ops = true -> 0 <= elapsed ops.
Proof.
  induction ops as [|o ops IH]; cbn; [lia|]. intro H. apply andb_true_iff in H. destruct H as [H1 H2].
  specialize (IH H2). destruct o; cbn in H1; try lia; try (apply Z.leb_le in H1; lia).
Qed.

Lemma elapsed_cons o ops : elapsed (o :: ops) = dt o + elapsed ops.
Proof. destruct o; reflexivity. Qed.

Lemma quiet_history key i id T : forall ops s,
  NoDup (ids s) -> nth_error (ids s) i = Some id -> secs_ok s ->
  leased key s id T -> rnow (store s) + elapsed ops < T ->
  forallb (quiet i) ops = true ->
  leased key (final key s ops) id T /\
  rnow (store (final key s ops)) = rnow (store s) + elapsed ops /\
  all_refused (List.length (insts s)) ops (run key s ops).
Proof.
  induction ops as [|o ops IH]; intros s ND Hi HS HL HT HQ.
  - cbn. repeat split; auto. lia.
  - cbn [forallb] in HQ. apply andb_true_iff in HQ. destruct HQ as [Hq HQ].
    pose proof (elapsed_nonneg _ _ HQ) as Hel. rewrite elapsed_cons in HT |- *.
    assert (Hd : 0 <= dt o) by (destruct o; cbn in *; try lia; try (apply Z.leb_le in Hq; lia)).
    assert (Hnow : rnow (store s) < T) by lia.
    destruct (quiet_step key i id T s o ND Hi HS HL Hnow Hq) as [A [B [C [D [E F]]]]].
    cbn [run final all_refused].
    destruct (step key s o) as [s' r] eqn:Hst. cbn [fst snd] in *.
    destruct (IH s') as [A' [B' C']]; auto; try congruence; try lia.
    repeat split; auto; try lia. rewrite <- E. exact C'.
Qed.

(* ------------------------------------------------------------ the property statements *)
Lemma lookup_find st k e : lookup st k = Some e -> find k (rdata st) = Some e.
Proof.
  unfold lookup. destruct (find k (rdata st)) as [e'|]; [|discriminate].
  destruct (live (expiry_inclusive st) (rnow st) e'); [|discriminate]. auto.
Qed.

Lemma held_by_leased key s id T :
  leased key s id T -> held_by key s id = before (expiry_inclusive (store s)) (rnow (store s)) T /\
                       key_free key s = negb (before (expiry_inclusive (store s)) (rnow (store s)) T).
Proof.
  intro HL. unfold held_by, key_free, seen, lookup. rewrite HL. unfold live; cbn.
  destruct (before (expiry_inclusive (store s)) (rnow (store s)) T); cbn; [rewrite String.eqb_refl|]; auto.
Qed.

Lemma no_two_holders key s i j li lj :
  NoDup (ids s) ->
  nth_error (insts s) i = Some li -> nth_error (insts s) j = Some lj ->
  held_by key s (iid li) = true -> held_by key s (iid lj) = true -> i = j.
Proof.
  intros ND Hi Hj H1 H2. pose proof (one_holder _ _ _ _ H1 H2) as E.
  rewrite NoDup_nth_error in ND. apply ND.
  - unfold ids. rewrite map_length. apply nth_error_Some. congruence.
  - unfold ids. rewrite !nth_error_map, Hi, Hj. cbn. congruence.
Qed.

Lemma secs_ok_nth s i l : secs_ok s -> nth_error (insts s) i = Some l -> 0 <= isecs l.
Proof. intros HS Hn. unfold secs_ok in HS. rewrite Forall_forall in HS. apply HS. eapply nth_error_In; eauto. Qed.

Lemma lease_history key s i l ops :
  NoDup (ids s) -> secs_ok s -> nth_error (insts s) i = Some l ->
  snd (step key s (OAcquire i)) = RB true false ->
  forallb (quiet i) ops = true -> elapsed ops < lease (isecs l) ->
  let s1 := fst (step key s (OAcquire i)) in
  let s2 := final key s1 ops in
  leased key s2 (iid l) (rnow (store s) + lease (isecs l)) /\
  rnow (store s2) = rnow (store s) + elapsed ops /\
  all_refused (List.length (insts s)) ops (run key s1 ops).
Proof.
  intros ND HS Hn Hok HQ HE s1 s2.
  destruct (acquire_spec key s i l Hn (secs_ok_nth _ _ _ HS Hn)) as [A [B C]].
  rewrite A in Hok. inversion Hok as [Hok']. rewrite Hok' in C. destruct C as [C1 [C2 C3]].
  fold s1 in B, C1, C2, C3.
  assert (HL : leased key s1 (iid l) (rnow (store s) + lease (isecs l))).
  { unfold leased. apply lookup_find. exact C1. }
  assert (Hids : ids s1 = ids s) by (unfold ids; now rewrite B).
  destruct (quiet_history key i (iid l) (rnow (store s) + lease (isecs l)) ops s1) as [P [Q R]]; auto.
  - now rewrite Hids.
  - rewrite Hids. unfold ids. now rewrite nth_error_map, Hn.
  - unfold secs_ok. now rewrite B.
  - lia.
  - repeat split; auto.
    + subst s2. rewrite Q, C2. reflexivity.
    + rewrite <- B. exact R.
Qed.

Lemma exclusive_while_leased key s i l ops :
  NoDup (ids s) -> secs_ok s -> nth_error (insts s) i = Some l ->
  snd (step key s (OAcquire i)) = RB true false ->
  forallb (quiet i) ops = true -> elapsed ops < lease (isecs l) ->
  let s1 := fst (step key s (OAcquire i)) in
  held_by key (final key s1 ops) (iid l) = true /\
  all_refused (List.length (insts s)) ops (run key s1 ops).
Proof.
  intros ND HS Hn Hok HQ HE s1. subst s1.
  destruct (lease_history key s i l ops ND HS Hn Hok HQ HE) as [P [Q R]].
  split; [|exact R]. destruct (held_by_leased _ _ _ _ P) as [H _]. rewrite H, Q.
  apply before_lt. lia.
Qed.

Lemma lease_is_exact key s i l ops d :
  NoDup (ids s) -> secs_ok s -> nth_error (insts s) i = Some l ->
  snd (step key s (OAcquire i)) = RB true false ->
  forallb (quiet i) ops = true -> elapsed ops < lease (isecs l) ->
  let s1 := fst (step key s (OAcquire i)) in
  let s3 := fst (step key (final key s1 ops) (OAdvance d)) in
  let incl := expiry_inclusive (store s) in
  lease (isecs l) = isecs l * 1000 + 500 /\
  held_by key s3 (iid l) = before incl (elapsed ops + d) (isecs l * 1000 + 500) /\
  key_free key s3 = negb (before incl (elapsed ops + d) (isecs l * 1000 + 500)).
Proof.
  intros ND HS Hn Hok HQ HE s1 s3 incl. subst s1.
  destruct (lease_history key s i l ops ND HS Hn Hok HQ HE) as [P [Q R]].
  set (sf := final key (fst (step key s (OAcquire i))) ops) in *.
  assert (P3 : leased key s3 (iid l) (rnow (store s) + lease (isecs l))) by exact P.
  assert (Q3 : rnow (store s3) = rnow (store s) + elapsed ops + d) by (unfold s3; cbn; rewrite Q; lia).
  assert (I3 : expiry_inclusive (store s3) = incl).
  { unfold s3, sf, incl. now rewrite step_incl, final_incl, step_incl. }
  destruct (held_by_leased _ _ _ _ P3) as [H1 H2].
  split; [reflexivity|]. rewrite H1, H2, Q3, I3.
  replace (rnow (store s) + elapsed ops + d) with (rnow (store s) + (elapsed ops + d)) by lia.
  rewrite before_shift. auto.
Qed.

Lemma late_release_is_harmless key s i j li lj :
  NoDup (ids s) ->
  nth_error (insts s) i = Some li -> nth_error (insts s) j = Some lj -> i <> j ->
  held_by key s (iid lj) = true ->
  step key s (ORelease i) = (s, RB false false).
Proof.
  intros ND Hi Hj Hne Hh.
  destruct (release_spec key s i li Hi) as [A [B C]].
  destruct (held_by key s (iid li)) eqn:E.
  - exfalso. apply Hne. eapply no_two_holders; eauto.
  - destruct (step key s (ORelease i)) as [s' r]. cbn [fst snd] in *. congruence.
Qed.

(* ------------------------------------------------------------ statements as used in Props.v *)
Lemma mutual_exclusion_all : forall key s,
  NoDup (ids s) -> secs_ok s ->
  (forall i j li lj,
      nth_error (insts s) i = Some li -> nth_error (insts s) j = Some lj ->
      held_by key s (iid li) = true -> held_by key s (iid lj) = true -> i = j) /\
  (forall i l, nth_error (insts s) i = Some l ->
      let s' := fst (step key s (OAcquire i)) in
      let ok := key_free key s || held_by key s (iid l) in
      snd (step key s (OAcquire i)) = RB ok false /\
      insts s' = insts s /\
      (if ok
       then seen key s' = Some (mkEntry (BStr (iid l)) (Some (rnow (store s) + lease (isecs l))))
            /\ rnow (store s') = rnow (store s)
            /\ (forall k, k <> key -> lookup (store s') k = lookup (store s) k)
       else s' = s)) /\
  (forall i l ops, nth_error (insts s) i = Some l ->
      snd (step key s (OAcquire i)) = RB true false ->
      forallb (quiet i) ops = true -> elapsed ops < lease (isecs l) ->
      let s1 := fst (step key s (OAcquire i)) in
      held_by key (final key s1 ops) (iid l) = true /\
      all_refused (List.length (insts s)) ops (run key s1 ops)).
Proof.
  intros key s ND HS. split; [|split].
  - intros i j li lj. now apply no_two_holders.
  - intros i l Hn. exact (acquire_spec key s i l Hn (secs_ok_nth s i l HS Hn)).
  - intros i l ops Hn. now apply exclusive_while_leased.
Qed.

Lemma only_holder_releases_all : forall key s,
  NoDup (ids s) ->
  (forall i l, nth_error (insts s) i = Some l ->
      let s' := fst (step key s (ORelease i)) in
      let mine := held_by key s (iid l) in
      snd (step key s (ORelease i)) = RB mine false /\
      insts s' = insts s /\
      (if mine
       then key_free key s' = true /\ rnow (store s') = rnow (store s)
            /\ (forall k, k <> key -> lookup (store s') k = lookup (store s) k)
       else s' = s)) /\
  (forall i j li lj,
      nth_error (insts s) i = Some li -> nth_error (insts s) j = Some lj -> i <> j ->
      held_by key s (iid lj) = true ->
      step key s (ORelease i) = (s, RB false false)).
Proof.
  intros key s ND. split.
  - intros i l Hn. exact (release_spec key s i l Hn).
  - intros i j li lj. now apply late_release_is_harmless.
Qed.

