(* C19 — variants in which a call is NOT one atomic step on the store (seeded C19-4, C19-8, C19-9), each refuted
   by a concrete history (vm_compute) and compared with what the lease specification says of the calls the
   clients made.  Today's Acquire / Release are one script execution each; these variants split a call, let
   part of it land later, or answer a call from another call's script run. *)
From Coq Require Import List ZArith String Bool.
From GZ Require Import Lib.RedisStore C19.Model.
Import ListNotations.
Open Scope string_scope.
Open Scope Z_scope.
Open Scope list_scope.

Inductive vop :=
| VOp (o : op)              (* an operation of the model, as it is *)
| VJoin (h p : nat)         (* C19-9: h's Acquire joins the flight of p's Acquire: only p's script runs, and both
                               are answered "the key holds my id" *)
| VLate (i : nat)           (* C19-8: the detached release that a failed ReleaseCtx(done ctx) started lands now *)
| VGet (i : nat)            (* C19-4: first half of a refresh made of GET + PEXPIRE: i sees its own id *)
| VPexpire (i : nat).       (* C19-4: second half: PEXPIRE key <lease>; "true" when the key exists *)

Definition told (key : bulk) (s : state) (i : nat) : obs :=
  match nth_error (insts s) i with
  | Some l => RB (held_by key s (iid l)) false
  | None => RU
  end.

Definition v_step (key : bulk) (s : state) (o : vop) : state * list obs :=
  match o with
  | VOp o => let '(s', r) := step key s o in (s', [r])
  | VJoin h p => let '(s', _) := step key s (OAcquire p) in (s', [told key s' h; told key s' p])
  | VLate i => let '(s', _) := step key s (ORelease i) in (s', [])
  | VGet i => (s, [])
  | VPexpire i =>
    match nth_error (insts s) i, seen key s with
    | Some l, Some e =>
      (mkState (store_put (store s) key (mkEntry (evalue e) (Some (rnow (store s) + lease (isecs l))))) (insts s),
       [RB true false])
    | Some _, None => (s, [RB false false])
    | None, _ => (s, [])
    end
  end.

Fixpoint v_run (key : bulk) (s : state) (ops : list vop) : list obs :=
  match ops with
  | [] => []
  | o :: ops' => let '(s', r) := v_step key s o in r ++ v_run key s' ops'
  end.

Definition k := BStr "lk".
Definition three := init true ["idA"; "idB"; "idC"].
Definition spec_of (ops : list op) := sp_run (abs k three) ops.

(* seeded C19-9: A holds with 5.5 s; 4 s later A re-acquires while B's Acquire is in flight and is answered from
   B's script run: "true" - but the key was not rewritten: it dies 1.5 s later instead of 5.5 s, and 2 s after
   A's successful Acquire a third instance takes the key.  The calls the clients made are Acquire A and Acquire
   B (in either order): the specification gives the full lease and refuses C. *)
Definition h9 := [VOp (OSetExpire 0 5); VOp (OAcquire 0); VOp (OAdvance 4000); VJoin 0 1; VOp OTtl;
                  VOp (OAdvance 2000); VOp (OAcquire 2)].
Definition h9_calls (ab : bool) :=
  [OSetExpire 0 5; OAcquire 0; OAdvance 4000] ++ (if ab then [OAcquire 0; OAcquire 1] else [OAcquire 1; OAcquire 0])
  ++ [OTtl; OAdvance 2000; OAcquire 2].
Theorem joined_flight_skips_refresh_refuted :
  v_run k three h9 = [RU; RB true false; RU; RB true false; RB false false; RT (Some (Some 1500)); RU; RB true false] /\
  spec_of (h9_calls true) = [RU; RB true false; RU; RB true false; RB false false; RT (Some (Some 5500)); RU; RB false false] /\
  spec_of (h9_calls false) = [RU; RB true false; RU; RB false false; RB true false; RT (Some (Some 5500)); RU; RB false false].
Proof. vm_compute. repeat split; reflexivity. Qed.

(* seeded C19-8: A's ReleaseCtx with a finished context fails (false, err) and starts a detached release; A
   acquires again (refresh, true, a new 5.5 s lease); the detached release lands: the key is gone although A has
   not released since its last successful Acquire, and B acquires at once.  The calls made: a failed Release
   (nothing happens), Acquire A, Acquire B. *)
Definition h8 := [VOp (OSetExpire 0 5); VOp (OAcquire 0); VOp (OFault 0 true (RErr EConn)); VOp (OAcquire 0); VLate 0;
                  VOp OTtl; VOp (OAcquire 1)].
Definition h8_calls := [OSetExpire 0 5; OAcquire 0; OFault 0 true (RErr EConn); OAcquire 0; OTtl; OAcquire 1].
Theorem detached_release_refuted :
  v_run k three h8 = [RU; RB true false; RB false true; RB true false; RT None; RB true false] /\
  spec_of h8_calls = [RU; RB true false; RB false true; RB true false; RT (Some (Some 5500)); RB false false].
Proof. vm_compute. split; reflexivity. Qed.

(* seeded C19-4: A's refresh is GET (sees its own id) ... PEXPIRE.  A's lease (1.5 s) runs out in between and B
   takes the free key: A's PEXPIRE succeeds on B's key, A is told "true" while B holds the key unexpired, and
   B's lease is rewritten.  As ONE step - before the lease ran out or after B's Acquire - the refresh never gives
   two holders. *)
Definition h4 := [VOp (OSetExpire 0 1); VOp (OSetExpire 1 7); VOp (OAcquire 0); VOp (OAdvance 1400); VGet 0; VOp (OAdvance 200);
                  VOp (OAcquire 1); VPexpire 0; VOp OTtl; VOp (ORelease 0)].
Definition h4_calls (early : bool) :=
  [OSetExpire 0 1; OSetExpire 1 7; OAcquire 0; OAdvance 1400] ++ (if early then [OAcquire 0] else []) ++ [OAdvance 200; OAcquire 1]
  ++ (if early then [] else [OAcquire 0]) ++ [OTtl; ORelease 0].
Theorem split_refresh_refuted :
  v_run k three h4 = [RU; RU; RB true false; RU; RU; RB true false; RB true false; RT (Some (Some 1500)); RB false false] /\
  spec_of (h4_calls true) = [RU; RU; RB true false; RU; RB true false; RU; RB false false; RT (Some (Some 1300)); RB true false] /\
  spec_of (h4_calls false) = [RU; RU; RB true false; RU; RU; RB true false; RB false false; RT (Some (Some 7500)); RB false false].
Proof. vm_compute. repeat split; reflexivity. Qed.
