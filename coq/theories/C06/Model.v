(* C06 - cache-aside store: executable model of
     core/stores/cache/cachenode.go   (doTake, doGetCache, SetCtx, SetWithExpireCtx,
                                       setCacheWithNotFound, DelCtx, asyncRetryDelCache)
     core/stores/cache/cache.go       (cacheCluster: dispatch by key, DelCtx grouped by node)
     core/stores/cache/cleaner.go     (AddCleanTask, clean, nextDelay)
     core/stores/cache/cacheopt.go    (newOptions defaults)
     core/stores/sqlc/cachedsql.go    (QueryRowCtx, QueryRowIndexCtx, ExecCtx, Set/Get/DelCache)
     core/mathx/unstable.go           (AroundDuration: the band of the jittered expiry)
   No proofs in this file.

   Modelling decisions (each is exercised by the correspondence run):
   - the database is a table  pk |-> (u, v)  with a unique secondary column u;
     primary cache key of row pk is [KP pk], cache key of the index value u is [KU u];
   - the cache is one association list key |-> (value, absolute expiry in ms | none);
     with a cluster every key lives on the node the consistent hash picks for it
     ([cnode], supplied by the harness: C15 is about that function), an outage is per
     node, and a multi-key DEL is split per node as cacheCluster.DelCtx does;
   - expiry is lazy: an entry whose expiry is <= clock is absent for every command;
   - the random jitter of the expiry is an oracle argument [t] (the TTL in seconds that
     the implementation chose, read back from the store) that the model checks to lie
     in the band of Unstable.AroundDuration followed by math.Ceil(seconds);
   - the cleaner's timing wheel (1 s interval) is driven by the explicit op [OClean n]
     (n ticks); delays follow nextDelay (1 s, 5 s, 1 min, 5 min, 1 h, then give up);
   - outages are toggled between operations, so during one operation a node is either
     up or down. *)
From Coq Require Import List ZArith Bool NArith.
From GZgen Require Import C06Consts.
Import ListNotations.
Open Scope Z_scope.

(* The constants of the Go sources (expiryDeviation, defaultExpiry, defaultNotFoundExpiry,
   cacheSafeGapBetweenIndexAndPrimary, the cleaner's first delay / retry table / wheel
   interval) are NOT written here: they come from coq/gen/C06Consts.v, regenerated from the
   checked tree on every run (harness/cmd/c06consts).  GenProofs.v states what the proofs
   need of them and what the property text fixes (5 %). *)

(* ------------------------------------------------------------------ keys, values *)
Inductive key := KP (p : Z) | KU (u : Z).

Definition key_eqb (a b : key) : bool :=
  match a, b with
  | KP x, KP y => x =? y
  | KU x, KU y => x =? y
  | _, _ => false
  end.

Inductive cval :=
| CRow (u v : Z)     (* JSON of the row (its pk is the key's) *)
| CPk (p : Z)        (* JSON of a primary key (value of an index entry) *)
| CHole.             (* the not-found placeholder "*" *)

Record entry := mkEntry { eval : cval; eexp : option Z }.
Definition store := list (key * entry).

Fixpoint find (k : key) (d : store) : option entry :=
  match d with
  | [] => None
  | (k', e) :: d' => if key_eqb k k' then Some e else find k d'
  end.

Fixpoint put (k : key) (e : entry) (d : store) : store :=
  match d with
  | [] => [(k, e)]
  | (k', e') :: d' => if key_eqb k k' then (k, e) :: d' else (k', e') :: put k e d'
  end.

Fixpoint remove (k : key) (d : store) : store :=
  match d with
  | [] => []
  | (k', e') :: d' => if key_eqb k k' then remove k d' else (k', e') :: remove k d'
  end.

Definition remove_all (ks : list key) (d : store) : store :=
  fold_left (fun d k => remove k d) ks d.

Definition live (now : Z) (e : entry) : bool :=
  match eexp e with None => true | Some t => now <? t end.

Definition lookup (now : Z) (d : store) (k : key) : option entry :=
  match find k d with
  | Some e => if live now e then Some e else None
  | None => None
  end.

Definition mem_key (k : key) (l : list key) : bool := existsb (key_eqb k) l.

(* ------------------------------------------------------------------ database *)
Definition table := list (Z * (Z * Z)).

Fixpoint db_get (p : Z) (t : table) : option (Z * Z) :=
  match t with
  | [] => None
  | (p', r) :: t' => if p =? p' then Some r else db_get p t'
  end.

Fixpoint db_del (p : Z) (t : table) : table :=
  match t with
  | [] => []
  | (p', r) :: t' => if p =? p' then db_del p t' else (p', r) :: db_del p t'
  end.

Definition db_put (p : Z) (r : Z * Z) (t : table) : table := (p, r) :: db_del p t.

(* the row whose unique column is u *)
Fixpoint db_by_u (u : Z) (t : table) : option (Z * (Z * Z)) :=
  match t with
  | [] => None
  | (p, (u', v)) :: t' => if u =? u' then Some (p, (u', v)) else db_by_u u t'
  end.

(* ------------------------------------------------------------------ configuration *)
Record config := mkCfg
  { cexpiry : Z;                 (* WithExpiry, ns (<= 0: default) *)
    cnf : Z;                     (* WithNotFoundExpiry, ns (<= 0: default) *)
    cnodes : list (key * Z);     (* node of a key (absent: node 0) *)
    ccluster : bool }.           (* the nodes are Redis clusters (redis.ClusterType): a DEL of several
                                    keys is issued, and retried, key by key *)

Definition sec : Z := 1000000000.
Definition default_expiry : Z := gen_default_expiry.      (* cacheopt.go defaultExpiry, ns *)
Definition default_nf : Z := gen_default_nf.              (* cacheopt.go defaultNotFoundExpiry, ns *)
Definition expiry_of (c : config) := if cexpiry c <=? 0 then default_expiry else cexpiry c.
Definition nf_of (c : config) := if cnf c <=? 0 then default_nf else cnf c.
(* cacheSafeGapBetweenIndexAndPrimary in seconds (a whole number: GenProofs.gap_whole_seconds;
   ceil((expire + gap).Seconds()) = ceil(expire.Seconds()) + gap needs that) *)
Definition safe_gap : Z := gen_safe_gap / sec.

Fixpoint node_lookup (k : key) (l : list (key * Z)) : Z :=
  match l with
  | [] => 0
  | (k', n) :: l' => if key_eqb k k' then n else node_lookup k l'
  end.
Definition node_of (c : config) (k : key) : Z := node_lookup k (cnodes c).

(* expiryDeviation = dev: AroundDuration(b) = trunc((1 + dev - 2*dev*r) * b), r in [0,1), hence in
   [floor((1-dev) b), floor((1+dev) b)] ns; the TTL handed to Redis is ceil of that in seconds *)
Definition cdiv (a b : Z) : Z := (a + b - 1) / b.
Definition dev_num : Z := gen_dev_num.
Definition dev_den : Z := gen_dev_den.
Definition ttl_lo (b : Z) : Z := cdiv ((dev_den - dev_num) * b / dev_den) sec.
Definition ttl_hi (b : Z) : Z := cdiv ((dev_den + dev_num) * b / dev_den) sec.
Definition ttl_ok (b t : Z) : bool := (ttl_lo b <=? t) && (t <=? ttl_hi b).

(* redis.SetexCtx / SetnxExCtx hand go-redis `seconds * time.Second`; a duration <= 0
   means "no expiry" there *)
Definition exp_of (now t : Z) : option Z := if t <=? 0 then None else Some (now + 1000 * t).

(* ------------------------------------------------------------------ state *)
Record task := mkTask
  { tkeys : list key; tnode : Z; trem : Z (* ticks until it fires *); tdelay : Z (* ns *) }.

(* a timer of delay d fires after max 1 (d / interval) ticks of the cleaner's wheel (C12) *)
Definition ticks_of (d : Z) : Z := Z.max 1 (d / gen_wheel_interval).
Definition first_task (ks : list key) (n : Z) : task := mkTask ks n (ticks_of gen_first_delay) gen_first_delay.

Record state := mkState
  { db : table;
    dbFault : bool;
    cache : store;
    cfault : list Z;          (* nodes that are down *)
    pending : list task;      (* the cleaner's timers (pendingClean) *)
    lost : list key;          (* keys whose retries were given up (logged by clean) *)
    clock : Z }.              (* ms *)

Definition init (rows : table) : state := mkState rows false [] [] [] [] 0.

Definition node_down (s : state) (n : Z) : bool := existsb (Z.eqb n) (cfault s).
Definition key_down (c : config) (s : state) (k : key) : bool := node_down s (node_of c k).

Definition set_cache (s : state) (d : store) : state :=
  mkState (db s) (dbFault s) d (cfault s) (pending s) (lost s) (clock s).

Definition pending_keys (s : state) : list key := flat_map tkeys (pending s).
(* a failed invalidation of k has not been made good *)
Definition dirty (s : state) (k : key) : bool := mem_key k (pending_keys s) || mem_key k (lost s).

(* ------------------------------------------------------------------ operations *)
Inductive op :=
| OTake (p t : Z)                              (* QueryRowCtx / cache.Take on KP p *)
| OQri (u t : Z)                               (* QueryRowIndexCtx on KU u *)
| OGet (p : Z)                                 (* GetCache (KP p) *)
| OExec (p : Z) (w : option (Z * Z)) (keys : list key)   (* ExecCtx: write row / delete, then DelCache keys *)
| OSet (p u v t : Z)                           (* SetCache (KP p) row *)
| OSetEx (p u v d : Z)                         (* SetCacheWithExpire (KP p) row d(ns) *)
| ODel (keys : list key)                       (* DelCache keys *)
| OAdv (ms : Z)                                (* time passes *)
| ODbFault (b : bool)
| OCFault (n : Z) (b : bool)
| OClean (n : N)                               (* RetryClean: n ticks of the cleaner *)
| OTakeMid (p t n : Z)                         (* Take during which node n goes down inside the
                                                  database query (after the GET, before the SET) *)
| OQriMid (u t n : Z)                          (* QueryRowIndex, likewise (index or primary query) *)
| OExecDie (p : Z) (w : option (Z * Z)) (keys : list key) (n0 : Z).
                                               (* ExecCtx whose context ends (cancelled / past its deadline)
                                                  while the FIRST DEL of its invalidation - the one sent to
                                                  node n0 (oracle: Go's map order picks the node) - is on the
                                                  wire: that DEL completes, every later DEL of the same
                                                  invalidation dies with the context *)

Inductive ret :=
| ROk
| RRow (p u v : Z)
| RNf            (* the configured not-found error *)
| RDbErr         (* the database's error *)
| RCErr          (* the cache store's error *)
| RBadOracle     (* the TTL oracle is outside the band: not a behaviour of the code *)
| RIllTyped.     (* a primary key holding an index value or vice versa: cannot be produced
                    by these ops (Proofs.v, well_typed) *)

Record obs := mkObs { oret : ret; oqi : Z; oqp : Z }.   (* result, index / primary queries run *)

(* ------------------------------------------------------------------ DelCtx *)
(* cacheNode.DelCtx on a failing node: one retry task for the whole DEL, or - cluster type and
   more than one key - a DEL and a retry task per key *)
Definition del_tasks (c : config) (ks : list key) (n : Z) : list task :=
  if ccluster c && (1 <? Z.of_nat (length ks))
  then map (fun k => first_task [k] n) ks
  else [first_task ks n].

(* one node's share of a DEL: done, or - node down - left to the cleaner *)
Definition del_on_node (c : config) (n : Z) (keys : list key) (s : state) : state :=
  let ks := filter (fun k => node_of c k =? n) keys in
  match ks with
  | [] => s
  | _ =>
    if node_down s n then
      mkState (db s) (dbFault s) (cache s) (cfault s)
              (pending s ++ del_tasks c ks n) (lost s) (clock s)
    else
      mkState (db s) (dbFault s) (remove_all ks (cache s)) (cfault s) (pending s)
              (filter (fun k => negb (mem_key k ks)) (lost s)) (clock s)
  end.

Definition nodes_of (c : config) (keys : list key) : list Z :=
  nodup Z.eq_dec (map (node_of c) keys).

Definition del_keys (c : config) (keys : list key) (s : state) : state :=
  fold_left (fun s n => del_on_node c n keys s) (nodes_of c keys) s.

(* ------------------------------------------------------------------ DelCtx under a dying context *)
(* hand timers to the cleaner (asyncRetryDelCache -> AddCleanTask) *)
Definition owe (l : list task) (s : state) : state :=
  mkState (db s) (dbFault s) (cache s) (cfault s) (pending s ++ l) (lost s) (clock s).

(* The context of a DelCtx ends while its first DEL - sent to node n0 - is on the wire.  That DEL
   is answered (done, or refused by a node that is down: del_on_node); go-redis refuses to send
   any further command under the dead context, so every later DEL of the invalidation fails,
   is logged and handed to the cleaner exactly as after an outage: the other keys of node n0
   one by one when the DELs go key by key (cluster type, cacheNode.DelCtx), the share of every
   other node as that node's DelCtx does (del_tasks).
   Result: (keys of the DEL that was on the wire, timers for everything else). *)
Definition die_split (c : config) (keys : list key) (n0 : Z) : list key * list task :=
  let ks0 := filter (fun k => node_of c k =? n0) keys in
  let others :=
    flat_map (fun n => if n =? n0 then []
                       else del_tasks c (filter (fun k => node_of c k =? n) keys) n)
             (nodes_of c keys) in
  if ccluster c && (1 <? Z.of_nat (length ks0))
  then (firstn 1 ks0, map (fun k => first_task [k] n0) (skipn 1 ks0) ++ others)
  else (ks0, others).

Definition die_keys (c : config) (keys : list key) (n0 : Z) (s : state) : state :=
  owe (snd (die_split c keys n0)) (del_on_node c n0 (fst (die_split c keys n0)) s).

(* ------------------------------------------------------------------ doTake on a primary key *)
(* the miss branch of doTake: query, then SETEX / SETNX.  A failing write is only logged:
   the loaded value is still returned (the node can only be down here when it failed
   during the query: OTakeMid) *)
Definition load_primary (c : config) (s : state) (p t : Z) : state * obs :=
  let k := KP p in
  if dbFault s then (s, mkObs RDbErr 0 1)
  else
    match db_get p (db s) with
    | Some (u, v) =>
      if key_down c s k then (s, mkObs (RRow p u v) 0 1)
      else if ttl_ok (expiry_of c) t
      then (set_cache s (put k (mkEntry (CRow u v) (exp_of (clock s) t)) (cache s)),
            mkObs (RRow p u v) 0 1)
      else (s, mkObs RBadOracle 0 1)
    | None =>
      (* SETNX: the key is absent here (lazy expiry) *)
      if key_down c s k then (s, mkObs RNf 0 1)
      else if ttl_ok (nf_of c) t
      then (set_cache s (put k (mkEntry CHole (exp_of (clock s) t)) (cache s)), mkObs RNf 0 1)
      else (s, mkObs RBadOracle 0 1)
    end.

Definition take_primary (c : config) (s : state) (p t : Z) : state * obs :=
  let k := KP p in
  if key_down c s k then (s, mkObs RCErr 0 0)
  else
    match lookup (clock s) (cache s) k with
    | Some (mkEntry (CRow u v) _) => (s, mkObs (RRow p u v) 0 0)
    | Some (mkEntry CHole _) => (s, mkObs RNf 0 0)
    | Some (mkEntry (CPk _) _) => (s, mkObs RIllTyped 0 0)
    | None => load_primary c s p t
    end.

(* an outage injected from inside the database query callback *)
Definition fail_node (s : state) (n : Z) : state :=
  mkState (db s) (dbFault s) (cache s) (n :: cfault s) (pending s) (lost s) (clock s).

Definition take_mid (c : config) (s : state) (p t n : Z) : state * obs :=
  if key_down c s (KP p) then (s, mkObs RCErr 0 0)
  else
    match lookup (clock s) (cache s) (KP p) with
    | None => load_primary c (fail_node s n) p t
    | Some _ => take_primary c s p t
    end.

(* QueryRowIndexCtx: the index-miss branch.  SetWithExpire(primary) inside the query function
   returns its error to doTake (reported, index not cached); a failing SET / SETNX of the
   index entry is only logged. *)
Definition load_index (c : config) (s : state) (u t : Z) : state * obs :=
  let ik := KU u in
  if dbFault s then (s, mkObs RDbErr 1 0)
  else
    match db_by_u u (db s) with
    | None =>
      if key_down c s ik then (s, mkObs RNf 1 0)
      else if ttl_ok (nf_of c) t
      then (set_cache s (put ik (mkEntry CHole (exp_of (clock s) t)) (cache s)), mkObs RNf 1 0)
      else (s, mkObs RBadOracle 1 0)
    | Some (p, (u', v)) =>
      (* SetWithExpire(primary, row, expire + gap) inside the query function *)
      if key_down c s (KP p) then (s, mkObs RCErr 1 0)
      else if ttl_ok (expiry_of c) t
      then
        let d1 := put (KP p) (mkEntry (CRow u' v) (exp_of (clock s) (t + safe_gap))) (cache s) in
        if key_down c s ik then (set_cache s d1, mkObs (RRow p u' v) 1 0)
        else (set_cache s (put ik (mkEntry (CPk p) (exp_of (clock s) t)) d1), mkObs (RRow p u' v) 1 0)
      else (s, mkObs RBadOracle 1 0)
    end.

Definition query_index (c : config) (s : state) (u t : Z) : state * obs :=
  let ik := KU u in
  if key_down c s ik then (s, mkObs RCErr 0 0)
  else
    match lookup (clock s) (cache s) ik with
    | Some (mkEntry CHole _) => (s, mkObs RNf 0 0)
    | Some (mkEntry (CPk p) _) => take_primary c s p t
    | Some (mkEntry (CRow _ _) _) => (s, mkObs RIllTyped 0 0)
    | None => load_index c s u t
    end.

Definition query_index_mid (c : config) (s : state) (u t n : Z) : state * obs :=
  let ik := KU u in
  if key_down c s ik then (s, mkObs RCErr 0 0)
  else
    match lookup (clock s) (cache s) ik with
    | Some (mkEntry CHole _) => (s, mkObs RNf 0 0)
    | Some (mkEntry (CPk p) _) => take_mid c s p t n
    | Some (mkEntry (CRow _ _) _) => (s, mkObs RIllTyped 0 0)
    | None => load_index c (fail_node s n) u t
    end.

Definition get_primary (c : config) (s : state) (p : Z) : state * obs :=
  let k := KP p in
  if key_down c s k then (s, mkObs RCErr 0 0)
  else
    match lookup (clock s) (cache s) k with
    | Some (mkEntry (CRow u v) _) => (s, mkObs (RRow p u v) 0 0)
    | Some (mkEntry CHole _) => (s, mkObs RNf 0 0)
    | Some (mkEntry (CPk _) _) => (s, mkObs RIllTyped 0 0)
    | None => (s, mkObs RNf 0 0)
    end.

(* the unique index of the fake database *)
Definition u_taken (p u : Z) (t : table) : bool :=
  match db_by_u u t with
  | Some (p', _) => negb (p' =? p)
  | None => false
  end.

Definition exec (c : config) (s : state) (p : Z) (w : option (Z * Z)) (keys : list key) : state * obs :=
  if dbFault s then (s, mkObs RDbErr 0 0)
  else
    match w with
    | Some (u, v) =>
      if u_taken p u (db s) then (s, mkObs RDbErr 0 0)
      else
        let s1 := mkState (db_put p (u, v) (db s)) (dbFault s) (cache s) (cfault s)
                          (pending s) (lost s) (clock s) in
        (del_keys c keys s1, mkObs ROk 0 0)
    | None =>
      let s1 := mkState (db_del p (db s)) (dbFault s) (cache s) (cfault s)
                        (pending s) (lost s) (clock s) in
      (del_keys c keys s1, mkObs ROk 0 0)
    end.

(* ExecCtx whose context ends while the first DEL (node n0) is on the wire.  The oracle must name
   a node that holds one of the keys (a DEL is sent there); a refused write sends no DEL at all,
   the context then never ends: the plain database error. *)
Definition exec_die (c : config) (s : state) (p : Z) (w : option (Z * Z)) (keys : list key) (n0 : Z)
  : state * obs :=
  if dbFault s then (s, mkObs RDbErr 0 0)
  else if negb (existsb (Z.eqb n0) (nodes_of c keys)) then (s, mkObs RBadOracle 0 0)
  else
    match w with
    | Some (u, v) =>
      if u_taken p u (db s) then (s, mkObs RDbErr 0 0)
      else
        let s1 := mkState (db_put p (u, v) (db s)) (dbFault s) (cache s) (cfault s)
                          (pending s) (lost s) (clock s) in
        (die_keys c keys n0 s1, mkObs ROk 0 0)
    | None =>
      let s1 := mkState (db_del p (db s)) (dbFault s) (cache s) (cfault s)
                        (pending s) (lost s) (clock s) in
      (die_keys c keys n0 s1, mkObs ROk 0 0)
    end.

Definition set_primary (c : config) (s : state) (p u v : Z) (e : option Z) : state * obs :=
  if key_down c s (KP p) then (s, mkObs RCErr 0 0)
  else (set_cache s (put (KP p) (mkEntry (CRow u v) e) (cache s)), mkObs ROk 0 0).

(* ------------------------------------------------------------------ cleaner *)
Fixpoint assoc_z (d : Z) (l : list (Z * Z)) : option Z :=
  match l with
  | [] => None
  | (a, b) :: l' => if d =? a then Some b else assoc_z d l'
  end.
(* cleaner.go nextDelay (ns): None = give up *)
Definition next_delay (d : Z) : option Z := assoc_z d gen_retry.

(* one task at one tick *)
Definition tick_task (s : state) (tk : task) : state :=
  if 1 <? trem tk then
    mkState (db s) (dbFault s) (cache s) (cfault s)
            (pending s ++ [mkTask (tkeys tk) (tnode tk) (trem tk - 1) (tdelay tk)]) (lost s) (clock s)
  else if node_down s (tnode tk) then
    match next_delay (tdelay tk) with
    | Some d' =>
      mkState (db s) (dbFault s) (cache s) (cfault s)
              (pending s ++ [mkTask (tkeys tk) (tnode tk) (ticks_of d') d']) (lost s) (clock s)
    | None =>
      mkState (db s) (dbFault s) (cache s) (cfault s) (pending s) (lost s ++ tkeys tk) (clock s)
    end
  else
    mkState (db s) (dbFault s) (remove_all (tkeys tk) (cache s)) (cfault s) (pending s)
            (filter (fun k => negb (mem_key k (tkeys tk))) (lost s)) (clock s).

Definition tick (s : state) : state :=
  fold_left tick_task (pending s)
            (mkState (db s) (dbFault s) (cache s) (cfault s) [] (lost s) (clock s)).

(* ------------------------------------------------------------------ step *)
Definition step (c : config) (s : state) (o : op) : state * obs :=
  match o with
  | OTake p t => take_primary c s p t
  | OQri u t => query_index c s u t
  | OGet p => get_primary c s p
  | OExec p w keys => exec c s p w keys
  | OSet p u v t =>
    if key_down c s (KP p) then (s, mkObs RCErr 0 0)
    else if ttl_ok (expiry_of c) t then set_primary c s p u v (exp_of (clock s) t)
    else (s, mkObs RBadOracle 0 0)
  | OSetEx p u v d => set_primary c s p u v (exp_of (clock s) (cdiv d sec))
  | ODel keys => (del_keys c keys s, mkObs ROk 0 0)
  | OAdv ms =>
    (mkState (db s) (dbFault s) (cache s) (cfault s) (pending s) (lost s) (clock s + Z.max 0 ms),
     mkObs ROk 0 0)
  | ODbFault b =>
    (mkState (db s) b (cache s) (cfault s) (pending s) (lost s) (clock s), mkObs ROk 0 0)
  | OCFault n b =>
    (mkState (db s) (dbFault s) (cache s)
             (if b then n :: cfault s else filter (fun m => negb (m =? n)) (cfault s))
             (pending s) (lost s) (clock s), mkObs ROk 0 0)
  | OClean n => (N.iter n tick s, mkObs ROk 0 0)
  | OTakeMid p t n => take_mid c s p t n
  | OQriMid u t n => query_index_mid c s u t n
  | OExecDie p w keys n0 => exec_die c s p w keys n0
  end.

Fixpoint run (c : config) (s : state) (ops : list op) : list obs :=
  match ops with
  | [] => []
  | o :: ops' => let '(s', ob) := step c s o in ob :: run c s' ops'
  end.

Fixpoint final (c : config) (s : state) (ops : list op) : state :=
  match ops with
  | [] => s
  | o :: ops' => final c (fst (step c s o)) ops'
  end.

(* ------------------------------------------------------------------ discipline *)
(* "every database write goes through Exec with that key": the keys handed to Exec
   contain the row's primary key and the index keys of its old and new contents;
   "the cache is not written behind its back": an explicit Set stores what the
   database holds. *)
Definition covers (t : table) (p : Z) (w : option (Z * Z)) (keys : list key) : bool :=
  mem_key (KP p) keys
  && match db_get p t with Some (u0, _) => mem_key (KU u0) keys | None => true end
  && match w with Some (u, _) => mem_key (KU u) keys | None => true end.

Definition row_eqb (a b : option (Z * Z)) : bool :=
  match a, b with
  | Some (u, v), Some (u', v') => (u =? u') && (v =? v')
  | None, None => true
  | _, _ => false
  end.

Definition disciplined (t : table) (o : op) : bool :=
  match o with
  | OExec p w keys | OExecDie p w keys _ => covers t p w keys
  | OSet p u v _ | OSetEx p u v _ => row_eqb (db_get p t) (Some (u, v))
  | _ => true
  end.

(* every op of the history is disciplined w.r.t. the database at the time it runs *)
Fixpoint all_disciplined (c : config) (s : state) (ops : list op) : bool :=
  match ops with
  | [] => true
  | o :: ops' => disciplined (db s) o && all_disciplined c (fst (step c s o)) ops'
  end.

(* ------------------------------------------------------------------ observable store contents *)
Definition dump_entry := (key * cval * Z)%type.    (* ttl in ms, 0 = persistent *)

Definition dump (s : state) : list dump_entry :=
  flat_map (fun ke : key * entry =>
              let (k, e) := ke in
              if live (clock s) e
              then [(k, eval e, match eexp e with Some x => x - clock s | None => 0 end)]
              else [])
           (cache s).
