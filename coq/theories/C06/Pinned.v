(* C06 - the two known findings (DESIGN.md §5, F7 and F11) as refuted statements: each
   drops one hypothesis of a theorem of Props.v and exhibits a concrete history of the
   model (replayed on the implementation by the corpus of tools/props/c06.py). *)
From Coq Require Import List ZArith Bool NArith.
From GZ Require Import C06.Model.
Import ListNotations.
Open Scope Z_scope.

Definition f7_cfg : config := mkCfg (100 * sec) (10 * sec) [] false.
Definition f7_rows : table := [(1, (7, 41))].
(* Take -> v1; cache outage; Exec(v2) "succeeds" (DelCtx logs, schedules the retry, returns
   nil); recovery; Take -> v1 *)
Definition f7_ops : list op :=
  [OTake 1 100; OCFault 0 true; OExec 1 (Some (7, 42)) [KP 1; KU 7]; OCFault 0 false].

(* coherent_reads without "no invalidation of the key is outstanding": a disciplined
   history after which, with every node up again, Take returns a row the database does
   not hold - from the cache, with 0 queries - until the cleaner's retry runs. *)
Theorem coherence_refuted_pending_del :
  exists c rows ops p t u v,
    NoDup (map fst rows) /\ all_disciplined c (init rows) ops = true /\
    let s := final c (init rows) ops in
    cfault s = [] /\ dirty s (KP p) = true /\
    step c s (OTake p t) = (s, mkObs (RRow p u v) 0 0) /\
    db_get p (db s) <> Some (u, v) /\
    (* the Exec itself reported success *)
    oret (snd (step c (final c (init rows) (firstn 2 ops)) (nth 2 ops (OGet 0)))) = ROk /\
    (* one tick of the cleaner later the read is coherent again *)
    oret (snd (step c (fst (step c s (OClean 1))) (OTake p t))) = RRow p 7 42.
Proof.
  exists f7_cfg, f7_rows, f7_ops, 1, 100, 7, 41.
  split; [repeat constructor; cbn; intuition|].
  vm_compute. repeat split; discriminate.
Qed.

(* the same after the cleaner gave up (node down at every retry: with today's table ticks 1, 6,
   66, 366, 3966; the witness ticks 200000 times so that it survives a changed table): the stale
   row is served until its TTL ends *)
Theorem coherence_refuted_after_give_up :
  exists c rows ops p t u v,
    all_disciplined c (init rows) ops = true /\
    let s := final c (init rows) ops in
    cfault s = [] /\ pending s = [] /\ dirty s (KP p) = true /\
    step c s (OTake p t) = (s, mkObs (RRow p u v) 0 0) /\ db_get p (db s) <> Some (u, v).
Proof.
  exists (mkCfg 0 0 [] false), f7_rows,
    [OTake 1 604800; OCFault 0 true; OExec 1 (Some (7, 42)) [KP 1; KU 7]; OClean 200000; OCFault 0 false],
    1, 100, 7, 41.
  vm_compute. repeat split; discriminate.
Qed.

(* ttl_finite_and_banded without "requested expiry > 0": SetWithExpire(key, v, d) with
   d <= 0 leaves a key that never expires (redis.SetexCtx -> go-redis Set(..., 0)) *)
Theorem persistent_on_nonpositive_refuted :
  exists c rows ops k e,
    2 <= expiry_of c /\ 2 <= nf_of c /\ all_disciplined c (init rows) ops = true /\
    find k (cache (final c (init rows) ops)) = Some e /\ eexp e = None /\
    (forall now, lookup now (cache (final c (init rows) ops)) k = Some e).
Proof.
  exists f7_cfg, f7_rows, [OSetEx 1 7 41 0; OAdv 1000000000000], (KP 1), (mkEntry (CRow 7 41) None).
  vm_compute. repeat split; try discriminate. 
Qed.

Example persistent_on_negative :
  find (KP 1) (cache (final f7_cfg (init f7_rows) [OSetEx 1 7 41 (- sec)])) = Some (mkEntry (CRow 7 41) None).
Proof. vm_compute. reflexivity. Qed.

(* a configured expiry of 1 ns is "non-positive after jitter": AroundDuration may truncate
   it to 0, which the band allows (t = 0) and which is then persistent as well; this is why
   ttl_finite_and_banded asks for >= 2 ns *)
Example one_nanosecond_expiry_may_persist :
  ttl_ok 1 0 = true /\
  find (KP 1) (cache (fst (step (mkCfg 1 1 [] false) (init f7_rows) (OTake 1 0)))) = Some (mkEntry (CRow 7 41) None).
Proof. vm_compute. split; reflexivity. Qed.

(* ------------------------------------------------------------------ pinned variants of seeded changes *)
From GZ Require Import C06.Codec.

(* (seeded C06-3) QueryRowIndexCtx "normalises" the primary key decoded from the index entry
   through float64 before handing it to keyer / primaryQuery: on the index-HIT path the key is
   [round53 p].  The first read (index miss, native key) is right, the second read of the very
   same index value returns ANOTHER row (or not-found): coherence fails in a history with no
   write, no outage and no time passing at all.  Keys up to 2^53 never show it
   (CodecProofs.normalize_float_small). *)
Definition query_index_norm (c : config) (s : state) (u t : Z) : state * obs :=
  let ik := KU u in
  if key_down c s ik then (s, mkObs RCErr 0 0)
  else
    match lookup (clock s) (cache s) ik with
    | Some (mkEntry CHole _) => (s, mkObs RNf 0 0)
    | Some (mkEntry (CPk p) _) => take_primary c s (round53 p) t
    | Some (mkEntry (CRow _ _) _) => (s, mkObs RIllTyped 0 0)
    | None => load_index c s u t
    end.

Definition step_norm (c : config) (s : state) (o : op) : state * obs :=
  match o with OQri u t => query_index_norm c s u t | _ => step c s o end.

Theorem index_hit_float_normalised_refuted :
  exists c rows u t p v,
    NoDup (map fst rows) /\ db_get p rows = Some (u, v) /\ is_int64 p = true /\
    let s1 := fst (step_norm c (init rows) (OQri u t)) in
    (* first read: through the index query, correct, both entries written *)
    snd (step_norm c (init rows) (OQri u t)) = mkObs (RRow p u v) 1 0 /\
    cfault s1 = [] /\ pending s1 = [] /\ lost s1 = [] /\ db s1 = rows /\
    (* second read: another row *)
    (exists p' u' v', oret (snd (step_norm c s1 (OQri u t))) = RRow p' u' v' /\ p' <> p /\ u' <> u) /\
    (* whereas the model of the real code serves the row from the cache *)
    step c s1 (OQri u t) = (s1, mkObs (RRow p u v) 0 0).
Proof.
  exists f7_cfg, [(2 ^ 53 + 1, (7, 41)); (2 ^ 53, (8, 5))], 7, 100, (2 ^ 53 + 1), 41.
  split; [repeat constructor; cbn; intuition discriminate|].
  vm_compute. repeat split; try discriminate.
  exists 9007199254740992, 8, 5. repeat split; discriminate.
Qed.

(* with one row only: the configured not-found error although the row exists, and a
   placeholder cached under a key no row has *)
Theorem index_hit_float_normalised_notfound :
  exists c rows u t p v,
    db_get p rows = Some (u, v) /\
    let s1 := fst (step_norm c (init rows) (OQri u t)) in
    oret (snd (step_norm c s1 (OQri u 10))) = RNf /\
    find (KP (p - 1)) (cache (fst (step_norm c s1 (OQri u 10)))) = Some (mkEntry CHole (Some 10000)).
Proof.
  exists f7_cfg, [(2 ^ 53 + 1, (7, 41))], 7, 100, (2 ^ 53 + 1), 41.
  vm_compute. repeat split.
Qed.

(* (seeded C15-3) cacheCluster.DelCtx hands every node the SAME scratch slice: the retry task a
   failed node keeps (asyncRetryDelCache closes over the slice) ends up holding the keys of the
   node processed last.  After the retry has run - every node up, no timer left, nothing given
   up - the failed node's own key is still cached: a stale read that is NOT an instance of F7
   (no invalidation is outstanding any more). *)
Definition del_on_node_shared (c : config) (lastn n : Z) (keys : list key) (s : state) : state :=
  let ks := filter (fun k => node_of c k =? n) keys in
  match ks with
  | [] => s
  | _ =>
    if node_down s n then
      mkState (db s) (dbFault s) (cache s) (cfault s)
              (pending s ++ [first_task (filter (fun k => node_of c k =? lastn) keys) n]) (lost s) (clock s)
    else del_on_node c n keys s
  end.

Definition del_keys_shared (c : config) (keys : list key) (s : state) : state :=
  let ns := nodes_of c keys in
  fold_left (fun s n => del_on_node_shared c (last ns 0) n keys s) ns s.

Definition step_shared (c : config) (s : state) (o : op) : state * obs :=
  match o with
  | OExec p (Some (u, v)) keys =>
    if dbFault s || u_taken p u (db s) then (s, mkObs RDbErr 0 0)
    else (del_keys_shared c keys (mkState (db_put p (u, v) (db s)) (dbFault s) (cache s) (cfault s)
                                          (pending s) (lost s) (clock s)), mkObs ROk 0 0)
  | ODel keys => (del_keys_shared c keys s, mkObs ROk 0 0)
  | _ => step c s o
  end.

Fixpoint final_shared (c : config) (s : state) (ops : list op) : state :=
  match ops with
  | [] => s
  | o :: ops' => final_shared c (fst (step_shared c s o)) ops'
  end.

Theorem shared_scratch_slice_refuted :
  exists c rows ops p t u v,
    NoDup (map fst rows) /\ all_disciplined c (init rows) ops = true /\
    let s := final_shared c (init rows) ops in
    (* the retry has run: nothing is outstanding, every node is up *)
    cfault s = [] /\ pending s = [] /\ lost s = [] /\ dirty s (KP p) = false /\
    step_shared c s (OTake p t) = (s, mkObs (RRow p u v) 0 0) /\ db_get p (db s) <> Some (u, v) /\
    (* the model of the real code: the same history leaves the key invalidated *)
    lookup (clock (final c (init rows) ops)) (cache (final c (init rows) ops)) (KP p) = None.
Proof.
  exists (mkCfg (100 * sec) (10 * sec) [(KU 7, 1)] false), f7_rows,
    [OTake 1 100; OQri 7 100; OCFault 0 true; OExec 1 (Some (7, 42)) [KP 1; KU 7]; OCFault 0 false; OClean 1],
    1, 100, 7, 41.
  split; [repeat constructor; cbn; intuition|].
  vm_compute. repeat split; discriminate.
Qed.

(* (seeded C06-4) cacheopt.go newOptions without the trailing "<= 0 means default" fallback: an
   option WithExpiry(0) / WithNotFoundExpiry(0) (an unset configuration field passed through)
   reaches the node unchanged.  aroundDuration(0) = 0, ceil = 0 seconds, and SETEX / SETNX with
   0 seconds store a PERSISTENT key: with the raw expiry the oracle t = 0 is inside the band and
   every ordinary Take writes an entry that never expires; with the fallback (the real code,
   [load_primary]) t = 0 is not a behaviour at all. *)
Definition load_primary_raw (c : config) (s : state) (p t : Z) : state * obs :=
  let k := KP p in
  if dbFault s then (s, mkObs RDbErr 0 1)
  else
    match db_get p (db s) with
    | Some (u, v) =>
      if ttl_ok (cexpiry c) t
      then (set_cache s (put k (mkEntry (CRow u v) (exp_of (clock s) t)) (cache s)), mkObs (RRow p u v) 0 1)
      else (s, mkObs RBadOracle 0 1)
    | None =>
      if ttl_ok (cnf c) t
      then (set_cache s (put k (mkEntry CHole (exp_of (clock s) t)) (cache s)), mkObs RNf 0 1)
      else (s, mkObs RBadOracle 0 1)
    end.

Theorem options_fallback_dropped_refuted :
  exists c rows p q,
    cexpiry c <= 0 /\ cnf c <= 0 /\
    (* a cached row and a not-found marker without expiry *)
    find (KP p) (cache (fst (load_primary_raw c (init rows) p 0))) = Some (mkEntry (CRow 7 41) None) /\
    find (KP q) (cache (fst (load_primary_raw c (init rows) q 0))) = Some (mkEntry CHole None) /\
    (forall now, lookup now (cache (fst (load_primary_raw c (init rows) q 0))) (KP q) <> None) /\
    (* the real code: the defaults apply, a TTL of 0 s is outside the band *)
    oret (snd (load_primary c (init rows) p 0)) = RBadOracle /\
    ttl_ok (expiry_of c) (ttl_hi default_expiry) = true /\ 1 <= ttl_lo default_expiry.
Proof.
  exists (mkCfg 0 0 [] false), f7_rows, 1, 2.
  vm_compute. repeat split; discriminate.
Qed.

(* (seeded C07-4) doTake: a follower of a shared flight whose result is the LEADER's context
   error (the leader's context was cancelled / passed its deadline while its query was in
   progress; for the model: the database's error) re-runs the whole load itself, outside the
   single flight.  Nothing was cached by the failed load, so all n followers find the key
   uncached and query the database - at the same time: n + 1 queries for n + 1 overlapping
   readers of one key instead of at most one (Props.load_suppression), n of them concurrently. *)
From Coq Require Import Lia.
From GZ Require Import C06.ProofsB.

Definition shared_take_rerun (c : config) (s : state) (p t : Z) (n : nat) : list obs :=
  let lead := snd (step c s (OTake p t)) in
  match oret lead with
  | RDbErr => lead :: repeat (snd (step c (fst (step c s (OTake p t))) (OTake p t))) n
  | r => lead :: repeat (mkObs r 0 0) n
  end.

Lemma total_queries_repeat o n : total_queries (repeat o n) = Z.of_nat n * (oqi o + oqp o).
Proof.
  induction n as [|n IH]; [reflexivity|].
  rewrite Nat2Z.inj_succ. cbn [repeat total_queries]. rewrite IH. lia.
Qed.

Theorem follower_rerun_refuted :
  exists c s p t, forall n,
    total_queries (shared_take_rerun c s p t n) = 1 + Z.of_nat n /\
    (* whereas sharing the failed flight's result costs one query, whatever n *)
    total_queries (snd (shared_take c s p t n)) = 1.
Proof.
  exists f7_cfg, (mkState f7_rows true [] [] [] [] 0), 1, 100.
  intro n. split.
  - change (shared_take_rerun f7_cfg (mkState f7_rows true [] [] [] [] 0) 1 100 n)
      with (mkObs RDbErr 0 1 :: repeat (mkObs RDbErr 0 1) n).
    cbn [total_queries]. rewrite total_queries_repeat. cbn [oqi oqp]. lia.
  - change (snd (shared_take f7_cfg (mkState f7_rows true [] [] [] [] 0) 1 100 n))
      with (mkObs RDbErr 0 1 :: repeat (mkObs RDbErr 0 0) n).
    cbn [total_queries]. rewrite total_queries_repeat. cbn [oqi oqp]. lia.
Qed.

(* (seeded C06-8, C07-7) the shared result of a flight is a REFERENCE to the leader's destination
   cell instead of a copy taken inside the flight: a reader that joined the flight encodes /
   copies the cell after the leader's read has returned, when the cell belongs to the leader's
   caller again.  [m] is what that caller has made of it meanwhile (load; change; save).  One
   query, a correct store and database - but the joiners do not receive the query's result. *)
Definition shared_take_alias (c : config) (s : state) (p t : Z) (n : nat) (m : ret) : state * list obs :=
  (fst (step c s (OTake p t)), snd (step c s (OTake p t)) :: repeat (mkObs m 0 0) n).

Theorem shared_reference_refuted :
  exists c s p t m, forall n, (0 < n)%nat ->
    total_queries (snd (shared_take_alias c s p t n m)) = 1 /\
    fst (shared_take_alias c s p t n m) = fst (step c s (OTake p t)) /\
    ~ Forall (fun o => oret o = oret (snd (step c s (OTake p t)))) (snd (shared_take_alias c s p t n m)) /\
    (* with a copy taken inside the flight (the real code) they all do: Props.load_suppression *)
    Forall (fun o => oret o = oret (snd (step c s (OTake p t)))) (snd (shared_take c s p t n)).
Proof.
  exists f7_cfg, (init f7_rows), 1, 100, (RRow 1 7 11).
  intros n Hn. destruct n as [|n]; [inversion Hn|].
  split; [|split; [reflexivity|split]].
  - change (snd (shared_take_alias f7_cfg (init f7_rows) 1 100 (S n) (RRow 1 7 11)))
      with (mkObs (RRow 1 7 41) 0 1 :: repeat (mkObs (RRow 1 7 11) 0 0) (S n)).
    cbn [total_queries]. rewrite total_queries_repeat. cbn [oqi oqp]. lia.
  - intro F. inversion F as [|x l _ F']. subst. inversion F' as [|y l' E _]. subst.
    vm_compute in E. discriminate.
  - apply (load_suppression_lemma f7_cfg (init f7_rows) 1 100 (S n)).
Qed.

(* (seeded C06-9) cleaner.go AddCleanTask registers the retry under the JOINED CACHE KEYS instead
   of a random timer key: in the process-wide timing wheel a later failed invalidation of the same
   key list - in ANOTHER world, on another Redis - replaces the pending retry of the first.  The
   first world's entry is never deleted: after recovery and the cleaner's tick nothing is
   outstanding there, every node is up, and the read is stale.  In the product model
   (ProofsE.wfinal: a retry belongs to the store it failed on) the same history invalidates both. *)
From GZ Require Import C06.ProofsE.

Fixpoint keys_eqb (a b : list key) : bool :=
  match a, b with
  | [], [] => true
  | x :: a', y :: b' => key_eqb x y && keys_eqb a' b'
  | _, _ => false
  end.

(* the tasks of [s] that survive the registration of [added] under the same timer keys *)
Definition coalesced (added : list task) (s : state) : state :=
  mkState (db s) (dbFault s) (cache s) (cfault s)
          (filter (fun t => negb (existsb (fun a => keys_eqb (tkeys a) (tkeys t)) added)) (pending s))
          (lost s) (clock s).

Fixpoint mapi {A B} (f : nat -> A -> B) (i : nat) (l : list A) : list B :=
  match l with [] => [] | x :: l' => f i x :: mapi f (S i) l' end.

Definition wstep_coalesced (ws : list state) (x : wop) : list state :=
  match x with
  | WOp w c o =>
    let s := nth w ws (init []) in
    let s' := fst (step c s o) in
    let added := skipn (length (pending s)) (pending s') in
    mapi (fun j sj => if Nat.eqb j w then s' else coalesced added sj) 0 ws
  | _ => wstep ws x
  end.

Definition wfinal_coalesced (ws : list state) (h : list wop) : list state := fold_left wstep_coalesced h ws.

Theorem coalesced_by_key_refuted :
  exists rows c h p t u v,
    NoDup (map fst rows) /\
    all_disciplinedm (init rows) (wproj 0 h) = true /\ all_disciplinedm (init rows) (wproj 1 h) = true /\
    let s0 := nth 0 (wfinal_coalesced [init rows; init rows] h) (init []) in
    (* world 0 after recovery and the tick: nothing outstanding, all up - and stale *)
    cfault s0 = [] /\ pending s0 = [] /\ lost s0 = [] /\ dirty s0 (KP p) = false /\
    step c s0 (OTake p t) = (s0, mkObs (RRow p u v) 0 0) /\ db_get p (db s0) <> Some (u, v) /\
    (* the product model: world 0's key is invalidated *)
    lookup (clock (nth 0 (wfinal [init rows; init rows] h) (init [])))
           (cache (nth 0 (wfinal [init rows; init rows] h) (init []))) (KP p) = None.
Proof.
  exists f7_rows, f7_cfg,
    [WOp 0 f7_cfg (OTake 1 100); WOp 1 f7_cfg (OTake 1 100);
     WOp 0 f7_cfg (OCFault 0 true); WOp 1 f7_cfg (OCFault 0 true);
     WOp 0 f7_cfg (OExec 1 (Some (7, 42)) [KP 1; KU 7]); WOp 1 f7_cfg (OExec 1 (Some (7, 43)) [KP 1; KU 7]);
     WOp 0 f7_cfg (OCFault 0 false); WOp 1 f7_cfg (OCFault 0 false); WClean 1],
    1, 100, 7, 41.
  split; [repeat constructor; cbn; intuition|].
  vm_compute. repeat split; discriminate.
Qed.

(* The stale-set schedule: a reader's database load of an uncached key starts (it reads v1) BEFORE a
   write-with-invalidation Exec(v2) of that key and its SETEX lands AFTER the Exec's DEL.  The two
   operations OVERLAP, which the property's quantifier excludes ("operations on a key do not
   overlap"); its sequential image is exactly an UNDISCIPLINED history - the cache is written
   behind the database's back with a value the database no longer holds - and that is why
   coherent_reads asks for discipline: afterwards, with nothing outstanding, the stale row is
   served from the cache.  What the property still promises holds: the entry has a finite TTL, and
   once it has passed the read is fresh.  (The unchanged code does leave this entry: monitor
   "stale-set schedule" of the check.) *)
Example stale_set_race_is_undisciplined :
  let ops := [OExec 1 (Some (7, 42)) [KP 1; KU 7]; OSet 1 7 41 100] in
  all_disciplined f7_cfg (init f7_rows) ops = false /\
  let s := final f7_cfg (init f7_rows) ops in
  pending s = [] /\ lost s = [] /\ dirty s (KP 1) = false /\
  step f7_cfg s (OTake 1 100) = (s, mkObs (RRow 1 7 41) 0 0) /\ db_get 1 (db s) = Some (7, 42) /\
  (exists x, option_map eexp (find (KP 1) (cache s)) = Some (Some x)) /\
  oret (snd (step f7_cfg (fst (step f7_cfg s (OAdv 100001))) (OTake 1 100))) = RRow 1 7 42.
Proof. vm_compute. repeat split. eexists. reflexivity. Qed.

(* (seeded C06-10 / C06-6, self-test MA) redis.ClusterType: cacheNode.DelCtx sends one DEL per key
   and registers one retry per failed key.  Pinned variant: the retry closures capture the loop
   variable (one variable per loop before Go 1.22), so EVERY retry deletes the key the loop
   ended on - the last one.  After recovery and the first tick nothing is outstanding (no
   timer, nothing given up, every node up) and every key but the last is still cached: a
   stale read that is not F7.  The same variant under a context that ends while the first DEL
   is on the wire ([die_split]): the owed keys are retried as the last key. *)
Definition del_tasks_lastkey (c : config) (ks : list key) (n : Z) : list task :=
  if ccluster c && (1 <? Z.of_nat (length ks))
  then map (fun _ => first_task [last ks (KP 0)] n) ks
  else [first_task ks n].

Definition del_on_node_lastkey (c : config) (n : Z) (keys : list key) (s : state) : state :=
  let ks := filter (fun k => node_of c k =? n) keys in
  match ks with
  | [] => s
  | _ =>
    if node_down s n then
      mkState (db s) (dbFault s) (cache s) (cfault s)
              (pending s ++ del_tasks_lastkey c ks n) (lost s) (clock s)
    else del_on_node c n keys s
  end.

Definition del_keys_lastkey (c : config) (keys : list key) (s : state) : state :=
  fold_left (fun s n => del_on_node_lastkey c n keys s) (nodes_of c keys) s.

Definition die_keys_lastkey (c : config) (keys : list key) (n0 : Z) (s : state) : state :=
  let ks0 := filter (fun k => node_of c k =? n0) keys in
  owe (map (fun t => mkTask (if ccluster c && (1 <? Z.of_nat (length ks0)) then [last ks0 (KP 0)] else tkeys t)
                            (tnode t) (trem t) (tdelay t))
           (snd (die_split c keys n0)))
      (del_on_node c n0 (fst (die_split c keys n0)) s).

Definition step_lastkey (c : config) (s : state) (o : op) : state * obs :=
  let put p u v := mkState (db_put p (u, v) (db s)) (dbFault s) (cache s) (cfault s) (pending s) (lost s) (clock s) in
  match o with
  | OExec p (Some (u, v)) keys =>
    if dbFault s || u_taken p u (db s) then (s, mkObs RDbErr 0 0)
    else (del_keys_lastkey c keys (put p u v), mkObs ROk 0 0)
  | OExecDie p (Some (u, v)) keys n0 =>
    if dbFault s || u_taken p u (db s) then (s, mkObs RDbErr 0 0)
    else (die_keys_lastkey c keys n0 (put p u v), mkObs ROk 0 0)
  | ODel keys => (del_keys_lastkey c keys s, mkObs ROk 0 0)
  | _ => step c s o
  end.

Fixpoint final_lastkey (c : config) (s : state) (ops : list op) : state :=
  match ops with
  | [] => s
  | o :: ops' => final_lastkey c (fst (step_lastkey c s o)) ops'
  end.

Definition cl_cfg : config := mkCfg (100 * sec) (10 * sec) [] true.

Theorem retry_closure_last_key_refuted :
  exists c rows ops p t u v,
    NoDup (map fst rows) /\ all_disciplined c (init rows) ops = true /\
    let s := final_lastkey c (init rows) ops in
    cfault s = [] /\ pending s = [] /\ lost s = [] /\ dirty s (KP p) = false /\
    step_lastkey c s (OTake p t) = (s, mkObs (RRow p u v) 0 0) /\ db_get p (db s) <> Some (u, v) /\
    (* the model of the real code: every key of the invalidation is gone after the first retry *)
    cache (final c (init rows) ops) = [].
Proof.
  exists cl_cfg, f7_rows,
    [OTake 1 100; OQri 7 100; OCFault 0 true; OExec 1 (Some (7, 42)) [KP 1; KU 7]; OCFault 0 false; OClean 1],
    1, 100, 7, 41.
  split; [repeat constructor; cbn; intuition|].
  vm_compute. repeat split; discriminate.
Qed.

Theorem retry_closure_last_key_dying_context_refuted :
  exists c rows ops u t p v,
    NoDup (map fst rows) /\ all_disciplined c (init rows) ops = true /\
    let s := final_lastkey c (init rows) ops in
    cfault s = [] /\ pending s = [] /\ lost s = [] /\ dirty s (KU u) = false /\ dirty s (KP p) = false /\
    (* the index entry of the row's OLD index value survived the retry: the row is found under
       an index value it no longer has *)
    step_lastkey c s (OQri u t) = (fst (step_lastkey c s (OQri u t)), mkObs (RRow p 9 v) 0 1) /\
    db_get p (db s) = Some (9, v) /\ u <> 9 /\
    cache (final c (init rows) ops) = [].
Proof.
  exists cl_cfg, f7_rows,
    [OTake 1 100; OQri 7 100; OExecDie 1 (Some (9, 42)) [KP 1; KU 7; KU 9] 0; OClean 1],
    7, 100, 1, 42.
  split; [repeat constructor; cbn; intuition|].
  vm_compute. repeat split; discriminate.
Qed.
