(* C06 - the two known findings (DESIGN.md §5, F7 and F11) as refuted statements: each
   drops one hypothesis of a theorem of Props.v and exhibits a concrete history of the
   model (replayed on the implementation by the corpus of tools/props/c06.py). *)
From Coq Require Import List ZArith Bool NArith.
From GZ Require Import C06.Model.
Import ListNotations.
Open Scope Z_scope.

Definition f7_cfg : config := mkCfg (100 * sec) (10 * sec) [].
Definition f7_rows : table := [(1, (7, 41))].
(* Take -> v1; cache outage; Exec(v2) "succeeds" (DelCtx logs, schedules the retry, returns
   nil); recovery; Take -> v1 *)
Definition f7_ops : list op :=
  [OTake 1 100; OCFault 0 true; OExec 1 (Some (7, 42)) [KP 1; KU 7]; OCFault 0 false].

(* coherent_reads without "no invalidation of the key is outstanding": a disciplined
   history after which, with every node up again, Take returns a row the database does
   not hold - from the cache, with 0 queries - until the cleaner's retry runs. *)
Theorem coherence_refuted_pending_del :
  exists c rows ops p t u v,
    NoDup (map fst rows) /\ all_disciplined c (init rows) ops = true /\
    let s := final c (init rows) ops in
    cfault s = [] /\ dirty s (KP p) = true /\
    step c s (OTake p t) = (s, mkObs (RRow p u v) 0 0) /\
    db_get p (db s) <> Some (u, v) /\
    (* the Exec itself reported success *)
    oret (snd (step c (final c (init rows) (firstn 2 ops)) (nth 2 ops (OGet 0)))) = ROk /\
    (* one tick of the cleaner later the read is coherent again *)
    oret (snd (step c (fst (step c s (OClean 1))) (OTake p t))) = RRow p 7 42.
Proof.
  exists f7_cfg, f7_rows, f7_ops, 1, 100, 7, 41.
  split; [repeat constructor; cbn; intuition|].
  vm_compute. repeat split; discriminate.
Qed.

(* the same after the cleaner gave up (node down at every retry: with today's table ticks 1, 6,
   66, 366, 3966; the witness ticks 200000 times so that it survives a changed table): the stale
   row is served until its TTL ends *)
Theorem coherence_refuted_after_give_up :
  exists c rows ops p t u v,
    all_disciplined c (init rows) ops = true /\
    let s := final c (init rows) ops in
    cfault s = [] /\ pending s = [] /\ dirty s (KP p) = true /\
    step c s (OTake p t) = (s, mkObs (RRow p u v) 0 0) /\ db_get p (db s) <> Some (u, v).
Proof.
  exists (mkCfg 0 0 []), f7_rows,
    [OTake 1 604800; OCFault 0 true; OExec 1 (Some (7, 42)) [KP 1; KU 7]; OClean 200000; OCFault 0 false],
    1, 100, 7, 41.
  vm_compute. repeat split; discriminate.
Qed.

(* ttl_finite_and_banded without "requested expiry > 0": SetWithExpire(key, v, d) with
   d <= 0 leaves a key that never expires (redis.SetexCtx -> go-redis Set(..., 0)) *)
Theorem persistent_on_nonpositive_refuted :
  exists c rows ops k e,
    2 <= expiry_of c /\ 2 <= nf_of c /\ all_disciplined c (init rows) ops = true /\
    find k (cache (final c (init rows) ops)) = Some e /\ eexp e = None /\
    (forall now, lookup now (cache (final c (init rows) ops)) k = Some e).
Proof.
  exists f7_cfg, f7_rows, [OSetEx 1 7 41 0; OAdv 1000000000000], (KP 1), (mkEntry (CRow 7 41) None).
  vm_compute. repeat split; try discriminate. 
Qed.

Example persistent_on_negative :
  find (KP 1) (cache (final f7_cfg (init f7_rows) [OSetEx 1 7 41 (- sec)])) = Some (mkEntry (CRow 7 41) None).
Proof. vm_compute. reflexivity. Qed.

(* a configured expiry of 1 ns is "non-positive after jitter": AroundDuration may truncate
   it to 0, which the band allows (t = 0) and which is then persistent as well; this is why
   ttl_finite_and_banded asks for >= 2 ns *)
Example one_nanosecond_expiry_may_persist :
  ttl_ok 1 0 = true /\
  find (KP 1) (cache (fst (step (mkCfg 1 1 []) (init f7_rows) (OTake 1 0)))) = Some (mkEntry (CRow 7 41) None).
Proof. vm_compute. split; reflexivity. Qed.
