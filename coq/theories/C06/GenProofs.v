(* C06 - what the development needs of the constants regenerated from the Go sources
   (coq/gen/C06Consts.v), re-checked against today's values on every run.
   [deviation_is_five_percent] is the one fact fixed by the PROPERTY TEXT ("+/-5% jitter"):
   if the source's expiryDeviation moves, this lemma stops checking while the TTL theorems
   of Props.v are re-proved for the new band. *)
From Coq Require Import List ZArith Bool String Ascii Lia.
From GZgen Require Import C06Consts.
From GZ Require Import C06.Model.
Import ListNotations.
Open Scope Z_scope.

Lemma deviation_is_five_percent : 20 * gen_dev_num = gen_dev_den /\ 0 < gen_dev_den.
Proof. vm_compute. split; reflexivity. Qed.

(* used by the TTL theorems: jitter of at most 50 % keeps floor((1-dev) e) >= 1 for e >= 2 ns *)
Lemma deviation_range : 0 <= dev_num /\ 0 < dev_den /\ 2 * dev_num <= dev_den.
Proof. vm_compute. repeat split; discriminate. Qed.

Lemma defaults_at_least_2ns : 2 <= default_expiry /\ 2 <= default_nf.
Proof. vm_compute. split; discriminate. Qed.

(* ceil((expire + gap).Seconds()) = ceil(expire.Seconds()) + gap/1e9 needs a whole number of seconds *)
Lemma gap_whole_seconds : gen_safe_gap mod sec = 0 /\ 0 < safe_gap.
Proof. vm_compute. split; reflexivity. Qed.

(* Model.expiry_of / nf_of replace a non-positive option by the default: newOptions still does
   (an option WithExpiry(0) would otherwise reach SETEX with 0 s = a persistent key, see
   Pinned.options_fallback_dropped_refuted) *)
Lemma options_fallback_present : gen_options_fallback = true.
Proof. vm_compute. reflexivity. Qed.

(* Codec.unmarshal_any yields json.Number for a JSON number: jsonx.Unmarshal still decodes with
   UseNumber() (a float64 there would round primary keys beyond 2^53, see
   Pinned.index_hit_float_normalised_refuted) *)
Lemma decoded_numbers_are_json_number : gen_jsonx_usenumber = true.
Proof. vm_compute. reflexivity. Qed.

Lemma retry_table_sane :
  0 < gen_first_delay /\ 0 < gen_wheel_interval /\
  forallb (fun ab : Z * Z => (0 <? fst ab) && (0 <? snd ab)) gen_retry = true.
Proof. vm_compute. repeat split. Qed.

(* the cleaner gives up eventually: the retry table is a chain that ends *)
Fixpoint chain_len (fuel : nat) (d : Z) : option nat :=
  match fuel with
  | O => None
  | S f => match next_delay d with None => Some O | Some d' => option_map S (chain_len f d') end
  end.
Lemma retry_chain_ends : exists n, chain_len 64 gen_first_delay = Some n.
Proof. vm_compute. eexists. reflexivity. Qed.

(* the not-found marker cannot be the JSON rendering of any value (so a cached row is never
   mistaken for it): non-empty and not starting like a JSON value or white space *)
Definition json_start (a : ascii) : bool :=
  existsb (Ascii.eqb a)
          ["{"; "["; """"; "-"; "0"; "1"; "2"; "3"; "4"; "5"; "6"; "7"; "8"; "9"; "t"; "f"; "n"; " "]%char
  || (nat_of_ascii a <? 32)%nat.
Definition placeholder_ok (s : string) : bool :=
  match s with EmptyString => false | String a _ => negb (json_start a) end.
Lemma placeholder_is_not_json : placeholder_ok gen_placeholder = true.
Proof. vm_compute. reflexivity. Qed.
