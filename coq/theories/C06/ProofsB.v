(* C06 - lemmas that need no history invariant: service from the cache, database
   errors, store errors, TTLs, index / primary expiry. *)
From Coq Require Import List ZArith Bool NArith Lia.
From GZ Require Import C06.Model C06.Proofs C06.GenProofs.
Import ListNotations.
Open Scope Z_scope.

Ltac unf := unfold query_index_mid, query_index, take_mid, take_primary, load_index, load_primary,
              get_primary, exec, exec_die, set_primary.
Ltac split_step :=
  repeat match goal with
         | |- context [if ?b then _ else _] => destruct b eqn:?
         | |- context [match ?x with _ => _ end] => destruct x eqn:?
         end.

(* ------------------------------------------------------------------ served from the cache *)
Definition answer (p : Z) (v : cval) : ret :=
  match v with CRow u w => RRow p u w | _ => RNf end.

Lemma take_served c s p t e :
  key_down c s (KP p) = false -> lookup (clock s) (cache s) (KP p) = Some e ->
  (forall q, eval e <> CPk q) ->
  step c s (OTake p t) = (s, mkObs (answer p (eval e)) 0 0).
Proof.
  intros K L T. cbn [step]. unfold take_primary. rewrite K, L.
  destruct e as [[u v|q|] x]; cbn; auto. exfalso. eapply T. reflexivity.
Qed.

Lemma qri_served_hole c s u t e :
  key_down c s (KU u) = false -> lookup (clock s) (cache s) (KU u) = Some e -> eval e = CHole ->
  step c s (OQri u t) = (s, mkObs RNf 0 0).
Proof.
  intros K L E. cbn [step]. unfold query_index. rewrite K, L.
  destruct e as [[a b|q|] x]; cbn in E; try discriminate. reflexivity.
Qed.

Lemma qri_served_row c s u t e p e' :
  key_down c s (KU u) = false -> lookup (clock s) (cache s) (KU u) = Some e -> eval e = CPk p ->
  key_down c s (KP p) = false -> lookup (clock s) (cache s) (KP p) = Some e' ->
  (forall q, eval e' <> CPk q) ->
  step c s (OQri u t) = (s, mkObs (answer p (eval e')) 0 0).
Proof.
  intros K L E K' L' T. cbn [step]. unfold query_index. rewrite K, L.
  destruct e as [[a b|q|] x]; cbn in E; try discriminate. inversion E. subst.
  apply (take_served c s p t e' K' L' T).
Qed.

(* ------------------------------------------------------------------ database errors *)
Definition is_mid (o : op) : bool :=
  match o with OTakeMid _ _ _ | OQriMid _ _ _ => true | _ => false end.

(* the state is untouched - up to the outage that a mid-operation fault op injects itself *)
Lemma dberr_keeps_state_gen c s o :
  oret (snd (step c s o)) = RDbErr ->
  fst (step c s o) = s \/ (is_mid o = true /\ exists n, fst (step c s o) = fail_node s n).
Proof.
  destruct o; cbn [step is_mid]; unf;
    try (split_step; cbn; intro H; try discriminate; left; reflexivity);
    try (cbn; discriminate).
  - split_step; cbn; intro H; try discriminate; try (left; reflexivity); right; split; auto; eexists; reflexivity.
  - split_step; cbn; intro H; try discriminate; try (left; reflexivity); right; split; auto; eexists; reflexivity.
Qed.

Lemma dberr_keeps_state c s o :
  is_mid o = false -> oret (snd (step c s o)) = RDbErr -> fst (step c s o) = s.
Proof.
  intros M H. destruct (dberr_keeps_state_gen c s o H) as [G|[G _]]; auto. congruence.
Qed.

Lemma dberr_keeps_data c s o :
  oret (snd (step c s o)) = RDbErr ->
  let s' := fst (step c s o) in
  db s' = db s /\ cache s' = cache s /\ pending s' = pending s /\ lost s' = lost s /\ clock s' = clock s.
Proof.
  intro H. destruct (dberr_keeps_state_gen c s o H) as [G|[_ [n G]]]; cbn zeta; rewrite G; auto.
Qed.

Lemma dberr_returned_take c s p t :
  dbFault s = true -> key_down c s (KP p) = false -> lookup (clock s) (cache s) (KP p) = None ->
  step c s (OTake p t) = (s, mkObs RDbErr 0 1).
Proof. intros F K L. cbn [step]. unfold take_primary, load_primary. rewrite K, L, F. reflexivity. Qed.

Lemma dberr_returned_qri c s u t :
  dbFault s = true -> key_down c s (KU u) = false -> lookup (clock s) (cache s) (KU u) = None ->
  step c s (OQri u t) = (s, mkObs RDbErr 1 0).
Proof. intros F K L. cbn [step]. unfold query_index, load_index. rewrite K, L, F. reflexivity. Qed.

Lemma dberr_returned_exec c s p w keys :
  dbFault s = true -> step c s (OExec p w keys) = (s, mkObs RDbErr 0 0).
Proof. intros F. cbn [step]. unfold exec. rewrite F. reflexivity. Qed.

Lemma dberr_returned_exec_die c s p w keys n0 :
  dbFault s = true -> step c s (OExecDie p w keys n0) = (s, mkObs RDbErr 0 0).
Proof. intros F. cbn [step]. unfold exec_die. rewrite F. reflexivity. Qed.

(* ------------------------------------------------------------------ store errors *)
Lemma cerr_take c s p t : key_down c s (KP p) = true -> step c s (OTake p t) = (s, mkObs RCErr 0 0).
Proof. intro K. cbn [step]. unfold take_primary. rewrite K. reflexivity. Qed.

Lemma cerr_get c s p : key_down c s (KP p) = true -> step c s (OGet p) = (s, mkObs RCErr 0 0).
Proof. intro K. cbn [step]. unfold get_primary. rewrite K. reflexivity. Qed.

Lemma cerr_qri c s u t : key_down c s (KU u) = true -> step c s (OQri u t) = (s, mkObs RCErr 0 0).
Proof. intro K. cbn [step]. unfold query_index. rewrite K. reflexivity. Qed.

Lemma cerr_qri_primary c s u t e p :
  key_down c s (KU u) = false -> lookup (clock s) (cache s) (KU u) = Some e -> eval e = CPk p ->
  key_down c s (KP p) = true -> step c s (OQri u t) = (s, mkObs RCErr 0 0).
Proof.
  intros K L E K'. cbn [step]. unfold query_index. rewrite K, L.
  destruct e as [[a b|q|] x]; cbn in E; try discriminate. inversion E. subst.
  unfold take_primary. rewrite K'. reflexivity.
Qed.

Lemma cerr_set c s p u v t : key_down c s (KP p) = true -> step c s (OSet p u v t) = (s, mkObs RCErr 0 0).
Proof. intro K. cbn [step]. rewrite K. reflexivity. Qed.

Lemma cerr_setex c s p u v d : key_down c s (KP p) = true -> step c s (OSetEx p u v d) = (s, mkObs RCErr 0 0).
Proof. intro K. cbn [step]. unfold set_primary. rewrite K. reflexivity. Qed.

(* a store error is only ever reported while some node is down (for the operations that do
   not inject an outage themselves) *)
Lemma cerr_only_when_down c s o : is_mid o = false -> oret (snd (step c s o)) = RCErr -> cfault s <> [].
Proof.
  assert (A : forall k, key_down c s k = true -> cfault s <> []).
  { intros k. unfold key_down, node_down. destruct (cfault s); cbn; [discriminate | intros _ E; discriminate]. }
  intros M. destruct o; cbn [is_mid] in M; try discriminate; cbn [step]; unf;
    try (cbn; discriminate).
  - destruct (key_down c s (KP p)) eqn:K; [intros _; eapply A; eauto|]. split_step; cbn; discriminate.
  - destruct (key_down c s (KU u)) eqn:K; [intros _; eapply A; eauto|].
    destruct (lookup (clock s) (cache s) (KU u)) as [[[a b|q|] x]|]; try (cbn; discriminate).
    + destruct (key_down c s (KP q)) eqn:K'; [intros _; eapply A; eauto|]. split_step; cbn; discriminate.
    + destruct (dbFault s); [cbn; discriminate|].
      destruct (db_by_u u (db s)) as [[p [u' v]]|].
      * destruct (key_down c s (KP p)) eqn:K'; [intros _; eapply A; eauto|].
        destruct (ttl_ok (expiry_of c) t); cbn; discriminate.
      * destruct (ttl_ok (nf_of c) t); cbn; discriminate.
  - destruct (key_down c s (KP p)) eqn:K; [intros _; eapply A; eauto|]. split_step; cbn; discriminate.
  - split_step; cbn; discriminate.
  - destruct (key_down c s (KP p)) eqn:K; [intros _; eapply A; eauto|]. split_step; cbn; discriminate.
  - destruct (key_down c s (KP p)) eqn:K; [intros _; eapply A; eauto|]. cbn; discriminate.
  - split_step; cbn; discriminate.
Qed.

(* ------------------------------------------------------------------ TTLs *)
Lemma sec_pos : 0 < sec. Proof. reflexivity. Qed.

Lemma cdiv_ge1 x : 1 <= x -> 1 <= cdiv x sec.
Proof.
  intro H. unfold cdiv. apply Z.div_le_lower_bound; [apply sec_pos | lia].
Qed.

Lemma ttl_ok_bounds b t : 2 <= b -> ttl_ok b t = true -> 1 <= t <= ttl_hi b.
Proof.
  intros Hb H. unfold ttl_ok in H. apply andb_true_iff in H. destruct H as [H1 H2].
  apply Z.leb_le in H1. apply Z.leb_le in H2. split; auto.
  assert (1 <= ttl_lo b); [|lia].
  destruct deviation_range as (Dn & Dd & D2).
  unfold ttl_lo. apply cdiv_ge1. apply Z.div_le_lower_bound; [exact Dd|]. nia.
Qed.

Lemma safe_gap_pos : 0 < safe_gap.
Proof. apply gap_whole_seconds. Qed.

Lemma exp_of_finite now t : 1 <= t -> exp_of now t = Some (now + 1000 * t).
Proof. intro H. unfold exp_of. destruct (t <=? 0) eqn:E; auto. apply Z.leb_le in E. lia. Qed.

(* where the TTL of an entry written by an operation comes from *)
Definition ttl_src (c : config) (o : op) (t : Z) : Prop :=
  match o with
  | OTake _ _ => ttl_ok (expiry_of c) t = true \/ ttl_ok (nf_of c) t = true
  | OQri _ _ => ttl_ok (expiry_of c) t = true \/ ttl_ok (nf_of c) t = true
                \/ ttl_ok (expiry_of c) (t - safe_gap) = true
  | OTakeMid _ _ _ => ttl_ok (expiry_of c) t = true \/ ttl_ok (nf_of c) t = true
  | OQriMid _ _ _ => ttl_ok (expiry_of c) t = true \/ ttl_ok (nf_of c) t = true
                     \/ ttl_ok (expiry_of c) (t - safe_gap) = true
  | OSet _ _ _ _ => ttl_ok (expiry_of c) t = true
  | OSetEx _ _ _ d => t = cdiv d sec
  | _ => False
  end.

Definition written (c : config) (s : state) (o : op) (d : store) : Prop :=
  forall k e, find k d = Some e ->
              find k (cache s) = Some e \/ exists t, eexp e = exp_of (clock s) t /\ ttl_src c o t.

Lemma written_same c s o : written c s o (cache s).
Proof. intros k e H. auto. Qed.

Lemma written_put c s o k e t d :
  written c s o d -> eexp e = exp_of (clock s) t -> ttl_src c o t -> written c s o (put k e d).
Proof.
  intros W He Ht k' e' H.
  destruct (key_eqb k' k) eqn:E.
  - apply key_eqb_eq in E. subst. rewrite find_put_same in H. inversion H. subst. right. eauto.
  - rewrite find_put_other in H by exact E. apply W. exact H.
Qed.

Lemma load_primary_written c s s0 p t o :
  cache s0 = cache s -> clock s0 = clock s ->
  (ttl_ok (expiry_of c) t = true -> ttl_src c o t) -> (ttl_ok (nf_of c) t = true -> ttl_src c o t) ->
  written c s o (cache (fst (load_primary c s0 p t))).
Proof.
  intros Ec Ek A B. unfold load_primary.
  destruct (dbFault s0); [cbn [fst]; rewrite Ec; apply written_same|].
  destruct (db_get p (db s0)) as [[u v]|]; (destruct (key_down c s0 (KP p)); [cbn [fst]; rewrite Ec; apply written_same|]).
  - destruct (ttl_ok (expiry_of c) t) eqn:E; [|cbn [fst]; rewrite Ec; apply written_same].
    cbn [fst set_cache cache]. rewrite Ec, Ek.
    eapply written_put; [apply written_same | reflexivity | auto].
  - destruct (ttl_ok (nf_of c) t) eqn:E; [|cbn [fst]; rewrite Ec; apply written_same].
    cbn [fst set_cache cache]. rewrite Ec, Ek.
    eapply written_put; [apply written_same | reflexivity | auto].
Qed.

Lemma take_primary_written c s p t o :
  (ttl_ok (expiry_of c) t = true -> ttl_src c o t) -> (ttl_ok (nf_of c) t = true -> ttl_src c o t) ->
  written c s o (cache (fst (take_primary c s p t))).
Proof.
  intros A B. unfold take_primary.
  destruct (key_down c s (KP p)); [apply written_same|].
  destruct (lookup (clock s) (cache s) (KP p)) as [[[u v|q|] x]|]; try apply written_same.
  apply load_primary_written; auto.
Qed.

Lemma take_mid_written c s p t n o :
  (ttl_ok (expiry_of c) t = true -> ttl_src c o t) -> (ttl_ok (nf_of c) t = true -> ttl_src c o t) ->
  written c s o (cache (fst (take_mid c s p t n))).
Proof.
  intros A B. unfold take_mid.
  destruct (key_down c s (KP p)); [apply written_same|].
  destruct (lookup (clock s) (cache s) (KP p)).
  - apply take_primary_written; auto.
  - apply load_primary_written; auto.
Qed.

Lemma load_index_written c s s0 u t o :
  cache s0 = cache s -> clock s0 = clock s ->
  (ttl_ok (expiry_of c) t = true -> ttl_src c o t /\ ttl_src c o (t + safe_gap)) ->
  (ttl_ok (nf_of c) t = true -> ttl_src c o t) ->
  written c s o (cache (fst (load_index c s0 u t))).
Proof.
  intros Ec Ek A B. unfold load_index.
  destruct (dbFault s0); [cbn [fst]; rewrite Ec; apply written_same|].
  destruct (db_by_u u (db s0)) as [[p [u' v]]|].
  - destruct (key_down c s0 (KP p)); [cbn [fst]; rewrite Ec; apply written_same|].
    destruct (ttl_ok (expiry_of c) t) eqn:E; [|cbn [fst]; rewrite Ec; apply written_same].
    destruct (A eq_refl) as [A1 A2].
    destruct (key_down c s0 (KU u)); cbn [fst set_cache cache]; rewrite Ec, Ek.
    + eapply written_put; [apply written_same | reflexivity | exact A2].
    + eapply written_put; [eapply written_put; [apply written_same | reflexivity | exact A2] | reflexivity | exact A1].
  - destruct (key_down c s0 (KU u)); [cbn [fst]; rewrite Ec; apply written_same|].
    destruct (ttl_ok (nf_of c) t) eqn:E; [|cbn [fst]; rewrite Ec; apply written_same].
    cbn [fst set_cache cache]. rewrite Ec, Ek.
    eapply written_put; [apply written_same | reflexivity | auto].
Qed.

Lemma written_sub c s o d :
  (forall k e, find k d = Some e -> find k (cache s) = Some e) -> written c s o d.
Proof. intros H k e Hf. left. auto. Qed.

Lemma iter_tick_sub n : forall s k e, find k (cache (N.iter n tick s)) = Some e -> find k (cache s) = Some e.
Proof.
  intros s. apply (N.iter_invariant n state tick (fun s' => forall k e, find k (cache s') = Some e -> find k (cache s) = Some e)); auto.
  intros s' H k e Hf. apply H. apply tick_sub. exact Hf.
Qed.

Lemma iter_tick_clock n s : clock (N.iter n tick s) = clock s.
Proof.
  apply (N.iter_invariant n state tick (fun s' => clock s' = clock s)); auto.
  intros s' H. destruct (tick_frame s') as (_ & _ & _ & E). congruence.
Qed.

Lemma step_written c s o : written c s o (cache (fst (step c s o))).
Proof.
  assert (G : forall t, ttl_ok (expiry_of c) t = true -> ttl_ok (expiry_of c) (t + safe_gap - safe_gap) = true).
  { intros t E. replace (t + safe_gap - safe_gap) with t by lia. exact E. }
  destruct o; cbn [step].
  - apply take_primary_written; cbn; auto.
  - unfold query_index.
    destruct (key_down c s (KU u)); [apply written_same|].
    destruct (lookup (clock s) (cache s) (KU u)) as [[[a b|q|] x]|]; try apply written_same.
    + apply take_primary_written; cbn; auto.
    + apply load_index_written; cbn; auto.
  - unfold get_primary. destruct (key_down c s (KP p)); [apply written_same|].
    destruct (lookup (clock s) (cache s) (KP p)) as [[[a b|q|] x]|]; apply written_same.
  - unfold exec. destruct (dbFault s); [apply written_same|].
    destruct w as [[u v]|].
    + destruct (u_taken p u (db s)); [apply written_same|]. cbn [fst]. apply written_sub.
      intros k e H. apply del_keys_sub in H. exact H.
    + cbn [fst]. apply written_sub. intros k e H. apply del_keys_sub in H. exact H.
  - destruct (key_down c s (KP p)) eqn:K; [apply written_same|].
    destruct (ttl_ok (expiry_of c) t) eqn:E; [|apply written_same].
    unfold set_primary. rewrite K. cbn [fst set_cache cache].
    eapply written_put; [apply written_same | reflexivity | exact E].
  - unfold set_primary. destruct (key_down c s (KP p)); [apply written_same|].
    cbn [fst set_cache cache]. eapply written_put; [apply written_same | reflexivity | reflexivity].
  - cbn [fst]. apply written_sub. intros k e H. apply del_keys_sub in H. exact H.
  - cbn [fst cache]. apply written_same.
  - cbn [fst cache]. apply written_same.
  - cbn [fst cache]. apply written_same.
  - cbn [fst]. apply written_sub. apply iter_tick_sub.
  - apply take_mid_written; cbn; auto.
  - unfold query_index_mid.
    destruct (key_down c s (KU u)); [apply written_same|].
    destruct (lookup (clock s) (cache s) (KU u)) as [[[a b|q|] x]|]; try apply written_same.
    + apply take_mid_written; cbn; auto.
    + apply load_index_written; cbn; auto.
  - unfold exec_die. destruct (dbFault s); [apply written_same|].
    destruct (negb (existsb (Z.eqb n0) (nodes_of c keys))); [apply written_same|].
    destruct w as [[u v]|].
    + destruct (u_taken p u (db s)); [apply written_same|]. cbn [fst]. apply written_sub.
      intros k e H. apply die_keys_sub in H. exact H.
    + cbn [fst]. apply written_sub. intros k e H. apply die_keys_sub in H. exact H.
Qed.

(* the longest TTL (seconds) an operation may hand to the store *)
Definition max_ttl (c : config) (o : op) : Z :=
  match o with
  | OSetEx _ _ _ d => cdiv d sec
  | OQri _ _ | OQriMid _ _ _ => Z.max (ttl_hi (expiry_of c) + safe_gap) (ttl_hi (nf_of c))
  | _ => Z.max (ttl_hi (expiry_of c)) (ttl_hi (nf_of c))
  end.

Definition requested_positive (o : op) : Prop :=
  match o with OSetEx _ _ _ d => 0 < d | _ => True end.

Lemma ttl_src_bounds c o t :
  2 <= expiry_of c -> 2 <= nf_of c -> requested_positive o -> ttl_src c o t -> 1 <= t <= max_ttl c o.
Proof.
  intros He Hn Hr H. pose proof safe_gap_pos as Gp.
  destruct o; cbn [ttl_src max_ttl requested_positive] in *; try contradiction.
  - destruct H as [H|H]; apply ttl_ok_bounds in H; auto; lia.
  - destruct H as [H|[H|H]]; apply ttl_ok_bounds in H; auto; lia.
  - apply ttl_ok_bounds in H; auto; lia.
  - subst. split; [|lia]. apply cdiv_ge1. lia.
  - destruct H as [H|H]; apply ttl_ok_bounds in H; auto; lia.
  - destruct H as [H|[H|H]]; apply ttl_ok_bounds in H; auto; lia.
Qed.

Lemma step_ttl c s o k e :
  2 <= expiry_of c -> 2 <= nf_of c -> requested_positive o ->
  find k (cache (fst (step c s o))) = Some e ->
  find k (cache s) = Some e \/
  exists t, eexp e = Some (clock s + 1000 * t) /\ 1 <= t <= max_ttl c o.
Proof.
  intros He Hn Hr Hf. destruct (step_written c s o k e Hf) as [H|(t & Ht & Hs)]; auto.
  right. exists t. pose proof (ttl_src_bounds c o t He Hn Hr Hs) as B.
  rewrite Ht, exp_of_finite by lia. auto.
Qed.

Lemma never_persistent_lemma c ops : forall s,
  2 <= expiry_of c -> 2 <= nf_of c -> Forall requested_positive ops ->
  (forall k e, find k (cache s) = Some e -> eexp e <> None) ->
  forall k e, find k (cache (final c s ops)) = Some e -> eexp e <> None.
Proof.
  induction ops as [|o ops IH]; cbn; intros s He Hn Hr H; auto.
  inversion Hr as [|? ? Ho Hr']. subst.
  apply IH; auto.
  intros k e Hf. destruct (step_ttl c s o k e He Hn Ho Hf) as [G|(t & G & _)]; [eauto|].
  rewrite G. discriminate.
Qed.

(* ------------------------------------------------------------------ index and primary entries *)
Lemma qri_load_writes_pair c s u t p u' v :
  step c s (OQri u t) = (fst (step c s (OQri u t)), mkObs (RRow p u' v) 1 0) ->
  let d := cache (fst (step c s (OQri u t))) in
  find (KU u) d = Some (mkEntry (CPk p) (exp_of (clock s) t)) /\
  find (KP p) d = Some (mkEntry (CRow u' v) (exp_of (clock s) (t + safe_gap))) /\
  ttl_ok (expiry_of c) t = true.
Proof.
  cbn [step]. unfold query_index.
  destruct (key_down c s (KU u)) eqn:K; [cbn; intro H; inversion H|].
  destruct (lookup (clock s) (cache s) (KU u)) as [[[a b|q|] x]|].
  - cbn. intro H. inversion H.
  - unfold take_primary, load_primary. split_step; cbn; intro H; inversion H.
  - cbn. intro H. inversion H.
  - unfold load_index. rewrite K.
    destruct (dbFault s); [cbn; intro H; inversion H|].
    destruct (db_by_u u (db s)) as [[p0 [u0 v0]]|].
    + destruct (key_down c s (KP p0)); [cbn; intro H; inversion H|].
      destruct (ttl_ok (expiry_of c) t); [|cbn; intro H; inversion H].
      cbn [fst snd set_cache cache]. intro H. inversion H. subst.
      split; [apply find_put_same|]. split; auto.
      rewrite find_put_other by reflexivity. apply find_put_same.
    + destruct (ttl_ok (nf_of c) t); cbn; intro H; inversion H.
Qed.

Lemma index_outlived_lemma c s u t p u' v :
  2 <= expiry_of c ->
  step c s (OQri u t) = (fst (step c s (OQri u t)), mkObs (RRow p u' v) 1 0) ->
  let s' := fst (step c s (OQri u t)) in
  exists xi xp,
    find (KU u) (cache s') = Some (mkEntry (CPk p) (Some xi)) /\
    find (KP p) (cache s') = Some (mkEntry (CRow u' v) (Some xp)) /\
    xp = xi + 1000 * safe_gap /\ clock s' < xi /\
    (forall now, clock s' <= now ->
       lookup now (cache s') (KU u) <> None -> lookup now (cache s') (KP p) <> None).
Proof.
  intros He H. destruct (qri_load_writes_pair c s u t p u' v H) as (A & B & T).
  pose proof safe_gap_pos as Gp.
  apply ttl_ok_bounds in T; auto.
  rewrite exp_of_finite in A by lia. rewrite exp_of_finite in B by lia.
  assert (Ck : clock (fst (step c s (OQri u t))) = clock s).
  { clear. cbn [step]. unf. split_step; reflexivity. }
  cbn zeta. exists (clock s + 1000 * t), (clock s + 1000 * (t + safe_gap)).
  repeat split; auto; try lia.
  intros now Hn. unfold lookup. rewrite A, B. unfold live. cbn [eexp].
  destruct (now <? clock s + 1000 * t) eqn:E1; [|congruence].
  apply Z.ltb_lt in E1.
  assert (E2 : now <? clock s + 1000 * (t + safe_gap) = true) by (apply Z.ltb_lt; lia).
  rewrite E2. discriminate.
Qed.

(* at most one database query per operation *)
Lemma step_queries c s o :
  0 <= oqi (snd (step c s o)) /\ 0 <= oqp (snd (step c s o))
  /\ oqi (snd (step c s o)) + oqp (snd (step c s o)) <= 1.
Proof.
  destruct o; cbn [step]; unf; try (cbn; lia); split_step; cbn; lia.
Qed.

(* ------------------------------------------------------------------ conjunctions used by Props.v *)
Lemma served_from_cache_lemma c s :
  (forall p t e, key_down c s (KP p) = false -> lookup (clock s) (cache s) (KP p) = Some e ->
     (forall q, eval e <> CPk q) ->
     step c s (OTake p t) = (s, mkObs (answer p (eval e)) 0 0)) /\
  (forall u t e, key_down c s (KU u) = false -> lookup (clock s) (cache s) (KU u) = Some e ->
     eval e = CHole -> step c s (OQri u t) = (s, mkObs RNf 0 0)) /\
  (forall u t e p e', key_down c s (KU u) = false -> lookup (clock s) (cache s) (KU u) = Some e ->
     eval e = CPk p -> key_down c s (KP p) = false -> lookup (clock s) (cache s) (KP p) = Some e' ->
     (forall q, eval e' <> CPk q) ->
     step c s (OQri u t) = (s, mkObs (answer p (eval e')) 0 0)).
Proof.
  split; [|split]; intros.
  - apply take_served; auto.
  - eapply qri_served_hole; eauto.
  - eapply qri_served_row; eauto.
Qed.

Lemma db_error_lemma c s :
  (forall o, is_mid o = false -> oret (snd (step c s o)) = RDbErr -> fst (step c s o) = s) /\
  (forall o, oret (snd (step c s o)) = RDbErr ->
     let s' := fst (step c s o) in
     db s' = db s /\ cache s' = cache s /\ pending s' = pending s /\ lost s' = lost s /\ clock s' = clock s) /\
  (dbFault s = true ->
     (forall p t, key_down c s (KP p) = false -> lookup (clock s) (cache s) (KP p) = None ->
        step c s (OTake p t) = (s, mkObs RDbErr 0 1)) /\
     (forall u t, key_down c s (KU u) = false -> lookup (clock s) (cache s) (KU u) = None ->
        step c s (OQri u t) = (s, mkObs RDbErr 1 0)) /\
     (forall p w keys, step c s (OExec p w keys) = (s, mkObs RDbErr 0 0)) /\
     (forall p w keys n0, step c s (OExecDie p w keys n0) = (s, mkObs RDbErr 0 0))).
Proof.
  split; [intro o; apply dberr_keeps_state|].
  split; [intro o; apply dberr_keeps_data|].
  intro F. split; [|split; [|split]]; intros.
  - apply dberr_returned_take; auto.
  - apply dberr_returned_qri; auto.
  - apply dberr_returned_exec; auto.
  - apply dberr_returned_exec_die; auto.
Qed.

Lemma cache_error_lemma c s :
  (forall p t, key_down c s (KP p) = true -> step c s (OTake p t) = (s, mkObs RCErr 0 0)) /\
  (forall p, key_down c s (KP p) = true -> step c s (OGet p) = (s, mkObs RCErr 0 0)) /\
  (forall u t, key_down c s (KU u) = true -> step c s (OQri u t) = (s, mkObs RCErr 0 0)) /\
  (forall u t e p, key_down c s (KU u) = false -> lookup (clock s) (cache s) (KU u) = Some e ->
     eval e = CPk p -> key_down c s (KP p) = true -> step c s (OQri u t) = (s, mkObs RCErr 0 0)) /\
  (forall p u v t, key_down c s (KP p) = true -> step c s (OSet p u v t) = (s, mkObs RCErr 0 0)) /\
  (forall p u v d, key_down c s (KP p) = true -> step c s (OSetEx p u v d) = (s, mkObs RCErr 0 0)) /\
  (forall o, is_mid o = false -> oret (snd (step c s o)) = RCErr -> cfault s <> []).
Proof.
  repeat split; intros.
  - apply cerr_take; auto.
  - apply cerr_get; auto.
  - apply cerr_qri; auto.
  - eapply cerr_qri_primary; eauto.
  - apply cerr_set; auto.
  - apply cerr_setex; auto.
  - eapply cerr_only_when_down; eauto.
Qed.

Lemma ttl_lemma c :
  2 <= expiry_of c -> 2 <= nf_of c ->
  (forall s o k e, requested_positive o ->
     find k (cache (fst (step c s o))) = Some e ->
     find k (cache s) = Some e \/
     exists t, eexp e = Some (clock s + 1000 * t) /\ 1 <= t <= max_ttl c o) /\
  (forall rows ops, Forall requested_positive ops ->
     forall k e, find k (cache (final c (init rows) ops)) = Some e -> eexp e <> None).
Proof.
  intros He Hn. split.
  - intros. apply step_ttl; auto.
  - intros rows ops Hr. apply never_persistent_lemma; auto. cbn. intros; discriminate.
Qed.

(* n further callers that overlap one execution of the barrier share its result (C07) *)
Definition shared_take (c : config) (s : state) (p t : Z) (n : nat) : state * list obs :=
  (fst (step c s (OTake p t)),
   snd (step c s (OTake p t)) :: repeat (mkObs (oret (snd (step c s (OTake p t)))) 0 0) n).

Fixpoint total_queries (l : list obs) : Z :=
  match l with [] => 0 | o :: l' => oqi o + oqp o + total_queries l' end.

Lemma load_suppression_lemma c s p t n :
  total_queries (snd (shared_take c s p t n)) <= 1 /\
  Forall (fun o => oret o = oret (snd (step c s (OTake p t)))) (snd (shared_take c s p t n)) /\
  fst (shared_take c s p t n) = fst (step c s (OTake p t)).
Proof.
  unfold shared_take. cbn [fst snd]. split; [|split; auto].
  - cbn [total_queries].
    assert (R : forall m r, total_queries (repeat (mkObs r 0 0) m) = 0).
    { induction m as [|m IH]; intro r; [reflexivity|]. cbn [repeat total_queries oqi oqp]. rewrite IH. reflexivity. }
    rewrite R. pose proof (step_queries c s (OTake p t)). lia.
  - constructor; auto. induction n as [|n IH]; cbn; constructor; auto.
Qed.

(* ------------------------------------------------------------------ entries are well typed *)
(* primary keys hold rows or the placeholder, index keys hold primary keys or the
   placeholder: the [RIllTyped] answers of the model are unreachable *)
Definition typed_entry (k : key) (v : cval) : Prop :=
  match k, v with
  | KP _, CPk _ | KU _, CRow _ _ => False
  | _, _ => True
  end.

Definition well_typed (d : store) : Prop := forall k e, find k d = Some e -> typed_entry k (eval e).

Lemma typed_put k e d : well_typed d -> typed_entry k (eval e) -> well_typed (put k e d).
Proof.
  intros W T k' e' H. destruct (key_eqb k' k) eqn:E.
  - apply key_eqb_eq in E. subst. rewrite find_put_same in H. inversion H. subst. exact T.
  - rewrite find_put_other in H by exact E. apply W. exact H.
Qed.

Lemma typed_sub d d' : well_typed d -> (forall k e, find k d' = Some e -> find k d = Some e) -> well_typed d'.
Proof. intros W S k e H. apply W. apply S. exact H. Qed.

Lemma load_primary_typed c s p t : well_typed (cache s) -> well_typed (cache (fst (load_primary c s p t))).
Proof.
  intro W. unfold load_primary. destruct (dbFault s); auto.
  destruct (db_get p (db s)) as [[u v]|]; (destruct (key_down c s (KP p)); auto).
  - destruct (ttl_ok (expiry_of c) t); auto. cbn [fst set_cache cache]. apply typed_put; cbn; auto.
  - destruct (ttl_ok (nf_of c) t); auto. cbn [fst set_cache cache]. apply typed_put; cbn; auto.
Qed.

Lemma take_primary_typed c s p t : well_typed (cache s) -> well_typed (cache (fst (take_primary c s p t))).
Proof.
  intro W. unfold take_primary.
  destruct (key_down c s (KP p)); auto.
  destruct (lookup (clock s) (cache s) (KP p)) as [[[u v|q|] x]|]; auto.
  apply load_primary_typed; auto.
Qed.

Lemma take_mid_typed c s p t n : well_typed (cache s) -> well_typed (cache (fst (take_mid c s p t n))).
Proof.
  intro W. unfold take_mid. destruct (key_down c s (KP p)); auto.
  destruct (lookup (clock s) (cache s) (KP p)).
  - apply take_primary_typed; auto.
  - apply (load_primary_typed c (fail_node s n)); auto.
Qed.

Lemma load_index_typed c s u t : well_typed (cache s) -> well_typed (cache (fst (load_index c s u t))).
Proof.
  intro W. unfold load_index. destruct (dbFault s); auto.
  destruct (db_by_u u (db s)) as [[p [u' v]]|].
  - destruct (key_down c s (KP p)); auto.
    destruct (ttl_ok (expiry_of c) t); auto.
    destruct (key_down c s (KU u)); cbn [fst set_cache cache].
    + apply typed_put; cbn; auto.
    + apply typed_put; [apply typed_put|]; cbn; auto.
  - destruct (key_down c s (KU u)); auto.
    destruct (ttl_ok (nf_of c) t); auto. cbn [fst set_cache cache]. apply typed_put; cbn; auto.
Qed.

Lemma step_typed c s o : well_typed (cache s) -> well_typed (cache (fst (step c s o))).
Proof.
  intro W. destruct o; cbn [step].
  - apply take_primary_typed; auto.
  - unfold query_index.
    destruct (key_down c s (KU u)); auto.
    destruct (lookup (clock s) (cache s) (KU u)) as [[[a b|q|] x]|]; auto.
    + apply take_primary_typed; auto.
    + apply load_index_typed; auto.
  - unfold get_primary. destruct (key_down c s (KP p)); auto.
    destruct (lookup (clock s) (cache s) (KP p)) as [[[a b|q|] x]|]; auto.
  - unfold exec. destruct (dbFault s); auto. destruct w as [[u v]|].
    + destruct (u_taken p u (db s)); auto. cbn [fst]. eapply typed_sub; [exact W|].
      intros k e H. apply del_keys_sub in H. exact H.
    + cbn [fst]. eapply typed_sub; [exact W|]. intros k e H. apply del_keys_sub in H. exact H.
  - destruct (key_down c s (KP p)) eqn:K; auto. destruct (ttl_ok (expiry_of c) t); auto.
    unfold set_primary. rewrite K. cbn [fst set_cache cache]. apply typed_put; cbn; auto.
  - unfold set_primary. destruct (key_down c s (KP p)); auto.
    cbn [fst set_cache cache]. apply typed_put; cbn; auto.
  - cbn [fst]. eapply typed_sub; [exact W|]. intros k e H. apply del_keys_sub in H. exact H.
  - exact W.
  - exact W.
  - exact W.
  - cbn [fst]. eapply typed_sub; [exact W|]. apply iter_tick_sub.
  - apply take_mid_typed; auto.
  - unfold query_index_mid.
    destruct (key_down c s (KU u)); auto.
    destruct (lookup (clock s) (cache s) (KU u)) as [[[a b|q|] x]|]; auto.
    + apply take_mid_typed; auto.
    + apply (load_index_typed c (fail_node s n)); auto.
  - unfold exec_die. destruct (dbFault s); auto.
    destruct (negb (existsb (Z.eqb n0) (nodes_of c keys))); auto. destruct w as [[u v]|].
    + destruct (u_taken p u (db s)); auto. cbn [fst]. eapply typed_sub; [exact W|].
      intros k e H. apply die_keys_sub in H. exact H.
    + cbn [fst]. eapply typed_sub; [exact W|]. intros k e H. apply die_keys_sub in H. exact H.
Qed.

Lemma final_typed c ops : forall s, well_typed (cache s) -> well_typed (cache (final c s ops)).
Proof.
  induction ops as [|o ops IH]; cbn; intros s W; auto. apply IH. apply step_typed. exact W.
Qed.

Lemma never_ill_typed_lemma c rows ops o :
  oret (snd (step c (final c (init rows) ops) o)) <> RIllTyped.
Proof.
  assert (W : well_typed (cache (final c (init rows) ops))).
  { apply final_typed. intros k e H. cbn in H. discriminate. }
  set (s := final c (init rows) ops) in *.
  assert (L0 : forall s0 p t, oret (snd (load_primary c s0 p t)) <> RIllTyped).
  { intros s0 p t. unfold load_primary. split_step; cbn; discriminate. }
  assert (L1 : forall s0 u t, oret (snd (load_index c s0 u t)) <> RIllTyped).
  { intros s0 u t. unfold load_index. split_step; cbn; discriminate. }
  assert (NP : forall p a x, lookup (clock s) (cache s) (KP p) = Some (mkEntry (CPk a) x) -> False).
  { intros p a x L. apply lookup_some in L. destruct L as [L _]. apply W in L. exact L. }
  assert (NU : forall u a b x, lookup (clock s) (cache s) (KU u) = Some (mkEntry (CRow a b) x) -> False).
  { intros u a b x L. apply lookup_some in L. destruct L as [L _]. apply W in L. exact L. }
  assert (T : forall p t, oret (snd (take_primary c s p t)) <> RIllTyped).
  { intros p t. unfold take_primary.
    destruct (key_down c s (KP p)); [cbn; discriminate|].
    destruct (lookup (clock s) (cache s) (KP p)) as [[[a b|q|] x]|] eqn:L; try (cbn; discriminate).
    - exfalso. eapply NP; eauto.
    - apply L0. }
  assert (TM : forall p t n, oret (snd (take_mid c s p t n)) <> RIllTyped).
  { intros p t n. unfold take_mid.
    destruct (key_down c s (KP p)); [cbn; discriminate|].
    destruct (lookup (clock s) (cache s) (KP p)); [apply T | apply L0]. }
  destruct o; cbn [step]; try (cbn; discriminate).
  - apply T.
  - unfold query_index.
    destruct (key_down c s (KU u)); [cbn; discriminate|].
    destruct (lookup (clock s) (cache s) (KU u)) as [[[a b|q|] x]|] eqn:L; try (cbn; discriminate).
    + exfalso. eapply NU; eauto.
    + apply T.
    + apply L1.
  - unfold get_primary.
    destruct (key_down c s (KP p)); [cbn; discriminate|].
    destruct (lookup (clock s) (cache s) (KP p)) as [[[a b|q|] x]|] eqn:L; try (cbn; discriminate).
    exfalso. eapply NP; eauto.
  - unfold exec. split_step; cbn; discriminate.
  - unfold set_primary. split_step; cbn; discriminate.
  - unfold set_primary. split_step; cbn; discriminate.
  - apply TM.
  - unfold query_index_mid.
    destruct (key_down c s (KU u)); [cbn; discriminate|].
    destruct (lookup (clock s) (cache s) (KU u)) as [[[a b|q|] x]|] eqn:L; try (cbn; discriminate).
    + exfalso. eapply NU; eauto.
    + apply TM.
    + apply L1.
  - unfold exec_die. split_step; cbn; discriminate.
Qed.

(* ------------------------------------------------------------------ an invalidation is never skipped *)
Lemma del_keys_hit c keys s k :
  In k keys ->
  find k (cache (del_keys c keys s)) = None \/ In k (pending_keys (del_keys c keys s)).
Proof.
  intro M. destruct (dfold_hit c keys (nodes_of c keys) s k M (nodes_of_In c keys k M)) as [H1 H2].
  unfold del_keys. destruct (key_down c s k); auto.
Qed.

(* Exec / Del / an Exec whose context dies while its first DEL is on the wire: once the write is
   acknowledged, every key named is gone from the store or its deletion is a timer of the cleaner *)
Lemma never_skipped_lemma c s :
  (forall p w keys k, oret (snd (step c s (OExec p w keys))) = ROk -> In k keys ->
     let s' := fst (step c s (OExec p w keys)) in
     find k (cache s') = None \/ In k (pending_keys s')) /\
  (forall keys k, In k keys ->
     let s' := fst (step c s (ODel keys)) in
     find k (cache s') = None \/ In k (pending_keys s')) /\
  (forall p w keys n0 k, oret (snd (step c s (OExecDie p w keys n0))) = ROk -> In k keys ->
     let s' := fst (step c s (OExecDie p w keys n0)) in
     find k (cache s') = None \/ In k (pending_keys s')).
Proof.
  split; [|split].
  - intros p w keys k. cbn [step]. unfold exec. destruct (dbFault s); [cbn; discriminate|].
    destruct w as [[u v]|]; [destruct (u_taken p u (db s)); [cbn; discriminate|]|];
      cbn [fst snd]; intros _ M; apply del_keys_hit; exact M.
  - intros keys k M. cbn [step fst]. apply del_keys_hit. exact M.
  - intros p w keys n0 k. cbn [step]. unfold exec_die. destruct (dbFault s); [cbn; discriminate|].
    destruct (negb (existsb (Z.eqb n0) (nodes_of c keys))); [cbn; discriminate|].
    destruct w as [[u v]|]; [destruct (u_taken p u (db s)); [cbn; discriminate|]|];
      cbn [fst snd]; intros _ M; apply die_keys_hit; exact M.
Qed.

Lemma filter_all_id {A} (f : A -> bool) l : (forall x, In x l -> f x = true) -> filter f l = l.
Proof.
  induction l as [|x l IH]; cbn; intro H; [reflexivity|].
  rewrite (H x (or_introl eq_refl)). f_equal. apply IH. intros y Hy. apply H. right. exact Hy.
Qed.

(* what exactly the dying context leaves behind: the keys of the DEL that was on the wire are
   gone if their node is up; no other entry of the store is touched; the timers are those of
   [die_split] (plus the on-wire DEL's own when its node was down) *)
Lemma die_keys_exact c keys n0 s :
  let s' := die_keys c keys n0 s in
  let first := fst (die_split c keys n0) in
  (node_down s n0 = false ->
     cache s' = remove_all first (cache s) /\ pending s' = pending s ++ snd (die_split c keys n0)) /\
  (node_down s n0 = true -> cache s' = cache s) /\
  (forall k, In k first -> In k keys /\ node_of c k = n0).
Proof.
  cbn zeta. split; [|split].
  - intro D. unfold die_keys, owe, del_on_node. sproj.
    assert (F : filter (fun k => node_of c k =? n0) (fst (die_split c keys n0)) = fst (die_split c keys n0)).
    { apply filter_all_id. intros k H.
      apply die_split_first in H. destruct H as [_ H]. apply Z.eqb_eq. exact H. }
    rewrite F. destruct (fst (die_split c keys n0)) eqn:E; [cbn; auto|]. rewrite D. sproj. auto.
  - intro D. unfold die_keys, owe, del_on_node. sproj.
    destruct (filter _ (fst (die_split c keys n0))); [reflexivity|]. rewrite D. reflexivity.
  - intros k H. apply die_split_first in H. exact H.
Qed.
