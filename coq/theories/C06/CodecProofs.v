(* C06 - proofs about Codec.v: the primary key that comes back from the index cache denotes the
   key that went in; the identification of keys with integers used by Model.v is injective;
   float64 is exact up to 2^53 and not beyond. *)
From Coq Require Import List ZArith Bool Lia.
From GZ Require Import C06.Codec.
Import ListNotations.
Open Scope Z_scope.

(* a native key, as indexQuery returns it *)
Definition native (g : goval) : Prop :=
  match g with VInt64 _ | VString _ => True | _ => False end.

(* the index-hit path hands keyer / primaryQuery a value that prints exactly like the native
   key the index-miss path handed them: same primary cache key, same row looked up *)
Lemma roundtrip_lemma : forall g, native g -> fmt_v (through_cache g) = fmt_v g.
Proof. intros [z|bs|z|] H; try contradiction; reflexivity. Qed.

(* ... and its dynamic type: integers come back as json.Number (never float64), strings as strings *)
Lemma roundtrip_type_lemma : forall g, native g ->
  match g with
  | VInt64 z => through_cache g = VNumber z
  | VString bs => through_cache g = VString bs
  | _ => False
  end.
Proof. intros [z|bs|z|] H; try contradiction; reflexivity. Qed.

(* ---------------------------------------------------------------- injectivity of the identification *)
Lemma senc_pos bs : forallb is_byte bs = true -> 1 <= senc bs.
Proof.
  induction bs as [|b bs IH]; cbn [senc forallb]; intro H; [lia|].
  apply andb_true_iff in H. destruct H as [Hb H]. specialize (IH H).
  unfold is_byte in Hb. apply andb_true_iff in Hb. destruct Hb as [H0 H1].
  apply Z.leb_le in H0. apply Z.ltb_lt in H1. lia.
Qed.

Lemma senc_inj : forall a b, forallb is_byte a = true -> forallb is_byte b = true ->
  senc a = senc b -> a = b.
Proof.
  induction a as [|x a IH]; intros [|y b] Ha Hb E; auto.
  - exfalso. cbn [senc forallb] in *. apply andb_true_iff in Hb. destruct Hb as [Hy Hb].
    pose proof (senc_pos b Hb). unfold is_byte in Hy. apply andb_true_iff in Hy.
    destruct Hy as [H0 H1]. apply Z.leb_le in H0. apply Z.ltb_lt in H1. lia.
  - exfalso. cbn [senc forallb] in *. apply andb_true_iff in Ha. destruct Ha as [Hx Ha].
    pose proof (senc_pos a Ha). unfold is_byte in Hx. apply andb_true_iff in Hx.
    destruct Hx as [H0 H1]. apply Z.leb_le in H0. apply Z.ltb_lt in H1. lia.
  - cbn [senc forallb] in *.
    apply andb_true_iff in Ha. destruct Ha as [Hx Ha].
    apply andb_true_iff in Hb. destruct Hb as [Hy Hb].
    unfold is_byte in Hx, Hy. apply andb_true_iff in Hx. apply andb_true_iff in Hy.
    destruct Hx as [X0 X1]. destruct Hy as [Y0 Y1].
    apply Z.leb_le in X0. apply Z.leb_le in Y0. apply Z.ltb_lt in X1. apply Z.ltb_lt in Y1.
    assert (Exy : x = y).
    { assert (M : (senc a * 256 + x) mod 256 = (senc b * 256 + y) mod 256) by (rewrite E; reflexivity).
      rewrite (Z.add_comm (senc a * 256) x), (Z.add_comm (senc b * 256) y) in M.
      rewrite !Z.mod_add in M by lia.
      rewrite !Z.mod_small in M by lia. exact M. }
    subst y. f_equal. apply IH; auto. lia.
Qed.

(* two texts that denote a key of the table denote the same key only if they are the same text:
   distinct int64 keys, distinct strings - also strings that look like numbers, "007" vs "7" -
   are never confused by the model *)
Lemma tcode_inj : forall str t1 t2 p, tcode str t1 = Some p -> tcode str t2 = Some p -> t1 = t2.
Proof.
  intros str [z1|b1|] [z2|b2|] p H1 H2; cbn [tcode] in *; destruct str; try discriminate.
  - destruct (is_int64 z1), (is_int64 z2); try discriminate. congruence.
  - destruct (forallb is_byte b1) eqn:B1; [|discriminate].
    destruct (forallb is_byte b2) eqn:B2; [|discriminate].
    f_equal. apply senc_inj; auto.
    assert (E : scode b1 = scode b2) by congruence.
    unfold scode in E. apply Z.add_reg_l in E. exact E.
Qed.

(* and a string key never collides with an int64 key: the codes are disjoint *)
Lemma scode_above_int64 : forall bs, forallb is_byte bs = true -> int64_max < scode bs.
Proof. intros bs H. pose proof (senc_pos bs H). unfold scode, int64_max. lia. Qed.

(* ---------------------------------------------------------------- float64 *)
(* integers up to 2^53 in magnitude are exactly representable: converting through float64 is the
   identity there (why ids below 2^53 never show a float64 detour) *)
Lemma round53_small : forall z, Z.abs z <= 2 ^ 53 -> round53 z = z.
Proof.
  intros z H. unfold round53.
  destruct (Z.eq_dec (Z.abs z) (2 ^ 53)) as [E|N].
  - destruct (Z.abs_eq_or_opp z) as [A|A]; rewrite A in E.
    + subst z. vm_compute. reflexivity.
    + assert (z = - 2 ^ 53) by lia. subst z. vm_compute. reflexivity.
  - assert (L : Z.abs z < 2 ^ 53) by lia.
    destruct (Z.eq_dec (Z.abs z) 0) as [Z0|NZ].
    + rewrite Z0. cbn. reflexivity.
    + assert (Z.log2 (Z.abs z) < 53) by (apply Z.log2_lt_pow2; lia).
      assert (B : (Z.log2 (Z.abs z) + 1 <=? 53) = true) by (apply Z.leb_le; lia).
      rewrite B. reflexivity.
Qed.

(* beyond 2^53 it is not: the smallest counterexample *)
Lemma round53_not_exact : round53 (2 ^ 53 + 1) = 2 ^ 53 /\ round53 (2 ^ 53 + 3) = 2 ^ 53 + 4
                          /\ round53 (2 ^ 63 - 1) = 2 ^ 63.
Proof. vm_compute. repeat split. Qed.

(* the decoded key "normalised" through float64 prints differently from the native key:
   a different primary cache key and a different row are looked up *)
Lemma normalize_float_refuted_lemma :
  exists z, is_int64 z = true /\
            fmt_v (normalize_float (through_cache (VInt64 z))) <> fmt_v (VInt64 z) /\
            gcode false (normalize_float (through_cache (VInt64 z))) = Some (z - 1).
Proof. exists (2 ^ 53 + 1). vm_compute. repeat split; discriminate. Qed.

(* while below 2^53 such a normalisation is invisible (which is why small ids do not show it) *)
Lemma normalize_float_small : forall z, Z.abs z <= 2 ^ 53 ->
  fmt_v (normalize_float (through_cache (VInt64 z))) = fmt_v (VInt64 z).
Proof.
  intros z H. cbn [through_cache marshal unmarshal_any normalize_float].
  rewrite (round53_small z H).
  assert (L : (Z.abs z <? 2 ^ 63) = true) by (apply Z.ltb_lt; lia).
  rewrite L. reflexivity.
Qed.
