(* C06 - invariants and lemmas behind Props.v. *)
From Coq Require Import List ZArith Bool NArith Lia.
From GZ Require Import C06.Model.
Import ListNotations.
Open Scope Z_scope.

Ltac sproj := cbn [cache db dbFault cfault pending lost clock].
Ltac sproj_in H := cbn [cache db dbFault cfault pending lost clock] in H.

(* ------------------------------------------------------------------ keys and stores *)
Lemma key_eqb_eq a b : key_eqb a b = true <-> a = b.
Proof.
  destruct a, b; cbn; split; intro H; try discriminate; try (apply Z.eqb_eq in H; congruence);
    try (inversion H; apply Z.eqb_refl).
Qed.

Lemma key_eqb_refl a : key_eqb a a = true.
Proof. apply key_eqb_eq; reflexivity. Qed.

Lemma key_eqb_neq a b : key_eqb a b = false <-> a <> b.
Proof.
  split; intro H.
  - intro E. apply key_eqb_eq in E. congruence.
  - destruct (key_eqb a b) eqn:E; [apply key_eqb_eq in E; contradiction | reflexivity].
Qed.

Lemma key_eqb_sym a b : key_eqb a b = key_eqb b a.
Proof.
  destruct (key_eqb a b) eqn:E.
  - apply key_eqb_eq in E. subst. symmetry. apply key_eqb_refl.
  - symmetry. apply key_eqb_neq. apply key_eqb_neq in E. congruence.
Qed.

Lemma mem_key_In k l : mem_key k l = true <-> In k l.
Proof.
  unfold mem_key. rewrite existsb_exists. split.
  - intros (x & Hi & He). apply key_eqb_eq in He. subst. exact Hi.
  - intro Hi. exists k. split; [exact Hi | apply key_eqb_refl].
Qed.

Lemma mem_key_app k l1 l2 : mem_key k (l1 ++ l2) = mem_key k l1 || mem_key k l2.
Proof. unfold mem_key. apply existsb_app. Qed.

Lemma find_put_same k e d : find k (put k e d) = Some e.
Proof.
  induction d as [|[k' e'] d IH]; cbn.
  - rewrite key_eqb_refl. reflexivity.
  - destruct (key_eqb k k') eqn:E; cbn; rewrite ?key_eqb_refl, ?E; auto.
Qed.

Lemma find_put_other k k' e d : key_eqb k' k = false -> find k' (put k e d) = find k' d.
Proof.
  intro N. induction d as [|[k0 e0] d IH]; cbn.
  - rewrite N. reflexivity.
  - destruct (key_eqb k k0) eqn:E; cbn.
    + apply key_eqb_eq in E. subst. rewrite N. reflexivity.
    + destruct (key_eqb k' k0); auto.
Qed.

Lemma find_remove_same k d : find k (remove k d) = None.
Proof.
  induction d as [|[k0 e0] d IH]; cbn; auto.
  destruct (key_eqb k k0) eqn:E; cbn; rewrite ?E; auto.
Qed.

Lemma find_remove_other k k' d : key_eqb k' k = false -> find k' (remove k d) = find k' d.
Proof.
  intro N. induction d as [|[k0 e0] d IH]; cbn; auto.
  destruct (key_eqb k k0) eqn:E; cbn.
  - apply key_eqb_eq in E. subst. rewrite N. exact IH.
  - destruct (key_eqb k' k0); auto.
Qed.

Lemma find_remove_sub k k' d e : find k' (remove k d) = Some e -> find k' d = Some e.
Proof.
  destruct (key_eqb k' k) eqn:E.
  - apply key_eqb_eq in E. subst. rewrite find_remove_same. discriminate.
  - rewrite find_remove_other by exact E. auto.
Qed.

Lemma find_remove_all_sub ks : forall d k e, find k (remove_all ks d) = Some e -> find k d = Some e.
Proof.
  unfold remove_all. induction ks as [|k0 ks IH]; cbn; intros d k e H; auto.
  apply IH in H. eapply find_remove_sub; eauto.
Qed.

Lemma find_remove_none k k' d : find k' d = None -> find k' (remove k d) = None.
Proof.
  intro H. destruct (find k' (remove k d)) eqn:E; auto.
  apply find_remove_sub in E. congruence.
Qed.

Lemma find_remove_all_in ks : forall d k, In k ks -> find k (remove_all ks d) = None.
Proof.
  unfold remove_all. induction ks as [|k0 ks IH]; cbn; intros d k Hi; [contradiction|].
  destruct Hi as [->|Hi]; [|apply IH; exact Hi].
  assert (G : forall l d', find k d' = None -> find k (fold_left (fun d0 k1 => remove k1 d0) l d') = None).
  { induction l as [|x l IHl]; cbn; intros d' H'; auto. apply IHl. apply find_remove_none. exact H'. }
  apply G. apply find_remove_same.
Qed.

Lemma lookup_some now d k e : lookup now d k = Some e -> find k d = Some e /\ live now e = true.
Proof.
  unfold lookup. destruct (find k d) as [e'|]; [|discriminate].
  destruct (live now e') eqn:L; [|discriminate]. intro H. inversion H. subst. auto.
Qed.

Lemma lookup_intro now d k e : find k d = Some e -> live now e = true -> lookup now d k = Some e.
Proof. unfold lookup. intros -> ->. reflexivity. Qed.

Lemma live_mono now now' e : now <= now' -> live now' e = true -> live now e = true.
Proof.
  unfold live. destruct (eexp e); auto. intros Hle H. apply Z.ltb_lt in H. apply Z.ltb_lt. lia.
Qed.

(* ------------------------------------------------------------------ database *)
Definition wf_db (t : table) : Prop := NoDup (map fst t).

Lemma db_get_In p r t : db_get p t = Some r -> In (p, r) t.
Proof.
  induction t as [|[p' r'] t IH]; cbn; [discriminate|].
  destruct (p =? p') eqn:E.
  - apply Z.eqb_eq in E. subst. intro H. inversion H. auto.
  - auto.
Qed.

Lemma In_db_get p r t : wf_db t -> In (p, r) t -> db_get p t = Some r.
Proof.
  unfold wf_db. induction t as [|[p' r'] t IH]; cbn; [contradiction|].
  intros ND [H|H].
  - inversion H. subst. rewrite Z.eqb_refl. reflexivity.
  - inversion ND as [|? ? Hn ND']. subst.
    destruct (p =? p') eqn:E.
    + apply Z.eqb_eq in E. subst. exfalso. apply Hn. change p' with (fst (p', r)). apply in_map. exact H.
    + auto.
Qed.

Lemma db_del_In p q r t : In (q, r) (db_del p t) -> In (q, r) t /\ q <> p.
Proof.
  induction t as [|[p' r'] t IH]; cbn; [contradiction|].
  destruct (p =? p') eqn:E.
  - intro H. apply IH in H. tauto.
  - intros [H|H].
    + inversion H. subst. split; auto. apply Z.eqb_neq in E. congruence.
    + apply IH in H. tauto.
Qed.

Lemma db_get_del p q t : db_get q (db_del p t) = if q =? p then None else db_get q t.
Proof.
  induction t as [|[p' r'] t IH]; cbn.
  - destruct (q =? p); reflexivity.
  - destruct (p =? p') eqn:E.
    + apply Z.eqb_eq in E. subst. rewrite IH. destruct (q =? p'); reflexivity.
    + cbn. rewrite IH. destruct (q =? p') eqn:E2; auto.
      apply Z.eqb_eq in E2. subst. rewrite Z.eqb_sym, E. reflexivity.
Qed.

Lemma db_get_put p q r t : db_get q (db_put p r t) = if q =? p then Some r else db_get q t.
Proof.
  unfold db_put. cbn. destruct (q =? p) eqn:E; auto. rewrite db_get_del, E. reflexivity.
Qed.

Lemma wf_db_del p t : wf_db t -> wf_db (db_del p t).
Proof.
  unfold wf_db. induction t as [|[p' r'] t IH]; cbn; auto.
  intro ND. inversion ND as [|? ? Hn ND']. subst.
  destruct (p =? p'); auto. cbn. constructor; auto.
  intro Hi. apply Hn. apply in_map_iff in Hi. destruct Hi as ([q r] & Hq & Hi). cbn in Hq. subst.
  apply db_del_In in Hi. change p' with (fst (p', r)). apply in_map. tauto.
Qed.

Lemma wf_db_put p r t : wf_db t -> wf_db (db_put p r t).
Proof.
  intro W. unfold db_put, wf_db. cbn. constructor; [|apply wf_db_del; exact W].
  intro Hi. apply in_map_iff in Hi. destruct Hi as ([q r'] & Hq & Hi). cbn in Hq. subst.
  apply db_del_In in Hi. tauto.
Qed.

Lemma db_by_u_some u t p u' v : wf_db t -> db_by_u u t = Some (p, (u', v)) -> u' = u /\ db_get p t = Some (u, v).
Proof.
  intros W H.
  assert (G : u' = u /\ In (p, (u, v)) t).
  { clear W. induction t as [|[p0 [u0 v0]] t IH]; cbn in *; [discriminate|].
    destruct (u =? u0) eqn:E.
    - apply Z.eqb_eq in E. inversion H. subst. auto.
    - destruct (IH H). auto. }
  destruct G as [-> G]. split; auto. apply In_db_get; auto.
Qed.

Lemma db_by_u_none u t : db_by_u u t = None -> forall p v, db_get p t <> Some (u, v).
Proof.
  intros H p v G. apply db_get_In in G.
  induction t as [|[p0 [u0 v0]] t IH]; cbn in *; [contradiction|].
  destruct (u =? u0) eqn:E; [discriminate|].
  destruct G as [G|G]; [inversion G; subst; rewrite Z.eqb_refl in E; discriminate | auto].
Qed.

(* ------------------------------------------------------------------ the coherence invariant *)
(* what a cache entry must say about the database *)
Definition ok_entry (t : table) (k : key) (v : cval) : Prop :=
  match k, v with
  | KP p, CRow u w => db_get p t = Some (u, w)
  | KP p, CHole => db_get p t = None
  | KU u, CPk p => exists w, db_get p t = Some (u, w)
  | KU u, CHole => forall p w, db_get p t <> Some (u, w)
  | _, _ => False
  end.

(* every live entry of a key outside X whose invalidation has not failed equals the database *)
Definition cohx (X : key -> bool) (s : state) : Prop :=
  forall k e, lookup (clock s) (cache s) k = Some e -> dirty s k = false -> X k = false ->
              ok_entry (db s) k (eval e).
Definition coh := cohx (fun _ => false).

Lemma dirty_set_cache s d k : dirty (set_cache s d) k = dirty s k.
Proof. reflexivity. Qed.

(* --- one node's share of a DEL *)
Lemma del_on_node_frame c n keys s :
  let s' := del_on_node c n keys s in
  db s' = db s /\ dbFault s' = dbFault s /\ cfault s' = cfault s /\ clock s' = clock s.
Proof.
  unfold del_on_node. destruct (filter _ keys); [auto|]. destruct (node_down s n); cbn; auto.
Qed.

Lemma del_on_node_sub c n keys s k e :
  find k (cache (del_on_node c n keys s)) = Some e -> find k (cache s) = Some e.
Proof.
  unfold del_on_node. destruct (filter _ keys) as [|k0 ks]; [auto|].
  destruct (node_down s n); sproj; auto. apply find_remove_all_sub.
Qed.

Lemma filter_cons_In {A} (f : A -> bool) l x : In x l -> f x = true -> filter f l <> [].
Proof. intros Hi Hf E. assert (H : In x (filter f l)) by (apply filter_In; auto). rewrite E in H. exact H. Qed.

Lemma del_tasks_keys c ks n : flat_map tkeys (del_tasks c ks n) = ks.
Proof.
  unfold del_tasks. destruct (ccluster c && (1 <? Z.of_nat (length ks))).
  - induction ks as [|k ks IH]; cbn; [reflexivity|]. rewrite IH. reflexivity.
  - cbn. apply app_nil_r.
Qed.

Lemma del_on_node_hit c n keys s k :
  In k keys -> node_of c k = n ->
  let s' := del_on_node c n keys s in
  (node_down s n = false -> find k (cache s') = None) /\
  (node_down s n = true -> In k (pending_keys s')).
Proof.
  intros Hi Hn. unfold del_on_node.
  assert (Hk : In k (filter (fun k0 => node_of c k0 =? n) keys)).
  { apply filter_In. split; auto. apply Z.eqb_eq. exact Hn. }
  destruct (filter (fun k0 => node_of c k0 =? n) keys) as [|k0 ks] eqn:F; [contradiction|].
  destruct (node_down s n); split; intro H; try discriminate.
  - unfold pending_keys. sproj. rewrite flat_map_app. apply in_or_app. right.
    rewrite del_tasks_keys. exact Hk.
  - sproj. apply find_remove_all_in. exact Hk.
Qed.

Lemma pending_keys_app s l :
  flat_map tkeys (pending s ++ l) = pending_keys s ++ flat_map tkeys l.
Proof. unfold pending_keys. apply flat_map_app. Qed.

Lemma mem_filter_not k ks l :
  mem_key k (filter (fun k0 => negb (mem_key k0 ks)) l) = mem_key k l && negb (mem_key k ks).
Proof.
  apply Bool.eq_iff_eq_true. rewrite andb_true_iff, !mem_key_In, filter_In. tauto.
Qed.

(* a key that is clean afterwards was clean before, or its entry is gone *)
Lemma del_on_node_dirty c n keys s k :
  let s' := del_on_node c n keys s in
  dirty s' k = false -> dirty s k = false \/ find k (cache s') = None.
Proof.
  unfold del_on_node. destruct (filter (fun k0 => node_of c k0 =? n) keys) as [|k0 ks] eqn:F; [auto|].
  destruct (node_down s n).
  - unfold dirty, pending_keys. sproj. rewrite flat_map_app, mem_key_app.
    intro H. left. apply orb_false_iff in H. destruct H as [H1 H2]. apply orb_false_iff in H1.
    destruct H1 as [H1 _]. rewrite H1, H2. reflexivity.
  - unfold dirty, pending_keys. sproj. rewrite mem_filter_not. intro H.
    destruct (mem_key k (k0 :: ks)) eqn:M.
    + right. apply find_remove_all_in. apply mem_key_In. exact M.
    + left. cbn [negb] in H. rewrite andb_true_r in H. exact H.
Qed.

(* --- DEL of several keys *)
Section DelKeys.
Variable c : config.
Variable keys : list key.

Let dfold (ns : list Z) (s : state) := fold_left (fun s n => del_on_node c n keys s) ns s.

Lemma dfold_frame ns : forall s,
  db (dfold ns s) = db s /\ dbFault (dfold ns s) = dbFault s /\ cfault (dfold ns s) = cfault s
  /\ clock (dfold ns s) = clock s.
Proof.
  induction ns as [|n ns IH]; cbn; intro s; auto.
  destruct (IH (del_on_node c n keys s)) as (A & B & C & D).
  destruct (del_on_node_frame c n keys s) as (A' & B' & C' & D').
  unfold dfold in *. cbn in *. rewrite A, B, C, D. auto.
Qed.

Lemma dfold_sub ns : forall s k e, find k (cache (dfold ns s)) = Some e -> find k (cache s) = Some e.
Proof.
  induction ns as [|n ns IH]; cbn; intros s k e H; auto.
  apply IH in H. eapply del_on_node_sub; eauto.
Qed.

Lemma dfold_none ns s k : find k (cache s) = None -> find k (cache (dfold ns s)) = None.
Proof.
  intro H. destruct (find k (cache (dfold ns s))) eqn:E; auto. apply dfold_sub in E. congruence.
Qed.

Lemma dfold_pending_mono ns : forall s k, In k (pending_keys s) -> In k (pending_keys (dfold ns s)).
Proof.
  induction ns as [|n ns IH]; cbn; intros s k H; auto.
  apply IH. unfold del_on_node. destruct (filter _ keys); auto.
  destruct (node_down s n); cbn; auto.
  unfold pending_keys. cbn. rewrite flat_map_app. apply in_or_app. auto.
Qed.

Lemma node_down_frame s s' n : cfault s' = cfault s -> node_down s' n = node_down s n.
Proof. unfold node_down. intros ->. reflexivity. Qed.

Lemma dfold_hit ns : forall s k, In k keys -> In (node_of c k) ns ->
  (key_down c s k = false -> find k (cache (dfold ns s)) = None) /\
  (key_down c s k = true -> In k (pending_keys (dfold ns s))).
Proof.
  induction ns as [|n ns IH]; cbn; intros s k Hk Hn; [contradiction|].
  destruct (del_on_node_frame c n keys s) as (_ & _ & Hc & _).
  destruct (Z.eq_dec n (node_of c k)) as [->|Ne].
  - destruct (del_on_node_hit c (node_of c k) keys s k Hk eq_refl) as [H1 H2].
    unfold key_down. split; intro H.
    + apply dfold_none. apply H1. exact H.
    + apply dfold_pending_mono. apply H2. exact H.
  - destruct Hn as [Hn|Hn]; [contradiction|].
    destruct (IH (del_on_node c n keys s) k Hk Hn) as [H1 H2].
    unfold key_down in *. rewrite (node_down_frame s _ _ Hc) in *. auto.
Qed.

Lemma dfold_dirty ns : forall s k,
  dirty (dfold ns s) k = false -> dirty s k = false \/ find k (cache (dfold ns s)) = None.
Proof.
  induction ns as [|n ns IH]; cbn; intros s k H; auto.
  destruct (IH _ _ H) as [G|G]; auto.
  destruct (del_on_node_dirty c n keys s k G) as [G'|G']; auto.
  right. apply dfold_none. exact G'.
Qed.

End DelKeys.

Lemma nodes_of_In c keys k : In k keys -> In (node_of c k) (nodes_of c keys).
Proof. intro H. unfold nodes_of. apply nodup_In. apply in_map. exact H. Qed.

Lemma del_keys_frame c keys s :
  db (del_keys c keys s) = db s /\ dbFault (del_keys c keys s) = dbFault s
  /\ cfault (del_keys c keys s) = cfault s /\ clock (del_keys c keys s) = clock s.
Proof. apply dfold_frame. Qed.

Lemma del_keys_sub c keys s k e :
  find k (cache (del_keys c keys s)) = Some e -> find k (cache s) = Some e.
Proof. apply dfold_sub. Qed.

(* the keys of a DEL are gone or left to the cleaner; everything else is as before *)
Lemma del_keys_coh c keys s :
  cohx (fun k => mem_key k keys) s -> coh (del_keys c keys s).
Proof.
  intros H k e Hl Hd _.
  destruct (del_keys_frame c keys s) as (Hdb & _ & _ & Hck).
  rewrite Hdb. rewrite Hck in Hl. apply lookup_some in Hl. destruct Hl as [Hf Hlv].
  destruct (mem_key k keys) eqn:M.
  - exfalso. apply mem_key_In in M.
    destruct (dfold_hit c keys (nodes_of c keys) s k M (nodes_of_In c keys k M)) as [H1 H2].
    destruct (key_down c s k) eqn:D.
    + specialize (H2 eq_refl). apply mem_key_In in H2. unfold dirty in Hd.
      unfold del_keys in Hd. rewrite H2 in Hd. discriminate.
    + specialize (H1 eq_refl). unfold del_keys in Hf. congruence.
  - destruct (dfold_dirty c keys (nodes_of c keys) s k Hd) as [G|G].
    + apply H; auto. apply lookup_intro; auto. eapply del_keys_sub; eauto.
    + unfold del_keys in Hf. congruence.
Qed.

(* --- a DEL whose context dies while its first command is on the wire *)
Lemma task_keys_singletons n l : flat_map tkeys (map (fun k => first_task [k] n) l) = l.
Proof. induction l as [|k l IH]; cbn; [reflexivity|]. rewrite IH. reflexivity. Qed.

(* every key of the invalidation is in the DEL that was on the wire or handed to the cleaner *)
Lemma die_split_covers c keys n0 k :
  In k keys ->
  In k (fst (die_split c keys n0)) \/ In k (flat_map tkeys (snd (die_split c keys n0))).
Proof.
  intro Hk. unfold die_split.
  set (ks0 := filter (fun k0 => node_of c k0 =? n0) keys).
  set (others := flat_map _ (nodes_of c keys)).
  assert (Ho : node_of c k <> n0 -> In k (flat_map tkeys others)).
  { intro Ne. unfold others. apply in_flat_map.
    assert (Hn : In (node_of c k) (nodes_of c keys)).
    { unfold nodes_of. apply nodup_In. apply in_map. exact Hk. }
    destruct (node_of c k =? n0) eqn:E; [apply Z.eqb_eq in E; contradiction|].
    assert (Ht : In k (flat_map tkeys (del_tasks c (filter (fun k0 => node_of c k0 =? node_of c k) keys) (node_of c k)))).
    { rewrite del_tasks_keys. apply filter_In. split; auto. apply Z.eqb_refl. }
    apply in_flat_map in Ht. destruct Ht as (tk & T1 & T2).
    exists tk. split; auto. apply in_flat_map. exists (node_of c k). split; auto. rewrite E. exact T1. }
  assert (H0 : node_of c k = n0 -> In k ks0).
  { intro E. apply filter_In. split; auto. apply Z.eqb_eq. exact E. }
  destruct (Z.eq_dec (node_of c k) n0) as [E|Ne].
  - specialize (H0 E). destruct (ccluster c && (1 <? Z.of_nat (length ks0))); cbn [fst snd]; auto.
    rewrite <- (firstn_skipn 1 ks0) in H0. apply in_app_or in H0. destruct H0 as [H0|H0]; auto.
    right. rewrite flat_map_app. apply in_or_app. left. rewrite task_keys_singletons. exact H0.
  - specialize (Ho Ne). right. destruct (ccluster c && (1 <? Z.of_nat (length ks0))); cbn [snd]; auto.
    rewrite flat_map_app. apply in_or_app. auto.
Qed.

(* the DEL on the wire carries keys of the invalidation that live on node n0, nothing else *)
Lemma die_split_first c keys n0 k :
  In k (fst (die_split c keys n0)) -> In k keys /\ node_of c k = n0.
Proof.
  unfold die_split. set (ks0 := filter (fun k0 => node_of c k0 =? n0) keys).
  assert (A : In k ks0 -> In k keys /\ node_of c k = n0).
  { intro H. apply filter_In in H. destruct H as [H1 H2]. apply Z.eqb_eq in H2. auto. }
  destruct (ccluster c && (1 <? Z.of_nat (length ks0))); cbn [fst]; auto.
  intro H. apply A. rewrite <- (firstn_skipn 1 ks0). apply in_or_app. auto.
Qed.

Lemma owe_dirty l s k :
  dirty (owe l s) k = dirty s k || mem_key k (flat_map tkeys l).
Proof.
  unfold dirty, owe, pending_keys. sproj. rewrite flat_map_app, mem_key_app.
  destruct (mem_key k (flat_map tkeys (pending s))), (mem_key k (flat_map tkeys l)), (mem_key k (lost s)); reflexivity.
Qed.

Lemma die_keys_frame c keys n0 s :
  db (die_keys c keys n0 s) = db s /\ dbFault (die_keys c keys n0 s) = dbFault s
  /\ cfault (die_keys c keys n0 s) = cfault s /\ clock (die_keys c keys n0 s) = clock s.
Proof.
  unfold die_keys, owe. sproj. apply del_on_node_frame.
Qed.

Lemma die_keys_sub c keys n0 s k e :
  find k (cache (die_keys c keys n0 s)) = Some e -> find k (cache s) = Some e.
Proof. unfold die_keys, owe. sproj. apply del_on_node_sub. Qed.

(* never skipped: every key of the invalidation is gone or left to the cleaner *)
Lemma die_keys_hit c keys n0 s k :
  In k keys ->
  find k (cache (die_keys c keys n0 s)) = None \/ In k (pending_keys (die_keys c keys n0 s)).
Proof.
  intro Hk. unfold die_keys. destruct (die_split_covers c keys n0 k Hk) as [H|H].
  - destruct (die_split_first c keys n0 k H) as [_ Hn].
    destruct (del_on_node_hit c n0 (fst (die_split c keys n0)) s k H Hn) as [H1 H2].
    destruct (node_down s n0).
    + right. unfold owe, pending_keys. sproj. rewrite flat_map_app. apply in_or_app. left. apply H2. reflexivity.
    + left. unfold owe. sproj. apply H1. reflexivity.
  - right. unfold owe, pending_keys. sproj. rewrite flat_map_app. apply in_or_app. right. exact H.
Qed.

Lemma die_keys_dirty c keys n0 s k :
  dirty (die_keys c keys n0 s) k = false ->
  dirty s k = false \/ find k (cache (die_keys c keys n0 s)) = None.
Proof.
  unfold die_keys. rewrite owe_dirty. intro H. apply orb_false_iff in H. destruct H as [H _].
  apply del_on_node_dirty in H. unfold owe. sproj. exact H.
Qed.

Lemma die_keys_coh c keys n0 s :
  cohx (fun k => mem_key k keys) s -> coh (die_keys c keys n0 s).
Proof.
  intros H k e Hl Hd _.
  destruct (die_keys_frame c keys n0 s) as (Hdb & _ & _ & Hck).
  rewrite Hdb. rewrite Hck in Hl. apply lookup_some in Hl. destruct Hl as [Hf Hlv].
  destruct (mem_key k keys) eqn:M.
  - exfalso. apply mem_key_In in M. destruct (die_keys_hit c keys n0 s k M) as [G|G]; [congruence|].
    apply mem_key_In in G. unfold dirty in Hd. rewrite G in Hd. discriminate.
  - destruct (die_keys_dirty c keys n0 s k Hd) as [G|G]; [|congruence].
    apply H; auto. apply lookup_intro; auto. eapply die_keys_sub; eauto.
Qed.

(* --- the cleaner *)
Lemma tick_task_frame s tk :
  db (tick_task s tk) = db s /\ dbFault (tick_task s tk) = dbFault s
  /\ cfault (tick_task s tk) = cfault s /\ clock (tick_task s tk) = clock s.
Proof.
  unfold tick_task. destruct (1 <? trem tk); [cbn; auto|].
  destruct (node_down s (tnode tk)); [destruct (next_delay (tdelay tk))|]; cbn; auto.
Qed.

Lemma tick_task_sub s tk k e :
  find k (cache (tick_task s tk)) = Some e -> find k (cache s) = Some e.
Proof.
  unfold tick_task. destruct (1 <? trem tk); [cbn; auto|].
  destruct (node_down s (tnode tk)); [destruct (next_delay (tdelay tk))|]; cbn; auto.
  apply find_remove_all_sub.
Qed.

Lemma tick_task_dirty s tk k :
  dirty (tick_task s tk) k = false ->
  (dirty s k = false /\ mem_key k (tkeys tk) = false) \/ find k (cache (tick_task s tk)) = None.
Proof.
  unfold tick_task.
  assert (A : forall t', tkeys t' = tkeys tk ->
            dirty (mkState (db s) (dbFault s) (cache s) (cfault s) (pending s ++ [t']) (lost s) (clock s)) k = false ->
            dirty s k = false /\ mem_key k (tkeys tk) = false).
  { intros t' Ht. unfold dirty, pending_keys. sproj. rewrite flat_map_app, mem_key_app. cbn [flat_map].
    rewrite app_nil_r, Ht. intro H. apply orb_false_iff in H. destruct H as [H1 H2].
    apply orb_false_iff in H1. destruct H1 as [H1 H3]. rewrite H1, H2. auto. }
  destruct (1 <? trem tk); [intro H; left; eapply A; [|exact H]; reflexivity|].
  destruct (node_down s (tnode tk)).
  - destruct (next_delay (tdelay tk)); [intro H; left; eapply A; [|exact H]; reflexivity|].
    unfold dirty, pending_keys. sproj. rewrite mem_key_app. intro H. left.
    apply orb_false_iff in H. destruct H as [H1 H2]. apply orb_false_iff in H2. destruct H2 as [H2 H3].
    rewrite H1, H2. auto.
  - unfold dirty, pending_keys. sproj. rewrite mem_filter_not. intro H.
    destruct (mem_key k (tkeys tk)) eqn:M.
    + right. apply find_remove_all_in. apply mem_key_In. exact M.
    + left. cbn [negb] in H. rewrite andb_true_r in H. auto.
Qed.

Lemma tick_fold_frame l : forall s,
  db (fold_left tick_task l s) = db s /\ dbFault (fold_left tick_task l s) = dbFault s
  /\ cfault (fold_left tick_task l s) = cfault s /\ clock (fold_left tick_task l s) = clock s.
Proof.
  induction l as [|tk l IH]; cbn; intro s; auto.
  destruct (IH (tick_task s tk)) as (A & B & C & D).
  destruct (tick_task_frame s tk) as (A' & B' & C' & D').
  rewrite A, B, C, D. auto.
Qed.

Lemma tick_fold_sub l : forall s k e,
  find k (cache (fold_left tick_task l s)) = Some e -> find k (cache s) = Some e.
Proof.
  induction l as [|tk l IH]; cbn; intros s k e H; auto.
  apply IH in H. eapply tick_task_sub; eauto.
Qed.

Lemma tick_fold_dirty l : forall s k,
  dirty (fold_left tick_task l s) k = false ->
  (dirty s k = false /\ mem_key k (flat_map tkeys l) = false)
  \/ find k (cache (fold_left tick_task l s)) = None.
Proof.
  induction l as [|tk l IH]; cbn [fold_left flat_map]; intros s k H; auto.
  destruct (IH _ _ H) as [[G1 G2]|G]; auto.
  destruct (tick_task_dirty s tk k G1) as [[G3 G4]|G3].
  - left. split; auto. rewrite mem_key_app, G4, G2. reflexivity.
  - right. destruct (find k (cache (fold_left tick_task l (tick_task s tk)))) eqn:E; auto.
    apply tick_fold_sub in E. congruence.
Qed.

Lemma tick_frame s :
  db (tick s) = db s /\ dbFault (tick s) = dbFault s /\ cfault (tick s) = cfault s /\ clock (tick s) = clock s.
Proof.
  unfold tick.
  destruct (tick_fold_frame (pending s)
              (mkState (db s) (dbFault s) (cache s) (cfault s) [] (lost s) (clock s))) as (A & B & C & D).
  rewrite A, B, C, D. auto.
Qed.

Lemma tick_sub s k e : find k (cache (tick s)) = Some e -> find k (cache s) = Some e.
Proof. unfold tick. intro H. apply tick_fold_sub in H. exact H. Qed.

Lemma tick_coh s : coh s -> coh (tick s).
Proof.
  intros H k e Hl Hd _.
  destruct (tick_frame s) as (Hdb & _ & _ & Hck). rewrite Hdb. rewrite Hck in Hl.
  apply lookup_some in Hl. destruct Hl as [Hf Hlv].
  unfold tick in Hd, Hf.
  destruct (tick_fold_dirty _ _ _ Hd) as [[G1 G2]|G]; [|congruence].
  apply H; auto.
  - apply lookup_intro; auto. apply tick_fold_sub in Hf. exact Hf.
  - unfold dirty in *. cbn in G1. unfold pending_keys in *. cbn in G1. rewrite G2. exact G1.
Qed.

Lemma iter_tick_inv (P : state -> Prop) :
  (forall s, P s -> P (tick s)) -> forall n s, P s -> P (N.iter n tick s).
Proof.
  intros Hstep n s H0. apply N.iter_invariant; auto.
Qed.

(* --- reads *)
Lemma coh_put s k e :
  coh s -> ok_entry (db s) k (eval e) -> coh (set_cache s (put k e (cache s))).
Proof.
  intros H Hok k' e' Hl Hd _. cbn in *.
  apply lookup_some in Hl. destruct Hl as [Hf Hlv].
  destruct (key_eqb k' k) eqn:E.
  - apply key_eqb_eq in E. subst. rewrite find_put_same in Hf. inversion Hf. subst. exact Hok.
  - rewrite find_put_other in Hf by exact E. apply H; auto. apply lookup_intro; auto.
Qed.

Lemma fail_node_coh s n : coh s -> coh (fail_node s n).
Proof. intro H. exact H. Qed.

Lemma load_primary_coh c s p t : wf_db (db s) -> coh s -> coh (fst (load_primary c s p t)).
Proof.
  intros W H. unfold load_primary.
  destruct (dbFault s); [exact H|].
  destruct (db_get p (db s)) as [[u v]|] eqn:G.
  - destruct (key_down c s (KP p)); [exact H|].
    destruct (ttl_ok (expiry_of c) t); [|exact H]. cbn [fst]. apply coh_put; auto.
  - destruct (key_down c s (KP p)); [exact H|].
    destruct (ttl_ok (nf_of c) t); [|exact H]. cbn [fst]. apply coh_put; auto.
Qed.

Lemma take_primary_coh c s p t : wf_db (db s) -> coh s -> coh (fst (take_primary c s p t)).
Proof.
  intros W H. unfold take_primary.
  destruct (key_down c s (KP p)); [exact H|].
  destruct (lookup (clock s) (cache s) (KP p)) as [[[u v|q|] x]|] eqn:L; try exact H.
  apply load_primary_coh; auto.
Qed.

Lemma take_mid_coh c s p t n : wf_db (db s) -> coh s -> coh (fst (take_mid c s p t n)).
Proof.
  intros W H. unfold take_mid.
  destruct (key_down c s (KP p)); [exact H|].
  destruct (lookup (clock s) (cache s) (KP p)).
  - apply take_primary_coh; auto.
  - apply load_primary_coh; auto.
Qed.

Lemma load_primary_db c s p t : db (fst (load_primary c s p t)) = db s.
Proof.
  unfold load_primary. destruct (dbFault s); auto.
  destruct (db_get p (db s)) as [[u v]|]; destruct (key_down c s (KP p)); auto.
  - destruct (ttl_ok (expiry_of c) t); auto.
  - destruct (ttl_ok (nf_of c) t); auto.
Qed.

Lemma take_primary_db c s p t : db (fst (take_primary c s p t)) = db s.
Proof.
  unfold take_primary.
  destruct (key_down c s (KP p)); auto.
  destruct (lookup (clock s) (cache s) (KP p)) as [[[u v|q|] x]|]; auto.
  apply load_primary_db.
Qed.

Lemma take_mid_db c s p t n : db (fst (take_mid c s p t n)) = db s.
Proof.
  unfold take_mid. destruct (key_down c s (KP p)); auto.
  destruct (lookup (clock s) (cache s) (KP p)).
  - apply take_primary_db.
  - apply (load_primary_db c (fail_node s n)).
Qed.

Lemma load_index_db c s u t : db (fst (load_index c s u t)) = db s.
Proof.
  unfold load_index. destruct (dbFault s); auto.
  destruct (db_by_u u (db s)) as [[p [u' v]]|].
  - destruct (key_down c s (KP p)); auto. destruct (ttl_ok (expiry_of c) t); auto.
    destruct (key_down c s (KU u)); auto.
  - destruct (key_down c s (KU u)); auto. destruct (ttl_ok (nf_of c) t); auto.
Qed.

Lemma query_index_db c s u t : db (fst (query_index c s u t)) = db s.
Proof.
  unfold query_index.
  destruct (key_down c s (KU u)); auto.
  destruct (lookup (clock s) (cache s) (KU u)) as [[[u0 v0|q|] x]|]; auto.
  - apply take_primary_db.
  - apply load_index_db.
Qed.

Lemma query_index_mid_db c s u t n : db (fst (query_index_mid c s u t n)) = db s.
Proof.
  unfold query_index_mid.
  destruct (key_down c s (KU u)); auto.
  destruct (lookup (clock s) (cache s) (KU u)) as [[[u0 v0|q|] x]|]; auto.
  - apply take_mid_db.
  - apply (load_index_db c (fail_node s n)).
Qed.

Lemma load_index_coh c s u t : wf_db (db s) -> coh s -> coh (fst (load_index c s u t)).
Proof.
  intros W H. unfold load_index.
  destruct (dbFault s); [exact H|].
  destruct (db_by_u u (db s)) as [[p [u' v]]|] eqn:G.
  - destruct (key_down c s (KP p)); [exact H|].
    destruct (ttl_ok (expiry_of c) t); [|exact H].
    destruct (db_by_u_some _ _ _ _ _ W G) as [-> G'].
    pose (s1 := set_cache s (put (KP p) (mkEntry (CRow u v) (exp_of (clock s) (t + safe_gap))) (cache s))).
    assert (H1 : coh s1) by (apply coh_put; auto).
    destruct (key_down c s (KU u)); [exact H1|]. cbn [fst].
    change (coh (set_cache s1 (put (KU u) (mkEntry (CPk p) (exp_of (clock s1) t)) (cache s1)))).
    apply coh_put; auto. cbn. exists v. exact G'.
  - destruct (key_down c s (KU u)); [exact H|].
    destruct (ttl_ok (nf_of c) t); [|exact H]. cbn [fst]. apply coh_put; auto.
    cbn. apply db_by_u_none. exact G.
Qed.

Lemma query_index_coh c s u t : wf_db (db s) -> coh s -> coh (fst (query_index c s u t)).
Proof.
  intros W H. unfold query_index.
  destruct (key_down c s (KU u)); [exact H|].
  destruct (lookup (clock s) (cache s) (KU u)) as [[[u0 v0|q|] x]|] eqn:L; try exact H.
  - apply take_primary_coh; auto.
  - apply load_index_coh; auto.
Qed.

Lemma query_index_mid_coh c s u t n : wf_db (db s) -> coh s -> coh (fst (query_index_mid c s u t n)).
Proof.
  intros W H. unfold query_index_mid.
  destruct (key_down c s (KU u)); [exact H|].
  destruct (lookup (clock s) (cache s) (KU u)) as [[[u0 v0|q|] x]|] eqn:L; try exact H.
  - apply take_mid_coh; auto.
  - apply (load_index_coh c (fail_node s n)); auto.
Qed.

(* --- Exec *)
Lemma exec_put_cohx s f p u v keys :
  coh s -> covers (db s) p (Some (u, v)) keys = true ->
  cohx (fun k => mem_key k keys)
       (mkState (db_put p (u, v) (db s)) f (cache s) (cfault s) (pending s) (lost s) (clock s)).
Proof.
  intros H Hc k e Hl Hd Hx. sproj_in Hl. cbn beta in Hx.
  assert (Hd' : dirty s k = false) by exact Hd. clear Hd. sproj.
  unfold covers in Hc. apply andb_true_iff in Hc. destruct Hc as [Hc Hnew].
  apply andb_true_iff in Hc. destruct Hc as [Hp Hold].
  specialize (H k e Hl Hd' eq_refl). cbn [negb] in *.
  destruct k as [q|u']; destruct (eval e) as [a b|q'|]; cbn [ok_entry] in *; try contradiction.
  - rewrite db_get_put. destruct (q =? p) eqn:E; auto.
    apply Z.eqb_eq in E. subst. congruence.
  - rewrite db_get_put. destruct (q =? p) eqn:E; auto.
    apply Z.eqb_eq in E. subst. congruence.
  - destruct H as [w Hw]. rewrite db_get_put. destruct (q' =? p) eqn:E.
    + apply Z.eqb_eq in E. subst. rewrite Hw in Hold. congruence.
    + exists w. exact Hw.
  - intros q w. rewrite db_get_put. destruct (q =? p) eqn:E.
    + intro G. inversion G. subst. congruence.
    + apply H.
Qed.

Lemma exec_del_cohx s f p keys :
  coh s -> covers (db s) p None keys = true ->
  cohx (fun k => mem_key k keys)
       (mkState (db_del p (db s)) f (cache s) (cfault s) (pending s) (lost s) (clock s)).
Proof.
  intros H Hc k e Hl Hd Hx. sproj_in Hl. cbn beta in Hx.
  assert (Hd' : dirty s k = false) by exact Hd. clear Hd. sproj.
  unfold covers in Hc. apply andb_true_iff in Hc. destruct Hc as [Hc _].
  apply andb_true_iff in Hc. destruct Hc as [Hp Hold].
  specialize (H k e Hl Hd' eq_refl). cbn [negb] in *.
  destruct k as [q|u']; destruct (eval e) as [a b|q'|]; cbn [ok_entry] in *; try contradiction.
  - rewrite db_get_del. destruct (q =? p) eqn:E; auto.
    apply Z.eqb_eq in E. subst. congruence.
  - rewrite db_get_del. destruct (q =? p); auto.
  - destruct H as [w Hw]. rewrite db_get_del. destruct (q' =? p) eqn:E.
    + apply Z.eqb_eq in E. subst. rewrite Hw in Hold. congruence.
    + exists w. exact Hw.
  - intros q w. rewrite db_get_del. destruct (q =? p); [discriminate | apply H].
Qed.

Lemma row_eqb_eq a b : row_eqb a b = true -> a = b.
Proof.
  destruct a as [[u v]|], b as [[u' v']|]; cbn; try discriminate; auto.
  intro H. apply andb_true_iff in H. destruct H as [H1 H2].
  apply Z.eqb_eq in H1. apply Z.eqb_eq in H2. subst. reflexivity.
Qed.

(* ------------------------------------------------------------------ one step *)
Lemma step_db_wf c s o : wf_db (db s) -> wf_db (db (fst (step c s o))).
Proof.
  intro W. destruct o; cbn [step].
  - rewrite take_primary_db. exact W.
  - rewrite query_index_db. exact W.
  - unfold get_primary. destruct (key_down c s (KP p)); auto.
    destruct (lookup (clock s) (cache s) (KP p)) as [[[u v|q|] x]|]; auto.
  - unfold exec. destruct (dbFault s); auto. destruct w as [[u v]|].
    + destruct (u_taken p u (db s)); auto. cbn [fst].
      match goal with |- wf_db (db (del_keys ?a ?b ?x)) => destruct (del_keys_frame a b x) as (E & _) end.
      rewrite E. sproj. apply wf_db_put. exact W.
    + cbn [fst].
      match goal with |- wf_db (db (del_keys ?a ?b ?x)) => destruct (del_keys_frame a b x) as (E & _) end.
      rewrite E. sproj. apply wf_db_del. exact W.
  - destruct (key_down c s (KP p)) eqn:K; auto. destruct (ttl_ok (expiry_of c) t); auto.
    unfold set_primary. rewrite K. exact W.
  - unfold set_primary. destruct (key_down c s (KP p)); auto.
  - cbn [fst]. destruct (del_keys_frame c keys s) as (E & _). rewrite E. exact W.
  - exact W.
  - exact W.
  - exact W.
  - cbn [fst]. apply (iter_tick_inv (fun s' => wf_db (db s'))); auto.
    intros s' H. destruct (tick_frame s') as (E & _). rewrite E. exact H.
  - rewrite take_mid_db. exact W.
  - rewrite query_index_mid_db. exact W.
  - unfold exec_die. destruct (dbFault s); auto.
    destruct (negb (existsb (Z.eqb n0) (nodes_of c keys))); auto. destruct w as [[u v]|].
    + destruct (u_taken p u (db s)); auto. cbn [fst].
      match goal with |- wf_db (db (die_keys ?a ?b ?n ?x)) => destruct (die_keys_frame a b n x) as (E & _) end.
      rewrite E. sproj. apply wf_db_put. exact W.
    + cbn [fst].
      match goal with |- wf_db (db (die_keys ?a ?b ?n ?x)) => destruct (die_keys_frame a b n x) as (E & _) end.
      rewrite E. sproj. apply wf_db_del. exact W.
Qed.

Lemma step_coh c s o :
  wf_db (db s) -> coh s -> disciplined (db s) o = true -> coh (fst (step c s o)).
Proof.
  intros W H D. destruct o; cbn [step disciplined] in *.
  - apply take_primary_coh; auto.
  - apply query_index_coh; auto.
  - unfold get_primary. destruct (key_down c s (KP p)); auto.
    destruct (lookup (clock s) (cache s) (KP p)) as [[[u v|q|] x]|]; auto.
  - unfold exec. destruct (dbFault s); auto. destruct w as [[u v]|].
    + destruct (u_taken p u (db s)); auto. cbn [fst]. apply del_keys_coh. apply exec_put_cohx; auto.
    + cbn [fst]. apply del_keys_coh. apply exec_del_cohx; auto.
  - destruct (key_down c s (KP p)) eqn:K; auto. destruct (ttl_ok (expiry_of c) t); auto.
    unfold set_primary. rewrite K. cbn [fst]. apply coh_put; auto. cbn [eval ok_entry].
    apply row_eqb_eq in D. exact D.
  - unfold set_primary. destruct (key_down c s (KP p)); auto. cbn [fst]. apply coh_put; auto.
    cbn [eval ok_entry]. apply row_eqb_eq in D. exact D.
  - cbn [fst]. apply del_keys_coh. intros k e Hl Hd _. apply H; auto.
  - cbn [fst]. intros k e Hl Hd _. sproj_in Hl. sproj.
    assert (Hd' : dirty s k = false) by exact Hd.
    apply H; auto.
    apply lookup_some in Hl. destruct Hl as [Hf Hlv]. apply lookup_intro; auto.
    eapply live_mono; [|exact Hlv]. lia.
  - exact H.
  - exact H.
  - cbn [fst]. apply (iter_tick_inv coh); auto. apply tick_coh.
  - apply take_mid_coh; auto.
  - apply query_index_mid_coh; auto.
  - unfold exec_die. destruct (dbFault s); auto.
    destruct (negb (existsb (Z.eqb n0) (nodes_of c keys))); auto. destruct w as [[u v]|].
    + destruct (u_taken p u (db s)); auto. cbn [fst]. apply die_keys_coh. apply exec_put_cohx; auto.
    + cbn [fst]. apply die_keys_coh. apply exec_del_cohx; auto.
Qed.

Lemma final_coh c ops : forall s,
  wf_db (db s) -> coh s -> all_disciplined c s ops = true ->
  wf_db (db (final c s ops)) /\ coh (final c s ops).
Proof.
  induction ops as [|o ops IH]; cbn; intros s W H D; auto.
  apply andb_true_iff in D. destruct D as [D1 D2].
  apply IH; auto.
  - apply step_db_wf. exact W.
  - apply step_coh; auto.
Qed.

Lemma init_coh rows : coh (init rows).
Proof. intros k e Hl. cbn in Hl. discriminate. Qed.

(* ------------------------------------------------------------------ what a read returns *)
Lemma load_primary_sound c s p t :
  let ob := snd (load_primary c s p t) in
  (forall p' u v, oret ob = RRow p' u v -> p' = p /\ db_get p (db s) = Some (u, v)) /\
  (oret ob = RNf -> db_get p (db s) = None).
Proof.
  unfold load_primary.
  destruct (dbFault s); [cbn; split; [intros; discriminate | discriminate]|].
  destruct (db_get p (db s)) as [[u v]|] eqn:G.
  - destruct (key_down c s (KP p)); [|destruct (ttl_ok (expiry_of c) t)]; cbn;
      (split; [|discriminate]); intros p' u' v' E; inversion E; subst; auto.
  - destruct (key_down c s (KP p)); [|destruct (ttl_ok (nf_of c) t)]; cbn;
      (split; [intros; discriminate|]); auto; discriminate.
Qed.

Lemma take_primary_sound c s p t :
  coh s -> dirty s (KP p) = false ->
  let ob := snd (take_primary c s p t) in
  (forall p' u v, oret ob = RRow p' u v -> p' = p /\ db_get p (db s) = Some (u, v)) /\
  (oret ob = RNf -> db_get p (db s) = None).
Proof.
  intros H Hd. unfold take_primary.
  destruct (key_down c s (KP p)); [cbn; split; [intros; discriminate | discriminate]|].
  destruct (lookup (clock s) (cache s) (KP p)) as [[[u v|q|] x]|] eqn:L.
  - specialize (H _ _ L Hd eq_refl). cbn in *. split; [|discriminate].
    intros p' u' v' E. inversion E. subst. auto.
  - cbn. split; [intros; discriminate | discriminate].
  - specialize (H _ _ L Hd eq_refl). cbn in *. split; [intros; discriminate | auto].
  - apply load_primary_sound.
Qed.

Lemma take_mid_sound c s p t n :
  coh s -> dirty s (KP p) = false ->
  let ob := snd (take_mid c s p t n) in
  (forall p' u v, oret ob = RRow p' u v -> p' = p /\ db_get p (db s) = Some (u, v)) /\
  (oret ob = RNf -> db_get p (db s) = None).
Proof.
  intros H Hd. unfold take_mid.
  destruct (key_down c s (KP p)) eqn:K; [cbn; split; [intros; discriminate | discriminate]|].
  destruct (lookup (clock s) (cache s) (KP p)) eqn:L.
  - apply take_primary_sound; auto.
  - apply (load_primary_sound c (fail_node s n)).
Qed.

Lemma get_primary_sound c s p :
  coh s -> dirty s (KP p) = false ->
  forall p' u v, oret (snd (get_primary c s p)) = RRow p' u v -> p' = p /\ db_get p (db s) = Some (u, v).
Proof.
  intros H Hd. unfold get_primary.
  destruct (key_down c s (KP p)); [cbn; intros; discriminate|].
  destruct (lookup (clock s) (cache s) (KP p)) as [[[u v|q|] x]|] eqn:L; cbn; try (intros; discriminate).
  specialize (H _ _ L Hd eq_refl). cbn in H. intros p' u' v' E. inversion E. subst. auto.
Qed.

Lemma load_index_sound c s u t :
  wf_db (db s) ->
  let ob := snd (load_index c s u t) in
  (forall p u' v, oret ob = RRow p u' v -> u' = u /\ db_get p (db s) = Some (u, v)) /\
  (oret ob = RNf -> forall p v, db_get p (db s) <> Some (u, v)).
Proof.
  intros W. unfold load_index.
  destruct (dbFault s); [cbn; split; [intros; discriminate | discriminate]|].
  destruct (db_by_u u (db s)) as [[p [u' v]]|] eqn:G.
  - destruct (db_by_u_some _ _ _ _ _ W G) as [-> G'].
    destruct (key_down c s (KP p)); [cbn; split; [intros; discriminate | discriminate]|].
    destruct (ttl_ok (expiry_of c) t); [destruct (key_down c s (KU u))|]; cbn;
      (split; [|discriminate]); intros p' u' v' E; inversion E; subst; auto.
  - destruct (key_down c s (KU u)); [|destruct (ttl_ok (nf_of c) t)]; cbn;
      (split; [intros; discriminate|]); try discriminate; intros _; apply db_by_u_none; exact G.
Qed.

Definition index_claim (s : state) (u : Z) (ob : obs) : Prop :=
  (forall p u' v, oret ob = RRow p u' v -> u' = u /\ db_get p (db s) = Some (u, v)) /\
  (oret ob = RNf -> forall p v, db_get p (db s) <> Some (u, v)).

Lemma via_primary s u q x (ob : obs) :
  coh s -> dirty s (KU u) = false ->
  lookup (clock s) (cache s) (KU u) = Some (mkEntry (CPk q) x) ->
  ((forall p' u0 v, oret ob = RRow p' u0 v -> p' = q /\ db_get q (db s) = Some (u0, v)) /\
   (oret ob = RNf -> db_get q (db s) = None)) -> index_claim s u ob.
Proof.
  intros H Hd L [A B]. pose proof (H _ _ L Hd eq_refl) as Hq. cbn in Hq. destruct Hq as [w Hw]. split.
  - intros p u' v E. destruct (A _ _ _ E) as [-> G]. rewrite Hw in G. inversion G. subst. auto.
  - intro E. apply B in E. congruence.
Qed.

Lemma query_index_sound c s u t :
  wf_db (db s) -> coh s -> dirty s (KU u) = false ->
  (forall e p, lookup (clock s) (cache s) (KU u) = Some e -> eval e = CPk p -> dirty s (KP p) = false) ->
  index_claim s u (snd (query_index c s u t)).
Proof.
  intros W H Hd Hp. unfold query_index.
  destruct (key_down c s (KU u)); [cbn; split; [intros; discriminate | discriminate]|].
  destruct (lookup (clock s) (cache s) (KU u)) as [[[u0 v0|q|] x]|] eqn:L.
  - cbn. split; [intros; discriminate | discriminate].
  - eapply via_primary; eauto. apply take_primary_sound; auto. eapply Hp; eauto.
  - specialize (H _ _ L Hd eq_refl). cbn in *. split; [intros; discriminate | auto].
  - apply load_index_sound; auto.
Qed.

Lemma query_index_mid_sound c s u t n :
  wf_db (db s) -> coh s -> dirty s (KU u) = false ->
  (forall e p, lookup (clock s) (cache s) (KU u) = Some e -> eval e = CPk p -> dirty s (KP p) = false) ->
  index_claim s u (snd (query_index_mid c s u t n)).
Proof.
  intros W H Hd Hp. unfold query_index_mid.
  destruct (key_down c s (KU u)); [cbn; split; [intros; discriminate | discriminate]|].
  destruct (lookup (clock s) (cache s) (KU u)) as [[[u0 v0|q|] x]|] eqn:L.
  - cbn. split; [intros; discriminate | discriminate].
  - eapply via_primary; eauto. apply take_mid_sound; auto. eapply Hp; eauto.
  - specialize (H _ _ L Hd eq_refl). cbn in *. split; [intros; discriminate | auto].
  - apply (load_index_sound c (fail_node s n)); auto.
Qed.


Definition take_like (o : op) (p : Z) : Prop :=
  (exists t, o = OTake p t) \/ (exists t n, o = OTakeMid p t n).
Definition qri_like (o : op) (u : Z) : Prop :=
  (exists t, o = OQri u t) \/ (exists t n, o = OQriMid u t n).

Lemma coherent_reads_lemma c rows ops :
  NoDup (map fst rows) -> all_disciplined c (init rows) ops = true ->
  let s := final c (init rows) ops in
  (forall p o, take_like o p -> dirty s (KP p) = false ->
     db (fst (step c s o)) = db s /\
     (forall p' u v, oret (snd (step c s o)) = RRow p' u v -> p' = p /\ db_get p (db s) = Some (u, v)) /\
     (oret (snd (step c s o)) = RNf -> db_get p (db s) = None)) /\
  (forall p, dirty s (KP p) = false ->
     forall p' u v, oret (snd (step c s (OGet p))) = RRow p' u v -> p' = p /\ db_get p (db s) = Some (u, v)) /\
  (forall u o, qri_like o u -> dirty s (KU u) = false ->
     (forall e p, lookup (clock s) (cache s) (KU u) = Some e -> eval e = CPk p -> dirty s (KP p) = false) ->
     db (fst (step c s o)) = db s /\
     (forall p u' v, oret (snd (step c s o)) = RRow p u' v -> u' = u /\ db_get p (db s) = Some (u, v)) /\
     (oret (snd (step c s o)) = RNf -> forall p v, db_get p (db s) <> Some (u, v))).
Proof.
  intros ND D s.
  destruct (final_coh c ops (init rows) ND (init_coh rows) D) as [W H]. fold s in W, H.
  split; [|split].
  - intros p o [[t ->]|[t [n ->]]] Hd; cbn [step].
    + split; [apply take_primary_db|]. apply take_primary_sound; auto.
    + split; [apply take_mid_db|]. apply take_mid_sound; auto.
  - intros p Hd. cbn. apply get_primary_sound; auto.
  - intros u o [[t ->]|[t [n ->]]] Hd Hp; cbn [step].
    + split; [apply query_index_db|]. apply query_index_sound; auto.
    + split; [apply query_index_mid_db|]. apply query_index_mid_sound; auto.
Qed.
