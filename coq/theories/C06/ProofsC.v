(* C06 - history-level "the primary entry outlives the index entry".

   The pair written by one index load has expiries xi and xi + gap.  Over histories the
   statement "whenever an index entry is live, the primary entry it points to is in the store
   and expires at least the gap later" is an invariant only while no invalidation has failed
   and nothing is written or deleted behind the back of the cache: a late retry of the
   cleaner may delete a primary entry that was reloaded in the meantime and leave the index
   entry (harmless for coherence), an explicit Del / Set may do the same.  Hence [tidy]. *)
From Coq Require Import List ZArith Bool NArith Lia.
From GZ Require Import C06.Model C06.Proofs C06.GenProofs C06.ProofsB.
Import ListNotations.
Open Scope Z_scope.

(* operations of a tidy history: disciplined, every Exec finds the nodes of its keys up and,
   with a primary key, also names the index key of that row ([keys_closed], as the generated
   models do), no explicit Set / SetWithExpire / Del *)
Definition tidy_op (c : config) (s : state) (o : op) : bool :=
  disciplined (db s) o &&
  match o with
  | OExec _ _ keys => forallb (fun k => negb (key_down c s k)) keys
  | OSet _ _ _ _ | OSetEx _ _ _ _ | ODel _ => false
  | OExecDie _ _ _ _ => false       (* leaves part of its invalidation to the cleaner *)
  | _ => true
  end.

Definition outlives (s : state) : Prop :=
  forall u p xi, find (KU u) (cache s) = Some (mkEntry (CPk p) (Some xi)) -> clock s < xi ->
    exists e', find (KP p) (cache s) = Some e' /\
               (eexp e' = None \/ exists xp, eexp e' = Some xp /\ xi + 1000 * safe_gap <= xp).

Definition quiet (s : state) : Prop := pending s = [] /\ lost s = [].

Record inv (s : state) : Prop :=
  { i_wf : wf_db (db s); i_coh : coh s; i_quiet : quiet s; i_out : outlives s }.

Lemma quiet_clean s k : quiet s -> dirty s k = false.
Proof. intros [P L]. unfold dirty, pending_keys. rewrite P, L. reflexivity. Qed.

Lemma outlives_put_primary s p e :
  outlives s ->
  (forall u xi, find (KU u) (cache s) = Some (mkEntry (CPk p) (Some xi)) -> clock s < xi -> False) ->
  outlives (set_cache s (put (KP p) e (cache s))).
Proof.
  intros O N u q xi Hf Hl. cbn [set_cache cache clock] in *.
  rewrite find_put_other in Hf by reflexivity.
  destruct (Z.eq_dec q p) as [->|Ne].
  - exfalso. eapply N; eauto.
  - destruct (O _ _ _ Hf Hl) as (e' & F & B). exists e'. split; auto.
    rewrite find_put_other; auto. cbn. apply Z.eqb_neq. exact Ne.
Qed.

(* a live index entry pointing to p makes the primary entry of p live *)
Lemma outlives_primary_live s u p xi :
  outlives s -> 0 < safe_gap ->
  find (KU u) (cache s) = Some (mkEntry (CPk p) (Some xi)) -> clock s < xi ->
  lookup (clock s) (cache s) (KP p) <> None.
Proof.
  intros O G Hf Hl. destruct (O _ _ _ Hf Hl) as (e' & F & B).
  unfold lookup. rewrite F. unfold live.
  destruct B as [B|(xp & B & Le)]; rewrite B; [discriminate|].
  assert (E : clock s <? xp = true) by (apply Z.ltb_lt; lia). rewrite E. discriminate.
Qed.

Lemma load_primary_inv c s s0 p t :
  cache s0 = cache s -> clock s0 = clock s -> db s0 = db s -> pending s0 = pending s -> lost s0 = lost s ->
  inv s -> lookup (clock s) (cache s) (KP p) = None -> inv (fst (load_primary c s0 p t)).
Proof.
  intros Ec Ek Ed Ep El I L.
  assert (I0 : inv s0).
  { destruct I as [W H [Q1 Q2] O]. constructor.
    - rewrite Ed. exact W.
    - intros k e Hl Hd _. rewrite Ec, Ek in Hl. rewrite Ed. apply H; auto.
      unfold dirty, pending_keys in *. rewrite Ep, El in Hd. exact Hd.
    - split; congruence.
    - intros u q xi Hf Hl. rewrite Ec in *. rewrite Ek in Hl. eapply O; eauto. }
  assert (N : forall u xi, find (KU u) (cache s0) = Some (mkEntry (CPk p) (Some xi)) -> clock s0 < xi -> False).
  { intros u xi Hf Hl. rewrite Ec in Hf. rewrite Ek in Hl.
    apply (outlives_primary_live s u p xi (i_out s I) safe_gap_pos Hf Hl). exact L. }
  clear I. destruct I0 as [W H Q O].
  pose proof (load_primary_coh c s0 p t W H) as Hc.
  pose proof (load_primary_db c s0 p t) as Hd.
  constructor; auto.
  - rewrite Hd. exact W.
  - unfold load_primary. destruct (dbFault s0); auto.
    destruct (db_get p (db s0)) as [[u v]|]; (destruct (key_down c s0 (KP p)); auto).
    + destruct (ttl_ok (expiry_of c) t); auto.
    + destruct (ttl_ok (nf_of c) t); auto.
  - unfold load_primary. destruct (dbFault s0); auto.
    destruct (db_get p (db s0)) as [[u v]|]; (destruct (key_down c s0 (KP p)); auto).
    + destruct (ttl_ok (expiry_of c) t); auto. cbn [fst]. apply outlives_put_primary; auto.
    + destruct (ttl_ok (nf_of c) t); auto. cbn [fst]. apply outlives_put_primary; auto.
Qed.

Lemma take_primary_inv c s p t : inv s -> inv (fst (take_primary c s p t)).
Proof.
  intro I. unfold take_primary. destruct (key_down c s (KP p)); auto.
  destruct (lookup (clock s) (cache s) (KP p)) as [[[u v|q|] x]|] eqn:L; auto.
  apply (load_primary_inv c s s); auto.
Qed.

Lemma take_mid_inv c s p t n : inv s -> inv (fst (take_mid c s p t n)).
Proof.
  intro I. unfold take_mid. destruct (key_down c s (KP p)); auto.
  destruct (lookup (clock s) (cache s) (KP p)) eqn:L.
  - apply take_primary_inv; auto.
  - apply (load_primary_inv c s (fail_node s n)); auto.
Qed.

Lemma load_index_inv c s s0 u t :
  cache s0 = cache s -> clock s0 = clock s -> db s0 = db s -> pending s0 = pending s -> lost s0 = lost s ->
  inv s -> lookup (clock s) (cache s) (KU u) = None -> inv (fst (load_index c s0 u t)).
Proof.
  intros Ec Ek Ed Ep El I L.
  assert (I0 : inv s0).
  { destruct I as [W H [Q1 Q2] O]. constructor.
    - rewrite Ed. exact W.
    - intros k e Hl Hd _. rewrite Ec, Ek in Hl. rewrite Ed. apply H; auto.
      unfold dirty, pending_keys in *. rewrite Ep, El in Hd. exact Hd.
    - split; congruence.
    - intros u' q xi Hf Hl. rewrite Ec in *. rewrite Ek in Hl. eapply O; eauto. }
  assert (L0 : lookup (clock s0) (cache s0) (KU u) = None) by (rewrite Ec, Ek; exact L).
  clear I L. destruct I0 as [W H Q O].
  pose proof (load_index_coh c s0 u t W H) as Hc.
  pose proof (load_index_db c s0 u t) as Hd.
  pose proof safe_gap_pos as Gp.
  constructor; auto.
  - rewrite Hd. exact W.
  - unfold load_index. destruct (dbFault s0); auto.
    destruct (db_by_u u (db s0)) as [[p [u' v]]|].
    + destruct (key_down c s0 (KP p)); auto. destruct (ttl_ok (expiry_of c) t); auto.
      destruct (key_down c s0 (KU u)); auto.
    + destruct (key_down c s0 (KU u)); auto. destruct (ttl_ok (nf_of c) t); auto.
  - unfold load_index. destruct (dbFault s0); auto.
    destruct (db_by_u u (db s0)) as [[p [u' v]]|] eqn:G.
    + destruct (key_down c s0 (KP p)); auto. destruct (ttl_ok (expiry_of c) t); auto.
      destruct (db_by_u_some _ _ _ _ _ W G) as [-> G'].
      (* every other live index entry pointing to p would, by coherence, be the entry of u *)
      assert (Only : forall u2 xi, find (KU u2) (cache s0) = Some (mkEntry (CPk p) (Some xi)) ->
                                   clock s0 < xi -> False).
      { intros u2 xi Hf Hl.
        assert (Lk : lookup (clock s0) (cache s0) (KU u2) = Some (mkEntry (CPk p) (Some xi))).
        { apply lookup_intro; auto. unfold live. cbn. apply Z.ltb_lt. exact Hl. }
        pose proof (H _ _ Lk (quiet_clean _ _ Q) eq_refl) as Hk. cbn in Hk. destruct Hk as [w Hw].
        rewrite G' in Hw. inversion Hw. subst. congruence. }
      assert (O1 : outlives (set_cache s0 (put (KP p) (mkEntry (CRow u v) (exp_of (clock s0) (t + safe_gap))) (cache s0)))).
      { apply outlives_put_primary; auto. }
      destruct (key_down c s0 (KU u)); cbn [fst]; auto.
      intros u2 q xi Hf Hl. cbn [set_cache cache clock] in *.
      destruct (Z.eq_dec u2 u) as [->|Ne].
      * rewrite find_put_same in Hf. injection Hf as E1 E2. subst q.
        rewrite find_put_other by reflexivity. rewrite find_put_same.
        eexists. split; [reflexivity|]. cbn [eexp].
        unfold exp_of in *. destruct (t <=? 0) eqn:Et; [discriminate|].
        apply Z.leb_gt in Et. assert (Et2 : t + safe_gap <=? 0 = false) by (apply Z.leb_gt; lia).
        rewrite Et2. right. eexists. split; [reflexivity|]. assert (E3 : clock s0 + 1000 * t = xi) by congruence. lia.
      * rewrite find_put_other in Hf by (cbn; apply Z.eqb_neq; exact Ne).
        destruct (O1 _ _ _ Hf Hl) as (e' & F & B). exists e'. split; auto.
        rewrite find_put_other by reflexivity. exact F.
    + destruct (key_down c s0 (KU u)); auto. destruct (ttl_ok (nf_of c) t); auto. cbn [fst].
      intros u2 q xi Hf Hl. cbn [set_cache cache clock] in *.
      destruct (Z.eq_dec u2 u) as [->|Ne].
      * rewrite find_put_same in Hf. inversion Hf.
      * rewrite find_put_other in Hf by (cbn; apply Z.eqb_neq; exact Ne).
        destruct (O _ _ _ Hf Hl) as (e' & F & B). exists e'. split; auto.
        rewrite find_put_other by reflexivity. exact F.
Qed.

Lemma query_index_inv c s u t : inv s -> inv (fst (query_index c s u t)).
Proof.
  intro I. unfold query_index. destruct (key_down c s (KU u)); auto.
  destruct (lookup (clock s) (cache s) (KU u)) as [[[a b|q|] x]|] eqn:L; auto.
  - apply take_primary_inv; auto.
  - apply (load_index_inv c s s); auto.
Qed.

Lemma query_index_mid_inv c s u t n : inv s -> inv (fst (query_index_mid c s u t n)).
Proof.
  intro I. unfold query_index_mid. destruct (key_down c s (KU u)); auto.
  destruct (lookup (clock s) (cache s) (KU u)) as [[[a b|q|] x]|] eqn:L; auto.
  - apply take_mid_inv; auto.
  - apply (load_index_inv c s (fail_node s n)); auto.
Qed.

(* --- Exec with every node of its keys up *)
Lemma find_remove_all_notin ks : forall d k, ~ In k ks -> find k (remove_all ks d) = find k d.
Proof.
  unfold remove_all. induction ks as [|k0 ks IH]; cbn; intros d k N; auto.
  rewrite IH by tauto. apply find_remove_other. apply key_eqb_neq. intro E. subst. tauto.
Qed.

Lemma del_on_node_up c n keys s :
  quiet s -> (forall k, In k keys -> node_of c k = n -> key_down c s k = false) ->
  let s' := del_on_node c n keys s in
  quiet s' /\ (forall k, ~ In k keys -> find k (cache s') = find k (cache s)).
Proof.
  intros [Qp Ql] Up. unfold del_on_node.
  destruct (filter (fun k0 => node_of c k0 =? n) keys) as [|k0 ks] eqn:F; [split; [split|]; auto|].
  assert (Hk0 : In k0 (filter (fun k1 => node_of c k1 =? n) keys)) by (rewrite F; left; reflexivity).
  apply filter_In in Hk0. destruct Hk0 as [Hi Hn]. apply Z.eqb_eq in Hn.
  pose proof (Up k0 Hi Hn) as D. unfold key_down in D. rewrite Hn in D. rewrite D.
  split; [split; cbn; auto; rewrite Ql; reflexivity|].
  intros k N. cbn [cache]. apply find_remove_all_notin. intro Hin.
  assert (Hin' : In k (filter (fun k1 => node_of c k1 =? n) keys)) by (rewrite F; exact Hin).
  apply filter_In in Hin'. tauto.
Qed.

Lemma del_fold_up c keys ns : forall s,
  quiet s -> (forall k, In k keys -> key_down c s k = false) ->
  let s' := fold_left (fun s n => del_on_node c n keys s) ns s in
  quiet s' /\ (forall k, ~ In k keys -> find k (cache s') = find k (cache s)).
Proof.
  induction ns as [|n ns IH]; cbn; intros s Q Up; [split; auto|].
  destruct (del_on_node_up c n keys s Q) as [Q1 F1]; [intros; apply Up; auto|].
  destruct (del_on_node_frame c n keys s) as (_ & _ & Hc & _).
  destruct (IH (del_on_node c n keys s) Q1) as [Q2 F2].
  - intros k Hi. unfold key_down. rewrite (node_down_frame s _ _ Hc). apply Up; auto.
  - split; auto. intros k N. rewrite F2, F1; auto.
Qed.

Definition keys_closed (t : table) (keys : list key) : bool :=
  forallb (fun k => match k with
                    | KP q => match db_get q t with Some (u0, _) => mem_key (KU u0) keys | None => true end
                    | KU _ => true
                    end) keys.

Lemma exec_inv c s p w keys :
  inv s -> disciplined (db s) (OExec p w keys) = true ->
  forallb (fun k => negb (key_down c s k)) keys = true -> keys_closed (db s) keys = true ->
  inv (fst (step c s (OExec p w keys))).
Proof.
  intros I D Up Cl. destruct I as [W H Q O].
  pose proof (step_db_wf c s (OExec p w keys) W) as W'.
  pose proof (step_coh c s (OExec p w keys) W H D) as H'.
  assert (Up' : forall k, In k keys -> key_down c s k = false).
  { intros k Hi. rewrite forallb_forall in Up. specialize (Up k Hi). apply negb_true_iff in Up. exact Up. }
  constructor; auto; cbn [step] in *; unfold exec in *; destruct (dbFault s); auto.
  - (* quiet *)
    destruct w as [[u v]|]; [destruct (u_taken p u (db s)); auto|]; cbn [fst];
      apply (del_fold_up c keys (nodes_of c keys)); auto.
  - (* outlives *)
    assert (G : forall s1, cache s1 = cache s -> clock s1 = clock s -> cfault s1 = cfault s ->
                           pending s1 = pending s -> lost s1 = lost s -> outlives (del_keys c keys s1)).
    { intros s1 Ec Ek Ef Ep El u q xi Hf Hl.
      destruct (del_keys_frame c keys s1) as (_ & _ & _ & Hck). rewrite Hck, Ek in Hl.
      assert (Q1 : quiet s1) by (destruct Q; split; congruence).
      assert (Up1 : forall k, In k keys -> key_down c s1 k = false).
      { intros k Hi. unfold key_down, node_down. rewrite Ef. apply Up'; auto. }
      destruct (del_fold_up c keys (nodes_of c keys) s1 Q1 Up1) as [_ F].
      assert (Nu : ~ In (KU u) keys).
      { intro Hi. destruct (dfold_hit c keys (nodes_of c keys) s1 (KU u) Hi (nodes_of_In c keys _ Hi)) as [A _].
        unfold del_keys in Hf. rewrite (A (Up1 _ Hi)) in Hf. discriminate. }
      unfold del_keys in Hf. rewrite (F _ Nu), Ec in Hf.
      destruct (O _ _ _ Hf Hl) as (e' & Fp & B).
      assert (Lk : lookup (clock s) (cache s) (KU u) = Some (mkEntry (CPk q) (Some xi))).
      { apply lookup_intro; auto. unfold live. cbn. apply Z.ltb_lt. exact Hl. }
      pose proof (H _ _ Lk (quiet_clean _ _ Q) eq_refl) as Hk. cbn in Hk. destruct Hk as [w0 Hw].
      assert (Np : ~ In (KP q) keys).
      { intro Hi. unfold keys_closed in Cl. rewrite forallb_forall in Cl. specialize (Cl _ Hi). cbn in Cl.
        rewrite Hw in Cl. apply mem_key_In in Cl. contradiction. }
      exists e'. split; auto. unfold del_keys. rewrite (F _ Np), Ec. exact Fp. }
    destruct w as [[u v]|]; [destruct (u_taken p u (db s)); auto|]; cbn [fst]; apply G; reflexivity.
Qed.

Lemma tick_quiet s : quiet s -> tick s = s.
Proof.
  intros [Qp Ql]. unfold tick. rewrite Qp. cbn. destruct s; cbn in *. subst. reflexivity.
Qed.

Lemma step_inv c s o : inv s -> tidy_op c s o && match o with OExec _ _ keys => keys_closed (db s) keys | _ => true end = true ->
  inv (fst (step c s o)).
Proof.
  intros I T. apply andb_true_iff in T. destruct T as [T Cl].
  unfold tidy_op in T. apply andb_true_iff in T. destruct T as [D T].
  destruct o; try discriminate; cbn [step].
  - apply take_primary_inv; auto.
  - apply query_index_inv; auto.
  - unfold get_primary. destruct (key_down c s (KP p)); auto.
    destruct (lookup (clock s) (cache s) (KP p)) as [[[a b|q|] x]|]; auto.
  - apply (exec_inv c s p w keys); auto.
  - cbn [fst]. destruct I as [W H Q O]. constructor; auto.
    + apply (step_coh c s (OAdv ms) W H eq_refl).
    + intros u q xi Hf Hl. cbn [cache clock] in *. eapply O; eauto. lia.
  - cbn [fst]. destruct I as [W H Q O]. constructor; auto.
  - cbn [fst]. destruct I as [W H Q O]. constructor; auto.
  - cbn [fst]. apply N.iter_invariant; auto. intros x Ix. rewrite tick_quiet; auto. apply Ix.
  - apply take_mid_inv; auto.
  - apply query_index_mid_inv; auto.
Qed.

Fixpoint tidy (c : config) (s : state) (ops : list op) : bool :=
  match ops with
  | [] => true
  | o :: ops' =>
    tidy_op c s o && match o with OExec _ _ keys => keys_closed (db s) keys | _ => true end
    && tidy c (fst (step c s o)) ops'
  end.

Lemma final_inv c ops : forall s, inv s -> tidy c s ops = true -> inv (final c s ops).
Proof.
  induction ops as [|o ops IH]; cbn; intros s I T; auto.
  apply andb_true_iff in T. destruct T as [T1 T2]. apply IH; auto. apply step_inv; auto.
Qed.

Lemma init_inv rows : NoDup (map fst rows) -> inv (init rows).
Proof.
  intro ND. constructor; auto.
  - apply init_coh.
  - split; reflexivity.
  - intros u p xi Hf. cbn in Hf. discriminate.
Qed.

Lemma index_outlived_history_lemma c rows ops :
  NoDup (map fst rows) -> tidy c (init rows) ops = true ->
  let s := final c (init rows) ops in
  forall u p xi, find (KU u) (cache s) = Some (mkEntry (CPk p) (Some xi)) -> clock s < xi ->
    (exists e', find (KP p) (cache s) = Some e' /\
                (eexp e' = None \/ exists xp, eexp e' = Some xp /\ xi + 1000 * safe_gap <= xp)) /\
    lookup (clock s) (cache s) (KP p) <> None /\
    exists w, db_get p (db s) = Some (u, w).
Proof.
  intros ND T s u p xi Hf Hl.
  pose proof (final_inv c ops (init rows) (init_inv rows ND) T) as I. fold s in I.
  split; [eapply (i_out s I); eauto|]. split.
  - eapply outlives_primary_live; eauto. apply (i_out s I). apply safe_gap_pos.
  - assert (Lk : lookup (clock s) (cache s) (KU u) = Some (mkEntry (CPk p) (Some xi))).
    { apply lookup_intro; auto. unfold live. cbn. apply Z.ltb_lt. exact Hl. }
    exact (i_coh s I _ _ Lk (quiet_clean _ _ (i_quiet s I)) eq_refl).
Qed.
