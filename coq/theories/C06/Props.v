(* C06 - property theorems only.  Every theorem is closed by [exact] of a lemma proved
   in Proofs.v / ProofsB.v and followed by [Print Assumptions].

   Reading guide.  [final c (init rows) ops] is the state after the sequential history
   [ops] (any length) started on the database [rows] with an empty cache; [step c s o]
   gives the next state and the observation (returned class/row, index queries, primary
   queries) of one more operation.  [dirty s k] = an invalidation of k failed (cache node
   down during Exec / Del) and its retry is still scheduled with the cleaner ([pending])
   or was given up after the fifth attempt ([lost]).  [all_disciplined]
   = every Exec of the history names the row's primary key and the index keys of its old
   and new contents, and every explicit Set stores what the database holds. *)
From Coq Require Import List ZArith Bool NArith.
From GZ Require Import C06.Model C06.Proofs C06.GenProofs C06.ProofsB.
Import ListNotations.
Open Scope Z_scope.

(* Coherent reads.  After ANY disciplined history (reads, Execs, deletes, honest sets, clock
   advances, database and per-node cache outages at any position, cleaner ticks), a cached
   read of a key without an outstanding failed invalidation returns exactly what the
   database holds: Take/QueryRow -> the row of p or not-found iff there is none; Get -> only
   ever the row; QueryRowIndex -> the row whose unique column is u, or not-found iff no row
   has u.  (Other outcomes are the database's / the store's error.)  The database itself is
   not changed by reads. *)
Theorem coherent_reads : forall c rows ops,
  NoDup (map fst rows) -> all_disciplined c (init rows) ops = true ->
  let s := final c (init rows) ops in
  (* o = OTake p t, or OTakeMid p t n: the same with node n failing during the database query *)
  (forall p o, take_like o p -> dirty s (KP p) = false ->
     db (fst (step c s o)) = db s /\
     (forall p' u v, oret (snd (step c s o)) = RRow p' u v -> p' = p /\ db_get p (db s) = Some (u, v)) /\
     (oret (snd (step c s o)) = RNf -> db_get p (db s) = None)) /\
  (forall p, dirty s (KP p) = false ->
     forall p' u v, oret (snd (step c s (OGet p))) = RRow p' u v -> p' = p /\ db_get p (db s) = Some (u, v)) /\
  (* o = OQri u t or OQriMid u t n *)
  (forall u o, qri_like o u -> dirty s (KU u) = false ->
     (forall e p, lookup (clock s) (cache s) (KU u) = Some e -> eval e = CPk p -> dirty s (KP p) = false) ->
     db (fst (step c s o)) = db s /\
     (forall p u' v, oret (snd (step c s o)) = RRow p u' v -> u' = u /\ db_get p (db s) = Some (u, v)) /\
     (oret (snd (step c s o)) = RNf -> forall p v, db_get p (db s) <> Some (u, v))).
Proof. exact coherent_reads_lemma. Qed.
Print Assumptions coherent_reads.

(* the invariant behind it, for every reachable state: a live entry of a clean key equals the database *)
Theorem live_entries_equal_database : forall c ops s,
  wf_db (db s) -> coh s -> all_disciplined c s ops = true ->
  wf_db (db (final c s ops)) /\ coh (final c s ops).
Proof. exact final_coh. Qed.
Print Assumptions live_entries_equal_database.

(* Served from the cache: in ANY state, a live row or placeholder on a reachable node is
   answered with 0 database queries and the state (store, database, timers) is unchanged. *)
Theorem served_from_cache : forall c s,
  (forall p t e, key_down c s (KP p) = false -> lookup (clock s) (cache s) (KP p) = Some e ->
     (forall q, eval e <> CPk q) ->
     step c s (OTake p t) = (s, mkObs (answer p (eval e)) 0 0)) /\
  (forall u t e, key_down c s (KU u) = false -> lookup (clock s) (cache s) (KU u) = Some e ->
     eval e = CHole -> step c s (OQri u t) = (s, mkObs RNf 0 0)) /\
  (forall u t e p e', key_down c s (KU u) = false -> lookup (clock s) (cache s) (KU u) = Some e ->
     eval e = CPk p -> key_down c s (KP p) = false -> lookup (clock s) (cache s) (KP p) = Some e' ->
     (forall q, eval e' <> CPk q) ->
     step c s (OQri u t) = (s, mkObs (answer p (eval e')) 0 0)).
Proof. exact served_from_cache_lemma. Qed.
Print Assumptions served_from_cache.

(* Database errors: whatever the operation, if it reports the database's error the whole
   state is unchanged (nothing cached, nothing invalidated); and while the database is
   down, a miss / an Exec does report that error. *)
Theorem db_error_not_cached : forall c s,
  (forall o, is_mid o = false -> oret (snd (step c s o)) = RDbErr -> fst (step c s o) = s) /\
  (* including the operations that inject an outage themselves: store, database, timers unchanged *)
  (forall o, oret (snd (step c s o)) = RDbErr ->
     let s' := fst (step c s o) in
     db s' = db s /\ cache s' = cache s /\ pending s' = pending s /\ lost s' = lost s /\ clock s' = clock s) /\
  (dbFault s = true ->
     (forall p t, key_down c s (KP p) = false -> lookup (clock s) (cache s) (KP p) = None ->
        step c s (OTake p t) = (s, mkObs RDbErr 0 1)) /\
     (forall u t, key_down c s (KU u) = false -> lookup (clock s) (cache s) (KU u) = None ->
        step c s (OQri u t) = (s, mkObs RDbErr 1 0)) /\
     (forall p w keys, step c s (OExec p w keys) = (s, mkObs RDbErr 0 0))).
Proof. exact db_error_lemma. Qed.
Print Assumptions db_error_not_cached.

(* Store errors: an operation whose key lives on a node that is down reports the store's
   error with 0 database queries and changes nothing (also the primary lookup behind an
   index hit); and the store's error is never reported while every node is up. *)
Theorem cache_error_fails_fast : forall c s,
  (forall p t, key_down c s (KP p) = true -> step c s (OTake p t) = (s, mkObs RCErr 0 0)) /\
  (forall p, key_down c s (KP p) = true -> step c s (OGet p) = (s, mkObs RCErr 0 0)) /\
  (forall u t, key_down c s (KU u) = true -> step c s (OQri u t) = (s, mkObs RCErr 0 0)) /\
  (forall u t e p, key_down c s (KU u) = false -> lookup (clock s) (cache s) (KU u) = Some e ->
     eval e = CPk p -> key_down c s (KP p) = true -> step c s (OQri u t) = (s, mkObs RCErr 0 0)) /\
  (forall p u v t, key_down c s (KP p) = true -> step c s (OSet p u v t) = (s, mkObs RCErr 0 0)) /\
  (forall p u v d, key_down c s (KP p) = true -> step c s (OSetEx p u v d) = (s, mkObs RCErr 0 0)) /\
  (forall o, is_mid o = false -> oret (snd (step c s o)) = RCErr -> cfault s <> []).
Proof. exact cache_error_lemma. Qed.
Print Assumptions cache_error_fails_fast.

(* TTLs.  For every configured expiry / not-found expiry of at least 2 ns (the options'
   defaults included; 1 ns truncates to 0 under the jitter) and every requested expiry > 0:
   every entry an operation writes or rewrites expires a whole number t of seconds after the
   operation with 1 <= t <= max_ttl (= ceil(1.05*expiry), ceil(1.05*notFoundExpiry), 5 s more
   for the primary written by an index load, ceil(requested)); and after any such history no
   entry of the store is persistent.  (The oracle TTL must lie in [ceil(0.95 e), ceil(1.05 e)],
   which the correspondence run checks on every write.) *)
Theorem ttl_finite_and_banded : forall c,
  2 <= expiry_of c -> 2 <= nf_of c ->
  (forall s o k e, requested_positive o ->
     find k (cache (fst (step c s o))) = Some e ->
     find k (cache s) = Some e \/
     exists t, eexp e = Some (clock s + 1000 * t) /\ 1 <= t <= max_ttl c o) /\
  (forall rows ops, Forall requested_positive ops ->
     forall k e, find k (cache (final c (init rows) ops)) = Some e -> eexp e <> None).
Proof. exact ttl_lemma. Qed.
Print Assumptions ttl_finite_and_banded.

(* Index and primary: when QueryRowIndex loads through the index (1 index query, row found)
   it leaves the index entry u -> p and the primary entry of p, the primary expiring exactly
   cacheSafeGapBetweenIndexAndPrimary = 5 s after the index entry; hence (store untouched)
   whenever the index entry is still live so is the primary entry. *)
Theorem index_outlived_by_primary : forall c s u t p u' v,
  2 <= expiry_of c ->
  step c s (OQri u t) = (fst (step c s (OQri u t)), mkObs (RRow p u' v) 1 0) ->
  let s' := fst (step c s (OQri u t)) in
  exists xi xp,
    find (KU u) (cache s') = Some (mkEntry (CPk p) (Some xi)) /\
    find (KP p) (cache s') = Some (mkEntry (CRow u' v) (Some xp)) /\
    xp = xi + 1000 * safe_gap /\ clock s' < xi /\
    (forall now, clock s' <= now ->
       lookup now (cache s') (KU u) <> None -> lookup now (cache s') (KP p) <> None).
Proof. exact index_outlived_lemma. Qed.
Print Assumptions index_outlived_by_primary.

(* at most one database query per operation, in any state *)
Theorem one_query_per_operation : forall c s o,
  0 <= oqi (snd (step c s o)) /\ 0 <= oqp (snd (step c s o))
  /\ oqi (snd (step c s o)) + oqp (snd (step c s o)) <= 1.
Proof. exact step_queries. Qed.
Print Assumptions one_query_per_operation.

(* the model's [RIllTyped] answer (a primary key holding an index value or vice versa) is
   never given after any history: every write is well typed *)
Theorem never_ill_typed : forall c rows ops o,
  oret (snd (step c (final c (init rows) ops) o)) <> RIllTyped.
Proof. exact never_ill_typed_lemma. Qed.
Print Assumptions never_ill_typed.

(* Load suppression is singleflight's theorem (C07: one_execution_per_key, no_stale_result):
   callers of barrier.DoEx(key) that overlap one execution share it.  [shared_take] is that
   contract instantiated at doTake: n further overlapping readers receive the leader's
   result; then all n+1 readers together run at most one database query, all see the same
   result, and the store is as after one Take.  The Go side of this link is the gated
   concurrent-readers monitor of the check. *)
Theorem load_suppression : forall c s p t n,
  total_queries (snd (shared_take c s p t n)) <= 1 /\
  Forall (fun o => oret o = oret (snd (step c s (OTake p t)))) (snd (shared_take c s p t n)) /\
  fst (shared_take c s p t n) = fst (step c s (OTake p t)).
Proof. exact load_suppression_lemma. Qed.
Print Assumptions load_suppression.

(* ------------------------------------------------------------------ non-vacuity *)
Definition ex_cfg : config := mkCfg (100 * sec) (10 * sec) [(KP 1, 1)].
Definition ex_rows : table := [(1, (7, 41)); (2, (8, 5))].
(* load, index load, write with invalidation on two nodes, an outage that comes and goes,
   time passing, a failed invalidation of ANOTHER key repaired by the cleaner *)
Definition ex_ops : list op :=
  [OTake 1 100; OQri 8 97; OTake 3 10; OExec 1 (Some (7, 42)) [KP 1; KU 7]; OTake 1 103;
   OCFault 0 true; OExec 2 None [KP 2; KU 8]; OCFault 0 false; OClean 1; OAdv 3000; OQri 7 95].

Example ex_hypotheses :
  NoDup (map fst ex_rows) /\ all_disciplined ex_cfg (init ex_rows) ex_ops = true /\
  2 <= expiry_of ex_cfg /\ 2 <= nf_of ex_cfg /\
  let s := final ex_cfg (init ex_rows) ex_ops in
  dirty s (KP 1) = false /\ dirty s (KU 7) = false /\ dirty s (KP 3) = false /\
  (exists e, lookup (clock s) (cache s) (KP 1) = Some e /\ eval e = CRow 7 42) /\
  (exists e, lookup (clock s) (cache s) (KU 7) = Some e /\ eval e = CPk 1) /\
  (exists e, lookup (clock s) (cache s) (KP 3) = Some e /\ eval e = CHole) /\
  lookup (clock s) (cache s) (KP 2) = None.
Proof.
  split; [repeat constructor; cbn; intuition discriminate|].
  vm_compute. repeat split; try discriminate; eexists; split; reflexivity.
Qed.

Example ex_reads :
  let s := final ex_cfg (init ex_rows) ex_ops in
  step ex_cfg s (OTake 1 0) = (s, mkObs (RRow 1 7 42) 0 0) /\
  step ex_cfg s (OQri 7 0) = (s, mkObs (RRow 1 7 42) 0 0) /\
  step ex_cfg s (OTake 3 0) = (s, mkObs RNf 0 0) /\
  snd (step ex_cfg s (OTake 2 10)) = mkObs RNf 0 1 /\
  snd (step ex_cfg s (OQri 8 10)) = mkObs RNf 1 0.
Proof. vm_compute. repeat split. Qed.

Example ex_index_load :
  step ex_cfg (init ex_rows) (OQri 8 97)
  = (fst (step ex_cfg (init ex_rows) (OQri 8 97)), mkObs (RRow 2 8 5) 1 0).
Proof. vm_compute. reflexivity. Qed.
