(* C06 - property theorems only.  Every theorem is closed by [exact] of a lemma proved
   in Proofs.v / ProofsB.v and followed by [Print Assumptions].

   Reading guide.  [final c (init rows) ops] is the state after the sequential history
   [ops] (any length) started on the database [rows] with an empty cache; [step c s o]
   gives the next state and the observation (returned class/row, index queries, primary
   queries) of one more operation.  [dirty s k] = an invalidation of k failed (cache node
   down during Exec / Del) and its retry is still scheduled with the cleaner ([pending])
   or was given up after the fifth attempt ([lost]).  [all_disciplined]
   = every Exec of the history names the row's primary key and the index keys of its old
   and new contents, and every explicit Set stores what the database holds. *)
From Coq Require Import List ZArith Bool NArith.
From GZ Require Import C06.Model C06.Proofs C06.GenProofs C06.ProofsB C06.ProofsC C06.ProofsE C06.Codec C06.CodecProofs.
From GZ Require C07.Model C06.ProofsD.
From GZ Require Import C06.Check C06.ProofsCheck.
Import ListNotations.
Open Scope Z_scope.

(* Coherent reads.  After ANY disciplined history (reads, Execs, deletes, honest sets, clock
   advances, database and per-node cache outages at any position, cleaner ticks), a cached
   read of a key without an outstanding failed invalidation returns exactly what the
   database holds: Take/QueryRow -> the row of p or not-found iff there is none; Get -> only
   ever the row; QueryRowIndex -> the row whose unique column is u, or not-found iff no row
   has u.  (Other outcomes are the database's / the store's error.)  The database itself is
   not changed by reads. *)
Theorem coherent_reads : forall c rows ops,
  NoDup (map fst rows) -> all_disciplined c (init rows) ops = true ->
  let s := final c (init rows) ops in
  (* o = OTake p t, or OTakeMid p t n: the same with node n failing during the database query *)
  (forall p o, take_like o p -> dirty s (KP p) = false ->
     db (fst (step c s o)) = db s /\
     (forall p' u v, oret (snd (step c s o)) = RRow p' u v -> p' = p /\ db_get p (db s) = Some (u, v)) /\
     (oret (snd (step c s o)) = RNf -> db_get p (db s) = None)) /\
  (forall p, dirty s (KP p) = false ->
     forall p' u v, oret (snd (step c s (OGet p))) = RRow p' u v -> p' = p /\ db_get p (db s) = Some (u, v)) /\
  (* o = OQri u t or OQriMid u t n *)
  (forall u o, qri_like o u -> dirty s (KU u) = false ->
     (forall e p, lookup (clock s) (cache s) (KU u) = Some e -> eval e = CPk p -> dirty s (KP p) = false) ->
     db (fst (step c s o)) = db s /\
     (forall p u' v, oret (snd (step c s o)) = RRow p u' v -> u' = u /\ db_get p (db s) = Some (u, v)) /\
     (oret (snd (step c s o)) = RNf -> forall p v, db_get p (db s) <> Some (u, v))).
Proof. exact coherent_reads_lemma. Qed.
Print Assumptions coherent_reads.

(* the invariant behind it, for every reachable state: a live entry of a clean key equals the database *)
Theorem live_entries_equal_database : forall c ops s,
  wf_db (db s) -> coh s -> all_disciplined c s ops = true ->
  wf_db (db (final c s ops)) /\ coh (final c s ops).
Proof. exact final_coh. Qed.
Print Assumptions live_entries_equal_database.

(* Served from the cache: in ANY state, a live row or placeholder on a reachable node is
   answered with 0 database queries and the state (store, database, timers) is unchanged. *)
Theorem served_from_cache : forall c s,
  (forall p t e, key_down c s (KP p) = false -> lookup (clock s) (cache s) (KP p) = Some e ->
     (forall q, eval e <> CPk q) ->
     step c s (OTake p t) = (s, mkObs (answer p (eval e)) 0 0)) /\
  (forall u t e, key_down c s (KU u) = false -> lookup (clock s) (cache s) (KU u) = Some e ->
     eval e = CHole -> step c s (OQri u t) = (s, mkObs RNf 0 0)) /\
  (forall u t e p e', key_down c s (KU u) = false -> lookup (clock s) (cache s) (KU u) = Some e ->
     eval e = CPk p -> key_down c s (KP p) = false -> lookup (clock s) (cache s) (KP p) = Some e' ->
     (forall q, eval e' <> CPk q) ->
     step c s (OQri u t) = (s, mkObs (answer p (eval e')) 0 0)).
Proof. exact served_from_cache_lemma. Qed.
Print Assumptions served_from_cache.

(* Database errors: whatever the operation, if it reports the database's error the whole
   state is unchanged (nothing cached, nothing invalidated); and while the database is
   down, a miss / an Exec does report that error. *)
Theorem db_error_not_cached : forall c s,
  (forall o, is_mid o = false -> oret (snd (step c s o)) = RDbErr -> fst (step c s o) = s) /\
  (* including the operations that inject an outage themselves: store, database, timers unchanged *)
  (forall o, oret (snd (step c s o)) = RDbErr ->
     let s' := fst (step c s o) in
     db s' = db s /\ cache s' = cache s /\ pending s' = pending s /\ lost s' = lost s /\ clock s' = clock s) /\
  (dbFault s = true ->
     (forall p t, key_down c s (KP p) = false -> lookup (clock s) (cache s) (KP p) = None ->
        step c s (OTake p t) = (s, mkObs RDbErr 0 1)) /\
     (forall u t, key_down c s (KU u) = false -> lookup (clock s) (cache s) (KU u) = None ->
        step c s (OQri u t) = (s, mkObs RDbErr 1 0)) /\
     (forall p w keys, step c s (OExec p w keys) = (s, mkObs RDbErr 0 0)) /\
     (forall p w keys n0, step c s (OExecDie p w keys n0) = (s, mkObs RDbErr 0 0))).
Proof. exact db_error_lemma. Qed.
Print Assumptions db_error_not_cached.

(* An invalidation is never skipped.  In ANY state, once the write of an Exec is acknowledged (and
   for every Del), every key it names is gone from the store or its deletion is a timer of the
   cleaner - for the plain operations under any outage, and for [OExecDie p w keys n0]: the
   ExecCtx whose context ends (cancelled / past its deadline) while the first DEL of its
   invalidation, the one sent to node n0, is on the wire (the DELs go node by node, and key by key
   on a node of cluster type, so later DELs die with the context). *)
Theorem invalidation_never_skipped : forall c s,
  (forall p w keys k, oret (snd (step c s (OExec p w keys))) = ROk -> In k keys ->
     let s' := fst (step c s (OExec p w keys)) in
     find k (cache s') = None \/ In k (pending_keys s')) /\
  (forall keys k, In k keys ->
     let s' := fst (step c s (ODel keys)) in
     find k (cache s') = None \/ In k (pending_keys s')) /\
  (forall p w keys n0 k, oret (snd (step c s (OExecDie p w keys n0))) = ROk -> In k keys ->
     let s' := fst (step c s (OExecDie p w keys n0)) in
     find k (cache s') = None \/ In k (pending_keys s')).
Proof. exact never_skipped_lemma. Qed.
Print Assumptions invalidation_never_skipped.

(* ... and what exactly the dying context leaves: with node n0 up, the store loses the keys of
   the DEL that was on the wire ([fst (die_split c keys n0)]: keys of the invalidation living on
   n0 - all of them, or only the first when the node is of cluster type) and nothing else, and the
   cleaner gets exactly the timers [snd (die_split c keys n0)]; with n0 down the store is untouched. *)
Theorem dying_invalidation_exact : forall c keys n0 s,
  let s' := die_keys c keys n0 s in
  let first := fst (die_split c keys n0) in
  (node_down s n0 = false ->
     cache s' = remove_all first (cache s) /\ pending s' = pending s ++ snd (die_split c keys n0)) /\
  (node_down s n0 = true -> cache s' = cache s) /\
  (forall k, In k first -> In k keys /\ node_of c k = n0).
Proof. exact die_keys_exact. Qed.
Print Assumptions dying_invalidation_exact.

(* Store errors: an operation whose key lives on a node that is down reports the store's
   error with 0 database queries and changes nothing (also the primary lookup behind an
   index hit); and the store's error is never reported while every node is up. *)
Theorem cache_error_fails_fast : forall c s,
  (forall p t, key_down c s (KP p) = true -> step c s (OTake p t) = (s, mkObs RCErr 0 0)) /\
  (forall p, key_down c s (KP p) = true -> step c s (OGet p) = (s, mkObs RCErr 0 0)) /\
  (forall u t, key_down c s (KU u) = true -> step c s (OQri u t) = (s, mkObs RCErr 0 0)) /\
  (forall u t e p, key_down c s (KU u) = false -> lookup (clock s) (cache s) (KU u) = Some e ->
     eval e = CPk p -> key_down c s (KP p) = true -> step c s (OQri u t) = (s, mkObs RCErr 0 0)) /\
  (forall p u v t, key_down c s (KP p) = true -> step c s (OSet p u v t) = (s, mkObs RCErr 0 0)) /\
  (forall p u v d, key_down c s (KP p) = true -> step c s (OSetEx p u v d) = (s, mkObs RCErr 0 0)) /\
  (forall o, is_mid o = false -> oret (snd (step c s o)) = RCErr -> cfault s <> []).
Proof. exact cache_error_lemma. Qed.
Print Assumptions cache_error_fails_fast.

(* TTLs.  For every configured expiry / not-found expiry of at least 2 ns (the options'
   defaults included; 1 ns truncates to 0 under the jitter) and every requested expiry > 0:
   every entry an operation writes or rewrites expires a whole number t of seconds after the
   operation with 1 <= t <= max_ttl (= ceil(1.05*expiry), ceil(1.05*notFoundExpiry), 5 s more
   for the primary written by an index load, ceil(requested)); and after any such history no
   entry of the store is persistent.  (The oracle TTL must lie in [ceil(0.95 e), ceil(1.05 e)],
   which the correspondence run checks on every write.) *)
Theorem ttl_finite_and_banded : forall c,
  2 <= expiry_of c -> 2 <= nf_of c ->
  (forall s o k e, requested_positive o ->
     find k (cache (fst (step c s o))) = Some e ->
     find k (cache s) = Some e \/
     exists t, eexp e = Some (clock s + 1000 * t) /\ 1 <= t <= max_ttl c o) /\
  (forall rows ops, Forall requested_positive ops ->
     forall k e, find k (cache (final c (init rows) ops)) = Some e -> eexp e <> None).
Proof. exact ttl_lemma. Qed.
Print Assumptions ttl_finite_and_banded.

(* Index and primary: when QueryRowIndex loads through the index (1 index query, row found)
   it leaves the index entry u -> p and the primary entry of p, the primary expiring exactly
   cacheSafeGapBetweenIndexAndPrimary = 5 s after the index entry; hence (store untouched)
   whenever the index entry is still live so is the primary entry. *)
Theorem index_outlived_by_primary : forall c s u t p u' v,
  2 <= expiry_of c ->
  step c s (OQri u t) = (fst (step c s (OQri u t)), mkObs (RRow p u' v) 1 0) ->
  let s' := fst (step c s (OQri u t)) in
  exists xi xp,
    find (KU u) (cache s') = Some (mkEntry (CPk p) (Some xi)) /\
    find (KP p) (cache s') = Some (mkEntry (CRow u' v) (Some xp)) /\
    xp = xi + 1000 * safe_gap /\ clock s' < xi /\
    (forall now, clock s' <= now ->
       lookup now (cache s') (KU u) <> None -> lookup now (cache s') (KP p) <> None).
Proof. exact index_outlived_lemma. Qed.
Print Assumptions index_outlived_by_primary.

(* at most one database query per operation, in any state *)
Theorem one_query_per_operation : forall c s o,
  0 <= oqi (snd (step c s o)) /\ 0 <= oqp (snd (step c s o))
  /\ oqi (snd (step c s o)) + oqp (snd (step c s o)) <= 1.
Proof. exact step_queries. Qed.
Print Assumptions one_query_per_operation.

(* the model's [RIllTyped] answer (a primary key holding an index value or vice versa) is
   never given after any history: every write is well typed *)
Theorem never_ill_typed : forall c rows ops o,
  oret (snd (step c (final c (init rows) ops) o)) <> RIllTyped.
Proof. exact never_ill_typed_lemma. Qed.
Print Assumptions never_ill_typed.

(* Load suppression is singleflight's theorem (C07: one_execution_per_key, no_stale_result):
   callers of barrier.DoEx(key) that overlap one execution share it.  [shared_take] is that
   contract instantiated at doTake: n further overlapping readers receive the leader's
   result; then all n+1 readers together run at most one database query, all see the same
   result, and the store is as after one Take.  The Go side of this link is the gated
   concurrent-readers monitor of the check. *)
Theorem load_suppression : forall c s p t n,
  total_queries (snd (shared_take c s p t n)) <= 1 /\
  Forall (fun o => oret o = oret (snd (step c s (OTake p t)))) (snd (shared_take c s p t n)) /\
  fst (shared_take c s p t n) = fst (step c s (OTake p t)).
Proof. exact load_suppression_lemma. Qed.
Print Assumptions load_suppression.

(* Several instances.  A history in which ANY number of CachedConn / cache.Cache instances - each
   with its own options, all over the same nodes - issue the operations ([finalm]: a list of
   (options of the issuing instance, operation)) leaves the same guarantee for a read through any
   instance [c]: entries written with one instance's expiry are served coherently by the others.
   With one instance this is [coherent_reads] ([finalm_single]). *)
Theorem coherent_reads_any_instances : forall rows cops c,
  NoDup (map fst rows) -> all_disciplinedm (init rows) cops = true ->
  Forall (fun co => same_nodes c (fst co)) cops ->
  let s := finalm (init rows) cops in
  (forall p o, take_like o p -> dirty s (KP p) = false ->
     db (fst (step c s o)) = db s /\
     (forall p' u v, oret (snd (step c s o)) = RRow p' u v -> p' = p /\ db_get p (db s) = Some (u, v)) /\
     (oret (snd (step c s o)) = RNf -> db_get p (db s) = None)) /\
  (forall p, dirty s (KP p) = false ->
     forall p' u v, oret (snd (step c s (OGet p))) = RRow p' u v -> p' = p /\ db_get p (db s) = Some (u, v)) /\
  (forall u o, qri_like o u -> dirty s (KU u) = false ->
     (forall e p, lookup (clock s) (cache s) (KU u) = Some e -> eval e = CPk p -> dirty s (KP p) = false) ->
     db (fst (step c s o)) = db s /\
     (forall p u' v, oret (snd (step c s o)) = RRow p u' v -> u' = u /\ db_get p (db s) = Some (u, v)) /\
     (oret (snd (step c s o)) = RNf -> forall p v, db_get p (db s) <> Some (u, v))).
Proof. exact coherent_reads_instances_lemma. Qed.
Print Assumptions coherent_reads_any_instances.

(* Independent worlds.  Several worlds - each its own database and its own Redis servers - live in
   one process and share go-zero's process-wide machinery (ONE cleaner: a tick is a tick for every
   world's pending retries; one clock), and may use the very same key strings.  A retry is bound
   to the store its DEL failed on, so the composite system is the product of the worlds' models:
   world j of the state after ANY composite history [h] is what j's own model reaches on j's own
   history ([wproj j h]: its operations and the process-wide events, in order) - nothing another
   world does (same keys, overlapping outages, its own failed invalidations) shows. *)
Theorem worlds_are_independent : forall h ws j d, (j < length ws)%nat ->
  nth j (wfinal ws h) d = finalm (nth j ws d) (wproj j h).
Proof. exact worlds_independent_lemma. Qed.
Print Assumptions worlds_are_independent.

(* ... hence every world keeps the guarantee of [coherent_reads] on its own *)
Theorem coherent_reads_in_every_world : forall rowss h j rows c d,
  nth_error rowss j = Some rows -> NoDup (map fst rows) ->
  all_disciplinedm (init rows) (wproj j h) = true ->
  reads_claim c (nth j (wfinal (map init rowss) h) d).
Proof. exact coherent_reads_worlds_lemma. Qed.
Print Assumptions coherent_reads_in_every_world.

(* Load suppression against the interleaving model of SingleFlight (C07.Model: threads are scripts
   of calls [mkOp GSF key val err] = barrier.DoEx(key, fn) whose fn - for C06: doTake's closure
   GET / database query / SETEX, at most ONE query by [one_query_per_operation] - returns
   (val, err) if it runs; a schedule is any list of thread ids).  For every set of readers, every
   key and every schedule: (1) at most one closure, hence at most one database query, is in
   progress per key; (2) every read that returned got the (val, err) of one run of the closure,
   led by a reader of the same key; it ran its own closure iff it is that leader, and then once;
   a reader that shared the run made no query and joined while the leader's call was still in
   progress; (3) readers that shared a run got identical results and only one of them ran it.
   (C07's scripts also contain user functions that PANIC - [panics oL], result [shared]: the
   waiters then see (nil, nil); doTake's closure does not panic in the model of C06, so
   [panics oL = false] is the case that matters here and [shared] is the identity.) *)
Theorem load_suppression_singleflight : forall scripts sched k,
  let s := C07.Model.exec scripts sched in
  (C07.Model.running C07.Model.GSF k s <= 1)%nat /\
  (forall t th r o,
     nth_error (C07.Model.threads s) t = Some th -> In r (C07.Model.tres th) ->
     nth_error (C07.Model.tscript th) (C07.Model.rop r) = Some o ->
     C07.Model.ogrp o = C07.Model.GSF -> C07.Model.okey o = k ->
     let c := C07.Model.heap s (C07.Model.rcid r) in
     exists thL oL,
       nth_error (C07.Model.threads s) (fst (C07.Model.clead c)) = Some thL /\
       nth_error (C07.Model.tscript thL) (snd (C07.Model.clead c)) = Some oL /\
       C07.Model.ogrp oL = C07.Model.GSF /\ C07.Model.okey oL = k /\
       (C07.Model.panics oL = false ->
          (C07.Model.rval r, C07.Model.rerr r) = (C07.Model.oval oL, C07.Model.oerr oL)) /\
       (C07.Model.rfresh r = true -> C07.Model.clead c = (t, C07.Model.rop r) /\ C07.Model.rruns r = 1%nat) /\
       (C07.Model.rfresh r = false ->
          fst (C07.Model.clead c) <> t /\ C07.Model.rruns r = 0%nat /\
          (C07.Model.cinvt c <= C07.Model.rjoin r)%nat /\
          exists rt, C07.Model.cret c = Some rt /\ (C07.Model.rjoin r < rt)%nat)) /\
  (forall t1 t2 th1 th2 r1 r2 o1 o2,
     nth_error (C07.Model.threads s) t1 = Some th1 -> nth_error (C07.Model.threads s) t2 = Some th2 ->
     In r1 (C07.Model.tres th1) -> In r2 (C07.Model.tres th2) ->
     nth_error (C07.Model.tscript th1) (C07.Model.rop r1) = Some o1 ->
     nth_error (C07.Model.tscript th2) (C07.Model.rop r2) = Some o2 ->
     C07.Model.ogrp o1 = C07.Model.GSF -> C07.Model.ogrp o2 = C07.Model.GSF ->
     C07.Model.rcid r1 = C07.Model.rcid r2 ->
     C07.Model.shared (C07.Model.rval r1, C07.Model.rerr r1) = C07.Model.shared (C07.Model.rval r2, C07.Model.rerr r2) /\
     (C07.Model.rfresh r1 = true -> C07.Model.rfresh r2 = true -> t1 = t2 /\ C07.Model.rop r1 = C07.Model.rop r2)).
Proof. exact C06.ProofsD.load_suppression_sf_lemma. Qed.
Print Assumptions load_suppression_singleflight.

(* History level: after any TIDY history (disciplined; every Exec finds the nodes of its keys up
   and names, with a primary key, that row's index key; no explicit Set / SetWithExpire / Del)
   every live index entry u -> p has its primary entry in the store, expiring at least the safe
   gap later (or never), that entry is live, and the database row of p has index value u.
   (Without "tidy" a late retry of the cleaner or an explicit Del may delete a reloaded primary
   entry and leave the index entry: harmless for coherence, see ProofsC.v.) *)
Theorem index_outlived_history : forall c rows ops,
  NoDup (map fst rows) -> tidy c (init rows) ops = true ->
  let s := final c (init rows) ops in
  forall u p xi, find (KU u) (cache s) = Some (mkEntry (CPk p) (Some xi)) -> clock s < xi ->
    (exists e', find (KP p) (cache s) = Some e' /\
                (eexp e' = None \/ exists xp, eexp e' = Some xp /\ xi + 1000 * safe_gap <= xp)) /\
    lookup (clock s) (cache s) (KP p) <> None /\
    exists w, db_get p (db s) = Some (u, w).
Proof. exact index_outlived_history_lemma. Qed.
Print Assumptions index_outlived_history.

(* The primary key on its way through the index cache (Codec.v): what keyer / primaryQuery are
   handed on the index-HIT path (jsonx.Unmarshal with UseNumber into *any of the marshalled
   native key) prints, with %v, exactly like the native key they were handed on the index-MISS
   path - so both paths compute the same primary cache key and look up the same row - for EVERY
   int64 and every string (no 2^53 limit, "007" stays "007"); its dynamic type is json.Number
   resp. string, never float64. *)
Theorem primary_key_roundtrip : forall g, native g ->
  fmt_v (through_cache g) = fmt_v g /\
  match g with
  | VInt64 z => through_cache g = VNumber z
  | VString bs => through_cache g = VString bs
  | _ => False
  end.
Proof. exact (fun g H => conj (roundtrip_lemma g H) (roundtrip_type_lemma g H)). Qed.
Print Assumptions primary_key_roundtrip.

(* Model.v identifies a primary key with an integer (an int64 with itself, a string with [scode]
   of its bytes): distinct keys of a table are distinct integers, so every theorem above holds
   for string-keyed tables and for the whole int64 range alike. *)
Theorem pk_identification_injective : forall str t1 t2 p,
  tcode str t1 = Some p -> tcode str t2 = Some p -> t1 = t2.
Proof. exact tcode_inj. Qed.
Print Assumptions pk_identification_injective.

(* float64 is exact on integers up to 2^53 and a "normalisation" of the decoded key through
   float64 is invisible there - and only there (Pinned.index_hit_float_normalised_refuted) *)
Theorem float64_detour_invisible_up_to_2_53 : forall z, Z.abs z <= 2 ^ 53 ->
  round53 z = z /\ fmt_v (normalize_float (through_cache (VInt64 z))) = fmt_v (VInt64 z).
Proof. exact (fun z H => conj (round53_small z H) (normalize_float_small z H)). Qed.
Print Assumptions float64_detour_invisible_up_to_2_53.

(* The judgement of the check and the model.  [Check.prop_ok] judges histories observed on the
   implementation against a reference database of its own.  On EVERY observed history [w] (any mix
   of the two instances) on which the implementation agrees with the model ([agrees1]: results,
   query counts, keys seen by the callbacks, store contents after every operation) and whose
   observed dumps list every key once (a Redis keyspace does), clause (A) of the judgement -
   coherence, with the exemption of the known finding F7: a read of a key whose failed
   invalidation is outstanding in the model (for QueryRowIndex also the primary key named by the
   index entry OBSERVED before the read) - holds at every operation: it is a consequence of the
   coherence invariant, not an oracle of its own, and can only fail where the implementation
   leaves the model or F7 shows.  (Clauses (B)-(H) are not tied to the model by a theorem.) *)
Theorem agreed_reads_are_coherent : forall w : wcase,
  NoDup (map fst (c_rows w)) -> dumps_unique (c_obs w) -> agrees1 w = true ->
  coherent_from (c_cfg w) (c_cfg2 w) (c_inst w)
                (mkR (c_rows w) false [] [] true [] (init (c_rows w))) (c_ops w) (c_obs w) = true.
Proof. exact agreed_coherent_lemma. Qed.
Print Assumptions agreed_reads_are_coherent.

(* ... and the other clauses.  [holds_from Q c1 c2 insts r0 ops obs]: the judgement Q of one
   operation holds at every operation of the observed history, the judgement's own state (reference
   database, view of the outages, previous store contents, owed keys) being threaded by [Check.next]
   exactly as [prop_ok] threads it.  On every observed history on which the implementation agrees
   with the model (and whose dumps list a key once):
     (A) coherence (with F7's exemption)        from the coherence invariant (step_coh)
     (B) served from the cache                  from served_from_cache
     (C) database errors, at most one query     from db_error_not_cached, one_query_per_operation
     (D) fail fast on a store error             from cache_error_fails_fast
     (F) invalidation                           from invalidation_never_skipped (keys on a reachable node are gone;
                                                for an Exec whose context died: the keys of the first DEL)
   PARTIAL: clauses (E) TTL band, (G) containment of deletions and (H) the cleaner's first retry are
   not tied to the model by a theorem ([check_op_decomposes]: the judgement of one operation is the
   conjunction of the covered clauses and these three). *)
Theorem agreed_history_satisfies_clause_A : forall w : wcase,
  NoDup (map fst (c_rows w)) -> dumps_unique (c_obs w) -> agrees1 w = true ->
  judged_from (fun c r o ob => coherent true r (norm o) ob) w = true.
Proof. exact C06.ProofsCheck.agreed_history_satisfies_clause_A. Qed.
Print Assumptions agreed_history_satisfies_clause_A.

Theorem agreed_history_satisfies_clause_B : forall w : wcase,
  NoDup (map fst (c_rows w)) -> dumps_unique (c_obs w) -> agrees1 w = true ->
  judged_from (fun c r o ob => served c r (norm o) ob) w = true.
Proof. exact C06.ProofsCheck.agreed_history_satisfies_clause_B. Qed.
Print Assumptions agreed_history_satisfies_clause_B.

Theorem agreed_history_satisfies_clause_C : forall w : wcase,
  NoDup (map fst (c_rows w)) -> dumps_unique (c_obs w) -> agrees1 w = true ->
  judged_from (fun c r o ob => db_errors r (norm o) ob) w = true.
Proof. exact C06.ProofsCheck.agreed_history_satisfies_clause_C. Qed.
Print Assumptions agreed_history_satisfies_clause_C.

Theorem agreed_history_satisfies_clause_D : forall w : wcase,
  NoDup (map fst (c_rows w)) -> dumps_unique (c_obs w) -> agrees1 w = true ->
  judged_from (fun c r o ob => fail_fast_mid c r o ob) w = true.
Proof. exact C06.ProofsCheck.agreed_history_satisfies_clause_D. Qed.
Print Assumptions agreed_history_satisfies_clause_D.

Theorem agreed_history_satisfies_clause_F : forall w : wcase,
  NoDup (map fst (c_rows w)) -> dumps_unique (c_obs w) -> agrees1 w = true ->
  judged_from (fun c r o ob => invalidated c r o ob) w = true.
Proof. exact C06.ProofsCheck.agreed_history_satisfies_clause_F. Qed.
Print Assumptions agreed_history_satisfies_clause_F.

(* all five at once, and what is left of the judgement of one operation *)
Theorem agrees_implies_prop_ok_up_to_known_partial : forall w : wcase,
  NoDup (map fst (c_rows w)) -> dumps_unique (c_obs w) -> agrees1 w = true ->
  judged_from covered_op w = true /\
  (forall c f11 r o ob,
     check_op c true f11 r o ob
     = covered_op c r o ob && (ttls c f11 r o ob && kept r o ob && retried c r o ob)).
Proof. exact (fun w ND DU AG => conj (agrees_implies_covered w ND DU AG) check_op_decomposes). Qed.
Print Assumptions agrees_implies_prop_ok_up_to_known_partial.

(* ------------------------------------------------------------------ non-vacuity *)
Definition ex_cfg : config := mkCfg (100 * sec) (10 * sec) [(KP 1, 1)] false.
Definition ex_rows : table := [(1, (7, 41)); (2, (8, 5))].
(* load, index load, write with invalidation on two nodes, an outage that comes and goes,
   time passing, a failed invalidation of ANOTHER key repaired by the cleaner *)
Definition ex_ops : list op :=
  [OTake 1 100; OQri 8 97; OTake 3 10; OExec 1 (Some (7, 42)) [KP 1; KU 7]; OTake 1 103;
   OCFault 0 true; OExec 2 None [KP 2; KU 8]; OCFault 0 false; OClean 1; OAdv 3000; OQri 7 95].

Example ex_hypotheses :
  NoDup (map fst ex_rows) /\ all_disciplined ex_cfg (init ex_rows) ex_ops = true /\
  2 <= expiry_of ex_cfg /\ 2 <= nf_of ex_cfg /\
  let s := final ex_cfg (init ex_rows) ex_ops in
  dirty s (KP 1) = false /\ dirty s (KU 7) = false /\ dirty s (KP 3) = false /\
  (exists e, lookup (clock s) (cache s) (KP 1) = Some e /\ eval e = CRow 7 42) /\
  (exists e, lookup (clock s) (cache s) (KU 7) = Some e /\ eval e = CPk 1) /\
  (exists e, lookup (clock s) (cache s) (KP 3) = Some e /\ eval e = CHole) /\
  lookup (clock s) (cache s) (KP 2) = None.
Proof.
  split; [repeat constructor; cbn; intuition discriminate|].
  vm_compute. repeat split; try discriminate; eexists; split; reflexivity.
Qed.

Example ex_reads :
  let s := final ex_cfg (init ex_rows) ex_ops in
  step ex_cfg s (OTake 1 0) = (s, mkObs (RRow 1 7 42) 0 0) /\
  step ex_cfg s (OQri 7 0) = (s, mkObs (RRow 1 7 42) 0 0) /\
  step ex_cfg s (OTake 3 0) = (s, mkObs RNf 0 0) /\
  snd (step ex_cfg s (OTake 2 10)) = mkObs RNf 0 1 /\
  snd (step ex_cfg s (OQri 8 10)) = mkObs RNf 1 0.
Proof. vm_compute. repeat split. Qed.

Example ex_index_load :
  step ex_cfg (init ex_rows) (OQri 8 97)
  = (fst (step ex_cfg (init ex_rows) (OQri 8 97)), mkObs (RRow 2 8 5) 1 0).
Proof. vm_compute. reflexivity. Qed.

(* a tidy history with an index load: the hypothesis of [index_outlived_history] is satisfiable
   and its conclusion talks about a live pair *)
Example ex_tidy :
  tidy ex_cfg (init ex_rows) [OTake 1 100; OQri 8 97; OExec 1 (Some (7, 42)) [KP 1; KU 7]; OAdv 3000; OQri 7 95] = true /\
  let s := final ex_cfg (init ex_rows) [OTake 1 100; OQri 8 97; OExec 1 (Some (7, 42)) [KP 1; KU 7]; OAdv 3000; OQri 7 95] in
  find (KU 7) (cache s) = Some (mkEntry (CPk 1) (Some 98000)) /\ clock s < 98000.
Proof. vm_compute. repeat split. Qed.

(* keys beyond 2^53 and string keys that look like numbers are native keys with distinct codes *)
Example ex_codec :
  native (VInt64 (2 ^ 53 + 1)) /\ native (VString [48; 48; 55]) /\
  gcode false (through_cache (VInt64 (2 ^ 53 + 1))) = Some (2 ^ 53 + 1) /\
  gcode true (through_cache (VString [48; 48; 55])) = Some (scode [48; 48; 55]) /\
  scode [48; 48; 55] <> scode [55] /\ gcode false (VString [55]) = None.
Proof. vm_compute. repeat split; discriminate. Qed.

(* two instances (100 s / 10 s and the defaults) interleaved: the second serves what the first
   cached and invalidates it; hypotheses of [coherent_reads_any_instances] hold *)
Definition ex_cfg2 : config := mkCfg 0 0 [(KP 1, 1)] false.
Definition ex_cops : list (config * op) :=
  [(ex_cfg, OTake 1 100); (ex_cfg2, OTake 1 0); (ex_cfg2, OQri 8 604800);
   (ex_cfg2, OExec 1 (Some (7, 42)) [KP 1; KU 7]); (ex_cfg, OTake 1 100); (ex_cfg, OQri 8 0)].
Example ex_instances :
  all_disciplinedm (init ex_rows) ex_cops = true /\
  Forall (fun co => same_nodes ex_cfg (fst co)) ex_cops /\
  let s := finalm (init ex_rows) ex_cops in
  step ex_cfg2 s (OTake 1 0) = (s, mkObs (RRow 1 7 42) 0 0) /\ dirty s (KP 1) = false.
Proof. split; [vm_compute; reflexivity|]. split; [repeat constructor|]. vm_compute. split; reflexivity. Qed.

(* two worlds with the same key strings: both caches warm, both down while the row is rewritten in
   each, recovery, one tick of the one cleaner: BOTH keys are invalidated (each world's retry is
   its own) *)
Definition ex_worlds : list wop :=
  [WOp 0 ex_cfg (OTake 1 100); WOp 1 ex_cfg2 (OTake 1 604800);
   WOp 0 ex_cfg (OCFault 1 true); WOp 1 ex_cfg2 (OCFault 1 true);
   WOp 0 ex_cfg (OExec 1 (Some (7, 42)) [KP 1; KU 7]); WOp 1 ex_cfg2 (OExec 1 (Some (7, 43)) [KP 1; KU 7]);
   WOp 0 ex_cfg (OCFault 1 false); WOp 1 ex_cfg2 (OCFault 1 false); WClean 1].
Example ex_worlds_fresh :
  let ws := wfinal [init ex_rows; init ex_rows] ex_worlds in
  map (fun s => (lookup (clock s) (cache s) (KP 1), dirty s (KP 1), db_get 1 (db s))) ws
  = [(None, false, Some (7, 42)); (None, false, Some (7, 43))]
  /\ all_disciplinedm (init ex_rows) (wproj 0 ex_worlds) = true
  /\ all_disciplinedm (init ex_rows) (wproj 1 ex_worlds) = true.
Proof. vm_compute. repeat split. Qed.

(* a node of cluster type, three entries cached, an Exec naming three keys whose context ends while
   the first DEL is on the wire: disciplined; the first key is gone, the two others are owed to the
   cleaner (dirty: a read may still see them, F7's shape); after one tick everything is fresh *)
Definition ex_cfg_cl : config := mkCfg (100 * sec) (10 * sec) [] true.
Definition ex_die : list op :=
  [OTake 1 100; OQri 7 100; OTake 2 100; OExecDie 1 (Some (7, 42)) [KP 1; KU 7; KP 2] 0].
Example ex_dying_context :
  all_disciplined ex_cfg_cl (init ex_rows) (ex_die ++ [OClean 1]) = true /\
  let s := final ex_cfg_cl (init ex_rows) ex_die in
  find (KP 1) (cache s) = None /\ dirty s (KP 1) = false /\
  pending_keys s = [KU 7; KP 2] /\ length (pending s) = 2%nat /\
  (exists e, find (KU 7) (cache s) = Some e) /\
  let s' := final ex_cfg_cl (init ex_rows) (ex_die ++ [OClean 1]) in
  cache s' = [] /\ pending s' = [] /\ db_get 1 (db s') = Some (7, 42) /\
  snd (step ex_cfg_cl s' (OQri 7 100)) = mkObs (RRow 1 7 42) 1 0.
Proof. vm_compute. repeat split; eexists; reflexivity. Qed.

(* an observed history (what the executor reports for [take 1; qri 7; exec; take 1] on one node)
   that meets the hypotheses of [agreed_reads_are_coherent] *)
Definition ex_observed : wcase :=
  mkCaseW ex_cfg ex_cfg [] false ex_rows
    [OTake 1 100; OQri 7 100; OExec 1 (Some (7, 42)) [KP 1; KU 7]; OTake 1 100]
    [mkWO (RRow 1 7 41) 0 1 [] (DFull [(KP 1, CRow 7 41, 100000)]);
     mkWO (RRow 1 7 41) 1 0 [VInt64 1] (DDelta 0 [] [(KU 7, CPk 1, 100000); (KP 1, CRow 7 41, 105000)]);
     mkWO ROk 0 0 [] (DDelta 0 [KP 1; KU 7] []);
     mkWO (RRow 1 7 42) 0 1 [] (DFull [(KP 1, CRow 7 42, 100000)])].
Example ex_observed_ok :
  agrees1 ex_observed = true /\ prop_ok [ex_observed] = true /\
  NoDup (map fst (c_rows ex_observed)) /\ dumps_unique (c_obs ex_observed).
Proof.
  split; [vm_compute; reflexivity|]. split; [vm_compute; reflexivity|].
  split; [repeat constructor; cbn; intuition discriminate|].
  repeat constructor; cbn; intuition discriminate.
Qed.
Example ex_observed_judged : judged_from covered_op ex_observed = true.
Proof. vm_compute. reflexivity. Qed.
