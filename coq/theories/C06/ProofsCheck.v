(* C06 - the judgement and the model.  [Check.prop_ok] judges histories observed on the
   implementation against a reference database of its own; this file ties its coherence clause
   (A) to the model-level theorem: on EVERY history on which the implementation agrees with
   the model ([agrees_from]: same results, query counts, store contents), whatever the mix of
   instances / options, clause (A) - with the exemption of the known finding F7, a read of a key
   whose failed invalidation is still outstanding - holds at every Take / QueryRow / Get, as a
   consequence of the coherence invariant (Proofs.step_coh).  So a history that fails (A) at
   such a read either disagrees with the model or is an instance of F7: the clause cannot
   alarm for another reason, and it is not an oracle of its own.
   QueryRowIndex reads are judged by the same clause through the OBSERVED store contents (the
   index entry found before the read names the primary key whose invalidation may be
   outstanding): second half of this file, under the explicit assumption that an observed
   dump lists every key once (a Redis keyspace). *)
From Coq Require Import List ZArith Bool NArith Lia.
From GZ Require Import Lib.CheckLib C06.Model C06.Proofs C06.ProofsB C06.Check.
Import ListNotations.
Open Scope Z_scope.

Lemma ret_eqb_eq a b : ret_eqb a b = true -> a = b.
Proof.
  destruct a, b; cbn; try discriminate; auto.
  intro H. apply andb_true_iff in H. destruct H as [H H3]. apply andb_true_iff in H. destruct H as [H1 H2].
  apply Z.eqb_eq in H1. apply Z.eqb_eq in H2. apply Z.eqb_eq in H3. subst. reflexivity.
Qed.

(* the database after one operation of the model *)
Definition db_after (t : table) (o : op) (x : ret) : table :=
  match o, x with
  | OExec p (Some w) _, ROk | OExecDie p (Some w) _ _, ROk => db_put p w t
  | OExec p None _, ROk | OExecDie p None _ _, ROk => db_del p t
  | _, _ => t
  end.

Lemma iter_tick_db n s : db (N.iter n tick s) = db s.
Proof.
  apply (N.iter_invariant n state tick (fun s' => db s' = db s)); auto.
  intros s' H. destruct (tick_frame s') as (E & _). congruence.
Qed.

Lemma step_db_after c s o : db (fst (step c s o)) = db_after (db s) o (oret (snd (step c s o))).
Proof.
  destruct o; cbn [step].
  - rewrite take_primary_db. unfold db_after. destruct (oret (snd (take_primary c s p t))); reflexivity.
  - rewrite query_index_db. unfold db_after. destruct (oret (snd (query_index c s u t))); reflexivity.
  - unfold get_primary. destruct (key_down c s (KP p)); [reflexivity|].
    destruct (lookup (clock s) (cache s) (KP p)) as [[[a b|q|] x]|]; reflexivity.
  - unfold exec. destruct (dbFault s); [destruct w as [[u v]|]; reflexivity|].
    destruct w as [[u v]|].
    + destruct (u_taken p u (db s)); [reflexivity|]. cbn [fst snd oret db_after].
      match goal with |- db (del_keys ?a ?b ?x) = _ => destruct (del_keys_frame a b x) as (E & _) end.
      rewrite E. reflexivity.
    + cbn [fst snd oret db_after].
      match goal with |- db (del_keys ?a ?b ?x) = _ => destruct (del_keys_frame a b x) as (E & _) end.
      rewrite E. reflexivity.
  - destruct (key_down c s (KP p)) eqn:K; [reflexivity|]. destruct (ttl_ok (expiry_of c) t); [|reflexivity].
    unfold set_primary. rewrite K. reflexivity.
  - unfold set_primary. destruct (key_down c s (KP p)); reflexivity.
  - cbn [fst snd oret db_after]. destruct (del_keys_frame c keys s) as (E & _). exact E.
  - reflexivity.
  - reflexivity.
  - reflexivity.
  - cbn [fst snd oret db_after]. apply iter_tick_db.
  - rewrite take_mid_db. unfold db_after. destruct (oret (snd (take_mid c s p t n))); reflexivity.
  - rewrite query_index_mid_db. unfold db_after. destruct (oret (snd (query_index_mid c s u t n))); reflexivity.
  - unfold exec_die. destruct (dbFault s); [destruct w as [[u v]|]; reflexivity|].
    destruct (negb (existsb (Z.eqb n0) (nodes_of c keys))); [destruct w as [[u v]|]; reflexivity|].
    destruct w as [[u v]|].
    + destruct (u_taken p u (db s)); [reflexivity|]. cbn [fst snd oret db_after].
      match goal with |- db (die_keys ?a ?b ?n ?x) = _ => destruct (die_keys_frame a b n x) as (E & _) end.
      rewrite E. reflexivity.
    + cbn [fst snd oret db_after].
      match goal with |- db (die_keys ?a ?b ?n ?x) = _ => destruct (die_keys_frame a b n x) as (E & _) end.
      rewrite E. reflexivity.
Qed.

(* what [Check.next] does to the components that matter here *)
Lemma next_ms c r o ob : r_ms (next c r o ob) = fst (step c (r_ms r) o).
Proof. unfold next. destruct o; try destruct w; destruct (o_ret ob); reflexivity. Qed.

Lemma next_disc c r o ob : r_disc (next c r o ob) = r_disc r && disciplined (r_db r) o.
Proof. unfold next. destruct o; try destruct w; destruct (o_ret ob); reflexivity. Qed.

Lemma next_db c r o ob : r_db (next c r o ob) = db_after (r_db r) o (o_ret ob).
Proof. unfold next. destruct o; try destruct w; destruct (o_ret ob); reflexivity. Qed.

(* the judgement's state follows the model's *)
Definition linked (r : rstate) (s : state) : Prop :=
  r_ms r = s /\ r_db r = db s /\ (r_disc r = true -> wf_db (db s) /\ coh s).

Lemma next_linked c r s o ob :
  linked r s -> ret_eqb (oret (snd (step c s o))) (o_ret ob) = true ->
  linked (next c r o ob) (fst (step c s o)).
Proof.
  intros (Hm & Hd & Hc) Hr. apply ret_eqb_eq in Hr. split; [|split].
  - rewrite next_ms, Hm. reflexivity.
  - rewrite next_db, Hd, <- Hr. symmetry. apply step_db_after.
  - rewrite next_disc. intro H. apply andb_true_iff in H. destruct H as [H1 H2].
    destruct (Hc H1) as [W C]. rewrite Hd in H2. split.
    + apply step_db_wf. exact W.
    + apply step_coh; auto.
Qed.

(* clause (A) at Take / QueryRow (also with an outage injected inside the query) and Get *)
Definition primary_read (o : op) : bool :=
  match o with OTake _ _ | OTakeMid _ _ _ | OGet _ => true | _ => false end.

Lemma row_is_intro t p u v : db_get p t = Some (u, v) -> row_is t p u v = true.
Proof. intro H. unfold row_is, row_eqb. rewrite H, !Z.eqb_refl. reflexivity. Qed.

Lemma coherent_primary_sound c r s o ob :
  linked r s -> primary_read o = true ->
  ret_eqb (oret (snd (step c s o))) (o_ret ob) = true ->
  coherent true r (norm o) ob = true.
Proof.
  intros (Hm & Hd & Hc) Hp Hr. apply ret_eqb_eq in Hr. unfold coherent.
  destruct (r_disc r) eqn:D; [|reflexivity]. cbn [negb]. destruct (Hc eq_refl) as [W C]. rewrite Hm, Hd.
  destruct o; try discriminate; cbn [norm step] in *.
  - destruct (dirty s (KP p)) eqn:Dy; [reflexivity|]. cbn [andb].
    destruct (take_primary_sound c s p t C Dy) as [S1 S2]. cbn zeta in S1, S2. rewrite <- Hr.
    destruct (oret (snd (take_primary c s p t))) eqn:E; auto.
    + destruct (S1 _ _ _ eq_refl) as [-> G]. rewrite Z.eqb_refl. apply row_is_intro. exact G.
    + rewrite (S2 eq_refl). reflexivity.
  - destruct (dirty s (KP p)) eqn:Dy; [reflexivity|]. cbn [andb].
    pose proof (get_primary_sound c s p C Dy) as S1. rewrite <- Hr.
    destruct (oret (snd (get_primary c s p))) eqn:E; auto.
    destruct (S1 _ _ _ eq_refl) as [-> G]. rewrite Z.eqb_refl. apply row_is_intro. exact G.
  - destruct (dirty s (KP p)) eqn:Dy; [reflexivity|]. cbn [andb].
    destruct (take_mid_sound c s p t n C Dy) as [S1 S2]. cbn zeta in S1, S2. rewrite <- Hr.
    destruct (oret (snd (take_mid c s p t n))) eqn:E; auto.
    + destruct (S1 _ _ _ eq_refl) as [-> G]. rewrite Z.eqb_refl. apply row_is_intro. exact G.
    + rewrite (S2 eq_refl). reflexivity.
Qed.

(* clause (A) at the primary reads of a whole observed history *)
Fixpoint coherent_primary_from (c1 c2 : config) (insts : list bool) (r : rstate) (ops : list op)
         (obs : list opobs) : bool :=
  match ops, obs with
  | o :: ops', ob :: obs' =>
    let c := pick c1 c2 insts in
    (if primary_read o then coherent true r (norm o) ob else true)
    && coherent_primary_from c1 c2 (tl insts) (next c r o ob) ops' obs'
  | _, _ => true
  end.

Lemma agreed_reads_coherent_from str c1 c2 : forall ops obs insts r s,
  linked r s -> agrees_from str c1 c2 insts s ops obs = true ->
  coherent_primary_from c1 c2 insts r ops obs = true.
Proof.
  induction ops as [|o ops IH]; intros [|ob obs] insts r s L A; try reflexivity.
  cbn [agrees_from] in A. cbn [coherent_primary_from].
  destruct (step (pick c1 c2 insts) s o) as [s' m] eqn:E.
  repeat (apply andb_true_iff in A; destruct A as [A ?]).
  assert (Hr : ret_eqb (oret (snd (step (pick c1 c2 insts) s o))) (o_ret ob) = true) by (rewrite E; exact A).
  apply andb_true_iff. split.
  - destruct (primary_read o) eqn:P; [|reflexivity]. eapply coherent_primary_sound; eauto.
  - apply (IH obs (tl insts) _ s'); auto.
    replace s' with (fst (step (pick c1 c2 insts) s o)) by (rewrite E; reflexivity).
    apply next_linked; auto.
Qed.

Lemma agreed_reads_coherent_lemma (w : wcase) :
  NoDup (map fst (c_rows w)) -> agrees1 w = true ->
  coherent_primary_from (c_cfg w) (c_cfg2 w) (c_inst w)
                        (mkR (c_rows w) false [] [] true [] (init (c_rows w))) (c_ops w) (c_obs w) = true.
Proof.
  intros ND A. eapply agreed_reads_coherent_from; [|exact A].
  split; [reflexivity|]. split; [reflexivity|]. intros _. split; [exact ND | apply init_coh].
Qed.

(* ------------------------------------------------------------------ QueryRowIndex reads *)
Definition dkey (e : dump_entry) : key := fst (fst e).

(* every observed dump lists a key once (a keyspace) *)
Definition dumps_unique (obs : list opobs) : Prop := Forall (fun ob => NoDup (map dkey (o_dump ob))) obs.

Lemma cval_eqb_eq a b : cval_eqb a b = true -> a = b.
Proof.
  destruct a, b; cbn; try discriminate; auto.
  - intro H. apply andb_true_iff in H. destruct H as [H1 H2]. apply Z.eqb_eq in H1. apply Z.eqb_eq in H2. subst. reflexivity.
  - intro H. apply Z.eqb_eq in H. subst. reflexivity.
Qed.

Lemma de_eqb_eq a b : de_eqb a b = true -> a = b.
Proof.
  destruct a as [[k v] t], b as [[k' v'] t']. cbn. intro H.
  apply andb_true_iff in H. destruct H as [H H3]. apply andb_true_iff in H. destruct H as [H1 H2].
  apply key_eqb_eq in H1. apply cval_eqb_eq in H2. apply Z.eqb_eq in H3. subst. reflexivity.
Qed.

Lemma list_eqb_eq {A} (eqb : A -> A -> bool) (E : forall a b, eqb a b = true -> a = b) :
  forall l1 l2, list_eqb eqb l1 l2 = true -> l1 = l2.
Proof.
  induction l1 as [|x l1 IH]; intros [|y l2]; cbn; try discriminate; auto.
  intro H. apply andb_true_iff in H. destruct H as [H1 H2]. apply E in H1. apply IH in H2. subst. reflexivity.
Qed.

Lemma insert_de_In x y l : In x (insert_de y l) <-> x = y \/ In x l.
Proof.
  induction l as [|z l IH]; cbn.
  - intuition.
  - destruct (key_leb (fst (fst y)) (fst (fst z))); cbn; [intuition|]. rewrite IH. intuition.
Qed.

Lemma sort_dump_In x l : In x (sort_dump l) <-> In x l.
Proof.
  induction l as [|y l IH]; cbn; [tauto|]. unfold sort_dump in *. cbn. rewrite insert_de_In, IH. intuition.
Qed.

Lemma dump_eqb_In a b x : dump_eqb a b = true -> In x a -> In x b.
Proof.
  unfold dump_eqb. intros H Hi. apply (list_eqb_eq de_eqb de_eqb_eq) in H.
  apply sort_dump_In. rewrite <- H. apply sort_dump_In. exact Hi.
Qed.

Lemma dget_unique l k v t : NoDup (map dkey l) -> In (k, v, t) l -> dget l k = Some (v, t).
Proof.
  induction l as [|[[k' v'] t'] l IH]; cbn; [contradiction|].
  intros ND [H|H].
  - inversion H. subst. rewrite key_eqb_refl. reflexivity.
  - inversion ND as [|? ? Hn ND']. subst.
    destruct (key_eqb k k') eqn:E.
    + apply key_eqb_eq in E. subst. exfalso. apply Hn.
      change k' with (dkey (k', v, t)). apply in_map. exact H.
    + apply IH; auto.
Qed.

Lemma find_In k d e : find k d = Some e -> In (k, e) d.
Proof.
  induction d as [|[k' e'] d IH]; cbn; [discriminate|].
  destruct (key_eqb k k') eqn:E.
  - intro H. inversion H. subst. apply key_eqb_eq in E. subst. auto.
  - intro H. right. apply IH. exact H.
Qed.

(* a live entry of the model's store is listed by its dump *)
Lemma lookup_in_dump s k e :
  lookup (clock s) (cache s) k = Some e ->
  exists t, In (k, eval e, t) (dump s).
Proof.
  intro H. apply lookup_some in H. destruct H as [Hf Hl]. apply find_In in Hf.
  exists (match eexp e with Some x => x - clock s | None => 0 end).
  unfold dump. apply in_flat_map. exists (k, e). split; [exact Hf|]. rewrite Hl. left. reflexivity.
Qed.

Lemma next_prev c r o ob : r_prev (next c r o ob) = o_dump ob.
Proof. unfold next. destruct o; try destruct w; destruct (o_ret ob); reflexivity. Qed.

(* the judgement's state follows the model's, store contents included *)
Definition linked2 (r : rstate) (s : state) : Prop :=
  linked r s /\ NoDup (map dkey (r_prev r)) /\ (forall x, In x (dump s) -> In x (r_prev r)).

Lemma next_linked2 c r s o ob :
  linked2 r s -> ret_eqb (oret (snd (step c s o))) (o_ret ob) = true ->
  dump_eqb (dump (fst (step c s o))) (o_dump ob) = true -> NoDup (map dkey (o_dump ob)) ->
  linked2 (next c r o ob) (fst (step c s o)).
Proof.
  intros (L & _ & _) Hr Hd Hu. split; [apply next_linked; auto|]. rewrite next_prev. split; [exact Hu|].
  intros x Hx. eapply dump_eqb_In; eauto.
Qed.

Definition index_read (o : op) : bool :=
  match o with OQri _ _ | OQriMid _ _ _ => true | _ => false end.

Lemma db_by_u_none_intro u t : wf_db t -> (forall p v, db_get p t <> Some (u, v)) -> db_by_u u t = None.
Proof.
  intros W H. destruct (db_by_u u t) as [[p [u' v]]|] eqn:E; [|reflexivity].
  destruct (db_by_u_some u t p u' v W E) as [-> G]. exfalso. eapply H. exact G.
Qed.

Lemma coherent_index_sound c r s o ob :
  linked2 r s -> index_read o = true ->
  ret_eqb (oret (snd (step c s o))) (o_ret ob) = true ->
  coherent true r (norm o) ob = true.
Proof.
  intros ((Hm & Hd & Hc) & Hu & Hp) Hi Hr. apply ret_eqb_eq in Hr. unfold coherent.
  destruct (r_disc r) eqn:D; [|reflexivity]. cbn [negb]. destruct (Hc eq_refl) as [W C]. rewrite Hm, Hd.
  assert (A : forall u,
            (dirty s (KU u) || match dget (r_prev r) (KU u) with
                               | Some (CPk p, _) => dirty s (KP p) | _ => false end) = false ->
            dirty s (KU u) = false /\
            (forall e p, lookup (clock s) (cache s) (KU u) = Some e -> eval e = CPk p -> dirty s (KP p) = false)).
  { intros u H. apply orb_false_iff in H. destruct H as [H1 H2]. split; [exact H1|].
    intros e p L E. destruct (lookup_in_dump s (KU u) e L) as [t Ht]. rewrite E in Ht.
    apply Hp in Ht. rewrite (dget_unique _ _ _ _ Hu Ht) in H2. exact H2. }
  assert (B : forall u (m : obs), index_claim s u m -> oret m = o_ret ob ->
            match o_ret ob with
            | RRow p u' v => (u' =? u) && row_is (db s) p u v
            | RNf => match db_by_u u (db s) with None => true | Some _ => false end
            | _ => true
            end = true).
  { intros u m [S1 S2] E. rewrite <- E. destruct (oret m) eqn:R; auto.
    - destruct (S1 _ _ _ eq_refl) as [-> G]. rewrite Z.eqb_refl. apply row_is_intro. exact G.
    - rewrite (db_by_u_none_intro u (db s) W (S2 eq_refl)). reflexivity. }
  destruct o; try discriminate; cbn [norm step] in *.
  - destruct (dirty s (KU u) || _) eqn:Dy; [reflexivity|]. cbn [andb].
    destruct (A u Dy) as [A1 A2]. apply (B u (snd (query_index c s u t))); auto.
    apply query_index_sound; auto.
  - destruct (dirty s (KU u) || _) eqn:Dy; [reflexivity|]. cbn [andb].
    destruct (A u Dy) as [A1 A2]. apply (B u (snd (query_index_mid c s u t n))); auto.
    apply query_index_mid_sound; auto.
Qed.

(* clause (A) at EVERY read of a whole observed history *)
Fixpoint coherent_from (c1 c2 : config) (insts : list bool) (r : rstate) (ops : list op)
         (obs : list opobs) : bool :=
  match ops, obs with
  | o :: ops', ob :: obs' =>
    let c := pick c1 c2 insts in
    coherent true r (norm o) ob && coherent_from c1 c2 (tl insts) (next c r o ob) ops' obs'
  | _, _ => true
  end.

Lemma coherent_other r o ob : primary_read o = false -> index_read o = false -> coherent true r (norm o) ob = true.
Proof.
  intros P I. unfold coherent. destruct (negb (r_disc r)); [reflexivity|].
  destruct o; try discriminate; reflexivity.
Qed.

Lemma agreed_coherent_from str c1 c2 : forall ops obs insts r s,
  linked2 r s -> dumps_unique obs -> agrees_from str c1 c2 insts s ops obs = true ->
  coherent_from c1 c2 insts r ops obs = true.
Proof.
  induction ops as [|o ops IH]; intros [|ob obs] insts r s L U A; try reflexivity.
  cbn [agrees_from] in A. cbn [coherent_from].
  destruct (step (pick c1 c2 insts) s o) as [s' m] eqn:E.
  apply andb_true_iff in A. destruct A as [A A6]. apply andb_true_iff in A. destruct A as [A A5].
  apply andb_true_iff in A. destruct A as [A A4]. apply andb_true_iff in A. destruct A as [A A3].
  apply andb_true_iff in A. destruct A as [A1 A2].
  assert (Hr : ret_eqb (oret (snd (step (pick c1 c2 insts) s o))) (o_ret ob) = true) by (rewrite E; exact A1).
  inversion U as [|? ? U1 U2]. subst.
  apply andb_true_iff. split.
  - destruct (primary_read o) eqn:P; [eapply coherent_primary_sound; eauto; apply L|].
    destruct (index_read o) eqn:I; [eapply coherent_index_sound; eauto|].
    apply coherent_other; auto.
  - apply (IH obs (tl insts) _ s'); auto.
    replace s' with (fst (step (pick c1 c2 insts) s o)) by (rewrite E; reflexivity).
    apply next_linked2; auto. rewrite E. exact A5.
Qed.

Lemma agreed_coherent_lemma (w : wcase) :
  NoDup (map fst (c_rows w)) -> dumps_unique (c_obs w) -> agrees1 w = true ->
  coherent_from (c_cfg w) (c_cfg2 w) (c_inst w)
                (mkR (c_rows w) false [] [] true [] (init (c_rows w))) (c_ops w) (c_obs w) = true.
Proof.
  intros ND U A. eapply agreed_coherent_from; [|exact U|exact A].
  split; [|split].
  - split; [reflexivity|]. split; [reflexivity|]. intros _. split; [exact ND | apply init_coh].
  - constructor.
  - intros x H. exact H.
Qed.
