(* C06 - the judgement and the model.  [Check.prop_ok] judges histories observed on the
   implementation against a reference database of its own; this file ties its coherence clause
   (A) to the model-level theorem: on EVERY history on which the implementation agrees with
   the model ([agrees_from]: same results, query counts, store contents), whatever the mix of
   instances / options, clause (A) - with the exemption of the known finding F7, a read of a key
   whose failed invalidation is still outstanding - holds at every Take / QueryRow / Get, as a
   consequence of the coherence invariant (Proofs.step_coh).  So a history that fails (A) at
   such a read either disagrees with the model or is an instance of F7: the clause cannot
   alarm for another reason, and it is not an oracle of its own.
   QueryRowIndex reads are judged by the same clause through the OBSERVED store contents (the
   index entry found before the read names the primary key whose invalidation may be
   outstanding): second half of this file, under the explicit assumption that an observed
   dump lists every key once (a Redis keyspace). *)
From Coq Require Import List ZArith Bool NArith Lia.
From GZ Require Import Lib.CheckLib C06.Model C06.Proofs C06.ProofsB C06.Check.
Import ListNotations.
Open Scope Z_scope.

Lemma ret_eqb_eq a b : ret_eqb a b = true -> a = b.
Proof.
  destruct a, b; cbn; try discriminate; auto.
  intro H. apply andb_true_iff in H. destruct H as [H H3]. apply andb_true_iff in H. destruct H as [H1 H2].
  apply Z.eqb_eq in H1. apply Z.eqb_eq in H2. apply Z.eqb_eq in H3. subst. reflexivity.
Qed.

(* the database after one operation of the model *)
Definition db_after (t : table) (o : op) (x : ret) : table :=
  match o, x with
  | OExec p (Some w) _, ROk | OExecDie p (Some w) _ _, ROk => db_put p w t
  | OExec p None _, ROk | OExecDie p None _ _, ROk => db_del p t
  | _, _ => t
  end.

Lemma iter_tick_db n s : db (N.iter n tick s) = db s.
Proof.
  apply (N.iter_invariant n state tick (fun s' => db s' = db s)); auto.
  intros s' H. destruct (tick_frame s') as (E & _). congruence.
Qed.

Lemma step_db_after c s o : db (fst (step c s o)) = db_after (db s) o (oret (snd (step c s o))).
Proof.
  destruct o; cbn [step].
  - rewrite take_primary_db. unfold db_after. destruct (oret (snd (take_primary c s p t))); reflexivity.
  - rewrite query_index_db. unfold db_after. destruct (oret (snd (query_index c s u t))); reflexivity.
  - unfold get_primary. destruct (key_down c s (KP p)); [reflexivity|].
    destruct (lookup (clock s) (cache s) (KP p)) as [[[a b|q|] x]|]; reflexivity.
  - unfold exec. destruct (dbFault s); [destruct w as [[u v]|]; reflexivity|].
    destruct w as [[u v]|].
    + destruct (u_taken p u (db s)); [reflexivity|]. cbn [fst snd oret db_after].
      match goal with |- db (del_keys ?a ?b ?x) = _ => destruct (del_keys_frame a b x) as (E & _) end.
      rewrite E. reflexivity.
    + cbn [fst snd oret db_after].
      match goal with |- db (del_keys ?a ?b ?x) = _ => destruct (del_keys_frame a b x) as (E & _) end.
      rewrite E. reflexivity.
  - destruct (key_down c s (KP p)) eqn:K; [reflexivity|]. destruct (ttl_ok (expiry_of c) t); [|reflexivity].
    unfold set_primary. rewrite K. reflexivity.
  - unfold set_primary. destruct (key_down c s (KP p)); reflexivity.
  - cbn [fst snd oret db_after]. destruct (del_keys_frame c keys s) as (E & _). exact E.
  - reflexivity.
  - reflexivity.
  - reflexivity.
  - cbn [fst snd oret db_after]. apply iter_tick_db.
  - rewrite take_mid_db. unfold db_after. destruct (oret (snd (take_mid c s p t n))); reflexivity.
  - rewrite query_index_mid_db. unfold db_after. destruct (oret (snd (query_index_mid c s u t n))); reflexivity.
  - unfold exec_die. destruct (dbFault s); [destruct w as [[u v]|]; reflexivity|].
    destruct (negb (existsb (Z.eqb n0) (nodes_of c keys))); [destruct w as [[u v]|]; reflexivity|].
    destruct w as [[u v]|].
    + destruct (u_taken p u (db s)); [reflexivity|]. cbn [fst snd oret db_after].
      match goal with |- db (die_keys ?a ?b ?n ?x) = _ => destruct (die_keys_frame a b n x) as (E & _) end.
      rewrite E. reflexivity.
    + cbn [fst snd oret db_after].
      match goal with |- db (die_keys ?a ?b ?n ?x) = _ => destruct (die_keys_frame a b n x) as (E & _) end.
      rewrite E. reflexivity.
Qed.

(* what [Check.next] does to the components that matter here *)
Lemma next_ms c r o ob : r_ms (next c r o ob) = fst (step c (r_ms r) o).
Proof. unfold next. destruct o; try destruct w; destruct (o_ret ob); reflexivity. Qed.

Lemma next_disc c r o ob : r_disc (next c r o ob) = r_disc r && disciplined (r_db r) o.
Proof. unfold next. destruct o; try destruct w; destruct (o_ret ob); reflexivity. Qed.

Lemma next_db c r o ob : r_db (next c r o ob) = db_after (r_db r) o (o_ret ob).
Proof. unfold next. destruct o; try destruct w; destruct (o_ret ob); reflexivity. Qed.

(* the judgement's state follows the model's *)
Definition linked (r : rstate) (s : state) : Prop :=
  r_ms r = s /\ r_db r = db s /\ (r_disc r = true -> wf_db (db s) /\ coh s).

Lemma next_linked c r s o ob :
  linked r s -> ret_eqb (oret (snd (step c s o))) (o_ret ob) = true ->
  linked (next c r o ob) (fst (step c s o)).
Proof.
  intros (Hm & Hd & Hc) Hr. apply ret_eqb_eq in Hr. split; [|split].
  - rewrite next_ms, Hm. reflexivity.
  - rewrite next_db, Hd, <- Hr. symmetry. apply step_db_after.
  - rewrite next_disc. intro H. apply andb_true_iff in H. destruct H as [H1 H2].
    destruct (Hc H1) as [W C]. rewrite Hd in H2. split.
    + apply step_db_wf. exact W.
    + apply step_coh; auto.
Qed.

(* clause (A) at Take / QueryRow (also with an outage injected inside the query) and Get *)
Definition primary_read (o : op) : bool :=
  match o with OTake _ _ | OTakeMid _ _ _ | OGet _ => true | _ => false end.

Lemma row_is_intro t p u v : db_get p t = Some (u, v) -> row_is t p u v = true.
Proof. intro H. unfold row_is, row_eqb. rewrite H, !Z.eqb_refl. reflexivity. Qed.

Lemma coherent_primary_sound c r s o ob :
  linked r s -> primary_read o = true ->
  ret_eqb (oret (snd (step c s o))) (o_ret ob) = true ->
  coherent true r (norm o) ob = true.
Proof.
  intros (Hm & Hd & Hc) Hp Hr. apply ret_eqb_eq in Hr. unfold coherent.
  destruct (r_disc r) eqn:D; [|reflexivity]. cbn [negb]. destruct (Hc eq_refl) as [W C]. rewrite Hm, Hd.
  destruct o; try discriminate; cbn [norm step] in *.
  - destruct (dirty s (KP p)) eqn:Dy; [reflexivity|]. cbn [andb].
    destruct (take_primary_sound c s p t C Dy) as [S1 S2]. cbn zeta in S1, S2. rewrite <- Hr.
    destruct (oret (snd (take_primary c s p t))) eqn:E; auto.
    + destruct (S1 _ _ _ eq_refl) as [-> G]. rewrite Z.eqb_refl. apply row_is_intro. exact G.
    + rewrite (S2 eq_refl). reflexivity.
  - destruct (dirty s (KP p)) eqn:Dy; [reflexivity|]. cbn [andb].
    pose proof (get_primary_sound c s p C Dy) as S1. rewrite <- Hr.
    destruct (oret (snd (get_primary c s p))) eqn:E; auto.
    destruct (S1 _ _ _ eq_refl) as [-> G]. rewrite Z.eqb_refl. apply row_is_intro. exact G.
  - destruct (dirty s (KP p)) eqn:Dy; [reflexivity|]. cbn [andb].
    destruct (take_mid_sound c s p t n C Dy) as [S1 S2]. cbn zeta in S1, S2. rewrite <- Hr.
    destruct (oret (snd (take_mid c s p t n))) eqn:E; auto.
    + destruct (S1 _ _ _ eq_refl) as [-> G]. rewrite Z.eqb_refl. apply row_is_intro. exact G.
    + rewrite (S2 eq_refl). reflexivity.
Qed.

(* clause (A) at the primary reads of a whole observed history *)
Fixpoint coherent_primary_from (c1 c2 : config) (insts : list bool) (r : rstate) (ops : list op)
         (obs : list opobs) : bool :=
  match ops, obs with
  | o :: ops', ob :: obs' =>
    let c := pick c1 c2 insts in
    (if primary_read o then coherent true r (norm o) ob else true)
    && coherent_primary_from c1 c2 (tl insts) (next c r o ob) ops' obs'
  | _, _ => true
  end.

Lemma agreed_reads_coherent_from str c1 c2 : forall ops obs insts r s,
  linked r s -> agrees_from str c1 c2 insts s ops obs = true ->
  coherent_primary_from c1 c2 insts r ops obs = true.
Proof.
  induction ops as [|o ops IH]; intros [|ob obs] insts r s L A; try reflexivity.
  cbn [agrees_from] in A. cbn [coherent_primary_from].
  destruct (step (pick c1 c2 insts) s o) as [s' m] eqn:E.
  repeat (apply andb_true_iff in A; destruct A as [A ?]).
  assert (Hr : ret_eqb (oret (snd (step (pick c1 c2 insts) s o))) (o_ret ob) = true) by (rewrite E; exact A).
  apply andb_true_iff. split.
  - destruct (primary_read o) eqn:P; [|reflexivity]. eapply coherent_primary_sound; eauto.
  - apply (IH obs (tl insts) _ s'); auto.
    replace s' with (fst (step (pick c1 c2 insts) s o)) by (rewrite E; reflexivity).
    apply next_linked; auto.
Qed.

Lemma agreed_reads_coherent_lemma (w : wcase) :
  NoDup (map fst (c_rows w)) -> agrees1 w = true ->
  coherent_primary_from (c_cfg w) (c_cfg2 w) (c_inst w)
                        (mkR (c_rows w) false [] [] true [] (init (c_rows w))) (c_ops w) (c_obs w) = true.
Proof.
  intros ND A. eapply agreed_reads_coherent_from; [|exact A].
  split; [reflexivity|]. split; [reflexivity|]. intros _. split; [exact ND | apply init_coh].
Qed.

(* ------------------------------------------------------------------ QueryRowIndex reads *)
Definition dkey (e : dump_entry) : key := fst (fst e).

(* every observed dump lists a key once (a keyspace) *)
Definition dumps_unique (obs : list opobs) : Prop := Forall (fun ob => NoDup (map dkey (o_dump ob))) obs.

Lemma cval_eqb_eq a b : cval_eqb a b = true -> a = b.
Proof.
  destruct a, b; cbn; try discriminate; auto.
  - intro H. apply andb_true_iff in H. destruct H as [H1 H2]. apply Z.eqb_eq in H1. apply Z.eqb_eq in H2. subst. reflexivity.
  - intro H. apply Z.eqb_eq in H. subst. reflexivity.
Qed.

Lemma de_eqb_eq a b : de_eqb a b = true -> a = b.
Proof.
  destruct a as [[k v] t], b as [[k' v'] t']. cbn. intro H.
  apply andb_true_iff in H. destruct H as [H H3]. apply andb_true_iff in H. destruct H as [H1 H2].
  apply key_eqb_eq in H1. apply cval_eqb_eq in H2. apply Z.eqb_eq in H3. subst. reflexivity.
Qed.

Lemma list_eqb_eq {A} (eqb : A -> A -> bool) (E : forall a b, eqb a b = true -> a = b) :
  forall l1 l2, list_eqb eqb l1 l2 = true -> l1 = l2.
Proof.
  induction l1 as [|x l1 IH]; intros [|y l2]; cbn; try discriminate; auto.
  intro H. apply andb_true_iff in H. destruct H as [H1 H2]. apply E in H1. apply IH in H2. subst. reflexivity.
Qed.

Lemma insert_de_In x y l : In x (insert_de y l) <-> x = y \/ In x l.
Proof.
  induction l as [|z l IH]; cbn.
  - intuition.
  - destruct (key_leb (fst (fst y)) (fst (fst z))); cbn; [intuition|]. rewrite IH. intuition.
Qed.

Lemma sort_dump_In x l : In x (sort_dump l) <-> In x l.
Proof.
  induction l as [|y l IH]; cbn; [tauto|]. unfold sort_dump in *. cbn. rewrite insert_de_In, IH. intuition.
Qed.

Lemma dump_eqb_In a b x : dump_eqb a b = true -> In x a -> In x b.
Proof.
  unfold dump_eqb. intros H Hi. apply (list_eqb_eq de_eqb de_eqb_eq) in H.
  apply sort_dump_In. rewrite <- H. apply sort_dump_In. exact Hi.
Qed.

Lemma dget_unique l k v t : NoDup (map dkey l) -> In (k, v, t) l -> dget l k = Some (v, t).
Proof.
  induction l as [|[[k' v'] t'] l IH]; cbn; [contradiction|].
  intros ND [H|H].
  - inversion H. subst. rewrite key_eqb_refl. reflexivity.
  - inversion ND as [|? ? Hn ND']. subst.
    destruct (key_eqb k k') eqn:E.
    + apply key_eqb_eq in E. subst. exfalso. apply Hn.
      change k' with (dkey (k', v, t)). apply in_map. exact H.
    + apply IH; auto.
Qed.

Lemma find_In k d e : find k d = Some e -> In (k, e) d.
Proof.
  induction d as [|[k' e'] d IH]; cbn; [discriminate|].
  destruct (key_eqb k k') eqn:E.
  - intro H. inversion H. subst. apply key_eqb_eq in E. subst. auto.
  - intro H. right. apply IH. exact H.
Qed.

(* a live entry of the model's store is listed by its dump *)
Lemma lookup_in_dump s k e :
  lookup (clock s) (cache s) k = Some e ->
  exists t, In (k, eval e, t) (dump s).
Proof.
  intro H. apply lookup_some in H. destruct H as [Hf Hl]. apply find_In in Hf.
  exists (match eexp e with Some x => x - clock s | None => 0 end).
  unfold dump. apply in_flat_map. exists (k, e). split; [exact Hf|]. rewrite Hl. left. reflexivity.
Qed.

Lemma next_prev c r o ob : r_prev (next c r o ob) = o_dump ob.
Proof. unfold next. destruct o; try destruct w; destruct (o_ret ob); reflexivity. Qed.

(* the judgement's state follows the model's, store contents included *)
Definition linked2 (r : rstate) (s : state) : Prop :=
  linked r s /\ NoDup (map dkey (r_prev r)) /\ (forall x, In x (dump s) -> In x (r_prev r)).

Lemma next_linked2 c r s o ob :
  linked2 r s -> ret_eqb (oret (snd (step c s o))) (o_ret ob) = true ->
  dump_eqb (dump (fst (step c s o))) (o_dump ob) = true -> NoDup (map dkey (o_dump ob)) ->
  linked2 (next c r o ob) (fst (step c s o)).
Proof.
  intros (L & _ & _) Hr Hd Hu. split; [apply next_linked; auto|]. rewrite next_prev. split; [exact Hu|].
  intros x Hx. eapply dump_eqb_In; eauto.
Qed.

Definition index_read (o : op) : bool :=
  match o with OQri _ _ | OQriMid _ _ _ => true | _ => false end.

Lemma db_by_u_none_intro u t : wf_db t -> (forall p v, db_get p t <> Some (u, v)) -> db_by_u u t = None.
Proof.
  intros W H. destruct (db_by_u u t) as [[p [u' v]]|] eqn:E; [|reflexivity].
  destruct (db_by_u_some u t p u' v W E) as [-> G]. exfalso. eapply H. exact G.
Qed.

Lemma coherent_index_sound c r s o ob :
  linked2 r s -> index_read o = true ->
  ret_eqb (oret (snd (step c s o))) (o_ret ob) = true ->
  coherent true r (norm o) ob = true.
Proof.
  intros ((Hm & Hd & Hc) & Hu & Hp) Hi Hr. apply ret_eqb_eq in Hr. unfold coherent.
  destruct (r_disc r) eqn:D; [|reflexivity]. cbn [negb]. destruct (Hc eq_refl) as [W C]. rewrite Hm, Hd.
  assert (A : forall u,
            (dirty s (KU u) || match dget (r_prev r) (KU u) with
                               | Some (CPk p, _) => dirty s (KP p) | _ => false end) = false ->
            dirty s (KU u) = false /\
            (forall e p, lookup (clock s) (cache s) (KU u) = Some e -> eval e = CPk p -> dirty s (KP p) = false)).
  { intros u H. apply orb_false_iff in H. destruct H as [H1 H2]. split; [exact H1|].
    intros e p L E. destruct (lookup_in_dump s (KU u) e L) as [t Ht]. rewrite E in Ht.
    apply Hp in Ht. rewrite (dget_unique _ _ _ _ Hu Ht) in H2. exact H2. }
  assert (B : forall u (m : obs), index_claim s u m -> oret m = o_ret ob ->
            match o_ret ob with
            | RRow p u' v => (u' =? u) && row_is (db s) p u v
            | RNf => match db_by_u u (db s) with None => true | Some _ => false end
            | _ => true
            end = true).
  { intros u m [S1 S2] E. rewrite <- E. destruct (oret m) eqn:R; auto.
    - destruct (S1 _ _ _ eq_refl) as [-> G]. rewrite Z.eqb_refl. apply row_is_intro. exact G.
    - rewrite (db_by_u_none_intro u (db s) W (S2 eq_refl)). reflexivity. }
  destruct o; try discriminate; cbn [norm step] in *.
  - destruct (dirty s (KU u) || _) eqn:Dy; [reflexivity|]. cbn [andb].
    destruct (A u Dy) as [A1 A2]. apply (B u (snd (query_index c s u t))); auto.
    apply query_index_sound; auto.
  - destruct (dirty s (KU u) || _) eqn:Dy; [reflexivity|]. cbn [andb].
    destruct (A u Dy) as [A1 A2]. apply (B u (snd (query_index_mid c s u t n))); auto.
    apply query_index_mid_sound; auto.
Qed.

(* clause (A) at EVERY read of a whole observed history *)
Fixpoint coherent_from (c1 c2 : config) (insts : list bool) (r : rstate) (ops : list op)
         (obs : list opobs) : bool :=
  match ops, obs with
  | o :: ops', ob :: obs' =>
    let c := pick c1 c2 insts in
    coherent true r (norm o) ob && coherent_from c1 c2 (tl insts) (next c r o ob) ops' obs'
  | _, _ => true
  end.

Lemma coherent_other r o ob : primary_read o = false -> index_read o = false -> coherent true r (norm o) ob = true.
Proof.
  intros P I. unfold coherent. destruct (negb (r_disc r)); [reflexivity|].
  destruct o; try discriminate; reflexivity.
Qed.

Lemma agreed_coherent_from str c1 c2 : forall ops obs insts r s,
  linked2 r s -> dumps_unique obs -> agrees_from str c1 c2 insts s ops obs = true ->
  coherent_from c1 c2 insts r ops obs = true.
Proof.
  induction ops as [|o ops IH]; intros [|ob obs] insts r s L U A; try reflexivity.
  cbn [agrees_from] in A. cbn [coherent_from].
  destruct (step (pick c1 c2 insts) s o) as [s' m] eqn:E.
  apply andb_true_iff in A. destruct A as [A A6]. apply andb_true_iff in A. destruct A as [A A5].
  apply andb_true_iff in A. destruct A as [A A4]. apply andb_true_iff in A. destruct A as [A A3].
  apply andb_true_iff in A. destruct A as [A1 A2].
  assert (Hr : ret_eqb (oret (snd (step (pick c1 c2 insts) s o))) (o_ret ob) = true) by (rewrite E; exact A1).
  inversion U as [|? ? U1 U2]. subst.
  apply andb_true_iff. split.
  - destruct (primary_read o) eqn:P; [eapply coherent_primary_sound; eauto; apply L|].
    destruct (index_read o) eqn:I; [eapply coherent_index_sound; eauto|].
    apply coherent_other; auto.
  - apply (IH obs (tl insts) _ s'); auto.
    replace s' with (fst (step (pick c1 c2 insts) s o)) by (rewrite E; reflexivity).
    apply next_linked2; auto. rewrite E. exact A5.
Qed.

Lemma agreed_coherent_lemma (w : wcase) :
  NoDup (map fst (c_rows w)) -> dumps_unique (c_obs w) -> agrees1 w = true ->
  coherent_from (c_cfg w) (c_cfg2 w) (c_inst w)
                (mkR (c_rows w) false [] [] true [] (init (c_rows w))) (c_ops w) (c_obs w) = true.
Proof.
  intros ND U A. eapply agreed_coherent_from; [|exact U|exact A].
  split; [|split].
  - split; [reflexivity|]. split; [reflexivity|]. intros _. split; [exact ND | apply init_coh].
  - constructor.
  - intros x H. exact H.
Qed.

(* ================================================================== clauses (B), (C), (D), (F)
   The other clauses of the judgement, tied to the model the same way: on every history on
   which the implementation agrees with the model, the clause is a consequence of the model's
   step theorems (served_from_cache, db_error_not_cached, cache_error_fails_fast,
   one_query_per_operation, invalidation_never_skipped).  The judgement's bookkeeping is shown
   to follow the model: its reference database, its view of the injected outages, and the
   previous store contents (equal to the model's dump up to order). *)

(* --- the model's store lists a key once *)
Definition ukeys (d : store) : Prop := NoDup (map fst d).

Lemma put_keys_in k e d x : In x (map fst (put k e d)) -> x = k \/ In x (map fst d).
Proof.
  induction d as [|[k' e'] d IH]; cbn; [intuition|].
  destruct (key_eqb k k') eqn:E; cbn.
  - apply key_eqb_eq in E. subst. intuition.
  - intros [H|H]; auto. apply IH in H. intuition.
Qed.

Lemma ukeys_put k e d : ukeys d -> ukeys (put k e d).
Proof.
  unfold ukeys. induction d as [|[k' e'] d IH]; cbn; intro U.
  - constructor; [intros []|constructor].
  - destruct (key_eqb k k') eqn:E; cbn.
    + apply key_eqb_eq in E. subst. exact U.
    + inversion U as [|? ? Hn U']. subst. constructor; [|apply IH; exact U'].
      intro H. apply put_keys_in in H. destruct H as [H|H]; [|contradiction].
      subst. rewrite key_eqb_refl in E. discriminate.
Qed.

Lemma remove_keys_in k d x : In x (map fst (remove k d)) -> In x (map fst d).
Proof.
  induction d as [|[k' e'] d IH]; cbn; [auto|].
  destruct (key_eqb k k'); cbn; intuition.
Qed.

Lemma ukeys_remove k d : ukeys d -> ukeys (remove k d).
Proof.
  unfold ukeys. induction d as [|[k' e'] d IH]; cbn; intro U; [constructor|].
  inversion U as [|? ? Hn U']. subst.
  destruct (key_eqb k k'); cbn; [apply IH; exact U'|].
  constructor; [|apply IH; exact U']. intro H. apply remove_keys_in in H. contradiction.
Qed.

Lemma ukeys_remove_all ks : forall d, ukeys d -> ukeys (remove_all ks d).
Proof.
  unfold remove_all. induction ks as [|k ks IH]; cbn; intros d U; [exact U|].
  apply IH. apply ukeys_remove. exact U.
Qed.

Lemma del_on_node_ukeys c n keys s : ukeys (cache s) -> ukeys (cache (del_on_node c n keys s)).
Proof.
  intro U. unfold del_on_node. destruct (filter _ keys); [exact U|].
  destruct (node_down s n); cbn [cache]; [exact U|]. apply ukeys_remove_all. exact U.
Qed.

Lemma del_keys_ukeys c keys s : ukeys (cache s) -> ukeys (cache (del_keys c keys s)).
Proof.
  unfold del_keys. generalize (nodes_of c keys) as ns. intro ns. revert s.
  induction ns as [|n ns IH]; cbn; intros s U; [exact U|]. apply IH. apply del_on_node_ukeys. exact U.
Qed.

Lemma die_keys_ukeys c keys n0 s : ukeys (cache s) -> ukeys (cache (die_keys c keys n0 s)).
Proof. intro U. unfold die_keys, owe. cbn [cache]. apply del_on_node_ukeys. exact U. Qed.

Lemma tick_ukeys s : ukeys (cache s) -> ukeys (cache (tick s)).
Proof.
  intro U. unfold tick.
  assert (G : forall l s0, ukeys (cache s0) -> ukeys (cache (fold_left tick_task l s0))).
  { induction l as [|tk l IH]; cbn; intros s0 U0; [exact U0|]. apply IH.
    unfold tick_task. destruct (1 <? trem tk); [exact U0|].
    destruct (node_down s0 (tnode tk)); [destruct (next_delay (tdelay tk)); exact U0|].
    cbn [cache]. apply ukeys_remove_all. exact U0. }
  apply G. exact U.
Qed.

Lemma step_ukeys c s o : ukeys (cache s) -> ukeys (cache (fst (step c s o))).
Proof.
  intro U. destruct o; cbn [step]; unf;
    try (split_step; cbn [fst set_cache cache fail_node]; repeat apply ukeys_put; exact U).
  - destruct (dbFault s); [exact U|]. destruct w as [[u v]|]; [destruct (u_taken p u (db s)); [exact U|]|];
      cbn [fst]; apply del_keys_ukeys; exact U.
  - cbn [fst]. apply del_keys_ukeys. exact U.
  - cbn [fst]. apply (iter_tick_inv (fun s' => ukeys (cache s'))); [apply tick_ukeys | exact U].
  - destruct (dbFault s); [exact U|]. destruct (negb (existsb (Z.eqb n0) (nodes_of c keys))); [exact U|].
    destruct w as [[u v]|]; [destruct (u_taken p u (db s)); [exact U|]|];
      cbn [fst]; apply die_keys_ukeys; exact U.
Qed.

(* --- the injected outages, as the judgement and as the model see them *)
Definition dbf_after (b0 : bool) (o : op) : bool := match o with ODbFault b => b | _ => b0 end.
Definition cf_after (l : list Z) (o : op) (q : Z) : list Z :=
  match o with
  | OCFault n b => if b then n :: l else filter (fun m => negb (m =? n)) l
  | OTakeMid _ _ n | OQriMid _ _ n => if 0 <? q then n :: l else l
  | _ => l
  end.

Lemma iter_tick_frame n s :
  dbFault (N.iter n tick s) = dbFault s /\ cfault (N.iter n tick s) = cfault s.
Proof.
  apply (N.iter_invariant n state tick (fun s' => dbFault s' = dbFault s /\ cfault s' = cfault s)); auto.
  intros s' [A B]. destruct (tick_frame s') as (_ & E1 & E2 & _). split; congruence.
Qed.

Lemma exec_faults c s p w keys :
  dbFault (fst (exec c s p w keys)) = dbFault s /\ cfault (fst (exec c s p w keys)) = cfault s.
Proof.
  unfold exec. destruct (dbFault s) eqn:F; [cbn; auto|].
  destruct w as [[u v]|]; [destruct (u_taken p u (db s)); [cbn; auto|]|]; cbn [fst];
    match goal with |- context [del_keys ?a ?b ?x] => destruct (del_keys_frame a b x) as (_ & E1 & E2 & _) end;
    rewrite E1, E2; cbn; auto.
Qed.

Lemma exec_die_faults c s p w keys n0 :
  dbFault (fst (exec_die c s p w keys n0)) = dbFault s /\ cfault (fst (exec_die c s p w keys n0)) = cfault s.
Proof.
  unfold exec_die. destruct (dbFault s) eqn:F; [cbn; auto|].
  destruct (negb (existsb (Z.eqb n0) (nodes_of c keys))); [cbn; auto|].
  destruct w as [[u v]|]; [destruct (u_taken p u (db s)); [cbn; auto|]|]; cbn [fst];
    match goal with |- context [die_keys ?a ?b ?n ?x] => destruct (die_keys_frame a b n x) as (_ & E1 & E2 & _) end;
    rewrite E1, E2; cbn; auto.
Qed.

Lemma step_faults c s o :
  dbFault (fst (step c s o)) = dbf_after (dbFault s) o /\
  cfault (fst (step c s o)) = cf_after (cfault s) o (oqi (snd (step c s o)) + oqp (snd (step c s o))).
Proof.
  destruct o; cbn [step dbf_after cf_after];
    try apply exec_faults; try apply exec_die_faults;
    unfold query_index_mid, query_index, take_mid, take_primary, load_index, load_primary, get_primary, set_primary;
    try solve [split_step; cbn in *; try discriminate; split; auto].
  - cbn [fst snd]. destruct (del_keys_frame c keys s) as (_ & E1 & E2 & _). auto.
  - cbn [fst snd]. apply iter_tick_frame.
Qed.

Lemma next_dbf c r o ob : r_dbf (next c r o ob) = dbf_after (r_dbf r) o.
Proof. unfold next. destruct o; try destruct w; destruct (o_ret ob); reflexivity. Qed.

Lemma next_cf c r o ob : r_cf (next c r o ob) = cf_after (r_cf r) o (o_qi ob + o_qp ob).
Proof. unfold next. destruct o; try destruct w; destruct (o_ret ob); reflexivity. Qed.

(* --- store contents up to order *)
Definition deq (a b : list dump_entry) : Prop := sort_dump a = sort_dump b.

Lemma cval_eqb_refl v : cval_eqb v v = true.
Proof. destruct v; cbn; rewrite ?Z.eqb_refl; reflexivity. Qed.

Lemma de_eqb_refl e : de_eqb e e = true.
Proof. destruct e as [[k v] t]. cbn. rewrite key_eqb_refl, cval_eqb_refl, Z.eqb_refl. reflexivity. Qed.

Lemma list_eqb_refl {A} (eqb : A -> A -> bool) (R : forall a, eqb a a = true) l : list_eqb eqb l l = true.
Proof. induction l as [|x l IH]; cbn; [reflexivity|]. rewrite R, IH. reflexivity. Qed.

Lemma dump_eqb_deq a b : dump_eqb a b = true <-> deq a b.
Proof.
  unfold dump_eqb, deq. split.
  - apply (list_eqb_eq de_eqb de_eqb_eq).
  - intros ->. apply list_eqb_refl. apply de_eqb_refl.
Qed.

Lemma deq_In a b x : deq a b -> In x a -> In x b.
Proof. intros H Hi. apply sort_dump_In. rewrite <- H. apply sort_dump_In. exact Hi. Qed.

Lemma dump_same s s' : cache s' = cache s -> clock s' = clock s -> dump s' = dump s.
Proof. intros A B. unfold dump. rewrite A, B. reflexivity. Qed.

(* agreement of one step *)
Definition sagree (c : config) (s : state) (o : op) (ob : opobs) : Prop :=
  ret_eqb (oret (snd (step c s o))) (o_ret ob) = true /\ oqi (snd (step c s o)) = o_qi ob /\
  oqp (snd (step c s o)) = o_qp ob /\ deq (dump (fst (step c s o))) (o_dump ob).

(* the judgement's whole state follows the model's *)
Definition linked3 (r : rstate) (s : state) : Prop :=
  linked r s /\ r_dbf r = dbFault s /\ r_cf r = cfault s /\ ukeys (cache s) /\
  NoDup (map dkey (r_prev r)) /\ deq (dump s) (r_prev r).

Lemma linked3_linked2 r s : linked3 r s -> linked2 r s.
Proof.
  intros (L & _ & _ & _ & U & D). split; [exact L|]. split; [exact U|]. intros x. apply deq_In. exact D.
Qed.

Lemma next_linked3 c r s o ob :
  linked3 r s -> sagree c s o ob -> NoDup (map dkey (o_dump ob)) ->
  linked3 (next c r o ob) (fst (step c s o)).
Proof.
  intros (L & F & C & K & _ & _) (A1 & A2 & A3 & A4) U.
  destruct (step_faults c s o) as [E1 E2].
  split; [apply next_linked; [exact L | exact A1]|].
  split; [rewrite next_dbf, F, E1; reflexivity|].
  split; [rewrite next_cf, C, E2, A2, A3; reflexivity|].
  split; [apply step_ukeys; exact K|].
  rewrite next_prev. split; [exact U | exact A4].
Qed.

(* a clause that follows from the model at every step holds along every agreeing history *)
Section Clause.
Variable Q : config -> rstate -> op -> opobs -> bool.
Hypothesis Qsound : forall c r s o ob,
  linked3 r s -> NoDup (map dkey (o_dump ob)) -> sagree c s o ob -> Q c r o ob = true.

Fixpoint holds_from (c1 c2 : config) (insts : list bool) (r : rstate) (ops : list op) (obs : list opobs) : bool :=
  match ops, obs with
  | o :: ops', ob :: obs' =>
    let c := pick c1 c2 insts in
    Q c r o ob && holds_from c1 c2 (tl insts) (next c r o ob) ops' obs'
  | _, _ => true
  end.

Lemma agreed_holds_from str c1 c2 : forall ops obs insts r s,
  linked3 r s -> dumps_unique obs -> agrees_from str c1 c2 insts s ops obs = true ->
  holds_from c1 c2 insts r ops obs = true.
Proof.
  induction ops as [|o ops IH]; intros [|ob obs] insts r s L U A; try reflexivity.
  cbn [agrees_from] in A. cbn [holds_from].
  destruct (step (pick c1 c2 insts) s o) as [s' m] eqn:E.
  apply andb_true_iff in A. destruct A as [A A6]. apply andb_true_iff in A. destruct A as [A A5].
  apply andb_true_iff in A. destruct A as [A A4]. apply andb_true_iff in A. destruct A as [A A3].
  apply andb_true_iff in A. destruct A as [A1 A2].
  assert (SA : sagree (pick c1 c2 insts) s o ob).
  { unfold sagree. rewrite E. cbn [fst snd]. apply Z.eqb_eq in A2. apply Z.eqb_eq in A3.
    apply dump_eqb_deq in A5. auto. }
  inversion U as [|? ? U1 U2]. subst.
  apply andb_true_iff. split; [eapply Qsound; eauto|].
  apply (IH obs (tl insts) _ s'); auto.
  replace s' with (fst (step (pick c1 c2 insts) s o)) by (rewrite E; reflexivity).
  apply next_linked3; auto.
Qed.
End Clause.

Lemma init_linked3 rows : NoDup (map fst rows) -> linked3 (mkR rows false [] [] true [] (init rows)) (init rows).
Proof.
  intro ND. split; [split; [reflexivity|]; split; [reflexivity|]; intros _; split; [exact ND | apply init_coh]|].
  repeat split; try reflexivity; constructor.
Qed.

(* ------------------------------------------------------------------ clause (C): database errors, one query *)
Lemma read_dberr_iff c s o : is_read (norm o) = true ->
  is_dberr (oret (snd (step c s o)))
  = dbFault s && (0 <? oqi (snd (step c s o)) + oqp (snd (step c s o))).
Proof.
  destruct o; try discriminate; intros _; cbn [step]; unf; split_step; cbn in *;
    try congruence;
    repeat match goal with H : dbFault s = _ |- _ => rewrite H end;
    rewrite ?andb_false_r; reflexivity.
Qed.

Lemma untouched_intro r s s' ob :
  deq (dump s) (r_prev r) -> dump s' = dump s -> deq (dump s') (o_dump ob) -> untouched r ob = true.
Proof.
  intros A B C. unfold untouched. apply dump_eqb_deq. unfold deq in *. rewrite <- A, <- B. exact C.
Qed.

Lemma is_dberr_eq x : is_dberr x = true -> x = RDbErr.
Proof. destruct x; cbn; try discriminate; reflexivity. Qed.

Lemma clauseC_sound c r s o ob :
  linked3 r s -> NoDup (map dkey (o_dump ob)) -> sagree c s o ob -> db_errors r (norm o) ob = true.
Proof.
  intros (L & F & C & K & U & D) _ (A1 & A2 & A3 & A4). apply ret_eqb_eq in A1.
  unfold db_errors. rewrite <- A1, <- A2, <- A3, F.
  destruct (step_queries c s o) as (Q1 & Q2 & Q3).
  assert (UT : oret (snd (step c s o)) = RDbErr -> untouched r ob = true).
  { intro E. destruct (dberr_keeps_data c s o E) as (_ & E1 & _ & _ & E2).
    apply (untouched_intro r s (fst (step c s o)) ob D); [apply dump_same; auto | exact A4]. }
  repeat (apply andb_true_iff; split).
  - apply Z.leb_le. exact Q3.
  - apply Z.leb_le. exact Q1.
  - apply Z.leb_le. exact Q2.
  - destruct (is_dberr (oret (snd (step c s o)))) eqn:E; [|reflexivity]. apply UT. apply is_dberr_eq. exact E.
  - destruct (is_read (norm o)) eqn:R; [|reflexivity]. rewrite (read_dberr_iff c s o R). apply eqb_reflx.
  - destruct o; cbn [norm]; try reflexivity.
    + destruct (dbFault s) eqn:DF; [|reflexivity].
      assert (E : oret (snd (step c s (OExec p w keys))) = RDbErr) by (rewrite dberr_returned_exec; auto).
      rewrite E. cbn [is_dberr andb]. apply UT. exact E.
    + destruct (dbFault s) eqn:DF; [|reflexivity].
      assert (E : oret (snd (step c s (OExecDie p w keys n0))) = RDbErr) by (rewrite dberr_returned_exec_die; auto).
      rewrite E. cbn [is_dberr andb]. apply UT. exact E.
Qed.

(* ------------------------------------------------------------------ clause (F): invalidation *)
Lemma In_find_some k e d : In (k, e) d -> find k d <> None.
Proof.
  induction d as [|[k' e'] d IH]; cbn; [contradiction|].
  intros [H|H]; destruct (key_eqb k k') eqn:E; try discriminate; auto.
  inversion H. subst. rewrite key_eqb_refl in E. discriminate.
Qed.

Lemma dget_In l k v t : dget l k = Some (v, t) -> In (k, v, t) l.
Proof.
  induction l as [|[[k' v'] t'] l IH]; cbn; [discriminate|].
  destruct (key_eqb k k') eqn:E.
  - intro H. inversion H. subst. apply key_eqb_eq in E. subst. auto.
  - intro H. right. apply IH. exact H.
Qed.

Lemma dump_In_cache s k v t : In (k, v, t) (dump s) -> exists e, In (k, e) (cache s) /\ live (clock s) e = true /\ eval e = v.
Proof.
  unfold dump. intro H. apply in_flat_map in H. destruct H as ([k0 e] & Hi & Hx).
  destruct (live (clock s) e) eqn:Lv; [|contradiction]. destruct Hx as [Hx|[]]. inversion Hx. subst.
  exists e. auto.
Qed.

Lemma gone_dump s' d k : find k (cache s') = None -> deq (dump s') d -> dget d k = None.
Proof.
  intros Hf Hd. destruct (dget d k) as [[v t]|] eqn:E; [|reflexivity]. exfalso.
  apply dget_In in E. apply (deq_In d (dump s')) in E; [|symmetry; exact Hd].
  apply dump_In_cache in E. destruct E as (e & Hi & _). apply In_find_some in Hi. contradiction.
Qed.

Lemma del_keys_gone c keys s k :
  In k keys -> key_down c s k = false -> find k (cache (del_keys c keys s)) = None.
Proof.
  intros Hk KD. destruct (dfold_hit c keys (nodes_of c keys) s k Hk (nodes_of_In c keys k Hk)) as [H1 _].
  unfold del_keys. apply H1. exact KD.
Qed.

Lemma die_keys_gone c keys n0 s k :
  In k (fst (die_split c keys n0)) -> key_down c s k = false -> find k (cache (die_keys c keys n0 s)) = None.
Proof.
  intros Hk KD. destruct (die_split_first c keys n0 k Hk) as [_ Hn].
  destruct (del_on_node_hit c n0 (fst (die_split c keys n0)) s k Hk Hn) as [H1 _].
  unfold die_keys, owe. cbn [cache]. apply H1. unfold key_down in KD. rewrite Hn in KD. exact KD.
Qed.

Lemma exec_gone c s p w keys k :
  oret (snd (step c s (OExec p w keys))) = ROk -> In k keys -> key_down c s k = false ->
  find k (cache (fst (step c s (OExec p w keys)))) = None.
Proof.
  cbn [step]. unfold exec. destruct (dbFault s); [cbn; discriminate|].
  destruct w as [[u v]|]; [destruct (u_taken p u (db s)); [cbn; discriminate|]|]; cbn [fst snd];
    intros _ Hk KD; apply del_keys_gone; auto.
Qed.

Lemma exec_die_gone c s p w keys n0 k :
  oret (snd (step c s (OExecDie p w keys n0))) = ROk -> In k (fst (die_split c keys n0)) -> key_down c s k = false ->
  find k (cache (fst (step c s (OExecDie p w keys n0)))) = None.
Proof.
  cbn [step]. unfold exec_die. destruct (dbFault s); [cbn; discriminate|].
  destruct (negb (existsb (Z.eqb n0) (nodes_of c keys))); [cbn; discriminate|].
  destruct w as [[u v]|]; [destruct (u_taken p u (db s)); [cbn; discriminate|]|]; cbn [fst snd];
    intros _ Hk KD; apply die_keys_gone; auto.
Qed.

Lemma clauseF_sound c r s o ob :
  linked3 r s -> NoDup (map dkey (o_dump ob)) -> sagree c s o ob -> invalidated c r o ob = true.
Proof.
  intros (L & F & C & K & U & D) _ (A1 & A2 & A3 & A4). apply ret_eqb_eq in A1. unfold invalidated.
  assert (G : forall keys,
            (forall k, In k keys -> key_down c s k = false -> find k (cache (fst (step c s o))) = None) ->
            forallb (fun k => down c r k || match dget (o_dump ob) k with None => true | Some _ => false end) keys = true).
  { intros keys H. apply forallb_forall. intros k Hk. unfold down. rewrite C.
    change (existsb (Z.eqb (node_of c k)) (cfault s)) with (key_down c s k).
    destruct (key_down c s k) eqn:KD; [reflexivity|]. rewrite (gone_dump _ _ _ (H k Hk KD) A4). reflexivity. }
  destruct o; try reflexivity; rewrite <- ?A1.
  - destruct (oret (snd (step c s (OExec p w keys)))) eqn:R; try reflexivity.
    apply G. intros k Hk KD. apply exec_gone; auto.
  - apply G. intros k Hk KD. cbn [step fst]. apply del_keys_gone; auto.
  - destruct (oret (snd (step c s (OExecDie p w keys n0)))) eqn:R; try reflexivity.
    apply G. intros k Hk KD. apply exec_die_gone; auto.
Qed.

(* ------------------------------------------------------------------ clause (B): served from the cache *)
Lemma In_find_ukeys k e d : ukeys d -> In (k, e) d -> find k d = Some e.
Proof.
  unfold ukeys. induction d as [|[k' e'] d IH]; cbn; [contradiction|].
  intros U [H|H].
  - inversion H. subst. rewrite key_eqb_refl. reflexivity.
  - inversion U as [|? ? Hn U']. subst. destruct (key_eqb k k') eqn:E; [|apply IH; auto].
    apply key_eqb_eq in E. subst. exfalso. apply Hn. change k' with (fst (k', e)). apply in_map. exact H.
Qed.

(* what the previous observed contents say about a key is what the model's store holds *)
Lemma dget_lookup s d k v t :
  deq (dump s) d -> ukeys (cache s) -> dget d k = Some (v, t) ->
  exists e, lookup (clock s) (cache s) k = Some e /\ eval e = v.
Proof.
  intros Hd U H. apply dget_In in H. apply (deq_In d (dump s)) in H; [|symmetry; exact Hd].
  apply dump_In_cache in H. destruct H as (e & Hi & Lv & Ev). exists e. split; [|exact Ev].
  apply lookup_intro; [apply In_find_ukeys; auto | exact Lv].
Qed.

Lemma In_dget_some l k v t : In (k, v, t) l -> dget l k <> None.
Proof.
  induction l as [|[[k' v'] t'] l IH]; cbn; [contradiction|].
  destruct (key_eqb k k') eqn:E; [discriminate|].
  intros [H|H]; [inversion H; subst; rewrite key_eqb_refl in E; discriminate | apply IH; exact H].
Qed.

Lemma lookup_dget s d k e :
  deq (dump s) d -> lookup (clock s) (cache s) k = Some e -> dget d k <> None.
Proof.
  intros Hd L. destruct (lookup_in_dump s k e L) as [t Ht]. apply (deq_In _ d) in Ht; [|exact Hd].
  eapply In_dget_some; eauto.
Qed.

(* the operation leaves the state alone and runs no query *)
Definition quiet (c : config) (s : state) (o : op) : Prop :=
  fst (step c s o) = s /\ oqi (snd (step c s o)) = 0 /\ oqp (snd (step c s o)) = 0.

Lemma quiet_of_eq c s o m : step c s o = (s, m) -> oqi m = 0 -> oqp m = 0 -> quiet c s o.
Proof. intros E A B. unfold quiet. rewrite E. auto. Qed.

Lemma quiet_take c s p t e :
  key_down c s (KP p) = false -> lookup (clock s) (cache s) (KP p) = Some e -> (forall q, eval e <> CPk q) ->
  quiet c s (OTake p t).
Proof. intros K L T. eapply quiet_of_eq; [apply (take_served c s p t e K L T)| |]; reflexivity. Qed.

Lemma quiet_takemid c s p t n e :
  key_down c s (KP p) = false -> lookup (clock s) (cache s) (KP p) = Some e -> (forall q, eval e <> CPk q) ->
  quiet c s (OTakeMid p t n).
Proof.
  intros K L T. destruct (quiet_take c s p t e K L T) as (A & B & C).
  unfold quiet. cbn [step] in *. unfold take_mid. rewrite K, L. auto.
Qed.

Lemma quiet_get c s p : quiet c s (OGet p).
Proof. unfold quiet. cbn [step]. unfold get_primary. split_step; cbn; auto. Qed.

Lemma quiet_qri_hole c s u t e :
  key_down c s (KU u) = false -> lookup (clock s) (cache s) (KU u) = Some e -> eval e = CHole ->
  quiet c s (OQri u t).
Proof. intros K L E. eapply quiet_of_eq; [apply (qri_served_hole c s u t e K L E)| |]; reflexivity. Qed.

Lemma quiet_qrimid_hole c s u t n e :
  key_down c s (KU u) = false -> lookup (clock s) (cache s) (KU u) = Some e -> eval e = CHole ->
  quiet c s (OQriMid u t n).
Proof.
  intros K L E. unfold quiet. cbn [step]. unfold query_index_mid. rewrite K, L.
  destruct e as [[a b|q|] x]; cbn in E; try discriminate. cbn. auto.
Qed.

Lemma quiet_qri_row c s u t e p e' :
  key_down c s (KU u) = false -> lookup (clock s) (cache s) (KU u) = Some e -> eval e = CPk p ->
  key_down c s (KP p) = false -> lookup (clock s) (cache s) (KP p) = Some e' -> (forall q, eval e' <> CPk q) ->
  quiet c s (OQri u t).
Proof.
  intros K L E K' L' T. eapply quiet_of_eq; [apply (qri_served_row c s u t e p e' K L E K' L' T)| |]; reflexivity.
Qed.

Lemma quiet_qrimid_row c s u t n e p e' :
  key_down c s (KU u) = false -> lookup (clock s) (cache s) (KU u) = Some e -> eval e = CPk p ->
  key_down c s (KP p) = false -> lookup (clock s) (cache s) (KP p) = Some e' -> (forall q, eval e' <> CPk q) ->
  quiet c s (OQriMid u t n).
Proof.
  intros K L E K' L' T. destruct (quiet_takemid c s p t n e' K' L' T) as (A & B & C).
  unfold quiet. cbn [step] in *. unfold query_index_mid. rewrite K, L.
  destruct e as [[a b|q|] x]; cbn in E; try discriminate. inversion E. subst. auto.
Qed.

Lemma served_ok c r s o ob :
  deq (dump s) (r_prev r) -> sagree c s o ob -> quiet c s o -> no_query ob && untouched r ob = true.
Proof.
  intros D (_ & A2 & A3 & A4) (Q1 & Q2 & Q3). unfold no_query. rewrite <- A2, <- A3, Q2, Q3. cbn.
  apply (untouched_intro r s (fst (step c s o)) ob D); [rewrite Q1; reflexivity | exact A4].
Qed.

Lemma is_answer_inv x : is_answer x = true -> exists v t, x = Some (v, t) /\ (forall q, v <> CPk q).
Proof.
  destruct x as [[[a b|q|] t]|]; cbn; try discriminate; intros _; eexists; eexists; split; try reflexivity; discriminate.
Qed.

Lemma down_key_down c r s k : r_cf r = cfault s -> down c r k = key_down c s k.
Proof. intro C. unfold down. rewrite C. reflexivity. Qed.

Lemma clauseB_sound c r s o ob :
  linked3 r s -> NoDup (map dkey (o_dump ob)) -> sagree c s o ob -> served c r (norm o) ob = true.
Proof.
  intros (L & F & C & K & U & D) _ SA.
  assert (P : forall p, negb (down c r (KP p)) && is_answer (dget (r_prev r) (KP p)) = true ->
              key_down c s (KP p) = false /\
              exists e, lookup (clock s) (cache s) (KP p) = Some e /\ (forall q, eval e <> CPk q)).
  { intros p H. apply andb_true_iff in H. destruct H as [H1 H2]. rewrite (down_key_down c r s _ C) in H1.
    apply negb_true_iff in H1. split; [exact H1|].
    apply is_answer_inv in H2. destruct H2 as (v & t & H2 & H3).
    destruct (dget_lookup s _ _ _ _ D K H2) as (e & Le & Ee). exists e. split; [exact Le|]. rewrite Ee. exact H3. }
  assert (I : forall u, down c r (KU u) = false -> forall v t, dget (r_prev r) (KU u) = Some (v, t) ->
              key_down c s (KU u) = false /\ exists e, lookup (clock s) (cache s) (KU u) = Some e /\ eval e = v).
  { intros u H v t G. rewrite (down_key_down c r s _ C) in H. split; [exact H|]. apply (dget_lookup s _ _ _ _ D K G). }
  destruct o; cbn [norm served]; try reflexivity.
  - destruct (negb (down c r (KP p)) && is_answer (dget (r_prev r) (KP p))) eqn:H; [|reflexivity].
    destruct (P p H) as (K1 & e & Le & Te). eapply served_ok; eauto. eapply quiet_take; eauto.
  - destruct (down c r (KU u)) eqn:Dn; [reflexivity|].
    destruct (dget (r_prev r) (KU u)) as [[[a b|q|] t0]|] eqn:G; try reflexivity.
    + destruct (negb (down c r (KP q)) && is_answer (dget (r_prev r) (KP q))) eqn:H; [|reflexivity].
      destruct (I u Dn _ _ G) as (K1 & e & Le & Ee). destruct (P q H) as (K2 & e' & Le' & Te').
      eapply served_ok; eauto. eapply quiet_qri_row; eauto.
    + destruct (I u Dn _ _ G) as (K1 & e & Le & Ee). eapply served_ok; eauto. eapply quiet_qri_hole; eauto.
  - eapply served_ok; eauto. apply quiet_get.
  - destruct (negb (down c r (KP p)) && is_answer (dget (r_prev r) (KP p))) eqn:H; [|reflexivity].
    destruct (P p H) as (K1 & e & Le & Te). eapply served_ok; eauto. eapply quiet_takemid; eauto.
  - destruct (down c r (KU u)) eqn:Dn; [reflexivity|].
    destruct (dget (r_prev r) (KU u)) as [[[a b|q|] t0]|] eqn:G; try reflexivity.
    + destruct (negb (down c r (KP q)) && is_answer (dget (r_prev r) (KP q))) eqn:H; [|reflexivity].
      destruct (I u Dn _ _ G) as (K1 & e & Le & Ee). destruct (P q H) as (K2 & e' & Le' & Te').
      eapply served_ok; eauto. eapply quiet_qrimid_row; eauto.
    + destruct (I u Dn _ _ G) as (K1 & e & Le & Ee). eapply served_ok; eauto. eapply quiet_qrimid_hole; eauto.
Qed.

(* ------------------------------------------------------------------ clause (D): fail fast *)
Lemma ff_ok c r s o ob :
  deq (dump s) (r_prev r) -> sagree c s o ob -> step c s o = (s, mkObs RCErr 0 0) ->
  is_cerr (o_ret ob) && no_query ob && untouched r ob = true.
Proof.
  intros D SA E. pose proof SA as (A1 & _). apply ret_eqb_eq in A1. rewrite E in A1. cbn in A1. rewrite <- A1.
  cbn [is_cerr andb]. eapply served_ok; eauto. eapply quiet_of_eq; eauto.
Qed.

Lemma nocerr_ok c s o ob :
  sagree c s o ob -> is_cerr (oret (snd (step c s o))) = false -> negb (is_cerr (o_ret ob)) = true.
Proof. intros (A1 & _) H. apply ret_eqb_eq in A1. rewrite <- A1, H. reflexivity. Qed.

Lemma take_nocerr c s p t : key_down c s (KP p) = false -> is_cerr (oret (snd (step c s (OTake p t)))) = false.
Proof. intro K. cbn [step]. unf. rewrite K. split_step; reflexivity. Qed.

Lemma takemid_nocerr c s p t n : key_down c s (KP p) = false -> is_cerr (oret (snd (step c s (OTakeMid p t n)))) = false.
Proof. intro K. cbn [step]. unf. rewrite K. split_step; reflexivity. Qed.

Lemma get_nocerr c s p : key_down c s (KP p) = false -> is_cerr (oret (snd (step c s (OGet p)))) = false.
Proof. intro K. cbn [step]. unf. rewrite K. split_step; reflexivity. Qed.

Lemma set_nocerr c s p u v t : key_down c s (KP p) = false -> is_cerr (oret (snd (step c s (OSet p u v t)))) = false.
Proof. intro K. cbn [step]. unf. rewrite K. split_step; reflexivity. Qed.

Lemma setex_nocerr c s p u v d : key_down c s (KP p) = false -> is_cerr (oret (snd (step c s (OSetEx p u v d)))) = false.
Proof. intro K. cbn [step]. unf. rewrite K. reflexivity. Qed.

Lemma takemid_down c s p t n : key_down c s (KP p) = true -> step c s (OTakeMid p t n) = (s, mkObs RCErr 0 0).
Proof. intro K. cbn [step]. unfold take_mid. rewrite K. reflexivity. Qed.

Lemma qrimid_down c s u t n : key_down c s (KU u) = true -> step c s (OQriMid u t n) = (s, mkObs RCErr 0 0).
Proof. intro K. cbn [step]. unfold query_index_mid. rewrite K. reflexivity. Qed.

(* QueryRowIndex on a reachable index key whose entry names a primary key *)
Lemma qri_via c s u t e p :
  key_down c s (KU u) = false -> lookup (clock s) (cache s) (KU u) = Some e -> eval e = CPk p ->
  step c s (OQri u t) = step c s (OTake p t).
Proof.
  intros K L E. cbn [step]. unfold query_index. rewrite K, L.
  destruct e as [[a b|q|] x]; cbn in E; try discriminate. inversion E. reflexivity.
Qed.

Lemma qrimid_via c s u t n e p :
  key_down c s (KU u) = false -> lookup (clock s) (cache s) (KU u) = Some e -> eval e = CPk p ->
  step c s (OQriMid u t n) = step c s (OTakeMid p t n).
Proof.
  intros K L E. cbn [step]. unfold query_index_mid. rewrite K, L.
  destruct e as [[a b|q|] x]; cbn in E; try discriminate. inversion E. reflexivity.
Qed.

Lemma qri_other_nocerr c s u t e o :
  o = OQri u t \/ (exists n, o = OQriMid u t n) ->
  key_down c s (KU u) = false -> lookup (clock s) (cache s) (KU u) = Some e -> (forall p, eval e <> CPk p) ->
  is_cerr (oret (snd (step c s o))) = false.
Proof.
  intros [->|[n ->]] K L E; cbn [step]; unfold query_index, query_index_mid; rewrite K, L;
    destruct e as [[a b|q|] x]; cbn in *; try reflexivity; exfalso; eapply E; reflexivity.
Qed.

(* an index miss that reports the store's error: the primary's node is down (plain) / went down
   inside the index query (mid); the store is as before *)
Lemma qri_miss_cerr c s u t :
  key_down c s (KU u) = false -> lookup (clock s) (cache s) (KU u) = None ->
  oret (snd (step c s (OQri u t))) = RCErr ->
  fst (step c s (OQri u t)) = s /\ cfault s <> [].
Proof.
  intros K L. cbn [step]. unfold query_index, load_index. rewrite K, L.
  destruct (dbFault s); [cbn; discriminate|].
  destruct (db_by_u u (db s)) as [[p [u' v]]|]; [|destruct (ttl_ok (nf_of c) t); cbn; discriminate].
  destruct (key_down c s (KP p)) eqn:K'; [|destruct (ttl_ok (expiry_of c) t); cbn; discriminate].
  intros _. split; [reflexivity|]. unfold key_down, node_down in K'. destruct (cfault s); [discriminate|discriminate].
Qed.

Lemma qrimid_miss_cerr c s u t n :
  key_down c s (KU u) = false -> lookup (clock s) (cache s) (KU u) = None ->
  oret (snd (step c s (OQriMid u t n))) = RCErr ->
  dump (fst (step c s (OQriMid u t n))) = dump s /\ oqi (snd (step c s (OQriMid u t n))) = 1.
Proof.
  intros K L. cbn [step]. unfold query_index_mid, load_index. rewrite K, L.
  destruct (dbFault (fail_node s n)); [cbn; discriminate|].
  destruct (db_by_u u (db (fail_node s n))) as [[p [u' v]]|].
  - destruct (key_down c (fail_node s n) (KP p)); [cbn; auto|].
    destruct (ttl_ok (expiry_of c) t); [|cbn; discriminate].
    destruct (key_down c (fail_node s n) (KU u)); cbn; discriminate.
  - destruct (key_down c (fail_node s n) (KU u)); [cbn; discriminate|].
    destruct (ttl_ok (nf_of c) t); cbn; discriminate.
Qed.

Lemma clauseD_sound c r s o ob :
  linked3 r s -> NoDup (map dkey (o_dump ob)) -> sagree c s o ob -> fail_fast_mid c r o ob = true.
Proof.
  intros (L & F & C & K & U & D) _ SA.
  assert (DK : forall k, down c r k = key_down c s k) by (intro k; apply down_key_down; exact C).
  (* the part shared by OQri and OQriMid: index key reachable, entry present *)
  assert (Q : forall u t o' v t0,
            o' = OQri u t \/ (exists n, o' = OQriMid u t n) -> sagree c s o' ob ->
            key_down c s (KU u) = false -> dget (r_prev r) (KU u) = Some (v, t0) ->
            match v with
            | CPk p => if down c r (KP p) then is_cerr (o_ret ob) && no_query ob && untouched r ob
                       else negb (is_cerr (o_ret ob))
            | _ => negb (is_cerr (o_ret ob))
            end = true).
  { intros u t o' v t0 Ho SA' K1 G. destruct (dget_lookup s _ _ _ _ D K G) as (e & Le & Ee).
    destruct v as [a b|p|].
    - eapply nocerr_ok; eauto. eapply qri_other_nocerr; eauto. intros p. rewrite Ee. discriminate.
    - rewrite DK. destruct (key_down c s (KP p)) eqn:K2.
      + destruct Ho as [->|[n ->]].
        * eapply ff_ok; eauto. rewrite (qri_via c s u t e p K1 Le Ee). apply cerr_take. exact K2.
        * eapply ff_ok; eauto. rewrite (qrimid_via c s u t n e p K1 Le Ee). apply takemid_down. exact K2.
      + eapply nocerr_ok; eauto. destruct Ho as [->|[n ->]].
        * rewrite (qri_via c s u t e p K1 Le Ee). apply take_nocerr. exact K2.
        * rewrite (qrimid_via c s u t n e p K1 Le Ee). apply takemid_nocerr. exact K2.
    - eapply nocerr_ok; eauto. eapply qri_other_nocerr; eauto. intros p. rewrite Ee. discriminate. }
  assert (N : forall k, dget (r_prev r) k = None -> lookup (clock s) (cache s) k = None).
  { intros k G. destruct (lookup (clock s) (cache s) k) eqn:Lk; [|reflexivity].
    exfalso. eapply lookup_dget; eauto. }
  pose proof SA as (A1 & A2 & A3 & A4). apply ret_eqb_eq in A1.
  destruct o; cbn [fail_fast_mid norm fail_fast]; try reflexivity.
  - rewrite DK. destruct (key_down c s (KP p)) eqn:K1.
    + eapply ff_ok; eauto. apply cerr_take. exact K1.
    + eapply nocerr_ok; eauto. apply take_nocerr. exact K1.
  - rewrite DK. destruct (key_down c s (KU u)) eqn:K1.
    + eapply ff_ok; eauto. apply cerr_qri. exact K1.
    + destruct (dget (r_prev r) (KU u)) as [[v t0]|] eqn:G.
      * specialize (Q u t (OQri u t) v t0 (or_introl eq_refl) SA K1 G). destruct v; exact Q.
      * destruct (is_cerr (o_ret ob)) eqn:E; [|reflexivity].
        assert (R : oret (snd (step c s (OQri u t))) = RCErr).
        { rewrite A1. destruct (o_ret ob); cbn in E; try discriminate; reflexivity. }
        destruct (qri_miss_cerr c s u t K1 (N _ G) R) as [S1 S2]. apply andb_true_iff. split.
        -- rewrite C. destruct (cfault s); [contradiction|reflexivity].
        -- apply (untouched_intro r s (fst (step c s (OQri u t))) ob D); [rewrite S1; reflexivity | exact A4].
  - rewrite DK. destruct (key_down c s (KP p)) eqn:K1.
    + eapply ff_ok; eauto. apply cerr_get. exact K1.
    + eapply nocerr_ok; eauto. apply get_nocerr. exact K1.
  - rewrite DK. destruct (key_down c s (KP p)) eqn:K1.
    + assert (E := cerr_set c s p u v t K1). rewrite E in A1, A4. cbn in A1. rewrite <- A1. cbn [is_cerr andb].
      apply (untouched_intro r s s ob D); [reflexivity | exact A4].
    + eapply nocerr_ok; eauto. apply set_nocerr. exact K1.
  - rewrite DK. destruct (key_down c s (KP p)) eqn:K1.
    + assert (E := cerr_setex c s p u v d K1). rewrite E in A1, A4. cbn in A1. rewrite <- A1. cbn [is_cerr andb].
      apply (untouched_intro r s s ob D); [reflexivity | exact A4].
    + eapply nocerr_ok; eauto. apply setex_nocerr. exact K1.
  - rewrite DK. destruct (key_down c s (KP p)) eqn:K1.
    + eapply ff_ok; eauto. apply takemid_down. exact K1.
    + eapply nocerr_ok; eauto. apply takemid_nocerr. exact K1.
  - rewrite DK. destruct (key_down c s (KU u)) eqn:K1.
    + rewrite ?DK, ?K1. eapply ff_ok; eauto. apply qrimid_down. exact K1.
    + destruct (dget (r_prev r) (KU u)) as [[v t0]|] eqn:G.
      * rewrite ?DK, ?K1, ?G.
        specialize (Q u t (OQriMid u t n) v t0 (or_intror (ex_intro _ n eq_refl)) SA K1 G). destruct v; exact Q.
      * destruct (is_cerr (o_ret ob)) eqn:E; [|reflexivity].
        assert (R : oret (snd (step c s (OQriMid u t n))) = RCErr).
        { rewrite A1. destruct (o_ret ob); cbn in E; try discriminate; reflexivity. }
        destruct (qrimid_miss_cerr c s u t n K1 (N _ G) R) as [S1 S2]. apply andb_true_iff. split.
        -- apply (untouched_intro r s (fst (step c s (OQriMid u t n))) ob D); [exact S1 | exact A4].
        -- rewrite <- A2, S2. reflexivity.
Qed.

(* ------------------------------------------------------------------ summary *)
(* the clauses of [Check.check_op] that are tied to the model: (A) coherence with F7's exemption,
   (B) served from the cache, (C) database errors / one query, (D) fail fast, (F) invalidation *)
Definition covered_op (c : config) (r : rstate) (o : op) (ob : opobs) : bool :=
  coherent true r (norm o) ob && served c r (norm o) ob && db_errors r (norm o) ob
  && fail_fast_mid c r o ob && invalidated c r o ob.

(* ... and they are five of the eight conjuncts of the judgement of one operation *)
Lemma check_op_decomposes c f11 r o ob :
  check_op c true f11 r o ob
  = covered_op c r o ob && (ttls c f11 r o ob && kept r o ob && retried c r o ob).
Proof.
  unfold check_op, covered_op.
  destruct (coherent true r (norm o) ob), (served c r (norm o) ob), (db_errors r (norm o) ob),
    (fail_fast_mid c r o ob), (ttls c f11 r o ob), (invalidated c r o ob), (kept r o ob), (retried c r o ob); reflexivity.
Qed.

Lemma clauseA_sound c r s o ob :
  linked3 r s -> NoDup (map dkey (o_dump ob)) -> sagree c s o ob -> coherent true r (norm o) ob = true.
Proof.
  intros L _ (A1 & _). pose proof (linked3_linked2 r s L) as L2.
  destruct (primary_read o) eqn:P; [eapply coherent_primary_sound; eauto; apply L2|].
  destruct (index_read o) eqn:I; [eapply coherent_index_sound; eauto|].
  apply coherent_other; auto.
Qed.

Lemma covered_sound c r s o ob :
  linked3 r s -> NoDup (map dkey (o_dump ob)) -> sagree c s o ob -> covered_op c r o ob = true.
Proof.
  intros L U A. unfold covered_op.
  rewrite (clauseA_sound c r s o ob L U A), (clauseB_sound c r s o ob L U A),
    (clauseC_sound c r s o ob L U A), (clauseD_sound c r s o ob L U A), (clauseF_sound c r s o ob L U A). reflexivity.
Qed.

Section PerClause.
Variable w : wcase.
Hypothesis ND : NoDup (map fst (c_rows w)).
Hypothesis DU : dumps_unique (c_obs w).
Hypothesis AG : agrees1 w = true.

Let r0 := mkR (c_rows w) false [] [] true [] (init (c_rows w)).

Lemma agreed_history_satisfies (Q : config -> rstate -> op -> opobs -> bool) :
  (forall c r s o ob, linked3 r s -> NoDup (map dkey (o_dump ob)) -> sagree c s o ob -> Q c r o ob = true) ->
  holds_from Q (c_cfg w) (c_cfg2 w) (c_inst w) r0 (c_ops w) (c_obs w) = true.
Proof.
  intro H. eapply (agreed_holds_from Q H); [apply init_linked3; exact ND | exact DU | exact AG].
Qed.

Lemma agreed_history_satisfies_clause_A :
  holds_from (fun c r o ob => coherent true r (norm o) ob) (c_cfg w) (c_cfg2 w) (c_inst w) r0 (c_ops w) (c_obs w) = true.
Proof. apply agreed_history_satisfies. exact clauseA_sound. Qed.

Lemma agreed_history_satisfies_clause_B :
  holds_from (fun c r o ob => served c r (norm o) ob) (c_cfg w) (c_cfg2 w) (c_inst w) r0 (c_ops w) (c_obs w) = true.
Proof. apply agreed_history_satisfies. exact clauseB_sound. Qed.

Lemma agreed_history_satisfies_clause_C :
  holds_from (fun c r o ob => db_errors r (norm o) ob) (c_cfg w) (c_cfg2 w) (c_inst w) r0 (c_ops w) (c_obs w) = true.
Proof. apply agreed_history_satisfies. exact clauseC_sound. Qed.

Lemma agreed_history_satisfies_clause_D :
  holds_from (fun c r o ob => fail_fast_mid c r o ob) (c_cfg w) (c_cfg2 w) (c_inst w) r0 (c_ops w) (c_obs w) = true.
Proof. apply agreed_history_satisfies. exact clauseD_sound. Qed.

Lemma agreed_history_satisfies_clause_F :
  holds_from (fun c r o ob => invalidated c r o ob) (c_cfg w) (c_cfg2 w) (c_inst w) r0 (c_ops w) (c_obs w) = true.
Proof. apply agreed_history_satisfies. exact clauseF_sound. Qed.

Lemma agrees_implies_covered :
  holds_from covered_op (c_cfg w) (c_cfg2 w) (c_inst w) r0 (c_ops w) (c_obs w) = true.
Proof. apply agreed_history_satisfies. exact covered_sound. Qed.
End PerClause.

(* the judgement Q of one operation, at every operation of the observed history w *)
Definition judged_from (Q : config -> rstate -> op -> opobs -> bool) (w : wcase) : bool :=
  holds_from Q (c_cfg w) (c_cfg2 w) (c_inst w)
             (mkR (c_rows w) false [] [] true [] (init (c_rows w))) (c_ops w) (c_obs w).

