(* C06 - several instances.  A process usually holds several CachedConn / cache.Cache values over
   the same Redis nodes (one per model, each with its own WithExpiry / WithNotFoundExpiry); they
   share the store, the database, the cleaner and (sqlc) one process-wide single flight.  A
   history is then a list of (options of the issuing instance, operation).  Coherence does not
   depend on whose options wrote an entry: the invariant of Proofs.v is preserved by a step under
   ANY configuration, so it holds after any interleaving of any number of instances. *)
From Coq Require Import List ZArith Bool NArith.
From GZ Require Import C06.Model C06.Proofs.
Import ListNotations.
Open Scope Z_scope.

Fixpoint finalm (s : state) (cops : list (config * op)) : state :=
  match cops with
  | [] => s
  | (c, o) :: r => finalm (fst (step c s o)) r
  end.

Fixpoint all_disciplinedm (s : state) (cops : list (config * op)) : bool :=
  match cops with
  | [] => true
  | (c, o) :: r => disciplined (db s) o && all_disciplinedm (fst (step c s o)) r
  end.

(* one instance: the histories of Props.coherent_reads *)
Lemma finalm_single c ops : forall s, finalm s (map (pair c) ops) = final c s ops.
Proof. induction ops as [|o ops IH]; cbn; intro s; auto. Qed.

Lemma all_disciplinedm_single c ops : forall s,
  all_disciplinedm s (map (pair c) ops) = all_disciplined c s ops.
Proof. induction ops as [|o ops IH]; cbn; intro s; auto. rewrite IH. reflexivity. Qed.

Lemma finalm_coh cops : forall s,
  wf_db (db s) -> coh s -> all_disciplinedm s cops = true ->
  wf_db (db (finalm s cops)) /\ coh (finalm s cops).
Proof.
  induction cops as [|[c o] cops IH]; cbn; intros s W H D; auto.
  apply andb_true_iff in D. destruct D as [D1 D2].
  apply IH; auto.
  - apply step_db_wf. exact W.
  - apply step_coh; auto.
Qed.

(* the instances share the nodes: same key -> node map, same Redis type *)
Definition same_nodes (c c' : config) : Prop := cnodes c = cnodes c' /\ ccluster c = ccluster c'.

Lemma coherent_reads_instances_lemma rows cops c :
  NoDup (map fst rows) -> all_disciplinedm (init rows) cops = true ->
  Forall (fun co => same_nodes c (fst co)) cops ->
  let s := finalm (init rows) cops in
  (forall p o, take_like o p -> dirty s (KP p) = false ->
     db (fst (step c s o)) = db s /\
     (forall p' u v, oret (snd (step c s o)) = RRow p' u v -> p' = p /\ db_get p (db s) = Some (u, v)) /\
     (oret (snd (step c s o)) = RNf -> db_get p (db s) = None)) /\
  (forall p, dirty s (KP p) = false ->
     forall p' u v, oret (snd (step c s (OGet p))) = RRow p' u v -> p' = p /\ db_get p (db s) = Some (u, v)) /\
  (forall u o, qri_like o u -> dirty s (KU u) = false ->
     (forall e p, lookup (clock s) (cache s) (KU u) = Some e -> eval e = CPk p -> dirty s (KP p) = false) ->
     db (fst (step c s o)) = db s /\
     (forall p u' v, oret (snd (step c s o)) = RRow p u' v -> u' = u /\ db_get p (db s) = Some (u, v)) /\
     (oret (snd (step c s o)) = RNf -> forall p v, db_get p (db s) <> Some (u, v))).
Proof.
  intros ND D _ s.
  destruct (finalm_coh cops (init rows) ND (init_coh rows) D) as [W H]. fold s in W, H.
  split; [|split].
  - intros p o [[t ->]|[t [n ->]]] Hd; cbn [step].
    + split; [apply take_primary_db|]. apply take_primary_sound; auto.
    + split; [apply take_mid_db|]. apply take_mid_sound; auto.
  - intros p Hd. cbn. apply get_primary_sound; auto.
  - intros u o [[t ->]|[t [n ->]]] Hd Hp; cbn [step].
    + split; [apply query_index_db|]. apply query_index_sound; auto.
    + split; [apply query_index_mid_db|]. apply query_index_mid_sound; auto.
Qed.
