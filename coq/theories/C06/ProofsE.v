(* C06 - several instances.  A process usually holds several CachedConn / cache.Cache values over
   the same Redis nodes (one per model, each with its own WithExpiry / WithNotFoundExpiry); they
   share the store, the database, the cleaner and (sqlc) one process-wide single flight.  A
   history is then a list of (options of the issuing instance, operation).  Coherence does not
   depend on whose options wrote an entry: the invariant of Proofs.v is preserved by a step under
   ANY configuration, so it holds after any interleaving of any number of instances. *)
From Coq Require Import List ZArith Bool NArith Arith Lia.
From GZ Require Import C06.Model C06.Proofs.
Import ListNotations.
Open Scope Z_scope.

Fixpoint finalm (s : state) (cops : list (config * op)) : state :=
  match cops with
  | [] => s
  | (c, o) :: r => finalm (fst (step c s o)) r
  end.

Fixpoint all_disciplinedm (s : state) (cops : list (config * op)) : bool :=
  match cops with
  | [] => true
  | (c, o) :: r => disciplined (db s) o && all_disciplinedm (fst (step c s o)) r
  end.

(* one instance: the histories of Props.coherent_reads *)
Lemma finalm_single c ops : forall s, finalm s (map (pair c) ops) = final c s ops.
Proof. induction ops as [|o ops IH]; cbn; intro s; auto. Qed.

Lemma all_disciplinedm_single c ops : forall s,
  all_disciplinedm s (map (pair c) ops) = all_disciplined c s ops.
Proof. induction ops as [|o ops IH]; cbn; intro s; auto. rewrite IH. reflexivity. Qed.

Lemma finalm_coh cops : forall s,
  wf_db (db s) -> coh s -> all_disciplinedm s cops = true ->
  wf_db (db (finalm s cops)) /\ coh (finalm s cops).
Proof.
  induction cops as [|[c o] cops IH]; cbn; intros s W H D; auto.
  apply andb_true_iff in D. destruct D as [D1 D2].
  apply IH; auto.
  - apply step_db_wf. exact W.
  - apply step_coh; auto.
Qed.

(* the instances share the nodes: same key -> node map, same Redis type *)
Definition same_nodes (c c' : config) : Prop := cnodes c = cnodes c' /\ ccluster c = ccluster c'.

Definition reads_claim (c : config) (s : state) : Prop :=
  (forall p o, take_like o p -> dirty s (KP p) = false ->
     db (fst (step c s o)) = db s /\
     (forall p' u v, oret (snd (step c s o)) = RRow p' u v -> p' = p /\ db_get p (db s) = Some (u, v)) /\
     (oret (snd (step c s o)) = RNf -> db_get p (db s) = None)) /\
  (forall p, dirty s (KP p) = false ->
     forall p' u v, oret (snd (step c s (OGet p))) = RRow p' u v -> p' = p /\ db_get p (db s) = Some (u, v)) /\
  (forall u o, qri_like o u -> dirty s (KU u) = false ->
     (forall e p, lookup (clock s) (cache s) (KU u) = Some e -> eval e = CPk p -> dirty s (KP p) = false) ->
     db (fst (step c s o)) = db s /\
     (forall p u' v, oret (snd (step c s o)) = RRow p u' v -> u' = u /\ db_get p (db s) = Some (u, v)) /\
     (oret (snd (step c s o)) = RNf -> forall p v, db_get p (db s) <> Some (u, v))).

Lemma coherent_reads_cops_lemma rows cops c :
  NoDup (map fst rows) -> all_disciplinedm (init rows) cops = true ->
  reads_claim c (finalm (init rows) cops).
Proof.
  intros ND D. set (s := finalm (init rows) cops).
  destruct (finalm_coh cops (init rows) ND (init_coh rows) D) as [W H]. fold s in W, H.
  split; [|split].
  - intros p o [[t ->]|[t [n ->]]] Hd; cbn [step].
    + split; [apply take_primary_db|]. apply take_primary_sound; auto.
    + split; [apply take_mid_db|]. apply take_mid_sound; auto.
  - intros p Hd. cbn. apply get_primary_sound; auto.
  - intros u o [[t ->]|[t [n ->]]] Hd Hp; cbn [step].
    + split; [apply query_index_db|]. apply query_index_sound; auto.
    + split; [apply query_index_mid_db|]. apply query_index_mid_sound; auto.
Qed.

Lemma coherent_reads_instances_lemma rows cops c :
  NoDup (map fst rows) -> all_disciplinedm (init rows) cops = true ->
  Forall (fun co => same_nodes c (fst co)) cops ->
  let s := finalm (init rows) cops in
  (forall p o, take_like o p -> dirty s (KP p) = false ->
     db (fst (step c s o)) = db s /\
     (forall p' u v, oret (snd (step c s o)) = RRow p' u v -> p' = p /\ db_get p (db s) = Some (u, v)) /\
     (oret (snd (step c s o)) = RNf -> db_get p (db s) = None)) /\
  (forall p, dirty s (KP p) = false ->
     forall p' u v, oret (snd (step c s (OGet p))) = RRow p' u v -> p' = p /\ db_get p (db s) = Some (u, v)) /\
  (forall u o, qri_like o u -> dirty s (KU u) = false ->
     (forall e p, lookup (clock s) (cache s) (KU u) = Some e -> eval e = CPk p -> dirty s (KP p) = false) ->
     db (fst (step c s o)) = db s /\
     (forall p u' v, oret (snd (step c s o)) = RRow p u' v -> u' = u /\ db_get p (db s) = Some (u, v)) /\
     (oret (snd (step c s o)) = RNf -> forall p v, db_get p (db s) <> Some (u, v))).
Proof. intros ND D _. exact (coherent_reads_cops_lemma rows cops c ND D). Qed.

(* ------------------------------------------------------------------ independent worlds *)
(* Several WORLDS - each its own database and its own Redis servers, hence its own [state] -
   live in one process and share go-zero's process-wide machinery: one cleaner (a tick is a tick
   for every world's pending retries), one clock.  The retry of a failed invalidation is bound
   to the store it failed on ([pending] is part of the world's state, asyncRetryDelCache closes
   over the node's redis), whatever the key strings are: so the composite system is the PRODUCT
   of the worlds' models.  A history is a list of world operations and process-wide events. *)
Inductive wop :=
| WOp (w : nat) (c : config) (o : op)     (* an operation issued in world w by an instance with options c *)
| WClean (n : N)                          (* n ticks of the one cleaner *)
| WAdv (ms : Z).                          (* time passes *)

Definition cfg0 : config := mkCfg 0 0 [] false.

Fixpoint upd {A} (l : list A) (i : nat) (f : A -> A) : list A :=
  match l, i with
  | [], _ => []
  | x :: l', O => f x :: l'
  | x :: l', S i' => x :: upd l' i' f
  end.

Definition wstep (ws : list state) (x : wop) : list state :=
  match x with
  | WOp w c o => upd ws w (fun s => fst (step c s o))
  | WClean n => map (fun s => fst (step cfg0 s (OClean n))) ws
  | WAdv ms => map (fun s => fst (step cfg0 s (OAdv ms))) ws
  end.

Definition wfinal (ws : list state) (h : list wop) : list state := fold_left wstep h ws.

(* world j's own history: its operations and the process-wide events, in order *)
Fixpoint wproj (j : nat) (h : list wop) : list (config * op) :=
  match h with
  | [] => []
  | WOp w c o :: h' => if Nat.eqb w j then (c, o) :: wproj j h' else wproj j h'
  | WClean n :: h' => (cfg0, OClean n) :: wproj j h'
  | WAdv ms :: h' => (cfg0, OAdv ms) :: wproj j h'
  end.

Lemma nth_upd_same {A} (l : list A) i f d : (i < length l)%nat -> nth i (upd l i f) d = f (nth i l d).
Proof.
  revert i. induction l as [|x l IH]; intros [|i] H; cbn in *; try (exfalso; lia); auto.
  apply IH. lia.
Qed.

Lemma nth_upd_other {A} (l : list A) i j f d : i <> j -> nth j (upd l i f) d = nth j l d.
Proof.
  revert i j. induction l as [|x l IH]; intros [|i] [|j] H; cbn; auto; try congruence.
Qed.

Lemma length_upd {A} (l : list A) i f : length (upd l i f) = length l.
Proof. revert i. induction l as [|x l IH]; intros [|i]; cbn; auto. Qed.

Lemma length_wstep ws x : length (wstep ws x) = length ws.
Proof. destruct x; cbn; [apply length_upd | apply map_length | apply map_length]. Qed.

Lemma nth_map_in {A B} (f : A -> B) (l : list A) j d d' : (j < length l)%nat -> nth j (map f l) d' = f (nth j l d).
Proof.
  revert j. induction l as [|x l IH]; intros [|j] H; cbn in *; try (exfalso; lia); auto. apply IH. lia.
Qed.

(* frame: an operation in world w leaves every other world exactly as it was *)
Lemma wstep_frame ws w c o j d : w <> j -> nth j (wstep ws (WOp w c o)) d = nth j ws d.
Proof. intro H. cbn. apply nth_upd_other. exact H. Qed.

(* the composite system is the product: world j of the final state is the state its own model
   reaches on its own history, whatever the other worlds did in between - same key strings,
   overlapping outages, pending retries included *)
Lemma worlds_independent_lemma : forall h ws j d, (j < length ws)%nat ->
  nth j (wfinal ws h) d = finalm (nth j ws d) (wproj j h).
Proof.
  induction h as [|x h IH]; intros ws j d Hj; [reflexivity|].
  unfold wfinal in *. cbn [fold_left]. rewrite IH by (rewrite length_wstep; exact Hj).
  destruct x as [w c o|n|ms]; cbn [wproj].
  - destruct (Nat.eqb w j) eqn:E.
    + apply PeanoNat.Nat.eqb_eq in E. subst w. cbn [wstep finalm]. rewrite nth_upd_same by exact Hj. reflexivity.
    + apply PeanoNat.Nat.eqb_neq in E. rewrite wstep_frame by exact E. reflexivity.
  - cbn [wstep finalm]. rewrite (nth_map_in _ ws j d d Hj). reflexivity.
  - cbn [wstep finalm]. rewrite (nth_map_in _ ws j d d Hj). reflexivity.
Qed.

(* hence every world keeps C06's guarantee on its own: coherent reads after any composite history *)
Lemma coherent_reads_worlds_lemma : forall rowss h j rows c d,
  nth_error rowss j = Some rows -> NoDup (map fst rows) ->
  all_disciplinedm (init rows) (wproj j h) = true ->
  reads_claim c (nth j (wfinal (map init rowss) h) d).
Proof.
  intros rowss h j rows c d Hn ND D.
  assert (Hj : (j < length (map init rowss))%nat).
  { rewrite map_length. apply nth_error_Some. intro E0. pose proof (eq_trans (eq_sym Hn) E0) as X. discriminate X. }
  rewrite (worlds_independent_lemma h (map init rowss) j d Hj).
  assert (E : nth j (map init rowss) d = init rows).
  { rewrite (nth_map_in init rowss j rows d) by (rewrite map_length in Hj; exact Hj).
    f_equal. apply nth_error_nth. exact Hn. }
  rewrite E. apply coherent_reads_cops_lemma; assumption.
Qed.
