(* C06 - load suppression, stated against the interleaving model of SingleFlight (C07).

   cacheNode.doTake runs its whole miss path - GET, database query, SETEX / SETNX - inside
   [c.barrier.DoEx(key, closure)].  In C07's model a thread's script entry
   [mkOp GSF k val err] is one call DoEx(k, fn) whose fn, IF it runs, returns (val, err); for
   C06, k is the cache key, fn is doTake's closure and (val, err) the outcome of one
   [Model.step c s (OTake p t)] on the store as it is when the closure runs (whatever that
   is: the scripts are arbitrary).  Everything below holds for EVERY set of readers, every
   key and EVERY schedule of their atomic actions (no bound). *)
From Coq Require Import List ZArith Bool Arith Lia.
From GZ Require Import Lib.Sched.
From GZ Require Import C07.Model C07.Proofs.
From GZ Require C06.Model C06.ProofsB.
Import ListNotations.

(* the number of database queries one run of doTake's closure makes is at most one *)
Lemma closure_queries c s p t :
  (C06.Model.oqi (snd (C06.Model.step c s (C06.Model.OTake p t)))
   + C06.Model.oqp (snd (C06.Model.step c s (C06.Model.OTake p t))) <= 1)%Z.
Proof. pose proof (C06.ProofsB.step_queries c s (C06.Model.OTake p t)). lia. Qed.

(* (1) at most one closure - hence at most one database query - is in progress per key, at
       every step of every schedule;
   (2) every read that has returned received the (val, err) of ONE run of the closure, the
       one led by some reader tL of the same key: it ran its own closure iff it is that
       leader ([rfresh]), and then exactly once; a reader that shared the run made no query
       at all ([rruns r = 0]) and joined while the leader's call was still in progress
       (nothing is retained from a call that had returned);
   (3) readers that shared a run got identical results, and only one of them ran it. *)
Lemma load_suppression_sf_lemma : forall scripts sched k,
  let s := exec scripts sched in
  running GSF k s <= 1 /\
  (forall t th r o,
     nth_error (threads s) t = Some th -> In r (tres th) ->
     nth_error (tscript th) (rop r) = Some o -> ogrp o = GSF -> okey o = k ->
     let c := heap s (rcid r) in
     exists thL oL,
       nth_error (threads s) (fst (clead c)) = Some thL /\
       nth_error (tscript thL) (snd (clead c)) = Some oL /\
       ogrp oL = GSF /\ okey oL = k /\
       (panics oL = false -> (rval r, rerr r) = (oval oL, oerr oL)) /\
       (rfresh r = true -> clead c = (t, rop r) /\ rruns r = 1) /\
       (rfresh r = false -> fst (clead c) <> t /\ rruns r = 0 /\ cinvt c <= rjoin r /\
                            exists rt, cret c = Some rt /\ rjoin r < rt)) /\
  (forall t1 t2 th1 th2 r1 r2 o1 o2,
     nth_error (threads s) t1 = Some th1 -> nth_error (threads s) t2 = Some th2 ->
     In r1 (tres th1) -> In r2 (tres th2) ->
     nth_error (tscript th1) (rop r1) = Some o1 -> nth_error (tscript th2) (rop r2) = Some o2 ->
     ogrp o1 = GSF -> ogrp o2 = GSF -> rcid r1 = rcid r2 ->
     shared (rval r1, rerr r1) = shared (rval r2, rerr r2) /\
     (rfresh r1 = true -> rfresh r2 = true -> t1 = t2 /\ rop r1 = rop r2)).
Proof.
  intros scripts sched k s. pose proof (exec_inv scripts sched) as HI. fold s in HI.
  split; [apply running_le1; exact HI|]. split.
  - intros t th r o Ht Hr Ho Hg Hk c.
    destruct (recs_ok s t th r HI Ht Hr)
      as (o' & A0 & A1 & A2 & A3 & A4 & A5 & A6 & A7 & A8 & A9 & A10 & A11 & A12 & A13).
    rewrite Ho in A0. inversion A0; subst o'. clear A0.
    assert (Hn : cgrp (heap s (rcid r)) <> GRM) by (rewrite A3, Hg; discriminate).
    destruct (exec_value s (rcid r) HI A2 Hn) as (thL & oL & B1 & B2 & B3 & B4 & B5).
    exists thL, oL. subst c.
    split; [exact B1|]. split; [exact B2|].
    split; [rewrite B3, A3; exact Hg|]. split; [rewrite B4, A4; exact Hk|].
    split.
    { intros Hnp. destruct (sf_result_of_leader s t th r o HI Ht Hr Ho Hg) as (thL' & oL' & C1 & C2 & _ & _ & _ & C6).
      rewrite B1 in C1. inversion C1; subst thL'. rewrite B2 in C2. inversion C2; subst oL'. exact (C6 Hnp). }
    split.
    + intro F. destruct (A10 F) as (L1 & L2 & _). split; assumption.
    + intro F. destruct (A11 F) as (L1 & L2 & L3 & L4). repeat split; assumption.
  - intros t1 t2 th1 th2 r1 r2 o1 o2 H1 H2 I1 I2 O1 O2 G1 G2 Ec.
    destruct (recs_ok s t1 th1 r1 HI H1 I1)
      as (o1' & A0 & _ & _ & _ & _ & _ & _ & _ & _ & A9 & A10 & _).
    destruct (recs_ok s t2 th2 r2 HI H2 I2)
      as (o2' & B0 & _ & _ & _ & _ & _ & _ & _ & _ & B9 & B10 & _).
    rewrite O1 in A0. inversion A0; subst o1'. rewrite O2 in B0. inversion B0; subst o2'.
    split.
    + assert (V1 : cval (heap s (rcid r1)) = Some (shared (rval r1, rerr r1))) by (apply A9; rewrite G1; discriminate).
      assert (V2 : cval (heap s (rcid r2)) = Some (shared (rval r2, rerr r2))) by (apply B9; rewrite G2; discriminate).
      rewrite Ec in V1. rewrite V1 in V2. inversion V2. reflexivity.
    + intros F1 F2. destruct (A10 F1) as (L1 & _). destruct (B10 F2) as (L2 & _).
      rewrite Ec in L1. rewrite L1 in L2. inversion L2. auto.
Qed.

(* non-vacuity: three readers of one key; reader 1 and 2 join while reader 0's closure runs;
   all get reader 0's result, only reader 0 ran its closure *)
Definition ls_scripts : list (list op) := [[mkOp GSF 9 101 0]; [mkOp GSF 9 202 0]; [mkOp GSF 9 303 0]].
Definition ls_sched : list nat := [0; 0; 0; 1; 1; 2; 2; 0; 0; 0; 1; 2].

Example ls_example :
  map (fun th => map (fun r => (rval r, rfresh r, rruns r)) (tres th)) (threads (exec ls_scripts ls_sched))
  = [[(101%Z, true, 1)]; [(101%Z, false, 0)]; [(101%Z, false, 0)]]
  /\ running GSF 9%Z (exec ls_scripts [0; 0; 0; 1; 1; 2; 2]) = 1.
Proof. vm_compute. split; reflexivity. Qed.
