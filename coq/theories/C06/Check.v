(* C06 - correspondence / property evaluation on histories observed on the
   implementation.  Executable only.

   [agrees]  : Model.step reproduces, operation by operation, the returned class and row,
               the number of index / primary database queries, and the complete contents
               (value class + TTL) of the cache servers after the operation.
   [prop_ok] : the property, evaluated directly on what the implementation did, against a
               reference database that is updated by the Execs that reported success:
     (A) coherence   - in a disciplined history a read that returns a row / not-found
                       returns what the reference database holds;
     (B) served      - a live entry / placeholder is answered with 0 queries and leaves
                       the store untouched;
     (C) db errors   - are returned (and only then), leave the store untouched; at most
                       one query per operation;
     (D) fail fast   - a read whose cache node is down reports the store's error with 0
                       queries;
     (E) TTLs        - every entry that appears or changes carries a finite TTL, a whole
                       number t >= 1 of seconds inside the +/-5 % band (the property's own
                       constant, not the source's) of the expiry it derives
                       from (configured expiry, not-found expiry, expiry + 5 s for the
                       primary written by an index load, the requested expiry); nothing
                       else changes; time only shortens TTLs;
     (F) invalidation- after a successful Exec / Del every key on a reachable node is gone;
                       an Exec whose context ended while its first DEL was on the wire: the keys
                       of that DEL are gone, the others are owed to the cleaner (clause H).
   The flags of [prop_gen] switch on the two exemptions that correspond to the known
   findings F7 (a read of a key with a failed invalidation outstanding is not required
   to be coherent) and F11 (an EXPLICIT SetWithExpire with expiry <= 0 may create a
   persistent key - nothing else may: not an option WithExpiry(0) / WithNotFoundExpiry(0),
   which newOptions must replace by the defaults, not a jittered expiry); [prop_ok] has both
   off. *)
From Coq Require Import List ZArith Bool NArith.
From GZ Require Export Lib.CheckLib C06.Model C06.Codec.
Import ListNotations.
Open Scope Z_scope.

(* [o_seen]: every primary key the application's callbacks (keyer, primaryQuery) were handed
   during the operation, in order, as the Go value they received *)
Record opobs := mkOO { o_ret : ret; o_qi : Z; o_qp : Z; o_seen : list goval; o_dump : list dump_entry }.

(* [c_str]: the table's primary key is a string (identified with [scode] of its bytes) *)
(* [c_cfg2], [c_inst]: a second CachedConn / cache.Cache instance with its own options over the
   same nodes; the i-th operation is issued on it iff the i-th flag is true ([c_inst] shorter
   than [c_ops]: the remaining operations go to the first instance) *)
Record wcase := mkCase
  { c_cfg : config; c_cfg2 : config; c_inst : list bool; c_str : bool; c_rows : table;
    c_ops : list op; c_obs : list opobs }.

(* Wire form of the observations.  The contents of the servers after an operation are handed over
   in full or as the difference to the contents after the previous operation (TTLs of entries
   that stay shortened uniformly by [shift] ms - an OAdv -, keys [del] gone, entries [set] new or
   changed): a lossless re-encoding done by the renderer (which falls back to [DFull] whenever the
   difference is not smaller), decoded here before anything is compared or judged.  It only keeps
   the case terms small: parsing them dominated the cost of a check. *)
Inductive wdump :=
| DFull (d : list dump_entry)
| DDelta (shift : Z) (del : list key) (set : list dump_entry).

Definition has_key (k : key) (l : list dump_entry) : bool :=
  existsb (fun e : dump_entry => key_eqb k (fst (fst e))) l.

Definition undelta (prev : list dump_entry) (x : wdump) : list dump_entry :=
  match x with
  | DFull d => d
  | DDelta shift del set =>
    filter (fun e : dump_entry => negb (mem_key (fst (fst e)) del) && negb (has_key (fst (fst e)) set))
           (map (fun e : dump_entry => let '(k, v, t) := e in (k, v, if t =? 0 then 0 else t - shift)) prev)
    ++ set
  end.

Record wobs := mkWO { w_ret : ret; w_qi : Z; w_qp : Z; w_seen : list goval; w_dump : wdump }.

Fixpoint decode (prev : list dump_entry) (l : list wobs) : list opobs :=
  match l with
  | [] => []
  | w :: l' =>
    let d := undelta prev (w_dump w) in
    mkOO (w_ret w) (w_qi w) (w_qp w) (w_seen w) d :: decode d l'
  end.

Definition mkCaseW (cfg cfg2 : config) (insts : list bool) (str : bool) (rows : table) (ops : list op)
           (wl : list wobs) : wcase :=
  mkCase cfg cfg2 insts str rows ops (decode [] wl).

(* A case is a list of WORLDS: independent (database, Redis servers, instances) living in one
   process - sharing go-zero's process-wide machinery, above all the cleaner's timing wheel -
   and using the same key strings.  The executor interleaves their operations; every world's
   history is that world's own operations plus the process-wide events (cleaner ticks, time) in
   the order they happened, with the contents of ITS servers after each of them.  Each world is
   compared with its own instance of the model and judged on its own: nothing that happens in
   another world may show (ProofsE.worlds_are_independent). *)
Definition case := list wcase.

Definition pick (c1 c2 : config) (insts : list bool) : config :=
  match insts with true :: _ => c2 | _ => c1 end.

(* ------------------------------------------------------------------ canonical forms *)
Definition key_leb (a b : key) : bool :=
  match a, b with
  | KP x, KP y => x <=? y
  | KU x, KU y => x <=? y
  | KP _, KU _ => true
  | KU _, KP _ => false
  end.

Fixpoint insert_de (x : dump_entry) (l : list dump_entry) : list dump_entry :=
  match l with
  | [] => [x]
  | y :: l' => if key_leb (fst (fst x)) (fst (fst y)) then x :: l else y :: insert_de x l'
  end.
Definition sort_dump (l : list dump_entry) : list dump_entry := fold_right insert_de [] l.

Definition cval_eqb (a b : cval) : bool :=
  match a, b with
  | CRow u v, CRow u' v' => (u =? u') && (v =? v')
  | CPk p, CPk p' => p =? p'
  | CHole, CHole => true
  | _, _ => false
  end.

Definition de_eqb (a b : dump_entry) : bool :=
  let '(k, v, t) := a in let '(k', v', t') := b in
  key_eqb k k' && cval_eqb v v' && (t =? t').

Definition dump_eqb (a b : list dump_entry) : bool := list_eqb de_eqb (sort_dump a) (sort_dump b).

Definition ret_eqb (a b : ret) : bool :=
  match a, b with
  | ROk, ROk | RNf, RNf | RDbErr, RDbErr | RCErr, RCErr => true
  | RRow p u v, RRow p' u' v' => (p =? p') && (u =? u') && (v =? v')
  | _, _ => false
  end.

(* ------------------------------------------------------------------ agrees *)
(* the primary keys keyer / primaryQuery are handed by QueryRowIndexCtx, in order: on an index
   miss the native key of the row found (keyer, for the primary's SetWithExpire); on an index
   hit the key decoded from the entry (keyer, then primaryQuery if the primary entry is
   missing).  The model identifies them (Codec.through_cache, CodecProofs.primary_key_roundtrip):
   the value handed over must DENOTE the key the entry was written for. *)
Definition seen (c : config) (s : state) (o : op) (m : obs) : list Z :=
  match o with
  | OQri u _ | OQriMid u _ _ =>
    if key_down c s (KU u) then [] else
    match lookup (clock s) (cache s) (KU u) with
    | Some (mkEntry (CPk p) _) => p :: (if 0 <? oqp m then [p] else [])
    | Some _ => []
    | None => if dbFault s then [] else
              match db_by_u u (db s) with Some (p, _) => [p] | None => [] end
    end
  | _ => []
  end.

Fixpoint seen_eqb (str : bool) (l : list Z) (gs : list goval) : bool :=
  match l, gs with
  | [], [] => true
  | p :: l', g :: gs' =>
    match gcode str g with Some q => (p =? q) && seen_eqb str l' gs' | None => false end
  | _, _ => false
  end.

Fixpoint agrees_from (str : bool) (c1 c2 : config) (insts : list bool) (s : state) (ops : list op)
         (obs : list opobs) : bool :=
  match ops, obs with
  | [], [] => true
  | o :: ops', ob :: obs' =>
    let c := pick c1 c2 insts in
    let '(s', m) := step c s o in
    ret_eqb (oret m) (o_ret ob) && (oqi m =? o_qi ob) && (oqp m =? o_qp ob)
    && seen_eqb str (seen c s o m) (o_seen ob)
    && dump_eqb (dump s') (o_dump ob) && agrees_from str c1 c2 (tl insts) s' ops' obs'
  | _, _ => false
  end.

Definition agrees1 (c : wcase) : bool :=
  agrees_from (c_str c) (c_cfg c) (c_cfg2 c) (c_inst c) (init (c_rows c)) (c_ops c) (c_obs c).

Fixpoint model_trace (c1 c2 : config) (insts : list bool) (s : state) (ops : list op)
  : list (obs * list dump_entry) :=
  match ops with
  | [] => []
  | o :: ops' => let '(s', m) := step (pick c1 c2 insts) s o in
                 (m, sort_dump (dump s')) :: model_trace c1 c2 (tl insts) s' ops'
  end.
Definition agrees (c : case) : bool := forallb agrees1 c.

Definition model_obs1 (c : wcase) := model_trace (c_cfg c) (c_cfg2 c) (c_inst c) (init (c_rows c)) (c_ops c).

Definition model_obs (c : case) := map model_obs1 c.

(* ------------------------------------------------------------------ the property *)
Record rstate := mkR
  { r_db : table;                  (* reference database *)
    r_dbf : bool; r_cf : list Z;   (* injected outages *)
    r_prev : list dump_entry;      (* store contents before the operation *)
    r_disc : bool;                 (* history disciplined so far *)
    r_owed : list (key * Z);       (* keys named by an Exec / Del while their node was down (the
                                      invalidation is owed by the cleaner), with the number of
                                      cleaner ticks until the first retry; 0 = that retry is past *)
    r_ms : state }.                (* model state, used ONLY for the F7 exemption (dirty keys) *)

Fixpoint dget (d : list dump_entry) (k : key) : option (cval * Z) :=
  match d with
  | [] => None
  | (k', v, t) :: d' => if key_eqb k k' then Some (v, t) else dget d' k
  end.

Definition dmem (e : dump_entry) (d : list dump_entry) : bool := existsb (de_eqb e) d.

Section Checks.
Variable c : config.
Variables f7 f11 : bool.

Definition down (r : rstate) (k : key) : bool := existsb (Z.eqb (node_of c k)) (r_cf r).

(* a mid-operation outage op is checked like the plain op, plus what its outage allows *)
Definition norm (o : op) : op :=
  match o with OTakeMid p t _ => OTake p t | OQriMid u t _ => OQri u t | _ => o end.
Definition mid_node (o : op) : option Z :=
  match o with OTakeMid _ _ n | OQriMid _ _ n => Some n | _ => None end.

Definition is_answer (v : option (cval * Z)) : bool :=
  match v with Some (CRow _ _, _) | Some (CHole, _) => true | _ => false end.

Definition row_is (t : table) (p u v : Z) : bool := row_eqb (db_get p t) (Some (u, v)).

(* (A) *)
Definition coherent (r : rstate) (o : op) (ob : opobs) : bool :=
  if negb (r_disc r) then true else
  match o with
  | OTake p _ | OGet p =>
    if f7 && dirty (r_ms r) (KP p) then true else
    match o_ret ob with
    | RRow p' u v => (p' =? p) && row_is (r_db r) p u v
    | RNf => match o with OGet _ => true | _ => row_eqb (db_get p (r_db r)) None end
    | _ => true
    end
  | OQri u _ =>
    if f7 && (dirty (r_ms r) (KU u)
              || match dget (r_prev r) (KU u) with
                 | Some (CPk p, _) => dirty (r_ms r) (KP p)
                 | _ => false
                 end) then true else
    match o_ret ob with
    | RRow p u' v => (u' =? u) && row_is (r_db r) p u v
    | RNf => match db_by_u u (r_db r) with None => true | Some _ => false end
    | _ => true
    end
  | _ => true
  end.

Definition untouched (r : rstate) (ob : opobs) : bool := dump_eqb (r_prev r) (o_dump ob).
Definition no_query (ob : opobs) : bool := (o_qi ob =? 0) && (o_qp ob =? 0).

(* (B) *)
Definition served (r : rstate) (o : op) (ob : opobs) : bool :=
  match o with
  | OTake p _ =>
    if negb (down r (KP p)) && is_answer (dget (r_prev r) (KP p))
    then no_query ob && untouched r ob else true
  | OQri u _ =>
    if down r (KU u) then true else
    match dget (r_prev r) (KU u) with
    | Some (CHole, _) => no_query ob && untouched r ob
    | Some (CPk p, _) =>
      if negb (down r (KP p)) && is_answer (dget (r_prev r) (KP p))
      then no_query ob && untouched r ob else true
    | _ => true
    end
  | OGet _ => no_query ob && untouched r ob
  | _ => true
  end.

Definition is_read (o : op) : bool :=
  match o with OTake _ _ | OQri _ _ | OGet _ => true | _ => false end.

Definition is_dberr (x : ret) : bool := match x with RDbErr => true | _ => false end.
Definition is_cerr (x : ret) : bool := match x with RCErr => true | _ => false end.

(* (C) *)
Definition db_errors (r : rstate) (o : op) (ob : opobs) : bool :=
  (o_qi ob + o_qp ob <=? 1) && (0 <=? o_qi ob) && (0 <=? o_qp ob)
  && (if is_dberr (o_ret ob) then untouched r ob else true)
  && (if is_read o then
        Bool.eqb (is_dberr (o_ret ob)) (r_dbf r && (0 <? o_qi ob + o_qp ob))
      else true)
  && match o with
     | OExec _ _ _ | OExecDie _ _ _ _ => if r_dbf r then is_dberr (o_ret ob) && untouched r ob else true
     | _ => true
     end.

(* (D) *)
Definition fail_fast (r : rstate) (o : op) (ob : opobs) : bool :=
  let ff := is_cerr (o_ret ob) && no_query ob && untouched r ob in
  match o with
  | OTake p _ | OGet p => if down r (KP p) then ff else negb (is_cerr (o_ret ob))
  | OQri u _ =>
    if down r (KU u) then ff else
    match dget (r_prev r) (KU u) with
    | Some (CPk p, _) => if down r (KP p) then ff else negb (is_cerr (o_ret ob))
    | Some _ => negb (is_cerr (o_ret ob))
    | None => if is_cerr (o_ret ob) then negb (match r_cf r with [] => true | _ => false end)
                                         && untouched r ob
              else true
    end
  | OSet p _ _ _ | OSetEx p _ _ _ =>
    if down r (KP p) then is_cerr (o_ret ob) && untouched r ob else negb (is_cerr (o_ret ob))
  | _ => true
  end.

(* (E) *)
(* the band of the PROPERTY TEXT (+/-5 %, rounded up to seconds) - deliberately not the
   model's [ttl_ok], which follows the expiryDeviation of the source *)
Definition p_lo (b : Z) : Z := cdiv (19 * b / 20) sec.
Definition p_hi (b : Z) : Z := cdiv (21 * b / 20) sec.
Definition band (b t : Z) : bool := (1 <=? t) && (p_lo b <=? t) && (t <=? p_hi b).

Definition new_ok (r : rstate) (o : op) (mid : option Z) (ob : opobs) (e : dump_entry) : bool :=
  let '(k, v, ttl) := e in
  if ttl =? 0 then
    (* a persistent key: never - except, under F11's exemption, the entry of an EXPLICIT
       SetWithExpire whose requested expiry is <= 0, and nothing else *)
    f11 &&
    match o with
    | OSetEx p u w d => (d <=? 0) && key_eqb k (KP p) && cval_eqb v (CRow u w)
    | _ => false
    end
  else
    let t := ttl / 1000 in
    (ttl mod 1000 =? 0) && (1 <=? t) &&
    match o with
    | OTake p _ =>
      key_eqb k (KP p) &&
      match v with CRow _ _ => band (expiry_of c) t | CHole => band (nf_of c) t | CPk _ => false end
    | OQri u _ =>
      match k, v with
      | KU u', CPk _ => (u' =? u) && band (expiry_of c) t
      | KU u', CHole => (u' =? u) && band (nf_of c) t
      | KP p, CRow _ _ =>
        if o_qi ob =? 1
        then (* written by the index load: expires exactly the gap after the index entry *)
          (0 <? safe_gap)
          && band (expiry_of c) (t - safe_gap)
          && match dget (o_dump ob) (KU u) with
             | Some (CPk p', ti) => (p' =? p) && (ttl =? ti + 1000 * safe_gap)
             | Some _ => false
             | None => (* the index SET failed: only under an outage injected on its node *)
               match mid with Some n => node_of c (KU u) =? n | None => false end
             end
        else band (expiry_of c) t
      | KP _, CHole => band (nf_of c) t
      | _, _ => false
      end
    | OSet p u w _ => key_eqb k (KP p) && cval_eqb v (CRow u w) && band (expiry_of c) t
    | OSetEx p u w d => key_eqb k (KP p) && cval_eqb v (CRow u w) && (0 <? d) && (t =? cdiv d sec)
    | _ => false
    end.

Definition ttls (r : rstate) (o : op) (ob : opobs) : bool :=
  match o with
  | OAdv ms =>
    forallb (fun e : dump_entry =>
               let '(k, v, ttl) := e in
               if ttl =? 0 then dmem e (r_prev r)
               else (0 <? ttl) && dmem (k, v, ttl + Z.max 0 ms) (r_prev r))
            (o_dump ob)
  | _ =>
    forallb (fun e => dmem e (r_prev r) || new_ok r (norm o) (mid_node o) ob e) (o_dump ob)
  end.

(* (F) *)
Definition invalidated (r : rstate) (o : op) (ob : opobs) : bool :=
  let gone keys :=
    forallb (fun k => down r k || match dget (o_dump ob) k with None => true | Some _ => false end) keys in
  match o, o_ret ob with
  | OExec _ _ keys, ROk => gone keys
  | ODel keys, _ => gone keys
  (* the context ended while the first DEL (to node n0) was on the wire: that DEL took effect *)
  | OExecDie _ _ keys n0, ROk => gone (fst (die_split c keys n0))
  | _, _ => true
  end.

(* (G) containment of deletions: the store's time only moves with OAdv, so outside OAdv an
   entry disappears only because this very Exec / Del names it, or - during cleaner ticks -
   because its invalidation is owed.  Nothing else (no key of another node, no key that was
   never named) may be deleted. *)
Definition owed (r : rstate) (k : key) : bool := existsb (fun kz => key_eqb k (fst kz)) (r_owed r).

Definition kept (r : rstate) (o : op) (ob : opobs) : bool :=
  match o with
  | OAdv _ => true
  | _ =>
    forallb (fun e : dump_entry =>
               let '(k, _, _) := e in
               match dget (o_dump ob) k with
               | Some _ => true
               | None =>
                 match o with
                 | OExec _ _ keys | ODel keys | OExecDie _ _ keys _ => mem_key k keys
                 | OClean _ => owed r k
                 | _ => false
                 end
               end)
            (r_prev r)
  end.

(* (H) the retry: an owed key whose first retry falls into these ticks, with its node up, is
   gone afterwards ("failed deletes are retried by the cleaner") *)
Definition retried (r : rstate) (o : op) (ob : opobs) : bool :=
  match o with
  | OClean n =>
    forallb (fun kz : key * Z =>
               let (k, z) := kz in
               if (0 <? z) && (z <=? Z.of_N n) && negb (down r k)
               then match dget (o_dump ob) k with None => true | Some _ => false end
               else true)
            (r_owed r)
  | _ => true
  end.

(* with an outage injected during the index query, the primary's SET may fail: reported *)
Definition fail_fast_mid (r : rstate) (o : op) (ob : opobs) : bool :=
  match o with
  | OQriMid u _ _ =>
    if down r (KU u) then fail_fast r (norm o) ob else
    match dget (r_prev r) (KU u) with
    | None => if is_cerr (o_ret ob) then untouched r ob && (o_qi ob =? 1) else true
    | Some _ => fail_fast r (norm o) ob
    end
  | _ => fail_fast r (norm o) ob
  end.

Definition check_op (r : rstate) (o : op) (ob : opobs) : bool :=
  coherent r (norm o) ob && served r (norm o) ob && db_errors r (norm o) ob && fail_fast_mid r o ob
  && ttls r o ob && invalidated r o ob && kept r o ob && retried r o ob.

(* the keys of this Exec / Del whose node is down: their invalidation is now owed *)
Definition newly_owed (r : rstate) (keys : list key) : list (key * Z) :=
  map (fun k => (k, trem (first_task [] 0))) (filter (down r) keys).

(* the keys of an invalidation whose context ended during its first DEL: the later DELs never
   went out, their keys are owed whatever the state of their node *)
Definition died_owed (keys : list key) (n0 : Z) : list (key * Z) :=
  map (fun k => (k, trem (first_task [] 0))) (flat_map tkeys (snd (die_split c keys n0))).

Definition owed_after (r : rstate) (o : op) (ob : opobs) : list (key * Z) :=
  match o, o_ret ob with
  | OExec _ _ keys, ROk => r_owed r ++ newly_owed r keys
  | OExecDie _ _ keys n0, ROk =>
    r_owed r ++ newly_owed r (fst (die_split c keys n0)) ++ died_owed keys n0
  | ODel keys, _ => r_owed r ++ newly_owed r keys
  | OClean n, _ => map (fun kz : key * Z => (fst kz, Z.max 0 (snd kz - Z.of_N n))) (r_owed r)
  | _, _ => r_owed r
  end.

Definition next (r : rstate) (o : op) (ob : opobs) : rstate :=
  let disc := r_disc r && disciplined (r_db r) o in
  let ms := fst (step c (r_ms r) o) in
  let ow := owed_after r o ob in
  match o, o_ret ob with
  | OExec p (Some w) _, ROk | OExecDie p (Some w) _ _, ROk =>
    mkR (db_put p w (r_db r)) (r_dbf r) (r_cf r) (o_dump ob) disc ow ms
  | OExec p None _, ROk | OExecDie p None _ _, ROk =>
    mkR (db_del p (r_db r)) (r_dbf r) (r_cf r) (o_dump ob) disc ow ms
  | ODbFault b, _ => mkR (r_db r) b (r_cf r) (o_dump ob) disc ow ms
  | OCFault n b, _ =>
    mkR (r_db r) (r_dbf r) (if b then n :: r_cf r else filter (fun m => negb (m =? n)) (r_cf r))
        (o_dump ob) disc ow ms
  | OTakeMid _ _ n, _ | OQriMid _ _ n, _ =>
    (* the outage is injected by the query callback: only if a query ran *)
    mkR (r_db r) (r_dbf r) (if 0 <? o_qi ob + o_qp ob then n :: r_cf r else r_cf r) (o_dump ob) disc ow ms
  | _, _ => mkR (r_db r) (r_dbf r) (r_cf r) (o_dump ob) disc ow ms
  end.

End Checks.

(* every operation is judged with the options of the instance it was issued on *)
Fixpoint check_from (c1 c2 : config) (insts : list bool) (f7 f11 : bool) (r : rstate) (ops : list op)
         (obs : list opobs) : bool :=
  match ops, obs with
  | [], [] => true
  | o :: ops', ob :: obs' =>
    let c := pick c1 c2 insts in
    check_op c f7 f11 r o ob && check_from c1 c2 (tl insts) f7 f11 (next c r o ob) ops' obs'
  | _, _ => false
  end.

Definition prop_gen1 (f7 f11 : bool) (c : wcase) : bool :=
  check_from (c_cfg c) (c_cfg2 c) (c_inst c) f7 f11
             (mkR (c_rows c) false [] [] true [] (init (c_rows c))) (c_ops c) (c_obs c).

Definition prop_gen (f7 f11 : bool) (c : case) : bool := forallb (prop_gen1 f7 f11) c.

Definition prop_ok (c : case) : bool := prop_gen false false c.

(* which exemption(s) a failing history needs: (F7 alone suffices, F11 alone suffices,
   both together suffice) - used to recognise the known findings, nothing else *)
Definition classify (c : case) : bool * bool * bool :=
  (prop_gen true false c, prop_gen false true c, prop_gen true true c).

(* diagnostics for replay files: index of the first operation whose check fails and which
   of (A coherent, B served, C db_errors, D fail_fast, E ttls, F invalidated, G kept, H retried) hold there *)
Fixpoint first_fail (c1 c2 : config) (insts : list bool) (r : rstate) (ops : list op) (obs : list opobs) (i : Z)
  : option (Z * list bool) :=
  match ops, obs with
  | o :: ops', ob :: obs' =>
    let c := pick c1 c2 insts in
    if check_op c false false r o ob then first_fail c1 c2 (tl insts) (next c r o ob) ops' obs' (i + 1)
    else Some (i, [coherent false r (norm o) ob; served c r (norm o) ob; db_errors r (norm o) ob;
                   fail_fast_mid c r o ob; ttls c false r o ob; invalidated c r o ob;
                   kept r o ob; retried c r o ob])
  | _, _ => None
  end.

Definition diagnose1 (c : wcase) : option (Z * list bool) :=
  first_fail (c_cfg c) (c_cfg2 c) (c_inst c) (mkR (c_rows c) false [] [] true [] (init (c_rows c))) (c_ops c) (c_obs c) 0.

(* first failing world: (world, (operation index within that world's history, clauses)) *)
Fixpoint diagnose_from (w : Z) (c : case) : option (Z * (Z * list bool)) :=
  match c with
  | [] => None
  | x :: c' => match diagnose1 x with Some d => Some (w, d) | None => diagnose_from (w + 1) c' end
  end.
Definition diagnose (c : case) := diagnose_from 0 c.
