(* C14 — proofs, part D: the decidable check that ./check applies to what the real code did.
   (a) the model's own runs always pass it (it is not stricter than what is proved);
   (b) passing it means the property, read off the observed driver log. *)
From Coq Require Import List ZArith Bool Lia.
From GZ Require Import C14.Model C14.Check C14.ProofsA C14.ProofsB C14.ProofsC.
Import ListNotations.
Open Scope Z_scope.

(* ---- reflexivity of the comparison functions ---------------------------------------- *)
Lemma outcome_eqb_refl : forall a, outcome_eqb a a = true. Proof. destruct a; reflexivity. Qed.
Lemma skind_eqb_refl : forall a, skind_eqb a a = true. Proof. destruct a; reflexivity. Qed.
Lemma call_eqb_refl : forall a, call_eqb a a = true.
Proof. destruct a; cbn; rewrite ?Z.eqb_refl, ?skind_eqb_refl; reflexivity. Qed.
Lemma ekind_eqb_refl : forall a, ekind_eqb a a = true. Proof. destruct a; reflexivity. Qed.
Lemma emode_eqb_refl : forall a, emode_eqb a a = true. Proof. destruct a; reflexivity. Qed.
Lemma errval_eqb_refl : forall a, errval_eqb a a = true.
Proof. intros a. unfold errval_eqb. rewrite ekind_eqb_refl, emode_eqb_refl. reflexivity. Qed.
Lemma logent_eqb_refl : forall a, logent_eqb a a = true.
Proof.
  intros a. unfold logent_eqb.
  rewrite Nat.eqb_refl, Z.eqb_refl, call_eqb_refl, outcome_eqb_refl, errval_eqb_refl. reflexivity.
Qed.
Lemma berr_eqb_refl : forall a, berr_eqb a a = true.
Proof. destruct a; cbn; rewrite ?Z.eqb_refl, ?errval_eqb_refl, ?eqb_reflx; reflexivity. Qed.
Lemma bout_eqb_refl : forall a, bout_eqb a a = true.
Proof. destruct a; cbn; rewrite ?berr_eqb_refl; reflexivity. Qed.
Lemma eobs_eqb_refl : forall a, eobs_eqb a a = true.
Proof.
  intros a. unfold eobs_eqb. rewrite !eqb_reflx.
  assert (H : forall l, list_eqb ekind_eqb l l = true).
  { induction l as [|x l IH]; cbn; [reflexivity|]. rewrite ekind_eqb_refl, IH. reflexivity. }
  rewrite H. reflexivity.
Qed.
Lemma robs_eqb_refl : forall a, robs_eqb a a = true.
Proof. destruct a; cbn; rewrite ?eobs_eqb_refl; reflexivity. Qed.
Lemma tobs_eqb_refl : forall a, tobs_eqb a a = true.
Proof.
  intros a. unfold tobs_eqb. rewrite robs_eqb_refl, !Z.eqb_refl, !eqb_reflx.
  destruct (o_body a); cbn; rewrite ?bout_eqb_refl; reflexivity.
Qed.
Lemma list_eqb_refl : forall A (f : A -> A -> bool), (forall a, f a a = true) -> forall l, list_eqb f l l = true.
Proof. intros A f H. induction l as [|a l IH]; cbn; [reflexivity|]. rewrite H, IH. reflexivity. Qed.

(* ---- the case made of a run of the model ------------------------------------------------ *)
Definition case_of (g : bool) (scs : list script) (sched : list nat) (orc : list reply) : case :=
  let W := exec g scs sched orc in
  mkCase g scs sched orc (wlog W) (map tobs_of (wthreads W)) (count_open (wthreads W) + wleaks W).

Lemma split_last_app : forall A (l : list A) x, split_last (l ++ [x]) = Some (l, x).
Proof.
  induction l as [|a l IH]; intros x; [reflexivity|].
  cbn [app split_last]. rewrite IH. destruct (l ++ [x]) eqn:E; [|reflexivity].
  destruct l; discriminate.
Qed.

Lemma split_last_some : forall A (l m : list A) x, split_last l = Some (m, x) -> l = m ++ [x].
Proof.
  induction l as [|a l IH]; intros m x H; [discriminate|]. cbn [split_last] in H.
  destruct l as [|b l'].
  - inversion H. reflexivity.
  - destruct (split_last (b :: l')) as [[m' y]|] eqn:E; [|discriminate].
    inversion H; subst. cbn [app]. f_equal. apply IH. reflexivity.
Qed.

Lemma forallb_stmts : forall k S, stmts_lt k S -> forallb ent_stmt S = true.
Proof.
  intros k S [H _]. apply forallb_forall. rewrite Forall_forall in H. intros x Hx. exact (proj1 (H x Hx)).
Qed.

Lemma forallb_conn : forall cn b rest, Forall (fun e => econn e = cn) (b :: rest) ->
  forallb (fun e => econn e =? econn b) rest = true.
Proof.
  intros cn b rest H. apply Forall_cons_iff in H. destruct H as [Hb Hr]. apply forallb_forall. intros x Hx.
  rewrite Forall_forall in Hr. rewrite (Hr _ Hx), Hb. apply Z.eqb_refl.
Qed.

Lemma facts_refusal_not_nil : forall sc, e_nil (facts (refusal sc)) = false.
Proof. intros sc. unfold refusal. destruct (sdead sc); [reflexivity|]. destruct (negb (sbrk sc)); reflexivity. Qed.

Lemma facts_cause_nil : forall c e, e_nil (cause_facts c e) = e_nil e.
Proof. destruct c; reflexivity. Qed.

(* one transaction of the model passes the per-transaction check *)
Lemma tinv_prop_thread : forall sc st tr iu,
  tinv ret_of true sc st tr -> Forall (fun e => econn e = sconn sc) tr ->
  prop_thread sc tr (tobs_of (mkThread sc st iu)) = true.
Proof.
  intros sc st tr iu Hinv Hconn. unfold prop_thread, tobs_of. cbn [tst tsc tinuse].
  destruct st as [|k rest canc done|r]; cbn in Hinv.
  - subst tr. reflexivity.
  - destruct Hinv as (b & S & pre & [Hb1 Hb2] & HS & _ & _ & _ & Htr).
    cbn [o_nest o_runs o_ret o_body o_self].
    assert (Hbb : ent_begin b = true) by (unfold ent_begin; rewrite Hb1; reflexivity).
    destruct done.
    + destruct Htr as (e & -> & He & _). rewrite Hbb, (forallb_conn _ _ _ Hconn), Hb2.
      unfold open_ok. cbn [o_body o_self]. rewrite split_last_app, (forallb_stmts _ _ HS), He. reflexivity.
    + subst tr. rewrite Hbb, (forallb_conn _ _ _ Hconn), Hb2.
      unfold open_ok. cbn [o_body o_self]. rewrite (forallb_stmts _ _ HS). reflexivity.
  - destruct Hinv as [(-> & Hlt & ->) | [(b & -> & Hb1 & Hb2 & _ & ->) | (b & S & e & o & -> & [Hb1 Hb2] & HS & He & _ & Hr)]].
    + cbn [rret rruns rbody rself robs_of o_nest o_runs o_ret o_body o_self].
      unfold ret_nil. rewrite facts_refusal_not_nil, Hlt. reflexivity.
    + cbn [rret rruns rbody rself robs_of o_nest o_runs o_ret o_body o_self].
      unfold ent_begin. rewrite Hb1. cbn [is_begin forallb].
      destruct (eout b); [congruence | reflexivity | reflexivity].
    + assert (Hbb : ent_begin b = true) by (unfold ent_begin; rewrite Hb1; reflexivity).
      rewrite Hbb, (forallb_conn _ _ _ Hconn), Hb2.
      assert (Hfin : forall ob, ob = tobs_of (mkThread sc (TDone r) iu) ->
                finished_ok (S ++ [e]) ob = true /\ o_runs ob = 1 /\ o_ret ob <> OOpen /\ o_ret ob <> ONotStarted).
      { intros ob ->. unfold tobs_of. cbn [tst tsc tinuse].
        unfold finished_ok. rewrite split_last_app.
        destruct Hr as [[-> Hc] | [-> _]]; cbn [rret rruns rbody rself o_ret o_runs o_body o_self];
          rewrite (forallb_stmts _ _ HS), He.
        - unfold end_ok. rewrite Hc. unfold ent_end in He. rewrite Hc in He.
          split; [|split; [reflexivity|split; destruct o, (eout e); discriminate]].
          destruct o as [|b0| |]; cbn [end_call_of is_commit is_rollback];
            destruct (eout e); cbn; try reflexivity; try (destruct b0; reflexivity);
            destruct (eval e) as [[] []]; cbn; try reflexivity; destruct b0; reflexivity.
        - split; [|split; [reflexivity|split; destruct o; discriminate]].
          destruct o as [|b0| |]; cbn; try reflexivity; destruct b0; reflexivity. }
      destruct (Hfin _ eq_refl) as (Hf & Hruns & Hno & Hns). unfold tobs_of in *. cbn [tst tsc tinuse] in *.
      rewrite Hruns. cbn [Z.eqb Pos.eqb andb].
      destruct (robs_of (rret r)) eqn:Er; cbn [o_ret] in *; try congruence; rewrite Er in *; try exact Hf; congruence.
Qed.

Lemma prop_threads_model : forall log ths t,
  (forall i th, nth_error ths i = Some th ->
     tinv ret_of true (tsc th) (tst th) (proj (t + i) log) /\
     Forall (fun e => econn e = sconn (tsc th)) (proj (t + i) log)) ->
  prop_threads t (map tsc ths) (map tobs_of ths) log = true.
Proof.
  intros log ths. induction ths as [|th ths IH]; intros t H; [reflexivity|].
  cbn [map prop_threads]. destruct (H 0%nat th eq_refl) as [Hi Hc]. rewrite Nat.add_0_r in Hi, Hc.
  destruct th as [sc st iu]. cbn [tsc tst] in *. rewrite (tinv_prop_thread sc st _ iu Hi Hc). cbn [andb].
  apply IH. intros i th Hn. replace (S t + i)%nat with (t + S i)%nat by lia. apply (H (S i) th Hn).
Qed.

Lemma still_open_holds : forall th, still_open (tobs_of th) = holds_conn th.
Proof.
  intros [sc st iu]. unfold still_open, tobs_of, holds_conn. cbn [tst].
  destruct st as [|k rest canc [|]|r]; cbn; try reflexivity.
  destruct (rret r); reflexivity.
Qed.

Lemma open_on_model : forall c ths, open_on c (map tsc ths) (map tobs_of ths) = Z.of_nat (open_conn c ths).
Proof.
  intros c ths. unfold open_conn. induction ths as [|th ths IH]; [reflexivity|].
  cbn [map open_on filter]. rewrite IH, still_open_holds. unfold holds_on.
  destruct (holds_conn th && (sconn (tsc th) =? c)); cbn [length]; lia.
Qed.

Lemma still_open_count : forall ths, length (filter still_open (map tobs_of ths)) = length (filter holds_conn ths).
Proof.
  induction ths as [|th ths IH]; [reflexivity|]. cbn [map filter]. rewrite still_open_holds.
  destruct (holds_conn th); cbn [length]; rewrite IH; reflexivity.
Qed.

Lemma model_passes_check_l : forall g scs sched orc,
  agrees (case_of g scs sched orc) = true /\ (g = true -> prop_ok (case_of g scs sched orc) = true).
Proof.
  intros g scs sched orc. split.
  - unfold agrees, case_of, model_world. cbn [cguard cscripts csched coracle olog oths ofinal].
    rewrite (list_eqb_refl _ _ logent_eqb_refl), (list_eqb_refl _ _ tobs_eqb_refl), Z.eqb_refl. reflexivity.
  - intros ->. pose proof (W_ginv true scs sched orc) as G.
    unfold prop_ok, case_of. cbn [cguard cscripts csched coracle olog oths ofinal].
    set (W := exec true scs sched orc) in *.
    assert (Hscs : scs = map tsc (wthreads W)) by (symmetry; exact (g_scripts _ _ _ _ _ G)).
    apply andb_true_iff. split; [apply andb_true_iff; split; [apply andb_true_iff; split; [apply andb_true_iff; split|]|]|].
    + rewrite Hscs. apply prop_threads_model. intros i th Hn. cbn [Nat.add].
      exact (g_threads _ _ _ _ _ G i th Hn).
    + apply forallb_forall. intros e He. apply Nat.ltb_lt.
      pose proof (g_tids _ _ _ _ _ G) as Ht. rewrite Forall_forall in Ht. exact (Ht _ He).
    + unfold log_balanced. apply forallb_forall. intros e _. unfold conn_balanced.
      rewrite Hscs at 1. rewrite open_on_model, (g_balance _ _ _ _ _ G (econn e)). apply Z.eqb_eq. lia.
    + unfold pool_ok. cbn [olog oths ofinal]. apply Z.eqb_eq.
      rewrite (g_leaks _ _ _ _ _ G), still_open_count. unfold count_open. lia.
    + unfold no_nested_body. cbn [oths]. apply forallb_forall. intros o Ho. apply in_map_iff in Ho.
      destruct Ho as [[sc st iu] [<- _]]. unfold tobs_of. cbn [tst]. destruct st; reflexivity.
Qed.

(* ---- what a passing check means, for any observation ---------------------------------- *)
Definition end_meaning (bo : bout) (e : logent) (r : robs) : Prop :=
  (ecall e = CCommit <-> bo = BNil) /\ (ecall e = CRollback <-> bo <> BNil) /\
  (eout e = OFail ->
     (exists x, r = ORet x /\ e_nil x = false /\ shows x (is_commit (ecall e)) (eval e) = true) \/
     (r = ONever /\ bo = BGoexit)) /\
  (eout e = OPanic -> r = OPanicked).

Definition finished_meaning (rest : list logent) (o : tobs) : Prop :=
  exists mid e bo,
    rest = mid ++ [e] /\ o_body o = Some bo /\
    Forall (fun x => ent_stmt x = true) mid /\ ent_end e = true /\
    (o_self o = false -> end_meaning bo e (o_ret o)) /\
    (bo = BPanic -> ret_nil (o_ret o) = false) /\
    (o_ret o = ONever -> bo = BGoexit) /\
    (ret_nil (o_ret o) = true -> ecall e = CCommit /\ eout e = OOk) /\
    (o_ret o = OPanicked -> eout e = OPanic).

Definition open_meaning (rest : list logent) (o : tobs) : Prop :=
  o_body o = None /\
  (if o_self o
   then exists mid e, rest = mid ++ [e] /\ Forall (fun x => ent_stmt x = true) mid /\ ent_end e = true
   else Forall (fun x => ent_stmt x = true) rest).

Definition thread_ok (sc : script) (tr : list logent) (o : tobs) : Prop :=
  match tr with
  | [] =>
    o_runs o = 0 /\ ret_nil (o_ret o) = false /\
    (o_ret o = ONotStarted \/ (o_ret o <> OOpen /\ let_through sc = false))
  | b :: rest =>
    ecall b = CBegin /\ Forall (fun e => econn e = econn b) rest /\
    ((eout b <> OOk /\ rest = [] /\ o_runs o = 0 /\ ret_err (o_ret o) = true) \/
     (eout b = OOk /\ o_runs o = 1 /\
      ((o_ret o = OOpen /\ open_meaning rest o) \/
       (o_ret o <> OOpen /\ o_ret o <> ONotStarted /\ finished_meaning rest o))))
  end.

Lemma forallb_Forall : forall A (p : A -> bool) l, forallb p l = true -> Forall (fun x => p x = true) l.
Proof. intros A p l H. apply Forall_forall. rewrite forallb_forall in H. exact H. Qed.

Lemma end_ok_meaning : forall bo e r, ent_end e = true -> end_ok bo e r = true -> end_meaning bo e r.
Proof.
  intros bo e r He H. unfold end_ok in H. apply andb_true_iff in H. destruct H as [H1 H2].
  unfold ent_end in He. unfold end_meaning.
  split; [|split; [|split]].
  - destruct (ecall e); try discriminate; destruct bo; try discriminate;
      split; intros; try reflexivity; try discriminate; congruence.
  - destruct (ecall e); try discriminate; destruct bo; try discriminate;
      split; intros; try reflexivity; try discriminate; congruence.
  - intros Ho. rewrite Ho in H2. destruct r as [x| | | |]; try discriminate.
    + left. exists x. apply andb_true_iff in H2. destruct H2 as [Ha Hb]. apply negb_true_iff in Ha. auto.
    + right. split; [reflexivity|]. destruct bo; try discriminate; reflexivity.
  - intros Ho. rewrite Ho in H2. destruct r; try discriminate; reflexivity.
Qed.

Lemma finished_ok_meaning : forall rest o, finished_ok rest o = true -> finished_meaning rest o.
Proof.
  intros rest o H. unfold finished_ok in H.
  destruct (split_last rest) as [[mid e]|] eqn:Es; [|discriminate].
  destruct (o_body o) as [bo|] eqn:Eb; [|discriminate].
  apply andb_true_iff in H. destruct H as [H H7].
  apply andb_true_iff in H. destruct H as [H H6]. apply andb_true_iff in H. destruct H as [H H5].
  apply andb_true_iff in H. destruct H as [H H4]. apply andb_true_iff in H. destruct H as [H H3].
  apply andb_true_iff in H. destruct H as [H1 H2].
  exists mid, e, bo. split; [apply split_last_some; exact Es|]. split; [exact Eb|].
  split; [apply forallb_Forall; exact H1|]. split; [exact H2|]. split; [|split; [|split; [|split]]].
  - intros Hs. rewrite Hs in H3. cbn in H3. apply end_ok_meaning; assumption.
  - intros ->. apply negb_true_iff in H4. exact H4.
  - intros Hr. rewrite Hr in H5. destruct bo; try discriminate; reflexivity.
  - intros Hr. rewrite Hr in H6. apply andb_true_iff in H6. destruct H6 as [Ha Hb]. split.
    + destruct (ecall e); try discriminate; reflexivity.
    + destruct (eout e); try discriminate; reflexivity.
  - intros Hr. rewrite Hr in H7. destruct (eout e); try discriminate; reflexivity.
Qed.

Lemma open_ok_meaning : forall rest o, open_ok rest o = true -> open_meaning rest o.
Proof.
  intros rest o H. unfold open_ok in H. unfold open_meaning.
  destruct (o_body o) eqn:Eb; [discriminate|]. split; [reflexivity|]. destruct (o_self o).
  - destruct (split_last rest) as [[mid e]|] eqn:Es; [|discriminate].
    apply andb_true_iff in H. destruct H as [H1 H2]. exists mid, e.
    split; [apply split_last_some; exact Es|]. split; [apply forallb_Forall; exact H1 | exact H2].
  - apply forallb_Forall. exact H.
Qed.

Lemma prop_thread_meaning : forall sc tr o, prop_thread sc tr o = true -> thread_ok sc tr o.
Proof.
  intros sc tr o H. unfold prop_thread in H. unfold thread_ok. destruct tr as [|b rest].
  - apply andb_true_iff in H. destruct H as [H H3]. apply andb_true_iff in H. destruct H as [H1 H2].
    apply Z.eqb_eq in H1. apply negb_true_iff in H2. split; [exact H1|]. split; [exact H2|].
    destruct (o_ret o); try discriminate; try (left; reflexivity); right;
      (split; [discriminate | apply negb_true_iff; exact H3]).
  - apply andb_true_iff in H. destruct H as [H H3]. apply andb_true_iff in H. destruct H as [H1 H2].
    assert (Hb : ecall b = CBegin).
    { unfold ent_begin in H1. destruct (ecall b); try discriminate; reflexivity. }
    split; [exact Hb|]. split.
    { apply Forall_forall. intros x Hx. rewrite forallb_forall in H2. apply Z.eqb_eq. exact (H2 _ Hx). }
    assert (Hfail : (match rest with [] => true | _ => false end && (o_runs o =? 0) && ret_err (o_ret o)) = true ->
                    rest = [] /\ o_runs o = 0 /\ ret_err (o_ret o) = true).
    { intros Hx. apply andb_true_iff in Hx. destruct Hx as [Hx Hx3]. apply andb_true_iff in Hx.
      destruct Hx as [Hx1 Hx2]. apply Z.eqb_eq in Hx2. destruct rest; [auto | discriminate]. }
    destruct (eout b) eqn:Eb.
    + right. split; [reflexivity|]. apply andb_true_iff in H3. destruct H3 as [Hr H3]. apply Z.eqb_eq in Hr.
      split; [exact Hr|].
      destruct (o_ret o) eqn:Er; try discriminate;
        try (right; split; [discriminate|]; split; [discriminate|]; apply finished_ok_meaning; exact H3).
      left. split; [reflexivity|]. apply open_ok_meaning. exact H3.
    + left. split; [discriminate|]. apply Hfail. exact H3.
    + left. split; [discriminate|]. apply Hfail. exact H3.
Qed.

Lemma prop_threads_meaning : forall log scs os t,
  prop_threads t scs os log = true ->
  length scs = length os /\
  forall i sc o, nth_error scs i = Some sc -> nth_error os i = Some o -> thread_ok sc (proj (t + i) log) o.
Proof.
  intros log scs. induction scs as [|sc scs IH]; intros os t H; destruct os as [|o os]; try discriminate.
  - split; [reflexivity|]. intros i sc o Hi. destruct i; discriminate.
  - cbn [prop_threads] in H. apply andb_true_iff in H. destruct H as [H1 H2].
    destruct (IH _ _ H2) as [Hl Hall]. split; [cbn; rewrite Hl; reflexivity|].
    intros i sc' o' Hs Ho. destruct i as [|i]; cbn in Hs, Ho.
    + inversion Hs; inversion Ho; subst. rewrite Nat.add_0_r. apply prop_thread_meaning. exact H1.
    + replace (t + S i)%nat with (S t + i)%nat by lia. apply Hall; assumption.
Qed.

Lemma prop_ok_meaning_l : forall c,
  prop_ok c = true ->
  length (cscripts c) = length (oths c) /\
  (forall t sc o, nth_error (cscripts c) t = Some sc -> nth_error (oths c) t = Some o ->
     thread_ok sc (proj t (olog c)) o) /\
  (forall e, In e (olog c) -> (etid e < length (cscripts c))%nat) /\
  (forall e, In e (olog c) ->
     Z.of_nat (count (fun x => on_conn (econn e) x && begun_ok x) (olog c)) =
     Z.of_nat (count (fun x => on_conn (econn e) x && ent_end x) (olog c)) +
     open_on (econn e) (cscripts c) (oths c)) /\
  ofinal c = Z.of_nat (count lostb (olog c)) + Z.of_nat (length (filter still_open (oths c))) /\
  (forall o, In o (oths c) -> o_nest o = 0).
Proof.
  intros c H. unfold prop_ok in H. apply andb_true_iff in H. destruct H as [H H5].
  apply andb_true_iff in H. destruct H as [H H4]. apply andb_true_iff in H. destruct H as [H H3].
  apply andb_true_iff in H. destruct H as [H1 H2].
  destruct (prop_threads_meaning _ _ _ _ H1) as [Hl Hall].
  split; [exact Hl|]. split; [exact Hall|]. split; [|split; [|split]].
  - intros e He. rewrite forallb_forall in H2. apply Nat.ltb_lt. exact (H2 _ He).
  - intros e He. unfold log_balanced in H3. rewrite forallb_forall in H3. specialize (H3 _ He).
    unfold conn_balanced in H3. apply Z.eqb_eq in H3. exact H3.
  - unfold pool_ok in H4. apply Z.eqb_eq in H4. exact H4.
  - intros o Ho. unfold no_nested_body in H5. rewrite forallb_forall in H5. apply Z.eqb_eq. exact (H5 _ Ho).
Qed.
