(* C14 — SQL transactions: executable model of
     core/stores/sqlx/tx.go      transact / transactOnConn (begin; defer {recover ->
                                 Rollback; err -> Rollback; else Commit}; fn(ctx, tx))
     core/stores/sqlx/sqlconn.go commonSqlConn.TransactCtx (breaker around transact),
                                 Transact (= TransactCtx with a background context)
     core/stores/sqlc/cachedsql.go CachedConn.Transact/TransactCtx (delegation)
   as a function from the fault plan to the driver log and the returned error.
   No proofs in this file.

   What is abstracted (validated by the correspondence run, harness/cmd/c14):
   - database/sql between go-zero and the driver: sql.DB.Begin / Tx.ExecContext /
     Tx.Commit / Tx.Rollback reach the driver once each and hand its error back
     unchanged; a statement issued with a cancelled context is refused by
     database/sql before it reaches the driver ([SCtx]);
   - errors are terms ([err]); fmt.Errorf("... %w", e) is a constructor that records
     what it wraps;
   - the circuit breaker's verdict is an input ([ibrk]); its statistics are not
     modelled (C01 is about the breaker). *)
From Coq Require Import List ZArith Bool.
Import ListNotations.
Open Scope Z_scope.

(* ---- the driver log ---------------------------------------------------- *)
Inductive call :=
| CBegin
| CExec (k : Z)     (* k-th statement of the body (0-based) *)
| CCommit
| CRollback.

(* one call received by the driver and whether the driver let it succeed *)
Definition logent := (call * bool)%type.

(* ---- the body ---------------------------------------------------------- *)
Inductive sres :=
| SOk               (* the driver executes the statement *)
| SFail             (* the driver fails it *)
| SCtx.             (* its context is already cancelled: database/sql refuses it, the
                       driver never sees it *)
Inductive onfail :=
| FStop             (* if err != nil { return err } *)
| FIgnore           (* the body ignores the failure and goes on *)
| FPanic.           (* the body panics on the failure *)
Record stmt := mkStmt { sres_of : sres; sonfail : onfail }.

(* what the body does after its last statement *)
Inductive fin := RNil | RErr | RPanic.

(* which error value the body returned *)
Inductive berr :=
| BUser             (* an error of its own *)
| BStmt (k : Z)     (* the error of its k-th statement, as returned by the driver *)
| BCtx (k : Z).     (* context.Canceled from the k-th statement *)

(* how the call fn(ctx, tx) ended *)
Inductive bout := BNil | BErr (b : berr) | BPanic.

(* the context handed to TransactCtx *)
Inductive ctxst :=
| CLive             (* never cancelled *)
| CDead             (* already cancelled when TransactCtx is called *)
| CAt (k : Z).      (* cancelled by the body just before its k-th statement (k = number of
                       statements: after the last one, before the body returns) *)

Record input := mkInput
  { ibrk : bool;          (* the breaker lets the call through *)
    ibegin : bool;        (* driver Begin succeeds *)
    istmts : list stmt;
    ifin : fin;
    icommit : bool;       (* driver Commit succeeds *)
    irollback : bool;     (* driver Rollback succeeds *)
    ictx : ctxst }.

(* ---- errors returned to the caller -------------------------------------- *)
Inductive err :=
| ENil
| EUnavailable                 (* breaker.ErrServiceUnavailable *)
| ECanceled                    (* ctx.Err() of an already cancelled context *)
| EBegin                       (* the driver's Begin error *)
| EBody (b : berr)             (* exactly the error value the body returned *)
| ECommit                      (* the driver's Commit error *)
| ERecover                     (* fmt.Errorf("recover from %#v", p) *)
| ERecoverRollback             (* fmt.Errorf("recover from %#v, rollback failed: %w", p, e) *)
| ETxFailedRollback (b : berr). (* fmt.Errorf("transaction failed: %s, rollback failed: %w", err, e) *)

(* ---- fn(ctx, tx): runs the statements in order ---------------------------- *)
Definition fin_out (f : fin) : bout :=
  match f with RNil => BNil | RErr => BErr BUser | RPanic => BPanic end.

Fixpoint run_body (k : Z) (ss : list stmt) (f : fin) : list logent * bout :=
  match ss with
  | [] => ([], fin_out f)
  | s :: ss' =>
    match sres_of s with
    | SOk => let '(l, o) := run_body (k + 1) ss' f in ((CExec k, true) :: l, o)
    | SFail =>
      match sonfail s with
      | FStop => ([(CExec k, false)], BErr (BStmt k))
      | FPanic => ([(CExec k, false)], BPanic)
      | FIgnore => let '(l, o) := run_body (k + 1) ss' f in ((CExec k, false) :: l, o)
      end
    | SCtx =>
      match sonfail s with
      | FStop => ([], BErr (BCtx k))
      | FPanic => ([], BPanic)
      | FIgnore => run_body (k + 1) ss' f
      end
    end
  end.

(* ---- the context ------------------------------------------------------------
   go-zero begins with db.Begin() (context.Background()), so the transaction is NOT bound
   to the caller's context: cancelling it neither rolls the transaction back nor affects
   Begin / Commit / Rollback.  Its only effects are (a) breaker.DoWithAcceptableCtx
   returns ctx.Err() at once if it is already done, and (b) statements the body issues
   with it are refused by database/sql before they reach the driver. *)
Definition is_dead (c : ctxst) : bool := match c with CDead => true | _ => false end.
Definition ctx_covers (c : ctxst) (k : Z) : bool :=
  match c with CLive => false | CDead => true | CAt j => j <=? k end.

Fixpoint apply_ctx (c : ctxst) (k : Z) (ss : list stmt) : list stmt :=
  match ss with
  | [] => []
  | s :: ss' => (if ctx_covers c k then mkStmt SCtx (sonfail s) else s) :: apply_ctx c (k + 1) ss'
  end.

(* the statements as database/sql treats them *)
Definition estmts (i : input) : list stmt := apply_ctx (ictx i) 0 (istmts i).

(* ---- the deferred function of transactOnConn ------------------------------
     defer func() {
       if p := recover(); p != nil {
         if e := tx.Rollback(); e != nil { err = "recover from p, rollback failed: %w e" }
         else                           { err = "recover from p" }
       } else if err != nil {
         if e := tx.Rollback(); e != nil { err = "transaction failed: err, rollback failed: %w e" }
       } else {
         err = tx.Commit()
       }
     }()
   [o] is how fn ended: a panic is what recover() sees, a returned error is the
   named result [err]. Result: the driver calls made and the final named result. *)
Definition deferred (i : input) (o : bout) : list logent * err :=
  match o with
  | BPanic =>
    if irollback i then ([(CRollback, true)], ERecover)
    else ([(CRollback, false)], ERecoverRollback)
  | BErr b =>
    if irollback i then ([(CRollback, true)], EBody b)
    else ([(CRollback, false)], ETxFailedRollback b)
  | BNil =>
    if icommit i then ([(CCommit, true)], ENil)
    else ([(CCommit, false)], ECommit)
  end.

Record result := mkResult
  { rlog : list logent;      (* calls received by the driver, in order *)
    rruns : Z;               (* how many times the body was invoked *)
    rbody : option bout;     (* how the body ended, if it ran *)
    rerr : err }.

(* transactOnConn: tx, err = b(conn); if err != nil { return }; defer ...; return fn(ctx, tx) *)
Definition transact_on_conn (i : input) : result :=
  if ibegin i then
    let '(bl, o) := run_body 0 (estmts i) (ifin i) in
    let '(dl, e) := deferred i o in
    mkResult ((CBegin, true) :: bl ++ dl) 1 (Some o) e
  else mkResult [(CBegin, false)] 0 None EBegin.

(* TransactCtx: db.brk.DoWithAcceptableCtx(ctx, func() error { return transact(...) }, ...) ;
   transact: conn, err := db.connProv() (cannot fail for NewSqlConnFromDB) *)
Definition transact (i : input) : result :=
  if is_dead (ictx i) then mkResult [] 0 None ECanceled      (* select { case <-ctx.Done(): return ctx.Err() *)
  else if ibrk i then transact_on_conn i
  else mkResult [] 0 None EUnavailable.

(* the call gets past the context check and the breaker *)
Definition let_through (i : input) : bool := negb (is_dead (ictx i)) && ibrk i.

(* ---- readable predicates over results -------------------------------------- *)
Definition is_end (c : call) : bool :=
  match c with CCommit | CRollback => true | _ => false end.
Definition is_exec (c : call) : bool :=
  match c with CExec _ => true | _ => false end.
Definition is_commit (c : call) : bool :=
  match c with CCommit => true | _ => false end.
Definition is_rollback (c : call) : bool :=
  match c with CRollback => true | _ => false end.
Definition is_begin (c : call) : bool :=
  match c with CBegin => true | _ => false end.

Definition count (p : call -> bool) (l : list logent) : nat :=
  length (filter (fun x => p (fst x)) l).

(* the error tells the caller that the commit failed / wraps the rollback failure *)
Definition reports_commit_failure (e : err) : bool :=
  match e with ECommit => true | _ => false end.
Definition reports_rollback_failure (e : err) : bool :=
  match e with ERecoverRollback | ETxFailedRollback _ => true | _ => false end.
Definition is_nil (e : err) : bool :=
  match e with ENil => true | _ => false end.
