(* C14 — SQL transactions: executable model of
     core/stores/sqlx/tx.go      transact / transactOnConn (begin; defer {recover ->
                                 Rollback; err -> Rollback; [fn never returned -> Rollback;]
                                 else Commit}; fn(ctx, tx)), txSession (the statement
                                 methods of the transaction's Session), txConn (a Session
                                 dressed as a SqlConn: Transact = errCantNestTx)
     core/stores/sqlx/sqlconn.go commonSqlConn.TransactCtx (context check and breaker around
                                 transact), Transact, NewSqlConn / NewSqlConnFromDB (connProv),
                                 NewSqlConnFromSession, acceptable / WithAcceptable
     core/stores/sqlc/cachedsql.go CachedConn.Transact / TransactCtx / WithSession (delegation)
   as a machine: several transactions ("threads") on long-lived SqlConn objects, a schedule
   saying which thread performs its next quantum, and a SCRIPTED DRIVER: the outcome of the
   driver's 1st, 2nd, 3rd ... call is given by a list, whoever makes the call -- and whether the
   caller's context becomes done while that call is in flight.
   No proofs in this file.

   What is abstracted (validated by the correspondence run, harness/cmd/c14):
   - database/sql between go-zero and the driver: every Begin / ExecContext / QueryContext /
     Prepare / Stmt.Exec / Commit / Rollback of a live transaction reaches the driver once, on
     the transaction's own connection, and hands the driver's error back unchanged; a statement
     issued with a cancelled context, or on a transaction that has already ended, is refused
     before it reaches the driver (context.Canceled resp. sql.ErrTxDone); a second Commit /
     Rollback is answered with sql.ErrTxDone without a driver call;
   - errors are terms; fmt.Errorf("... %w", e) is a constructor that records what it wraps;
   - the circuit breaker's verdict is an input ([sbrk]); its statistics are C01's business;
   - which pooled connection serves a Begin is an input ([sconn], as observed). *)
From Coq Require Import List ZArith Bool.
Import ListNotations.
Open Scope Z_scope.

(* ---- the scripted driver and its log ---------------------------------------- *)
Inductive outcome := OOk | OFail | OPanic.

Inductive skind := KExec | KQuery | KPrepare | KStmtExec.   (* driver entry point of a statement *)

Inductive call :=
| CBegin
| CBeginRetry                    (* a Begin that database/sql itself repeats on another connection
                                    (the driver answered driver.ErrBadConn; at most twice) *)
| CStmt (k : Z) (kd : skind)     (* k-th step of the body (0-based) *)
| CCommit
| CRollback.

(* WHICH error value a failing driver call (or the body) produces: the values go-zero or
   database/sql treat specially, each as the sentinel itself, wrapped with %w, or as a custom
   type matching it through Is *)
Inductive ekind :=
| VGeneric       (* an error of the driver's own, identifiable by the harness *)
| VBadConn       (* driver.ErrBadConn *)
| VTxDone        (* sql.ErrTxDone *)
| VConnDone      (* sql.ErrConnDone *)
| VNoRows        (* sql.ErrNoRows *)
| VCanceled      (* context.Canceled *)
| VDeadline      (* context.DeadlineExceeded *)
| VSkip          (* driver.ErrSkip *)
| VUnavail       (* breaker.ErrServiceUnavailable *)
| VEOF.          (* io.EOF *)
Inductive emode := MBare | MWrap | MCustom.
Record errval := mkVal { vkind : ekind; vmode : emode }.
Definition vgen : errval := mkVal VGeneric MBare.

(* one call received by the driver: on whose behalf, on which connection, its answer (and, when
   it failed, with which error value) *)
Record logent := mkEnt { etid : nat; econn : Z; ecall : call; eout : outcome; eval : errval }.

Definition is_end (c : call) : bool := match c with CCommit | CRollback => true | _ => false end.
Definition is_stmt (c : call) : bool := match c with CStmt _ _ => true | _ => false end.
Definition is_commit (c : call) : bool := match c with CCommit => true | _ => false end.
Definition is_rollback (c : call) : bool := match c with CRollback => true | _ => false end.
Definition is_begin (c : call) : bool := match c with CBegin => true | _ => false end.

(* the driver's answer to one call: its outcome, and whether the caller's context becomes
   done WHILE the call is in flight *)
Record reply := mkReply { rout : outcome; rcancel : bool; rval : errval }.

Definition pop (orc : list reply) : reply * list reply :=
  match orc with [] => (mkReply OOk false vgen, []) | o :: r => (o, r) end.

(* a scripted panic is honoured by Commit / Rollback only; elsewhere it is a failure *)
Definition honoured (c : call) (o : outcome) : outcome :=
  match o with OPanic => if is_end c then OPanic else OFail | _ => o end.

(* the cancellation is not scripted for QueryContext: database/sql's Rows watches the context
   from a goroutine of its own, what the scan then sees is a race inside database/sql *)
Definition cancels (c : call) (b : bool) : bool :=
  match c with CStmt _ KQuery => false | _ => b end.

Definition is_badconn (v : errval) : bool := match vkind v with VBadConn => true | _ => false end.

(* two error values are not scripted where database/sql reacts to them with driver calls of its
   own: Stmt.Exec answering ErrBadConn (database/sql repeats the call), ExecContext / QueryContext
   answering the bare driver.ErrSkip ("not implemented": database/sql prepares the statement) *)
Definition hval (c : call) (v : errval) : errval :=
  match c with
  | CStmt _ KStmtExec => if is_badconn v then vgen else v
  | CStmt _ KExec | CStmt _ KQuery =>
    match vkind v, vmode v with VSkip, MBare => mkVal VSkip MWrap | _, _ => v end
  | _ => v
  end.

(* the error value of a call that did not fail is immaterial *)
Definition val_of (c : call) (o : outcome) (v : errval) : errval :=
  match o with OFail => hval c v | _ => vgen end.

(* one driver call made for transaction [t] on connection [cn]:
   outcome, its error value, context cancelled meanwhile, log entry, rest of the script *)
Definition drv (t : nat) (cn : Z) (c : call) (orc : list reply)
  : outcome * errval * bool * list logent * list reply :=
  let '(r, orc') := pop orc in
  let o' := honoured c (rout r) in
  let v' := val_of c o' (rval r) in
  (o', v', cancels c (rcancel r), [mkEnt t cn c o' v'], orc').

(* ---- the body ---------------------------------------------------------- *)
Inductive meth := MExec | MQuery | MPrep.   (* Exec* | QueryRow*/QueryRows* | Prepare* + stmt.Exec* *)

Inductive action :=
| AStmt (m : meth) (withctx : bool)   (* a statement through the Session; the ...Ctx variant with the body's context or not *)
| ANest                               (* NewSqlConnFromSession(s).Transact / CachedConn.WithSession(s).Transact *)
| ASelfCommit                         (* s.(interface{ Commit() error }).Commit() *)
| ASelfRollback
| ACancel                             (* the caller's context is cancelled *)
| ANop                                (* no interaction with this transaction *)
| ATrip.                              (* the circuit breaker of the transaction's SqlConn OPENS: other requests on
                                         the same SqlConn fail meanwhile. TransactCtx consulted the breaker once,
                                         before Begin ([sbrk]); nothing between Begin and the end call looks at it
                                         again, so for the transaction that has begun this is a no-op *)

Inductive onfail :=
| FStop             (* if err != nil { return err } *)
| FIgnore           (* the body ignores the failure and goes on *)
| FPanic.           (* the body panics on the failure *)
Record step := mkStep { sact : action; sonfail : onfail }.

(* what the body does after its last step *)
Inductive fin := RNil | RErr (v : errval) | RPanic | RGoexit.

(* which error value the body returned *)
Inductive berr :=
| BUser (v : errval)        (* an error of its own *)
| BStmt (k : Z) (v : errval) (* the driver's error of its k-th step *)
| BCtx (k : Z) (dl : bool)  (* the context's error from the k-th step: context.Canceled, or
                               context.DeadlineExceeded when the context ended by its deadline *)
| BTxDone (k : Z)   (* sql.ErrTxDone from the k-th step *)
| BNest (k : Z)     (* errCantNestTx *)
| BSelfC (k : Z) (v : errval)   (* the driver's Commit error, from its own Commit *)
| BSelfR (k : Z) (v : errval).

(* how the call fn(ctx, tx) ended *)
Inductive bout := BNil | BErr (b : berr) | BPanic | BGoexit.

(* one transaction: the call and its body *)
Record script := mkScript
  { sctxapi : bool;       (* TransactCtx: the body's context is the caller's (Transact: Background) *)
    sdead : bool;         (* that context is already done when TransactCtx is called *)
    sdl : bool;           (* it ends by its deadline (context.DeadlineExceeded), not by cancellation *)
    sbrk : bool;          (* the breaker lets the call through (observed) *)
    sopen : bool;         (* connProv succeeds *)
    sconn : Z;            (* the connection that serves Begin (observed) *)
    sretry : list Z;      (* the connections of the Begins database/sql gave up before (observed) *)
    ssteps : list step;
    sfin : fin;
    sacc : Z }.           (* number of WithAcceptable options of the SqlConn *)

(* ---- errors returned to the caller -------------------------------------- *)
Inductive ecause :=
| DrvCommit (v : errval) | DrvRollback (v : errval)     (* the driver's error *)
| TxDone.                     (* sql.ErrTxDone: the transaction had already ended *)

Inductive err :=
| ENil
| EUnavailable                 (* breaker.ErrServiceUnavailable *)
| ECtxDone (dl : bool)         (* ctx.Err() of a context that is already done: Canceled / DeadlineExceeded *)
| ENoConn                      (* connProv's error *)
| EBegin (v : errval)          (* the driver's Begin error *)
| EBody (b : berr)             (* exactly the error value the body returned *)
| ECommit (c : ecause)         (* what tx.Commit() returned *)
| ERecover (r : option ecause) (* fmt.Errorf("recover from %#v", p) [", rollback failed: %w", e] *)
| ETxFailed (b : berr) (c : ecause). (* fmt.Errorf("transaction failed: %s, rollback failed: %w", err, e) *)

(* how Transact / TransactCtx itself ended *)
Inductive ret :=
| RetErr (e : err)     (* returned e ([ENil]: nil) *)
| RetPanic             (* panicked (the driver's Commit / Rollback did) *)
| RetNever.            (* never returned: the goroutine exited *)

Record tresult := mkRes
  { rruns : Z;               (* how many times the body was invoked *)
    rbody : option bout;     (* how the body ended, if it ran *)
    rret : ret;
    rself : bool }.          (* the body itself called Commit / Rollback on the transaction *)

Inductive tstate :=
| TIdle
| TBody (k : Z) (rest : list step) (canc done : bool)  (* in the body, before step k; context cancelled; tx already ended *)
| TDone (r : tresult).

(* ---- one step of the body ------------------------------------------------- *)
Inductive sres := SNone | SErr (b : berr) | SPanic.

Definition res_of (k : Z) (o : outcome) (v : errval) : sres :=
  match o with OOk => SNone | _ => SErr (BStmt k v) end.

(* [sees]: the statement is issued with the caller's context (TransactCtx and a ...Ctx method);
   result, driver calls, rest of the script, context cancelled meanwhile *)
Definition do_stmt (t : nat) (cn : Z) (k : Z) (m : meth) (sees dl : bool) (orc : list reply)
  : sres * list logent * list reply * bool :=
  match m with
  | MExec => let '(o, v, c, l, orc1) := drv t cn (CStmt k KExec) orc in (res_of k o v, l, orc1, c)
  | MQuery => let '(o, v, c, l, orc1) := drv t cn (CStmt k KQuery) orc in (res_of k o v, l, orc1, c)
  | MPrep =>
    let '(o, v, c, l, orc1) := drv t cn (CStmt k KPrepare) orc in
    match o with
    | OOk =>
      (* PrepareContext came back; Stmt.ExecContext with a context that is done by now is refused *)
      if sees && c then (SErr (BCtx k dl), l, orc1, c)
      else let '(o2, v2, c2, l2, orc2) := drv t cn (CStmt k KStmtExec) orc1 in
           (res_of k o2 v2, l ++ l2, orc2, c || c2)
    | _ => (SErr (BStmt k v), l, orc1, c)
    end
  end.

(* result, driver calls, rest of the script, cancelled', done', a connection was lost *)
Definition aout := (sres * list logent * list reply * bool * bool * bool)%type.

Definition do_selfend (t : nat) (cn : Z) (k : Z) (commit : bool) (canc done : bool)
  (orc : list reply) : aout :=
  if done then (SErr (BTxDone k), [], orc, canc, true, false)
  else
    let '(o, v, c, l, orc1) := drv t cn (if commit then CCommit else CRollback) orc in
    match o with
    | OOk => (SNone, l, orc1, canc || c, true, false)
    | OFail => (SErr (if commit then BSelfC k v else BSelfR k v), l, orc1, canc || c, true, false)
    | OPanic => (SPanic, l, orc1, canc || c, true, true)
    end.

Definition do_action (t : nat) (sc : script) (k : Z) (a : action) (canc done : bool)
  (orc : list reply) : aout :=
  match a with
  | AStmt m withctx =>
    if sctxapi sc && withctx && canc then (SErr (BCtx k (sdl sc)), [], orc, canc, done, false)
    else if done then (SErr (BTxDone k), [], orc, canc, done, false)
    else let '(r, l, orc1, c) := do_stmt t (sconn sc) k m (sctxapi sc && withctx) (sdl sc) orc in
         (r, l, orc1, canc || c, done, false)
  | ANest => (SErr (BNest k), [], orc, canc, done, false)
  | ASelfCommit => do_selfend t (sconn sc) k true canc done orc
  | ASelfRollback => do_selfend t (sconn sc) k false canc done orc
  | ACancel => (SNone, [], orc, true, done, false)
  | ANop => (SNone, [], orc, canc, done, false)
  | ATrip => (SNone, [], orc, canc, done, false)
  end.

(* what the body does with the result of a step: None = it goes on *)
Definition react (r : sres) (f : onfail) : option bout :=
  match r with
  | SNone => None
  | SPanic => Some BPanic
  | SErr b => match f with FStop => Some (BErr b) | FIgnore => None | FPanic => Some BPanic end
  end.

Definition fin_out (f : fin) : bout :=
  match f with RNil => BNil | RErr v => BErr (BUser v) | RPanic => BPanic | RGoexit => BGoexit end.

(* ---- the deferred function of transactOnConn ------------------------------
     defer func() {
       if p := recover(); p != nil {
         if e := tx.Rollback(); e != nil { err = "recover from p, rollback failed: %w e" }
         else                           { err = "recover from p" }
       } else if err != nil {
         if e := tx.Rollback(); e != nil { err = "transaction failed: err, rollback failed: %w e" }
       } else if !returned {            (* [g]: only in a tree that has this guard *)
         _ = tx.Rollback()
       } else {
         err = tx.Commit()
       }
     }()
   [g] = the source has the "fn never returned" guard (regenerated: GZgen.C14Consts). *)
Definition end_call_of (g : bool) (o : bout) : call :=
  match o with
  | BNil => CCommit
  | BGoexit => if g then CRollback else CCommit
  | _ => CRollback
  end.

Inductive endres := XOk | XErr (c : ecause) | XPanic.

Definition try_end (t : nat) (cn : Z) (c : call) (done : bool) (orc : list reply)
  : endres * list logent * list reply :=
  if done then (XErr TxDone, [], orc)
  else
    let '(o, v, _, l, orc1) := drv t cn c orc in
    (match o with
     | OOk => XOk
     | OFail => XErr (if is_commit c then DrvCommit v else DrvRollback v)
     | OPanic => XPanic
     end, l, orc1).

Definition ret_of (o : bout) (x : endres) : ret :=
  match x, o with
  | XPanic, _ => RetPanic
  | _, BGoexit => RetNever
  | XOk, BNil => RetErr ENil
  | XErr c, BNil => RetErr (ECommit c)
  | XOk, BErr b => RetErr (EBody b)
  | XErr c, BErr b => RetErr (ETxFailed b c)
  | XOk, BPanic => RetErr (ERecover None)
  | XErr c, BPanic => RetErr (ERecover (Some c))
  end.

Definition is_xpanic (x : endres) : bool := match x with XPanic => true | _ => false end.

(* state', driver calls, rest of the script, a connection was lost *)
Definition qout := (tstate * list logent * list reply * bool)%type.

(* the body has ended with [o]: the deferred function runs and the call ends.
   [rf] = what the caller gets for a body outcome and the result of the end call: [ret_of] for the
   code as it is; Pinned.v instantiates it with the seeded wrong variants. *)
Definition finish_with (rf : bout -> endres -> ret) (g : bool) (t : nat) (sc : script) (done : bool)
  (o : bout) (orc : list reply) : qout :=
  let '(x, l, orc1) := try_end t (sconn sc) (end_call_of g o) done orc in
  (TDone (mkRes 1 (Some o) (rf o x) done), l, orc1, is_xpanic x).

(* ---- one quantum of one transaction ------------------------------------------
   TIdle: the call up to the body's first step
     TransactCtx: select { case <-ctx.Done(): return ctx.Err() }; breaker;
     transact: conn, err := db.connProv(); transactOnConn: tx, err = b(conn)
   TBody, steps left: one step and the body's reaction
   TBody, no step left: the end of the body, the deferred function, the return *)
(* db.Begin(): database/sql itself repeats a Begin that the driver answered with (an error
   matching) driver.ErrBadConn, on another connection, twice at most; the third answer stands.
   [rc] = the connections of the attempts it gave up (observed). *)
Definition retried (r : reply) : bool :=
  match honoured CBegin (rout r) with OFail => is_badconn (rval r) | _ => false end.

Fixpoint begin_all (fuel : nat) (t : nat) (rc : list Z) (cn : Z) (orc : list reply)
  : outcome * errval * bool * list logent * list reply :=
  match fuel with
  | O => drv t cn CBegin orc
  | S fuel' =>
    if retried (fst (pop orc)) then
      let '(o, v, c, l, orc2) := begin_all fuel' t (tl rc) cn (snd (pop orc)) in
      (o, v, rcancel (fst (pop orc)) || c,
       mkEnt t (hd cn rc) CBeginRetry OFail (rval (fst (pop orc))) :: l, orc2)
    else drv t cn CBegin orc
  end.

Definition max_begin_retries : nat := 2.

(* [F] = what happens when the body has ended ([finish_with rf g] for the code as it is) *)
Definition tstep_fin (F : nat -> script -> bool -> bout -> list reply -> qout) (t : nat) (sc : script)
  (st : tstate) (orc : list reply) : qout :=
  match st with
  | TDone _ => (st, [], orc, false)
  | TIdle =>
    if sdead sc then (TDone (mkRes 0 None (RetErr (ECtxDone (sdl sc))) false), [], orc, false)
    else if negb (sbrk sc) then (TDone (mkRes 0 None (RetErr EUnavailable) false), [], orc, false)
    else if negb (sopen sc) then (TDone (mkRes 0 None (RetErr ENoConn) false), [], orc, false)
    else
      let '(o, v, c, l, orc1) := begin_all max_begin_retries t (sretry sc) (sconn sc) orc in
      match o with
      | OOk => (TBody 0 (ssteps sc) c false, l, orc1, false)   (* db.Begin() takes no context *)
      | _ => (TDone (mkRes 0 None (RetErr (EBegin v)) false), l, orc1, false)
      end
  | TBody k [] canc done => F t sc done (fin_out (sfin sc)) orc
  | TBody k (s :: rest) canc done =>
    let '(r, l, orc1, canc1, done1, leak1) := do_action t sc k (sact s) canc done orc in
    match react r (sonfail s) with
    | None => (TBody (k + 1) rest canc1 done1, l, orc1, leak1)
    | Some o =>
      let '(st', l2, orc2, leak2) := F t sc done1 o orc1 in
      (st', l ++ l2, orc2, leak1 || leak2)
    end
  end.

Definition tstep_with (rf : bout -> endres -> ret) (g : bool) : nat -> script -> tstate -> list reply -> qout :=
  tstep_fin (finish_with rf g).

(* ---- the world: all transactions, the driver's log, the rest of its script ---- *)
Record thread := mkThread
  { tsc : script;
    tst : tstate;
    tinuse : Z }.   (* connections checked out of the pools when the call had ended *)

Record world := mkWorld
  { wthreads : list thread;
    wlog : list logent;
    worc : list reply;
    wleaks : Z }.   (* connections lost to a panicking driver Commit / Rollback *)

Fixpoint set_nth {A} (n : nat) (x : A) (l : list A) : list A :=
  match l, n with
  | [], _ => []
  | _ :: l', O => x :: l'
  | y :: l', S n' => y :: set_nth n' x l'
  end.

Definition is_done (st : tstate) : bool := match st with TDone _ => true | _ => false end.
(* holds a connection: in the body, transaction not ended *)
Definition holds_conn (th : thread) : bool :=
  match tst th with TBody _ _ _ false => true | _ => false end.
Definition count_open (ths : list thread) : Z := Z.of_nat (length (filter holds_conn ths)).

(* [ts] = the quantum function of one transaction ([tstep_with rf g] for the code as it is) *)
Definition wstep_gen (ts : nat -> script -> tstate -> list reply -> qout) (w : world) (t : nat) : world :=
  match nth_error (wthreads w) t with
  | None => w
  | Some th =>
    let '(st', l, orc', leak) := ts t (tsc th) (tst th) (worc w) in
    let leaks' := wleaks w + (if leak then 1 else 0) in
    let ths1 := set_nth t (mkThread (tsc th) st' (tinuse th)) (wthreads w) in
    let inuse := if is_done st' && negb (is_done (tst th)) then count_open ths1 + leaks'
                 else tinuse th in
    mkWorld (set_nth t (mkThread (tsc th) st' inuse) (wthreads w)) (wlog w ++ l) orc' leaks'
  end.

Definition wstep_with (rf : bout -> endres -> ret) (g : bool) : world -> nat -> world :=
  wstep_gen (tstep_with rf g).

Definition init (scs : list script) (orc : list reply) : world :=
  mkWorld (map (fun sc => mkThread sc TIdle 0) scs) [] orc 0.

Definition run_gen ts (w : world) (sched : list nat) : world := fold_left (wstep_gen ts) sched w.
Definition exec_gen ts (scs : list script) (sched : list nat) (orc : list reply) : world :=
  run_gen ts (init scs orc) sched.

Definition run_with rf (g : bool) : world -> list nat -> world := run_gen (tstep_with rf g).
Definition exec_with rf (g : bool) : list script -> list nat -> list reply -> world :=
  exec_gen (tstep_with rf g).

(* the code as it is *)
Definition finish := finish_with ret_of.
Definition tstep := tstep_with ret_of.
Definition wstep := wstep_with ret_of.
Definition run := run_with ret_of.
Definition exec := exec_with ret_of.

(* every driver call made while transaction [t] was running *)
Definition calls_of (t : nat) (l : list logent) : list logent :=
  filter (fun e => Nat.eqb (etid e) t) l.
(* the driver calls of transaction [t] itself: without the Begins that database/sql gave up *)
Definition is_retry (c : call) : bool := match c with CBeginRetry => true | _ => false end.
Definition proj (t : nat) (l : list logent) : list logent :=
  filter (fun e => Nat.eqb (etid e) t && negb (is_retry (ecall e))) l.

(* ---- readable predicates ----------------------------------------------------- *)
(* the call gets past the context check, the breaker and the connection provider *)
Definition let_through (sc : script) : bool := negb (sdead sc) && sbrk sc && sopen sc.

Definition ent_end (e : logent) : bool := is_end (ecall e).
Definition ent_stmt (e : logent) : bool := is_stmt (ecall e).
Definition ent_begin (e : logent) : bool := is_begin (ecall e).
Definition count (p : logent -> bool) (l : list logent) : nat := length (filter p l).
(* a successful Begin; an end call that panicked (database/sql then never gets the connection back) *)
Definition begun_ok (e : logent) : bool :=
  ent_begin e && match eout e with OOk => true | _ => false end.
Definition lostb (e : logent) : bool :=
  ent_end e && match eout e with OPanic => true | _ => false end.
Definition on_conn (c : Z) (e : logent) : bool := econn e =? c.

Definition is_self (a : action) : bool :=
  match a with ASelfCommit | ASelfRollback => true | _ => false end.
(* the body never ends the transaction behind Transact's back *)
Definition self_free (sc : script) : bool := forallb (fun s => negb (is_self (sact s))) (ssteps sc).

Definition is_nil_ret (r : ret) : bool := match r with RetErr ENil => true | _ => false end.
Definition reports_commit_failure (r : ret) : bool :=
  match r with RetErr (ECommit (DrvCommit _)) => true | _ => false end.
Definition reports_rollback_failure (r : ret) : bool :=
  match r with RetErr (ERecover (Some (DrvRollback _))) | RetErr (ETxFailed _ (DrvRollback _)) => true | _ => false end.
