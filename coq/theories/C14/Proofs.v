(* C14 — proofs about the model of transact / transactOnConn. *)
From Coq Require Import List ZArith Bool Lia Sorted.
From GZ Require Import C14.Model C14.Check.
Import ListNotations.
Open Scope Z_scope.

(* ---- what the body does, declaratively ------------------------------------ *)

(* a statement whose failure ends the body (returned or turned into a panic) *)
Definition reacts (s : stmt) : bool :=
  match sres_of s, sonfail s with
  | SOk, _ => false
  | _, FIgnore => false
  | _, _ => true
  end.

Definition quiet (ss : list stmt) : Prop := forallb (fun s => negb (reacts s)) ss = true.

(* the error / panic the body leaves with at statement [s] (index k) *)
Definition reaction (k : Z) (s : stmt) : bout :=
  match sonfail s with
  | FPanic => BPanic
  | _ => match sres_of s with SCtx => BErr (BCtx k) | _ => BErr (BStmt k) end
  end.

Lemma run_body_quiet : forall ss k f,
  quiet ss -> snd (run_body k ss f) = fin_out f.
Proof.
  unfold quiet. induction ss as [|s ss IH]; intros k f Hq; cbn in *.
  - reflexivity.
  - apply andb_true_iff in Hq. destruct Hq as [Hs Hq]. unfold reacts in Hs.
    destruct (sres_of s); destruct (sonfail s); cbn in Hs; try discriminate;
      try (specialize (IH (k + 1) f Hq); destruct (run_body (k + 1) ss f); cbn in *; exact IH).
Qed.

Lemma run_body_reacts : forall pre s post k f,
  quiet pre -> reacts s = true ->
  snd (run_body k (pre ++ s :: post) f) = reaction (k + Z.of_nat (length pre)) s.
Proof.
  unfold quiet. induction pre as [|p pre IH]; intros s post k f Hq Hr.
  - cbn [app length Z.of_nat]. replace (k + 0) with k by lia.
    unfold reacts in Hr. unfold reaction. cbn [run_body].
    destruct (sres_of s); destruct (sonfail s); cbn in Hr; try discriminate; reflexivity.
  - cbn [forallb] in Hq. apply andb_true_iff in Hq. destruct Hq as [Hs Hq].
    specialize (IH s post (k + 1) f Hq Hr).
    replace (k + Z.of_nat (length (p :: pre))) with (k + 1 + Z.of_nat (length pre))
      by (cbn [length]; lia).
    unfold reacts in Hs. cbn [app run_body].
    destruct (sres_of p); destruct (sonfail p); cbn in Hs; try discriminate;
      try (destruct (run_body (k + 1) (pre ++ s :: post) f); cbn in *; exact IH).
Qed.

(* every body is either quiet or has a first reacting statement *)
Lemma quiet_or_first : forall ss,
  quiet ss \/ exists pre s post, ss = pre ++ s :: post /\ quiet pre /\ reacts s = true.
Proof.
  unfold quiet. induction ss as [|s ss IH].
  - left. reflexivity.
  - destruct (reacts s) eqn:Hr.
    + right. exists [], s, ss. repeat split; auto.
    + destruct IH as [Hq | (pre & s' & post & -> & Hq & Hr')].
      * left. cbn. rewrite Hr. exact Hq.
      * right. exists (s :: pre), s', post. repeat split; auto. cbn. rewrite Hr. exact Hq.
Qed.

Lemma reaction_not_nil : forall k s, reaction k s <> BNil.
Proof. intros k s. unfold reaction. destruct (sonfail s); destruct (sres_of s); discriminate. Qed.

Lemma body_nil_iff : forall ss k f,
  snd (run_body k ss f) = BNil <-> (quiet ss /\ f = RNil).
Proof.
  intros ss k f. split.
  - intros H. destruct (quiet_or_first ss) as [Hq | (pre & s & post & -> & Hq & Hr)].
    + rewrite (run_body_quiet _ _ _ Hq) in H. split; auto. destruct f; cbn in H; congruence.
    + rewrite (run_body_reacts _ _ _ _ _ Hq Hr) in H. exfalso. eapply reaction_not_nil; eauto.
  - intros [Hq ->]. rewrite (run_body_quiet _ _ _ Hq). reflexivity.
Qed.

(* ---- the driver calls made by the body --------------------------------------- *)

Definition exec_index (x : logent) : Z :=
  match fst x with CExec j => j | _ => -1 end.

(* only statements, each at most once, in program order, none invented *)
Lemma run_body_log : forall ss k f,
  Forall (fun x => is_exec (fst x) = true) (fst (run_body k ss f)) /\
  Forall (fun x => k <= exec_index x < k + Z.of_nat (length ss)) (fst (run_body k ss f)) /\
  StronglySorted (fun x y => exec_index x < exec_index y) (fst (run_body k ss f)).
Proof.
  induction ss as [|s ss IH]; intros k f.
  - cbn. repeat split; constructor.
  - specialize (IH (k + 1) f). destruct IH as (E & R & S).
    assert (R' : Forall (fun x => k <= exec_index x < k + Z.of_nat (length (s :: ss)))
                        (fst (run_body (k + 1) ss f))).
    { eapply Forall_impl; [|exact R]. cbn [length]. intros x Hx. lia. }
    assert (R1 : Forall (fun y => k < exec_index y) (fst (run_body (k + 1) ss f))).
    { eapply Forall_impl; [|exact R]. intros x Hx. cbn beta in Hx. lia. }
    assert (Hk : forall b, k <= exec_index (CExec k, b) < k + Z.of_nat (length (s :: ss))).
    { intros b. cbn [length exec_index fst]. lia. }
    cbn [run_body].
    destruct (sres_of s); destruct (sonfail s);
      try (destruct (run_body (k + 1) ss f) as [l o]; cbn [fst] in *);
      cbn [fst]; repeat split;
      try (constructor; [reflexivity || apply Hk | assumption || constructor]);
      try assumption;
      try (constructor; [assumption || constructor | assumption || constructor]);
      try constructor.
Qed.

(* every statement before the first reacting one that is not refused for a cancelled
   context reaches the driver: nothing is skipped *)
Lemma run_body_quiet_execs : forall ss k f j s,
  quiet ss -> nth_error ss j = Some s -> sres_of s <> SCtx ->
  In (CExec (k + Z.of_nat j), match sres_of s with SOk => true | _ => false end)
     (fst (run_body k ss f)).
Proof.
  unfold quiet. induction ss as [|s0 ss IH]; intros k f j s Hq Hn Hc.
  - destruct j; discriminate.
  - cbn [forallb] in Hq. apply andb_true_iff in Hq. destruct Hq as [Hs Hq].
    destruct j as [|j].
    + cbn in Hn. inversion Hn; subst s0. replace (k + Z.of_nat 0) with k by lia.
      unfold reacts in Hs. cbn [run_body].
      destruct (sres_of s); destruct (sonfail s); cbn in Hs; try discriminate; try congruence;
        destruct (run_body (k + 1) ss f); left; reflexivity.
    + cbn [nth_error] in Hn. specialize (IH (k + 1) f j s Hq Hn Hc).
      replace (k + Z.of_nat (S j)) with (k + 1 + Z.of_nat j) by lia.
      unfold reacts in Hs. cbn [run_body].
      destruct (sres_of s0); destruct (sonfail s0); cbn in Hs; try discriminate;
        destruct (run_body (k + 1) ss f); cbn [fst] in *; try (right; exact IH); exact IH.
Qed.

(* ---- transact --------------------------------------------------------------- *)

Definition body_of (i : input) : bout := snd (run_body 0 (estmts i) (ifin i)).
Definition body_log (i : input) : list logent := fst (run_body 0 (estmts i) (ifin i)).

Lemma let_through_true : forall i, let_through i = true -> is_dead (ictx i) = false /\ ibrk i = true.
Proof.
  intros i H. unfold let_through in H. apply andb_true_iff in H. destruct H as [H1 H2].
  apply negb_true_iff in H1. split; assumption.
Qed.

Lemma not_through : forall i, let_through i = false ->
  transact i = mkResult [] 0 None (if is_dead (ictx i) then ECanceled else EUnavailable).
Proof.
  intros i H. unfold let_through in H. unfold transact.
  destruct (is_dead (ictx i)); [reflexivity|]. cbn in H. rewrite H. reflexivity.
Qed.

Lemma apply_ctx_length : forall c ss k, length (apply_ctx c k ss) = length ss.
Proof. induction ss as [|s ss IH]; intros k; cbn [apply_ctx length]; [reflexivity|]. rewrite IH. reflexivity. Qed.

Definition end_call (i : input) : logent :=
  match body_of i with
  | BNil => (CCommit, icommit i)
  | _ => (CRollback, irollback i)
  end.

(* the shape of every run that gets past the breaker and Begin *)
Lemma transact_shape : forall i,
  let_through i = true -> ibegin i = true ->
  rlog (transact i) = (CBegin, true) :: body_log i ++ [end_call i] /\
  rruns (transact i) = 1 /\
  rbody (transact i) = Some (body_of i).
Proof.
  intros i Hb Hg. destruct (let_through_true i Hb) as [Hd Hk].
  unfold end_call, transact, transact_on_conn, body_of, body_log.
  rewrite Hd, Hk, Hg. destruct (run_body 0 (estmts i) (ifin i)) as [bl o]. cbn [fst snd].
  unfold deferred. destruct o; [destruct (icommit i) | destruct (irollback i) | destruct (irollback i)];
    cbn; repeat split; reflexivity.
Qed.

Lemma transact_err : forall i,
  let_through i = true -> ibegin i = true ->
  rerr (transact i) =
  match body_of i with
  | BNil => if icommit i then ENil else ECommit
  | BErr b => if irollback i then EBody b else ETxFailedRollback b
  | BPanic => if irollback i then ERecover else ERecoverRollback
  end.
Proof.
  intros i Hb Hg. destruct (let_through_true i Hb) as [Hd Hk].
  unfold transact, transact_on_conn, body_of. rewrite Hd, Hk, Hg.
  destruct (run_body 0 (estmts i) (ifin i)) as [bl o]. cbn [snd].
  unfold deferred. destruct o; [destruct (icommit i) | destruct (irollback i) | destruct (irollback i)];
    reflexivity.
Qed.

Lemma end_call_is_end : forall i, is_end (fst (end_call i)) = true.
Proof. intros i. unfold end_call. destruct (body_of i); reflexivity. Qed.

Lemma body_log_execs : forall i, Forall (fun x => is_exec (fst x) = true) (body_log i).
Proof. intros i. unfold body_log. apply run_body_log. Qed.

Lemma count_app : forall p l1 l2, count p (l1 ++ l2) = (count p l1 + count p l2)%nat.
Proof. intros. unfold count. rewrite filter_app, app_length. reflexivity. Qed.

Lemma count_execs_zero : forall p l,
  (forall c, is_exec c = true -> p c = false) ->
  Forall (fun x => is_exec (fst x) = true) l -> count p l = 0%nat.
Proof.
  intros p l Hp H. unfold count. induction H as [|x l Hx _ IH]; cbn; auto.
  rewrite (Hp _ Hx). exact IH.
Qed.

(* T1 *)
Lemma ends_exactly_once_l : forall i,
  let_through i = true ->
  (ibegin i = false ->
     rlog (transact i) = [(CBegin, false)] /\ rruns (transact i) = 0 /\ rbody (transact i) = None) /\
  (ibegin i = true ->
     rruns (transact i) = 1 /\
     exists mid last ok,
       rlog (transact i) = (CBegin, true) :: mid ++ [(last, ok)] /\
       Forall (fun x => is_exec (fst x) = true) mid /\
       is_end last = true /\
       count is_begin (rlog (transact i)) = 1%nat /\
       count is_end (rlog (transact i)) = 1%nat).
Proof.
  intros i Hb. split; intros Hg.
  - destruct (let_through_true i Hb) as [Hd Hk].
    unfold transact, transact_on_conn. rewrite Hd, Hk, Hg. cbn. auto.
  - destruct (transact_shape i Hb Hg) as (Hl & Hr & _). split; [exact Hr|].
    exists (body_log i), (fst (end_call i)), (snd (end_call i)).
    rewrite <- surjective_pairing. split; [exact Hl|].
    pose proof (body_log_execs i) as He. pose proof (end_call_is_end i) as Hend.
    repeat split; auto.
    + rewrite Hl. change ((CBegin, true) :: body_log i ++ [end_call i])
        with ([(CBegin, true)] ++ body_log i ++ [end_call i]).
      rewrite !count_app. rewrite (count_execs_zero is_begin (body_log i)); auto.
      * unfold count. cbn. destruct (fst (end_call i)); try discriminate; reflexivity.
      * intros c Hc. destruct c; try discriminate; reflexivity.
    + rewrite Hl. change ((CBegin, true) :: body_log i ++ [end_call i])
        with ([(CBegin, true)] ++ body_log i ++ [end_call i]).
      rewrite !count_app. rewrite (count_execs_zero is_end (body_log i)); auto.
      * unfold count. cbn. rewrite Hend. reflexivity.
      * intros c Hc. destruct c; try discriminate; reflexivity.
Qed.

Lemma breaker_refusal_l : forall i,
  let_through i = false ->
  rlog (transact i) = [] /\ rruns (transact i) = 0 /\ rbody (transact i) = None /\
  rerr (transact i) = (if is_dead (ictx i) then ECanceled else EUnavailable).
Proof. intros i Hb. rewrite (not_through i Hb). cbn. auto. Qed.

Lemma in_log_cases : forall i c ok,
  let_through i = true -> ibegin i = true ->
  In (c, ok) (rlog (transact i)) ->
  (c, ok) = (CBegin, true) \/ (is_exec c = true) \/ (c, ok) = end_call i.
Proof.
  intros i c ok Hb Hg Hin. destruct (transact_shape i Hb Hg) as (Hl & _). rewrite Hl in Hin.
  destruct Hin as [H | H]; [left; auto|]. apply in_app_or in H. destruct H as [H | [H | []]].
  - right; left. pose proof (body_log_execs i) as He. rewrite Forall_forall in He.
    exact (He _ H).
  - right; right. auto.
Qed.

Lemma end_in_log : forall i, let_through i = true -> ibegin i = true -> In (end_call i) (rlog (transact i)).
Proof.
  intros i Hb Hg. destruct (transact_shape i Hb Hg) as (Hl & _). rewrite Hl.
  right. apply in_or_app. right. left. reflexivity.
Qed.

(* T2 *)
Lemma commit_iff_body_nil_l : forall i,
  let_through i = true -> ibegin i = true ->
  ((exists ok, In (CCommit, ok) (rlog (transact i))) <-> rbody (transact i) = Some BNil) /\
  ((exists ok, In (CRollback, ok) (rlog (transact i))) <->
     (rbody (transact i) = Some BPanic \/ exists b, rbody (transact i) = Some (BErr b))).
Proof.
  intros i Hb Hg. destruct (transact_shape i Hb Hg) as (_ & _ & Hbody). rewrite Hbody.
  pose proof (end_in_log i Hb Hg) as Hend.
  split; split.
  - intros [ok Hin]. destruct (in_log_cases i _ _ Hb Hg Hin) as [H | [H | H]]; try discriminate.
    unfold end_call in H. destruct (body_of i); try discriminate; reflexivity.
  - intros H. inversion H as [H1]. unfold end_call in Hend. rewrite H1 in Hend. eauto.
  - intros [ok Hin]. destruct (in_log_cases i _ _ Hb Hg Hin) as [H | [H | H]]; try discriminate.
    unfold end_call in H. destruct (body_of i); try discriminate; eauto.
  - intros H. unfold end_call in Hend.
    destruct H as [H2 | [b H2]]; inversion H2 as [H1]; rewrite H1 in Hend; eauto.
Qed.

(* T2': the body's outcome is determined by its script *)
Lemma body_outcome_l : forall i,
  let_through i = true -> ibegin i = true ->
  (rbody (transact i) = Some BNil <-> (quiet (estmts i) /\ ifin i = RNil)) /\
  (quiet (estmts i) -> rbody (transact i) = Some (fin_out (ifin i))) /\
  (forall pre s post, estmts i = pre ++ s :: post -> quiet pre -> reacts s = true ->
     rbody (transact i) = Some (reaction (Z.of_nat (length pre)) s)).
Proof.
  intros i Hb Hg. destruct (transact_shape i Hb Hg) as (_ & _ & Hbody). rewrite Hbody.
  unfold body_of. split; [split | split].
  - intros H. inversion H as [H1]. apply body_nil_iff in H1. tauto.
  - intros [Hq Hf]. f_equal. apply body_nil_iff. auto.
  - intros Hq. f_equal. apply run_body_quiet. exact Hq.
  - intros pre s post Hs Hq Hr. f_equal. rewrite Hs.
    rewrite (run_body_reacts _ _ _ _ _ Hq Hr). reflexivity.
Qed.

(* T3 *)
Lemma panic_rolls_back_and_errors_l : forall i,
  let_through i = true -> ibegin i = true -> rbody (transact i) = Some BPanic ->
  (exists mid, rlog (transact i) = (CBegin, true) :: mid ++ [(CRollback, irollback i)]) /\
  rerr (transact i) <> ENil /\
  rerr (transact i) = (if irollback i then ERecover else ERecoverRollback).
Proof.
  intros i Hb Hg Hp. destruct (transact_shape i Hb Hg) as (Hl & _ & Hbody).
  rewrite Hbody in Hp. inversion Hp as [Hp1].
  rewrite (transact_err i Hb Hg), Hp1. repeat split.
  - exists (body_log i). rewrite Hl. unfold end_call. rewrite Hp1. reflexivity.
  - destruct (irollback i); discriminate.
Qed.

(* T4 *)
Lemma nil_iff_commit_succeeded_l : forall i,
  rerr (transact i) = ENil <-> In (CCommit, true) (rlog (transact i)).
Proof.
  intros i. destruct (let_through i) eqn:Hb.
  - destruct (ibegin i) eqn:Hg.
    + rewrite (transact_err i Hb Hg). pose proof (end_in_log i Hb Hg) as Hend. split.
      * unfold end_call in Hend. revert Hend.
        destruct (body_of i); [destruct (icommit i) | destruct (irollback i) | destruct (irollback i)];
          intros Hend H; try discriminate. exact Hend.
      * intros Hin. destruct (in_log_cases i _ _ Hb Hg Hin) as [H | [H | H]]; try discriminate.
        unfold end_call in H. destruct (body_of i); try discriminate. injection H as H1.
        rewrite <- H1. reflexivity.
    + destruct (let_through_true i Hb) as [Hd Hk].
      unfold transact, transact_on_conn. rewrite Hd, Hk, Hg. cbn. split; [discriminate|].
      intros [H | []]. discriminate.
  - rewrite (not_through i Hb). cbn. split; [destruct (is_dead (ictx i)); discriminate | tauto].
Qed.

(* T5 *)
Lemma end_failures_surface_l : forall i,
  (In (CCommit, false) (rlog (transact i)) -> reports_commit_failure (rerr (transact i)) = true) /\
  (In (CRollback, false) (rlog (transact i)) -> reports_rollback_failure (rerr (transact i)) = true).
Proof.
  intros i. destruct (let_through i) eqn:Hb; [destruct (ibegin i) eqn:Hg|].
  - rewrite (transact_err i Hb Hg). split; intros Hin;
      destruct (in_log_cases i _ _ Hb Hg Hin) as [H | [H | H]]; try discriminate;
      unfold end_call in H; destruct (body_of i); try discriminate; injection H as H1;
      rewrite <- H1; reflexivity.
  - destruct (let_through_true i Hb) as [Hd Hk].
    unfold transact, transact_on_conn. rewrite Hd, Hk, Hg. cbn.
    split; intros [H | []]; discriminate.
  - rewrite (not_through i Hb). cbn. tauto.
Qed.

(* T6: when the rollback succeeds the caller gets exactly the body's error *)
Lemma body_error_returned_l : forall i b,
  let_through i = true -> ibegin i = true -> rbody (transact i) = Some (BErr b) ->
  rerr (transact i) = (if irollback i then EBody b else ETxFailedRollback b).
Proof.
  intros i b Hb Hg Hp. destruct (transact_shape i Hb Hg) as (_ & _ & Hbody).
  rewrite Hbody in Hp. inversion Hp as [Hp1]. rewrite (transact_err i Hb Hg), Hp1. reflexivity.
Qed.

(* T7: statements reach the driver at most once each, in program order *)
Lemma statements_in_order_l : forall i,
  let_through i = true -> ibegin i = true ->
  exists mid e, rlog (transact i) = (CBegin, true) :: mid ++ [e] /\
    StronglySorted (fun x y => exec_index x < exec_index y) mid /\
    Forall (fun x => 0 <= exec_index x < Z.of_nat (length (istmts i))) mid.
Proof.
  intros i Hb Hg. destruct (transact_shape i Hb Hg) as (Hl & _).
  exists (body_log i), (end_call i). split; [exact Hl|].
  unfold body_log. destruct (run_body_log (estmts i) 0 (ifin i)) as (_ & R & S). split; auto.
  unfold estmts in R. rewrite apply_ctx_length in R. exact R.
Qed.

(* T8: a body that never reacts runs every statement the driver can see *)
Lemma quiet_body_runs_all_l : forall i j s,
  let_through i = true -> ibegin i = true -> quiet (estmts i) ->
  nth_error (estmts i) j = Some s -> sres_of s <> SCtx ->
  In (CExec (Z.of_nat j), match sres_of s with SOk => true | _ => false end) (rlog (transact i)).
Proof.
  intros i j s Hb Hg Hq Hn Hc. destruct (transact_shape i Hb Hg) as (Hl & _). rewrite Hl.
  right. apply in_or_app. left. unfold body_log.
  exact (run_body_quiet_execs (estmts i) 0 (ifin i) j s Hq Hn Hc).
Qed.

(* ---- the context ------------------------------------------------------------------- *)
Lemma ends_at_most_once_l : forall i,
  (count is_end (rlog (transact i)) <= 1)%nat /\
  (count is_begin (rlog (transact i)) <= 1)%nat /\
  (count is_end (rlog (transact i)) = 1%nat <-> (let_through i = true /\ ibegin i = true)).
Proof.
  intros i. destruct (let_through i) eqn:Hb.
  - destruct (ibegin i) eqn:Hg.
    + destruct (ends_exactly_once_l i Hb) as [_ H]. destruct (H Hg) as (_ & mid & last & ok & _ & _ & _ & Cb & Ce).
      rewrite Cb, Ce. split; [lia|]. split; [lia|]. tauto.
    + destruct (ends_exactly_once_l i Hb) as [H _]. destruct (H Hg) as (Hl & _). rewrite Hl.
      unfold count. cbn. split; [lia|]. split; [lia|]. split; [discriminate | intros [_ ?]; discriminate].
  - rewrite (not_through i Hb). unfold count. cbn. split; [lia|]. split; [lia|].
    split; [discriminate | intros [? _]; discriminate].
Qed.

Lemma run_body_ctx : forall c ss k f x,
  In x (fst (run_body k (apply_ctx c k ss) f)) -> ctx_covers c (exec_index x) = false.
Proof.
  induction ss as [|s ss IH]; intros k f x Hin; cbn [apply_ctx run_body fst] in Hin; [contradiction|].
  destruct (ctx_covers c k) eqn:Hc; cbn [sres_of sonfail] in Hin.
  - destruct (sonfail s); cbn [fst] in Hin; try contradiction. exact (IH _ _ _ Hin).
  - destruct (sres_of s); destruct (sonfail s);
      try (destruct (run_body (k + 1) (apply_ctx c (k + 1) ss) f) as [l o] eqn:E;
           assert (IH' := IH (k + 1) f x); rewrite E in IH'; cbn [fst] in *);
      cbn [fst In] in Hin;
      repeat match goal with
             | H : _ \/ _ |- _ => destruct H as [H | H]
             | H : False |- _ => contradiction
             | H : (CExec _, _) = x |- _ => subst x; cbn [exec_index fst]; exact Hc
             end; auto.
Qed.

Lemma statements_after_cancel_l : forall i x,
  let_through i = true -> ibegin i = true ->
  In x (rlog (transact i)) -> is_exec (fst x) = true ->
  ctx_covers (ictx i) (exec_index x) = false.
Proof.
  intros i x Hb Hg Hin Hx. destruct (transact_shape i Hb Hg) as (Hl & _). rewrite Hl in Hin.
  destruct Hin as [<- | Hin]; [discriminate|]. apply in_app_or in Hin. destruct Hin as [Hin | [<- | []]].
  - unfold body_log, estmts in Hin. exact (run_body_ctx _ _ _ _ _ Hin).
  - pose proof (end_call_is_end i) as He. destruct (fst (end_call i)); discriminate.
Qed.

(* ---- the decidable check used on the implementation ------------------------- *)

Definition case_of (i : input) : case :=
  let r := transact i in mkCase i (rlog r) (rruns r) (rbody r) (facts (rerr r)) 0.

Lemma split_last_app : forall A (l : list A) x, split_last (l ++ [x]) = Some (l, x).
Proof.
  induction l as [|a l IH]; intros x; [reflexivity|].
  cbn [app split_last]. rewrite IH. destruct (l ++ [x]) eqn:E; [|reflexivity].
  destruct l; discriminate.
Qed.

Lemma forallb_execs : forall l,
  Forall (fun x : logent => is_exec (fst x) = true) l -> forallb (fun x => is_exec (fst x)) l = true.
Proof. intros l H. apply forallb_forall. rewrite Forall_forall in H. exact H. Qed.

(* the model passes the very check that is applied to the implementation's
   observations (so a [prop_ok = false] is never an artefact of the checker being
   stricter than what is proved) *)
Lemma model_passes_check_l : forall i, prop_ok (case_of i) = true /\ agrees (case_of i) = true.
Proof.
  intros i. split.
  - unfold prop_ok, case_of. cbn [olog oruns obody oerr cin].
    destruct (let_through i) eqn:Hb; [destruct (ibegin i) eqn:Hg|].
    + destruct (transact_shape i Hb Hg) as (Hl & Hr & Hbody).
      rewrite Hl, Hr, Hbody, split_last_app, (transact_err i Hb Hg).
      rewrite (forallb_execs _ (body_log_execs i)). unfold end_call.
      destruct (body_of i); [destruct (icommit i) | destruct (irollback i) | destruct (irollback i)];
        reflexivity.
    + destruct (let_through_true i Hb) as [Hd Hk].
      unfold transact, transact_on_conn. rewrite Hd, Hk, Hg. reflexivity.
    + rewrite (not_through i Hb). cbn [rlog rruns rbody rerr].
      destruct (is_dead (ictx i)); reflexivity.
  - unfold agrees, case_of. cbn [olog oruns obody oerr cin oinuse].
    assert (Hl : forall l, list_eqb logent_eqb l l = true).
    { induction l as [|[c b] l IH]; [reflexivity|]. cbn. rewrite IH.
      unfold logent_eqb. cbn. destruct c, b; cbn; rewrite ?Z.eqb_refl; reflexivity. }
    assert (Hbo : opt_eqb bout_eqb (rbody (transact i)) (rbody (transact i)) = true).
    { destruct (rbody (transact i)) as [[| [| k | k] |]|]; cbn; rewrite ?Z.eqb_refl; reflexivity. }
    assert (He : forall e, eobs_eqb e e = true).
    { intros [[] [] [] [] [] [] [] [] []]; reflexivity. }
    rewrite Hl, Z.eqb_refl, Hbo, He. reflexivity.
Qed.

(* and, conversely, what a passing check on *any* observation means *)
Lemma prop_ok_meaning_l : forall c,
  prop_ok c = true ->
  match olog c with
  | [] => let_through (cin c) = false /\ oruns c = 0 /\ e_nil (oerr c) = false
  | (CBegin, false) :: rest => rest = [] /\ oruns c = 0 /\ e_nil (oerr c) = false
  | (CBegin, true) :: rest =>
    oruns c = 1 /\
    exists mid last ok o,
      rest = mid ++ [(last, ok)] /\ obody c = Some o /\
      Forall (fun x => is_exec (fst x) = true) mid /\
      is_end last = true /\
      (is_commit last = true <-> o = BNil) /\
      (o = BPanic -> e_nil (oerr c) = false) /\
      (e_nil (oerr c) = true -> last = CCommit /\ ok = true) /\
      (ok = false -> e_nil (oerr c) = false /\
                     (if is_commit last then e_commit (oerr c) else e_rollback (oerr c)) = true)
  | _ => False
  end.
Proof.
  intros c H. unfold prop_ok in H.
  destruct (olog c) as [|[[] []] rest]; try discriminate.
  - apply andb_true_iff in H. destruct H as [H H3]. apply andb_true_iff in H. destruct H as [H1 H2].
    apply negb_true_iff in H1, H3. apply Z.eqb_eq in H2. auto.
  - apply andb_true_iff in H. destruct H as [H0 H].
    apply Z.eqb_eq in H0. split; [exact H0|].
    destruct (split_last rest) as [[mid [last ok]]|] eqn:Hs; [|discriminate].
    destruct (obody c) as [o|]; [|discriminate].
    assert (Hrest : rest = mid ++ [(last, ok)]).
    { clear H. revert mid Hs. induction rest as [|x rest IH]; intros mid Hs; [discriminate|].
      cbn [split_last] in Hs. destruct rest as [|y rest'].
      - inversion Hs. reflexivity.
      - destruct (split_last (y :: rest')) as [[m z]|] eqn:E; [|discriminate].
        inversion Hs; subst. cbn [app]. f_equal. apply IH. reflexivity. }
    exists mid, last, ok, o.
    apply andb_true_iff in H. destruct H as [H HF].
    apply andb_true_iff in H. destruct H as [H HE].
    apply andb_true_iff in H. destruct H as [H HD].
    apply andb_true_iff in H. destruct H as [H HC].
    apply andb_true_iff in H. destruct H as [HA HB].
    split; [exact Hrest|]. split; [reflexivity|].
    split; [apply Forall_forall; rewrite forallb_forall in HA; exact HA|].
    split; [exact HB|].
    split; [|split; [|split]].
    + split.
      * intros Hc. destruct o; auto; destruct last; discriminate.
      * intros ->. exact HC.
    + intros ->. apply negb_true_iff in HD. exact HD.
    + intros Hn. rewrite Hn in HE. apply andb_true_iff in HE. destruct HE as [HE1 HE2].
      split; [|exact HE2]. destruct last; try discriminate; reflexivity.
    + intros ->. apply andb_true_iff in HF. destruct HF as [HF1 HF2].
      apply negb_true_iff in HF1. split; assumption.
  - apply andb_true_iff in H. destruct H as [H H3]. apply andb_true_iff in H. destruct H as [H1 H2].
    apply negb_true_iff in H3. apply Z.eqb_eq in H2. destruct rest; [auto | discriminate].
Qed.
