(* C14 — pinned wrong variants of the code, each refuted by a concrete run (vm_compute).
   Every variant is one that compiled and passed go-zero's own tests:
   - seeded changes C14-1 / C14-2 (the deferred function refactored into a helper that drops
     the Commit error);
   - seeded change C14-3 (TransactCtx hands the body's error back "as is", losing the wrapped
     rollback failure);
   - the tree before repair F24 (a body that exits its goroutine is committed);
   - seeded change C14-4 (a context that became done while Begin was in flight is treated like
     a failed Begin: return before the deferred function is registered);
   - seeded change C14-5 (no Rollback when the body's error matches driver.ErrBadConn);
   - seeded change C14-9 (a TransactCtx nested in another one on the same SqlConn joins the enclosing
     transaction instead of being one);
   - seeded change C14-11 (BEGIN, COMMIT and ROLLBACK each go through the SqlConn's breaker: a breaker
     that opened while the body ran refuses the end call, which is then never sent);
   - seeded change C14-10 (a body that returned nil is rolled back when its most recent statement
     failed);
   - seeded change C14-12 (after a successful Rollback a recovered runtime.Error is raised again
     instead of being returned as "recover from ...");
   - seeded change C14-13 (a Commit that failed while the caller's context is done is followed by a
     Rollback: two end calls on one transaction). *)
From Coq Require Import List ZArith Bool.
From GZ Require Import C14.Model C14.Check.
Import ListNotations.
Open Scope Z_scope.

Definition ok : reply := mkReply OOk false vgen.
Definition fl : reply := mkReply OFail false vgen.
Definition bad : reply := mkReply OFail false (mkVal VBadConn MWrap).
Definition stx : step := mkStep (AStmt MExec true) FStop.
Definition sc1 (steps : list step) (f : fin) : script := mkScript true false false true true 1 [] steps f 0.

(* ---- C14-1 / C14-2: err = tx.Commit() became "if err := tx.Commit(); err != nil { log }" ---- *)
Definition ret_commit_dropped (o : bout) (x : endres) : ret :=
  match x, o with
  | XErr _, BNil => RetErr ENil
  | _, _ => ret_of o x
  end.

(* "the returned error is nil only when the commit succeeded" / "commit failures are reported" *)
Theorem commit_error_dropped_refuted :
  exists scs sched orc th r e,
    nth_error (wthreads (exec_with ret_commit_dropped true scs sched orc)) 0 = Some th /\
    tst th = TDone r /\ In e (proj 0 (wlog (exec_with ret_commit_dropped true scs sched orc))) /\
    ecall e = CCommit /\ eout e = OFail /\ rret r = RetErr ENil.
Proof.
  exists [sc1 [stx] RNil], [0; 0; 0]%nat, [ok; ok; fl].
  eexists. eexists. exists (mkEnt 0 1 CCommit OFail vgen). vm_compute. repeat split; auto.
Qed.

(* ---- C14-3: "if fnErr != nil { return fnErr }" after the breaker call -------------------- *)
Definition ret_body_error_as_is (o : bout) (x : endres) : ret :=
  match x, o with
  | XPanic, _ => RetPanic
  | _, BErr b => RetErr (EBody b)
  | _, _ => ret_of o x
  end.

(* "rollback failures are reported to the caller" *)
Theorem rollback_failure_lost_refuted :
  exists scs sched orc th r e,
    nth_error (wthreads (exec_with ret_body_error_as_is true scs sched orc)) 0 = Some th /\
    tst th = TDone r /\ In e (proj 0 (wlog (exec_with ret_body_error_as_is true scs sched orc))) /\
    ecall e = CRollback /\ eout e = OFail /\ reports_rollback_failure (rret r) = false.
Proof.
  exists [sc1 [stx] (RErr vgen)], [0; 0; 0]%nat, [ok; ok; fl].
  eexists. eexists. exists (mkEnt 0 1 CRollback OFail vgen). vm_compute. repeat split; auto.
Qed.

(* ---- before F24: no "fn never returned" guard ([g = false]) ------------------------------- *)
(* "commits if and only if the body returned nil" *)
Theorem goexit_unguarded_refuted :
  exists scs sched orc th r e,
    nth_error (wthreads (exec false scs sched orc)) 0 = Some th /\
    tst th = TDone r /\ rbody r = Some BGoexit /\
    In e (proj 0 (wlog (exec false scs sched orc))) /\ ecall e = CCommit /\ eout e = OOk.
Proof.
  exists [sc1 [stx] RGoexit], [0; 0; 0]%nat, [].
  eexists. eexists. exists (mkEnt 0 1 CCommit OOk vgen). vm_compute. repeat split; auto.
Qed.

(* ---- C14-4: "if err == nil { err = ctx.Err() }; if err != nil { return }" after b(conn) ----- *)
Definition tstep_ctx_after_begin (g : bool) (t : nat) (sc : script) (st : tstate) (orc : list reply) : qout :=
  match st with
  | TIdle =>
    if let_through sc then
      let '(o, v, c, l, orc1) := begin_all max_begin_retries t (sretry sc) (sconn sc) orc in
      match o with
      | OOk => if sctxapi sc && c then (TDone (mkRes 0 None (RetErr (ECtxDone (sdl sc))) false), l, orc1, false)
               else (TBody 0 (ssteps sc) c false, l, orc1, false)
      | _ => (TDone (mkRes 0 None (RetErr (EBegin v)) false), l, orc1, false)
      end
    else tstep g t sc st orc
  | _ => tstep g t sc st orc
  end.

(* "begins one transaction and ends it exactly once": a successful Begin, the call is over, no end
   call; the balance of the connection is broken for good *)
Theorem begun_never_ended_refuted :
  exists scs sched orc th r,
    let W := exec_gen (tstep_ctx_after_begin true) scs sched orc in
    nth_error (wthreads W) 0 = Some th /\ tst th = TDone r /\
    count begun_ok (proj 0 (wlog W)) = 1%nat /\ count ent_end (proj 0 (wlog W)) = 0%nat /\
    count (fun e => on_conn 1 e && begun_ok e) (wlog W) <>
    (count (fun e => on_conn 1 e && ent_end e) (wlog W) +
     length (filter (fun th => holds_conn th && Z.eqb (sconn (tsc th)) 1%Z) (wthreads W)))%nat.
Proof.
  exists [sc1 [stx] RNil], [0; 0; 0]%nat, [mkReply OOk true vgen].
  eexists. eexists. vm_compute. repeat split; auto. discriminate.
Qed.

(* ---- C14-5: "if connLost(err) { return }" before the Rollback of the error branch ------------ *)
Definition berr_badconn (b : berr) : bool :=
  match b with
  | BUser v | BStmt _ v | BSelfC _ v | BSelfR _ v => is_badconn v
  | _ => false
  end.

Definition finish_badconn_skips (g : bool) (t : nat) (sc : script) (done : bool) (o : bout)
  (orc : list reply) : qout :=
  match o with
  | BErr b => if berr_badconn b then (TDone (mkRes 1 (Some o) (RetErr (EBody b)) done), [], orc, false)
              else finish g t sc done o orc
  | _ => finish g t sc done o orc
  end.

(* the k-th statement fails with (an error wrapping) driver.ErrBadConn and the body returns it:
   the transaction is over for the caller, was begun, and is never ended *)
Theorem badconn_never_ended_refuted :
  exists scs sched orc th r,
    let W := exec_gen (tstep_fin (finish_badconn_skips true)) scs sched orc in
    nth_error (wthreads W) 0 = Some th /\ tst th = TDone r /\
    count begun_ok (proj 0 (wlog W)) = 1%nat /\ count ent_end (proj 0 (wlog W)) = 0%nat /\
    count (fun e => on_conn 1 e && begun_ok e) (wlog W) <>
    (count (fun e => on_conn 1 e && ent_end e) (wlog W) +
     length (filter (fun th => holds_conn th && Z.eqb (sconn (tsc th)) 1%Z) (wthreads W)))%nat.
Proof.
  exists [sc1 [stx; stx] RNil], [0; 0; 0]%nat, [ok; ok; bad].
  eexists. eexists. vm_compute. repeat split; auto. discriminate.
Qed.

(* ---- C14-9: a TransactCtx whose context comes from the body of another TransactCtx on the same
   SqlConn "runs in the transaction that is already open": return fn(ctx, outer.session) ---------- *)
(* [joins t]: call t is such a nested call *)
Definition ret_joined (o : bout) : ret :=
  match o with
  | BNil => RetErr ENil
  | BErr b => RetErr (EBody b)
  | BPanic => RetPanic
  | BGoexit => RetNever
  end.

Definition tstep_join_outer (joins : nat -> bool) (g : bool) (t : nat) (sc : script) (st : tstate)
  (orc : list reply) : qout :=
  if joins t then
    match st with
    | TIdle => (TBody 0 (ssteps sc) false false, [], orc, false)   (* no Begin *)
    | _ => tstep_fin (fun _ _ done o orc' => (TDone (mkRes 1 (Some o) (ret_joined o) done), [], orc', false))
                     t sc st orc                                     (* no Commit, no Rollback *)
    end
  else tstep g t sc st orc.

(* the outer body runs the nested call (transaction 1, quanta between two of its own) and then fails:
   the nested call has returned nil although nothing of its own was ever begun or committed — and
   its statement, made on the outer connection, is rolled back with the outer transaction *)
Theorem nested_call_joins_outer_refuted :
  exists scs sched orc th r,
    let W := exec_gen (tstep_join_outer (Nat.eqb 1) true) scs sched orc in
    nth_error (wthreads W) 1 = Some th /\ tst th = TDone r /\ let_through (tsc th) = true /\
    rruns r = 1 /\ rret r = RetErr ENil /\
    count ent_begin (proj 1 (wlog W)) = 0%nat /\ count ent_end (proj 1 (wlog W)) = 0%nat /\
    wlog W = [en 0 1 CBegin OOk; en 1 1 (CStmt 0 KExec) OOk; en 0 1 CRollback OOk].
Proof.
  exists [sc1 [mkStep ANop FStop] (RErr vgen); sc1 [stx] RNil], [0; 0; 1; 1; 1; 0]%nat, [].
  eexists. eexists. vm_compute. repeat split; auto.
Qed.

(* ---- C14-11: TransactCtx no longer runs the whole transaction as ONE breaker request; BEGIN, COMMIT
   and ROLLBACK each go through the breaker (guardedTx.Commit = brk.DoWithAcceptable(tx.Commit)).
   A breaker that opened between BEGIN and the end refuses the end call: tx.Commit / tx.Rollback is
   not called at all, ErrServiceUnavailable is taken for the error of the end call. --------------- *)
Definition is_trip (a : action) : bool := match a with ATrip => true | _ => false end.
(* the breaker is open when the body ends: an [ATrip] is among the [n] steps performed so far (the
   variant restricted to trips made from the transaction's own body; nothing closes the breaker
   again meanwhile) *)
Definition tripped_within (sc : script) (n : Z) : bool :=
  existsb (fun s => is_trip (sact s)) (firstn (Z.to_nat n) (ssteps sc)).
Definition unavail : errval := mkVal VUnavail MBare.

Definition finish_refused (g : bool) (sc : script) (done : bool) (o : bout) (orc : list reply) : qout :=
  let c := if is_commit (end_call_of g o) then DrvCommit unavail else DrvRollback unavail in
  (TDone (mkRes 1 (Some o) (ret_of o (XErr c)) done), [], orc, false).

Definition tstep_end_through_breaker (g : bool) (t : nat) (sc : script) (st : tstate) (orc : list reply) : qout :=
  match st with
  | TBody k _ _ _ =>
    tstep_fin (fun t' sc' done o orc' =>
                 if tripped_within sc' (k + 1) then finish_refused g sc' done o orc'
                 else finish g t' sc' done o orc') t sc st orc
  | _ => tstep g t sc st orc
  end.

(* "begins one transaction and ends it exactly once", "commits if and only if the body returned
   nil": the body ran and returned nil, the call is over (it returned "circuit breaker is open"),
   one successful Begin, no Commit, no Rollback: the connection never goes back to the pool *)
Theorem end_refused_by_open_breaker_refuted :
  exists scs sched orc th r,
    let W := exec_gen (tstep_end_through_breaker true) scs sched orc in
    nth_error (wthreads W) 0 = Some th /\ tst th = TDone r /\ rruns r = 1 /\ rbody r = Some BNil /\
    rret r = RetErr (ECommit (DrvCommit unavail)) /\
    count begun_ok (proj 0 (wlog W)) = 1%nat /\ count ent_end (proj 0 (wlog W)) = 0%nat /\
    count (fun e => on_conn 1 e && begun_ok e) (wlog W) <>
    (count (fun e => on_conn 1 e && ent_end e) (wlog W) +
     length (filter (fun th => holds_conn th && Z.eqb (sconn (tsc th)) 1%Z) (wthreads W)))%nat.
Proof.
  exists [sc1 [stx; mkStep ATrip FStop] RNil], [0; 0; 0; 0]%nat, [].
  eexists. eexists. vm_compute. repeat split; auto. discriminate.
Qed.

(* ... and a body that failed is never rolled back *)
Theorem rollback_refused_by_open_breaker_refuted :
  exists scs sched orc th r,
    let W := exec_gen (tstep_end_through_breaker true) scs sched orc in
    nth_error (wthreads W) 0 = Some th /\ tst th = TDone r /\ rbody r = Some (BErr (BUser vgen)) /\
    count begun_ok (proj 0 (wlog W)) = 1%nat /\ count ent_end (proj 0 (wlog W)) = 0%nat.
Proof.
  exists [sc1 [mkStep ATrip FStop; stx] (RErr vgen)], [0; 0; 0; 0]%nat, [].
  eexists. eexists. vm_compute. repeat split; auto.
Qed.

(* without a trip the variant is the code as it is (why go-zero's own tests pass) *)
Example end_through_breaker_quiet_without_trip :
  exec_gen (tstep_end_through_breaker true) [sc1 [stx; mkStep ANop FStop] RNil] [0; 0; 0; 0]%nat [ok; ok; fl] =
  exec true [sc1 [stx; mkStep ANop FStop] RNil] [0; 0; 0; 0]%nat [ok; ok; fl].
Proof. vm_compute. reflexivity. Qed.

(* ---- C14-10: the session remembers how its most recent statement ended; a body that returned nil
   although that statement failed (with anything but sql.ErrNoRows) is treated as if it had returned
   the statement's error: Rollback and "transaction aborted by failed statement". The variant takes
   the last step of such a body and the end of the body in one quantum. -------------------------- *)
Definition is_norows (v : errval) : bool := match vkind v with VNoRows => true | _ => false end.
Definition is_stmt_act (a : action) : bool := match a with AStmt _ _ => true | _ => false end.

Definition tstep_last_failure_aborts (g : bool) (t : nat) (sc : script) (st : tstate) (orc : list reply) : qout :=
  match st, sfin sc with
  | TBody k [s] canc done, RNil =>
    let '(r, l, orc1, canc1, done1, leak1) := do_action t sc k (sact s) canc done orc in
    match r, sonfail s with
    | SErr (BStmt j v), FIgnore =>
      if is_stmt_act (sact s) && negb (is_norows v) then
        let '(x, l2, orc2) := try_end t (sconn sc) CRollback done1 orc1 in
        (TDone (mkRes 1 (Some BNil) (ret_of (BErr (BStmt j v)) x) done1), l ++ l2, orc2, leak1 || is_xpanic x)
      else tstep g t sc st orc
    | _, _ => tstep g t sc st orc
    end
  | _, _ => tstep g t sc st orc
  end.

(* "commits if and only if the body returned nil": the body returned nil - it tolerates the failure of
   its last statement -, nothing in Begin / Commit / Rollback failed, and the transaction is rolled
   back; the caller gets an error *)
Theorem tolerated_failure_rolls_back_refuted :
  exists scs sched orc th r e,
    let W := exec_gen (tstep_last_failure_aborts true) scs sched orc in
    nth_error (wthreads W) 0 = Some th /\ tst th = TDone r /\ rbody r = Some BNil /\
    In e (proj 0 (wlog W)) /\ ecall e = CRollback /\ count (fun e => is_commit (ecall e)) (proj 0 (wlog W)) = 0%nat /\
    is_nil_ret (rret r) = false.
Proof.
  exists [sc1 [stx; mkStep (AStmt MExec true) FIgnore] RNil], [0; 0; 0; 0]%nat, [ok; ok; fl].
  eexists. eexists. exists (mkEnt 0 1 CRollback OOk vgen). vm_compute. repeat split; auto.
Qed.

(* the same runs on the code as it is *)
Example open_breaker_does_not_stop_the_end :
  wlog (exec true [sc1 [stx; mkStep ATrip FStop] RNil] [0; 0; 0; 0]%nat []) =
  [en 0 1 CBegin OOk; en 0 1 (CStmt 0 KExec) OOk; en 0 1 CCommit OOk] /\
  wlog (exec true [sc1 [mkStep ATrip FStop; stx] (RErr vgen)] [0; 0; 0; 0]%nat []) =
  [en 0 1 CBegin OOk; en 0 1 (CStmt 1 KExec) OOk; en 0 1 CRollback OOk].
Proof. vm_compute. split; reflexivity. Qed.
Example tolerated_failure_commits :
  let W := exec true [sc1 [stx; mkStep (AStmt MExec true) FIgnore] RNil] [0; 0; 0; 0]%nat [ok; ok; fl] in
  wlog W = [en 0 1 CBegin OOk; en 0 1 (CStmt 0 KExec) OOk; en 0 1 (CStmt 1 KExec) OFail; en 0 1 CCommit OOk] /\
  map tst (wthreads W) = [TDone (mkRes 1 (Some BNil) (RetErr ENil) false)].
Proof. vm_compute. split; reflexivity. Qed.

(* ---- C14-12: "} else if isRuntimePanic(p) { panic(p) }" after the successful Rollback of the panic
   branch: the panic of a body whose value is a runtime.Error (nil dereference, nil-map write, index
   out of range, failed assertion, division by zero, panic(nil)) escapes Transact / TransactCtx.
   [ret_reraise] is the variant for such bodies (the model's BPanic carries no value). ----------- *)
Definition ret_reraise (o : bout) (x : endres) : ret :=
  match x, o with
  | XOk, BPanic => RetPanic
  | _, _ => ret_of o x
  end.

(* "rolls back if the body panicked (the panic is reported as an error, not swallowed ...)": the body
   panicked, the transaction was rolled back, no driver call panicked - and the call itself panics
   instead of returning an error *)
Theorem body_panic_escapes_refuted :
  exists scs sched orc th r e,
    let W := exec_with ret_reraise true scs sched orc in
    nth_error (wthreads W) 0 = Some th /\ tst th = TDone r /\ rbody r = Some BPanic /\
    In e (proj 0 (wlog W)) /\ ecall e = CRollback /\ eout e = OOk /\
    count lostb (wlog W) = 0%nat /\ rret r = RetPanic.
Proof.
  exists [sc1 [stx] RPanic], [0; 0; 0]%nat, [].
  eexists. eexists. exists (mkEnt 0 1 CRollback OOk vgen). vm_compute. repeat split; auto.
Qed.

(* the check's judgement rejects exactly that observation: finished_ok on the variant's run *)
Example body_panic_escapes_fails_the_check :
  let W := exec_with ret_reraise true [sc1 [stx] RPanic] [0; 0; 0]%nat [] in
  prop_ok (mkCase true [sc1 [stx] RPanic] [0; 0; 0]%nat [] (wlog W) (map tobs_of (wthreads W)) 0) = false /\
  let V := exec true [sc1 [stx] RPanic] [0; 0; 0]%nat [] in
  prop_ok (mkCase true [sc1 [stx] RPanic] [0; 0; 0]%nat [] (wlog V) (map tobs_of (wthreads V)) 0) = true /\
  map tst (wthreads V) = [TDone (mkRes 1 (Some BPanic) (RetErr (ERecover None)) false)].
Proof. vm_compute. repeat split; reflexivity. Qed.

(* ---- C14-13: "} else if err = tx.Commit(); err != nil && ctx.Err() != nil { tx.Rollback() ... }".
   The log of this variant is read at the level of the transaction object handed to transactOnConn
   (what the white-box executor logs): the second end call is an entry, although *sql.Tx answers it
   with ErrTxDone without telling the driver. The context is the one that was done when the body
   ended ([canc] of the state). ------------------------------------------------------------------ *)
Definition is_fail (o : outcome) : bool := match o with OFail => true | _ => false end.

Definition tstep_commit_then_rollback (g : bool) (t : nat) (sc : script) (st : tstate) (orc : list reply) : qout :=
  match st with
  | TBody k [] canc false =>
    let '(st', l, orc1, leak) := finish g t sc false (fin_out (sfin sc)) orc in
    match l with
    | [e] => if is_commit (ecall e) && is_fail (eout e) && sctxapi sc && canc
             then (st', l ++ [mkEnt t (sconn sc) CRollback OFail (mkVal VTxDone MBare)], orc1, leak)
             else (st', l, orc1, leak)
    | _ => (st', l, orc1, leak)
    end
  | _ => tstep g t sc st orc
  end.

(* "begins one transaction and ends it exactly once": one Begin, TWO end calls *)
Theorem commit_failed_then_rollback_refuted :
  exists scs sched orc th r,
    let W := exec_gen (tstep_commit_then_rollback true) scs sched orc in
    nth_error (wthreads W) 0 = Some th /\ tst th = TDone r /\ rbody r = Some BNil /\
    count begun_ok (proj 0 (wlog W)) = 1%nat /\ count ent_end (proj 0 (wlog W)) = 2%nat /\
    prop_ok (mkCase true scs sched orc (wlog W) (map tobs_of (wthreads W)) 0) = false.
Proof.
  exists [sc1 [stx; mkStep ACancel FStop] RNil], [0; 0; 0; 0]%nat, [ok; ok; fl].
  eexists. eexists. vm_compute. repeat split; auto.
Qed.

(* the code as it is: one end call, whatever the context *)
Example commit_failed_under_done_context_is_one_end :
  map ecall (wlog (exec true [sc1 [stx; mkStep ACancel FStop] RNil] [0; 0; 0; 0]%nat [ok; ok; fl])) =
  [CBegin; CStmt 0 KExec; CCommit].
Proof. vm_compute. reflexivity. Qed.

(* the same runs on the code as it is *)
Example commit_error_kept :
  map tst (wthreads (exec true [sc1 [stx] RNil] [0; 0; 0]%nat [ok; ok; fl])) =
  [TDone (mkRes 1 (Some BNil) (RetErr (ECommit (DrvCommit vgen))) false)].
Proof. vm_compute. reflexivity. Qed.
Example rollback_failure_kept :
  map tst (wthreads (exec true [sc1 [stx] (RErr vgen)] [0; 0; 0]%nat [ok; ok; fl])) =
  [TDone (mkRes 1 (Some (BErr (BUser vgen))) (RetErr (ETxFailed (BUser vgen) (DrvRollback vgen))) false)].
Proof. vm_compute. reflexivity. Qed.
Example goexit_guarded :
  wlog (exec true [sc1 [stx] RGoexit] [0; 0; 0]%nat []) =
  [mkEnt 0 1 CBegin OOk vgen; mkEnt 0 1 (CStmt 0 KExec) OOk vgen; mkEnt 0 1 CRollback OOk vgen].
Proof. vm_compute. reflexivity. Qed.
Example badconn_statement_is_rolled_back :
  wlog (exec true [sc1 [stx; stx] RNil] [0; 0; 0]%nat [ok; ok; bad]) =
  [mkEnt 0 1 CBegin OOk vgen; mkEnt 0 1 (CStmt 0 KExec) OOk vgen;
   mkEnt 0 1 (CStmt 1 KExec) OFail (mkVal VBadConn MWrap); mkEnt 0 1 CRollback OOk vgen].
Proof. vm_compute. reflexivity. Qed.
Example nested_call_is_bracketed :
  wlog (exec true [sc1 [mkStep ANop FStop] (RErr vgen); mkScript true false false true true 2 [] [stx] RNil 0]
             [0; 0; 1; 1; 1; 0]%nat []) =
  [en 0 1 CBegin OOk; en 1 2 CBegin OOk; en 1 2 (CStmt 0 KExec) OOk; en 1 2 CCommit OOk; en 0 1 CRollback OOk].
Proof. vm_compute. reflexivity. Qed.
Example cancelled_during_begin_is_ended :
  wlog (exec true [sc1 [stx] RNil] [0; 0; 0]%nat [mkReply OOk true vgen]) =
  [mkEnt 0 1 CBegin OOk vgen; mkEnt 0 1 CRollback OOk vgen].
Proof. vm_compute. reflexivity. Qed.
