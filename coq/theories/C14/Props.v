(* C14 — property theorems only.  Every theorem is closed by [exact] of a lemma proved in
   ProofsA..G.v and followed by [Print Assumptions].

   [exec g scs sched orc] (Model.v) runs the machine: [scs] are the transactions (each: which
   API, context already cancelled or not, breaker verdict, connection provider ok or not, the
   body as a list of steps of any length — statements through every Session method, nested
   Transact on the session, Commit/Rollback by the body itself, cancellation of the context —
   with the body's reaction to a failing step return-it / ignore-it / panic, and its ending
   nil / error / panic / goroutine exit); [sched] says which transaction performs its next
   quantum (the call up to the first step; one step; the end of the body with the deferred
   function); [orc] scripts the driver: the answer ok / fail / panic of its 1st, 2nd, ... call,
   whoever makes it, and whether the caller's context becomes done during that call.
   [g] = the tree guards the commit against a body that never returned (GZgen.C14Consts,
   regenerated; GenProofs.v pins it to true).

   ALL theorems quantify over every such scs, sched (any interleaving, complete or not), orc:
   every body length, every fault point, every sequence of transactions on long-lived SqlConns,
   every interleaving of concurrent ones — including a transaction begun on the pool from inside
   the body of another (its quanta lie between two quanta of the outer one).
   [trace t] = the driver calls made on behalf of transaction t, in order. *)
From Coq Require Import List ZArith Bool Sorted.
From GZ Require Import C14.Model C14.Check C14.ProofsA C14.ProofsB C14.ProofsC C14.ProofsD C14.ProofsE C14.ProofsF C14.ProofsG.
Import ListNotations.
Open Scope Z_scope.

Notation trace g scs sched orc t := (proj t (wlog (exec g scs sched orc))).
Notation thread_of g scs sched orc t th := (nth_error (wthreads (exec g scs sched orc)) t = Some th).

(* Begins one transaction and ends it exactly once.  In every state of every run:
   not called yet: no driver call.  In the body: Begin✓, then statements only — plus one end
   call iff the body ended the transaction itself.  Finished: either the body did not run and
   the driver saw nothing or one failed Begin; or the body ran once and the driver saw
   Begin✓, statements, E with E a Commit or a Rollback: exactly one Begin, exactly one end call,
   and it is the last call. *)
Theorem ends_exactly_once : forall g scs sched orc t th,
  thread_of g scs sched orc t th ->
  match tst th with
  | TIdle => trace g scs sched orc t = []
  | TBody _ _ _ done =>
    exists b S, ecall b = CBegin /\ eout b = OOk /\ Forall (fun e => ent_stmt e = true) S /\
      if done then exists e, trace g scs sched orc t = b :: S ++ [e] /\ ent_end e = true /\
                             count ent_end (trace g scs sched orc t) = 1%nat
      else trace g scs sched orc t = b :: S /\ count ent_end (trace g scs sched orc t) = 0%nat
  | TDone r =>
    (rruns r = 0 /\ rbody r = None /\
       (trace g scs sched orc t = [] \/
        exists b, trace g scs sched orc t = [b] /\ ecall b = CBegin /\ eout b <> OOk)) \/
    (rruns r = 1 /\ exists b S e,
       trace g scs sched orc t = b :: S ++ [e] /\ ecall b = CBegin /\ eout b = OOk /\
       Forall (fun x => ent_stmt x = true) S /\ ent_end e = true /\
       count ent_end (trace g scs sched orc t) = 1%nat /\
       count ent_begin (trace g scs sched orc t) = 1%nat)
  end.
Proof. exact shape_l. Qed.
Print Assumptions ends_exactly_once.

(* Never two Begins, never two end calls, at any moment. *)
Theorem never_twice : forall g scs sched orc t th,
  thread_of g scs sched orc t th ->
  (count ent_end (trace g scs sched orc t) <= 1)%nat /\
  (count ent_begin (trace g scs sched orc t) <= 1)%nat.
Proof. exact at_most_once_l. Qed.
Print Assumptions never_twice.

(* The body is run (once) iff Begin succeeded — not if the transaction cannot begin. *)
Theorem body_runs_iff_begun : forall g scs sched orc t th r,
  thread_of g scs sched orc t th -> tst th = TDone r ->
  (rruns r = 1 <-> exists b, In b (trace g scs sched orc t) /\ ecall b = CBegin /\ eout b = OOk) /\
  (rruns r = 0 \/ rruns r = 1).
Proof. intros g scs sched orc t th r H. exact (body_runs_iff_begun_l g scs sched orc t th H r). Qed.
Print Assumptions body_runs_iff_begun.

(* A context that is already cancelled (breaker.DoWithAcceptableCtx returns ctx.Err() at once), the
   breaker refusing the call, or no connection: no driver call, no body, the caller is told. *)
Theorem refused_call_runs_nothing : forall g scs sched orc t th,
  thread_of g scs sched orc t th -> let_through (tsc th) = false ->
  trace g scs sched orc t = [] /\
  (tst th = TIdle \/ tst th = TDone (mkRes 0 None (RetErr (refusal (tsc th))) false)).
Proof. exact refused_l. Qed.
Print Assumptions refused_call_runs_nothing.

(* Commit iff the body returned nil; Rollback iff it returned an error, panicked or exited its
   goroutine.  (For a body that did not end the transaction itself: [rself r = false], which
   [self_free_bodies] gives for every script without Commit/Rollback steps.)
   In a tree without the guard ([g = false]) it holds for bodies that do not exit. *)
Theorem commit_iff_body_nil : forall g scs sched orc t th r o,
  thread_of g scs sched orc t th -> tst th = TDone r -> rruns r = 1 -> rself r = false ->
  rbody r = Some o -> (g = true \/ o <> BGoexit) ->
  ((exists e, In e (trace g scs sched orc t) /\ ecall e = CCommit) <-> o = BNil) /\
  ((exists e, In e (trace g scs sched orc t) /\ ecall e = CRollback) <-> o <> BNil).
Proof. intros g scs sched orc t th r o H. exact (commit_iff_body_nil_l g scs sched orc t th H r o). Qed.
Print Assumptions commit_iff_body_nil.

Theorem self_free_bodies : forall g scs sched orc t th r,
  thread_of g scs sched orc t th -> tst th = TDone r -> self_free (tsc th) = true -> rself r = false.
Proof. intros g scs sched orc t th r H. exact (self_free_not_self g scs sched orc t th H r). Qed.
Print Assumptions self_free_bodies.

(* The returned error is nil only when the commit succeeded (every body, self-ending ones too):
   the last driver call of the transaction is a successful Commit and the body returned nil. *)
Theorem nil_only_if_commit_succeeded : forall g scs sched orc t th r,
  thread_of g scs sched orc t th -> tst th = TDone r -> rret r = RetErr ENil ->
  exists pre e, trace g scs sched orc t = pre ++ [e] /\ ecall e = CCommit /\ eout e = OOk /\
                rbody r = Some BNil.
Proof. intros g scs sched orc t th r H. exact (nil_only_if_commit_succeeded_l g scs sched orc t th H r). Qed.
Print Assumptions nil_only_if_commit_succeeded.

(* ... and, in a guarded tree, exactly then. *)
Theorem nil_iff_commit_succeeded : forall scs sched orc t th r,
  thread_of true scs sched orc t th -> tst th = TDone r -> rself r = false ->
  (rret r = RetErr ENil <->
   exists e, In e (trace true scs sched orc t) /\ ecall e = CCommit /\ eout e = OOk).
Proof. intros scs sched orc t th r H Hst Hs. exact (nil_iff_commit_succeeded_l true scs sched orc t th H r Hst Hs eq_refl). Qed.
Print Assumptions nil_iff_commit_succeeded.

(* Commit and rollback failures are reported to the caller; a panicking Commit / Rollback is
   not turned into a normal return. *)
Theorem end_failures_surface : forall g scs sched orc t th r e,
  thread_of g scs sched orc t th -> tst th = TDone r -> rself r = false ->
  In e (trace g scs sched orc t) -> ent_end e = true ->
  (eout e = OPanic -> rret r = RetPanic) /\
  (eout e = OFail -> rbody r <> Some BGoexit ->
     (ecall e = CCommit -> rret r = RetErr (ECommit (DrvCommit (eval e)))) /\
     (ecall e = CRollback -> reports_rollback_failure (rret r) = true)) /\
  (eout e = OFail -> rbody r = Some BGoexit -> rret r = RetNever).
Proof. intros g scs sched orc t th r e H. exact (end_failures_surface_l g scs sched orc t th H r e). Qed.
Print Assumptions end_failures_surface.

(* A panic in the body is reported as an error, never swallowed as success: the last call is a
   Rollback and the caller gets "recover from ..." (wrapping the rollback error if that failed
   too), or the panic of a panicking Rollback. *)
Theorem panic_rolls_back_and_errors : forall g scs sched orc t th r,
  thread_of g scs sched orc t th -> tst th = TDone r -> rbody r = Some BPanic ->
  is_nil_ret (rret r) = false /\
  (rself r = false -> exists pre e, trace g scs sched orc t = pre ++ [e] /\ ecall e = CRollback /\
     rret r = match eout e with
              | OOk => RetErr (ERecover None)
              | OFail => RetErr (ERecover (Some (DrvRollback (eval e))))
              | OPanic => RetPanic
              end).
Proof. intros g scs sched orc t th r H. exact (panic_is_reported_l g scs sched orc t th H r). Qed.
Print Assumptions panic_rolls_back_and_errors.

(* The body's error comes back unchanged when the rollback worked, and named inside the
   "transaction failed: ..., rollback failed: ..." error otherwise. *)
Theorem body_error_is_returned : forall g scs sched orc t th r b,
  thread_of g scs sched orc t th -> tst th = TDone r -> rself r = false -> rbody r = Some (BErr b) ->
  exists pre e, trace g scs sched orc t = pre ++ [e] /\ ecall e = CRollback /\
    rret r = match eout e with
             | OOk => RetErr (EBody b)
             | OFail => RetErr (ETxFailed b (DrvRollback (eval e)))
             | OPanic => RetPanic
             end.
Proof. intros g scs sched orc t th r b H. exact (body_error_returned_l g scs sched orc t th H r b). Qed.
Print Assumptions body_error_is_returned.

(* A body that exits its goroutine (runtime.Goexit: t.FailNow inside the body): the call does not
   come back with a result, and the transaction is rolled back — committed in a tree without the
   guard (Pinned.goexit_unguarded_refuted; finding F24, repaired). *)
Theorem goroutine_exit_rolls_back : forall g scs sched orc t th r,
  thread_of g scs sched orc t th -> tst th = TDone r -> rbody r = Some BGoexit ->
  (rret r = RetNever \/ rret r = RetPanic) /\
  (rself r = false -> exists pre e, trace g scs sched orc t = pre ++ [e] /\
                                    ecall e = (if g then CRollback else CCommit)).
Proof. intros g scs sched orc t th r H. exact (goexit_l g scs sched orc t th H r). Qed.
Print Assumptions goroutine_exit_rolls_back.

(* Between Begin and the end call the driver sees only statements of the body, each entry point
   at most once, in program order ([skey]: step index, Prepare before Stmt.Exec). *)
Theorem statements_in_order_at_most_once : forall g scs sched orc t th r,
  thread_of g scs sched orc t th -> tst th = TDone r -> rruns r = 1 ->
  exists b S e, trace g scs sched orc t = b :: S ++ [e] /\
    StronglySorted (fun x y => skey x < skey y) S /\
    Forall (fun x => 0 <= skey x < 2 * nsteps (tsc th)) S.
Proof. intros g scs sched orc t th r H. exact (statements_in_order_l g scs sched orc t th H r). Qed.
Print Assumptions statements_in_order_at_most_once.

(* Every statement of a transaction runs on the transaction's connection (the one that served
   its Begin), never on the pool; and every driver call is made while some transaction is running
   ([calls_of]: including the Begins database/sql itself gave up and repeated on another
   connection after driver.ErrBadConn — [trace] leaves those out). *)
Theorem own_connection : forall g scs sched orc t th,
  thread_of g scs sched orc t th ->
  Forall (fun e => econn e = sconn (tsc th)) (trace g scs sched orc t).
Proof. exact th_conn. Qed.
Print Assumptions own_connection.

Theorem every_call_is_somebodys : forall g scs sched orc e,
  In e (wlog (exec g scs sched orc)) ->
  exists th, nth_error (wthreads (exec g scs sched orc)) (etid e) = Some th /\
             In e (calls_of (etid e) (wlog (exec g scs sched orc))).
Proof. exact every_call_is_somebodys_l. Qed.
Print Assumptions every_call_is_somebodys.

(* The log as a whole, whoever made the calls: on every connection, as many end calls as
   successful Begins, plus the transactions that are open on it right now; and the connections
   lost for good are exactly the end calls on which the driver panicked. *)
Theorem connections_balanced : forall g scs sched orc c,
  count (fun e => on_conn c e && begun_ok e) (wlog (exec g scs sched orc)) =
  (count (fun e => on_conn c e && ent_end e) (wlog (exec g scs sched orc)) +
   open_conn c (wthreads (exec g scs sched orc)))%nat.
Proof. exact balanced_l. Qed.
Print Assumptions connections_balanced.

Theorem lost_connections : forall g scs sched orc,
  wleaks (exec g scs sched orc) = Z.of_nat (count lostb (wlog (exec g scs sched orc))).
Proof. exact leaks_l. Qed.
Print Assumptions lost_connections.

(* The driver's script is followed: the i-th driver call of the run — whichever transaction makes
   it — is answered by the i-th reply (a scripted panic is honoured by Commit/Rollback only), and
   exactly one reply is consumed per call. *)
Theorem driver_script_is_followed : forall g scs sched orc,
  worc (exec g scs sched orc) = skipn (length (wlog (exec g scs sched orc))) orc /\
  forall i e, nth_error (wlog (exec g scs sched orc)) i = Some e ->
              eout e = honoured (ecall e) (rout (nth i orc dflt)) /\
              eval e = val_of (ecall e) (eout e) (rval (nth i orc dflt)).
Proof. exact script_followed_l. Qed.
Print Assumptions driver_script_is_followed.

(* Transactions do not interfere.  In any run — any interleaving with any other transactions on the
   same or on other SqlConns, concurrent, back to back, or begun from inside one another's body —
   transaction t is in exactly the state, and has made exactly the driver calls, of the run in which
   only t is scheduled and the driver's script [orc_t] consists of the replies t received
   ([orc_t] is consumed exactly: any continuation [x] of the script is left untouched). *)
Theorem transactions_do_not_interfere : forall g scs sched orc t,
  exists orc_t, forall x,
    let W := exec g scs sched orc in
    let W1 := exec g scs (only t sched) (orc_t ++ x) in
    state_of W1 t = state_of W t /\ wlog W1 = calls_of t (wlog W) /\ worc W1 = x.
Proof. intros g scs sched orc t. exact (solo_l ret_of g scs sched orc t). Qed.
Print Assumptions transactions_do_not_interfere.

(* HOW the caller's context ends — cancelled (context.Canceled) or past its deadline
   (context.DeadlineExceeded), before the call, from the body, or during any driver call — makes no
   difference to what reaches the driver: the run in which every context ends the one way and the run in
   which it ends the other way make the same driver calls, in the same order, on the same connections,
   with the same answers, and consume the same script.  (Only the sentinel inside the errors differs;
   together with [ends_exactly_once]: the context never ends a transaction, and never keeps it open.) *)
Theorem deadline_or_cancel_same_driver_calls : forall b g scs sched orc,
  wlog (exec g (map (set_dl b) scs) sched orc) = wlog (exec g scs sched orc) /\
  worc (exec g (map (set_dl b) scs) sched orc) = worc (exec g scs sched orc).
Proof. exact deadline_or_cancel_same_calls_l. Qed.
Print Assumptions deadline_or_cancel_same_driver_calls.

(* A nested call is its own transaction.  Every Transact / TransactCtx call that is let through —
   wherever its quanta lie in the schedule, in particular between two quanta of another transaction
   (a call made on the pool from INSIDE that one's body, on the same SqlConn object, another one, or
   through CachedConn; with the body's context, a derived one or Background) — has a bracket of its
   own in the driver's log: its own Begin and, if that succeeded, only its own statements and exactly
   one end call of its own, all on its own connection; its body ran iff its own Begin succeeded; and
   it returns nil only if ITS commit succeeded.  (Seeded change C14-9 made a nested call on the same
   SqlConn run in the enclosing transaction: Pinned.nested_call_joins_outer_refuted.) *)
Theorem nested_call_is_its_own_transaction : forall g scs sched orc t th r,
  thread_of g scs sched orc t th -> tst th = TDone r -> let_through (tsc th) = true ->
  (exists b, trace g scs sched orc t = [b] /\ ecall b = CBegin /\ eout b <> OOk /\ rruns r = 0 /\
             rret r = RetErr (EBegin (eval b))) \/
  (exists b S e, trace g scs sched orc t = b :: S ++ [e] /\ ecall b = CBegin /\ eout b = OOk /\
     Forall (fun x => ent_stmt x = true) S /\ ent_end e = true /\ rruns r = 1 /\
     Forall (fun x => econn x = sconn (tsc th)) (trace g scs sched orc t) /\
     (rret r = RetErr ENil -> ecall e = CCommit /\ eout e = OOk)).
Proof. intros g scs sched orc t th r H. exact (own_bracket_l g scs sched orc t th H r). Qed.
Print Assumptions nested_call_is_its_own_transaction.

(* The circuit breaker of the SqlConn OPENING WHILE A BODY RUNS (other requests on the same SqlConn
   fail: step [ATrip]) changes nothing for a transaction that has begun: TransactCtx asks the breaker
   once, before Begin; Begin, the session's statements, Commit and Rollback do not go through it.
   The run in which every such step is a no-op is the same run: same driver calls in the same order
   (so: every begun transaction is still ended exactly once, Commit iff its body returned nil), same
   script consumed, same results told to the callers, same connections checked out — for every set of
   transactions, every schedule, every driver script. (Seeded C14-11 sends the end call through the
   breaker: Pinned.end_refused_by_open_breaker_refuted.) *)
Theorem breaker_opening_during_the_body_changes_nothing : forall g scs sched orc,
  let W := exec g scs sched orc in
  let W' := exec g (map untrip scs) sched orc in
  wlog W' = wlog W /\ worc W' = worc W /\ wleaks W' = wleaks W /\
  map result_of (wthreads W') = map result_of (wthreads W) /\
  map tinuse (wthreads W') = map tinuse (wthreads W) /\
  count_open (wthreads W') = count_open (wthreads W).
Proof. exact trip_changes_nothing. Qed.
Print Assumptions breaker_opening_during_the_body_changes_nothing.

(* Nested use.  A Transact / TransactCtx on the transaction's own session
   (NewSqlConnFromSession(s), CachedConn.WithSession(s)) makes no driver call, leaves the outer
   transaction as it is, and the step fails with errCantNestTx; the inner body does not exist in
   the machine (the executor counts its invocations: [o_nest], compared by [agrees]).  A transaction begun on the POOL from inside
   a body is another transaction whose quanta lie between two quanta of the outer one: all
   theorems above apply to both, for that schedule as for any other. *)
Theorem nested_transact_is_refused : forall t sc k canc done orc,
  do_action t sc k ANest canc done orc = (SErr (BNest k), [], orc, canc, done, false).
Proof. exact nest_is_refused_l. Qed.
Print Assumptions nested_transact_is_refused.

(* The decidable check [prop_ok] that ./check applies to what the real code did:
   (a) every run of the model passes it and agrees with itself (the checker is not stricter than
       what is proved) — in a guarded tree; and
   (b) passing it means the property, read off the observed driver log, transaction by transaction
       and on the log as a whole. *)
Theorem model_passes_the_check : forall g scs sched orc,
  agrees (case_of g scs sched orc) = true /\ (g = true -> prop_ok (case_of g scs sched orc) = true).
Proof. exact model_passes_check_l. Qed.
Print Assumptions model_passes_the_check.

Theorem check_means_the_property : forall c,
  prop_ok c = true ->
  length (cscripts c) = length (oths c) /\
  (forall t sc o, nth_error (cscripts c) t = Some sc -> nth_error (oths c) t = Some o ->
     thread_ok sc (proj t (olog c)) o) /\
  (forall e, In e (olog c) -> (etid e < length (cscripts c))%nat) /\
  (forall e, In e (olog c) ->
     Z.of_nat (count (fun x => on_conn (econn e) x && begun_ok x) (olog c)) =
     Z.of_nat (count (fun x => on_conn (econn e) x && ent_end x) (olog c)) +
     open_on (econn e) (cscripts c) (oths c)) /\
  ofinal c = Z.of_nat (count lostb (olog c)) + Z.of_nat (length (filter still_open (oths c))) /\
  (* no body handed to a Transact on a transaction's own session was run *)
  (forall o, In o (oths c) -> o_nest o = 0).
Proof. exact prop_ok_meaning_l. Qed.
Print Assumptions check_means_the_property.

(* ---- non-vacuity: concrete runs meeting the hypotheses ------------------------------- *)
Definition st (m : meth) (f : onfail) : step := mkStep (AStmt m true) f.
Definition ok : reply := mkReply OOk false vgen.
Definition fl : reply := mkReply OFail false vgen.
Definition bad : reply := mkReply OFail false (mkVal VBadConn MBare).
Definition pn : reply := mkReply OPanic false vgen.
Definition sc_of (steps : list step) (f : fin) : script := mkScript true false false true true 1 [] steps f 0.

(* three statements, the second fails in the driver and the body returns that error; the
   rollback fails too *)
Example ex_stmt_fails :
  let W := exec true [sc_of [st MExec FStop; st MQuery FStop; st MExec FStop] RNil] [0; 0; 0]%nat [ok; ok; fl; fl] in
  wlog W = [mkEnt 0 1 CBegin OOk vgen; mkEnt 0 1 (CStmt 0 KExec) OOk vgen; mkEnt 0 1 (CStmt 1 KQuery) OFail vgen;
            mkEnt 0 1 CRollback OFail vgen] /\
  map tst (wthreads W) = [TDone (mkRes 1 (Some (BErr (BStmt 1 vgen))) (RetErr (ETxFailed (BStmt 1 vgen) (DrvRollback vgen))) false)].
Proof. vm_compute. auto. Qed.

(* an ignored failure of a prepared statement, then a panic; the rollback panics as well: the call
   panics and the connection is lost *)
Example ex_panic_and_rollback_panics :
  let W := exec true [sc_of [st MPrep FIgnore] RPanic] [0; 0; 0]%nat [ok; ok; fl; pn] in
  wlog W = [mkEnt 0 1 CBegin OOk vgen; mkEnt 0 1 (CStmt 0 KPrepare) OOk vgen; mkEnt 0 1 (CStmt 0 KStmtExec) OFail vgen;
            mkEnt 0 1 CRollback OPanic vgen] /\
  map tst (wthreads W) = [TDone (mkRes 1 (Some BPanic) RetPanic false)] /\ wleaks W = 1.
Proof. vm_compute. auto. Qed.

(* a body whose commit fails *)
Example ex_commit_fails :
  let W := exec true [sc_of [st MExec FStop] RNil] [0; 0; 0]%nat [ok; ok; fl] in
  map tst (wthreads W) = [TDone (mkRes 1 (Some BNil) (RetErr (ECommit (DrvCommit vgen))) false)].
Proof. vm_compute. reflexivity. Qed.

Example ex_begin_fails :
  let W := exec true [sc_of [st MExec FStop] RNil] [0; 0]%nat [fl] in
  wlog W = [mkEnt 0 1 CBegin OFail vgen] /\ map tst (wthreads W) = [TDone (mkRes 0 None (RetErr (EBegin vgen)) false)].
Proof. vm_compute. auto. Qed.

(* the context becomes done WHILE Begin is in flight: the transaction exists, the body runs, its
   statement is refused by database/sql, the transaction is rolled back (seeded change C14-4
   returned before the deferred function was registered) *)
Example ex_cancelled_during_begin :
  let W := exec true [sc_of [st MExec FStop] RNil] [0; 0; 0]%nat [mkReply OOk true vgen] in
  wlog W = [mkEnt 0 1 CBegin OOk vgen; mkEnt 0 1 CRollback OOk vgen] /\
  map tst (wthreads W) = [TDone (mkRes 1 (Some (BErr (BCtx 0 false))) (RetErr (EBody (BCtx 0 false))) false)].
Proof. vm_compute. auto. Qed.

(* a body that swallows statement errors COMMITS although its context is cancelled (the transaction
   is not bound to the context: db.Begin()) *)
Example ex_cancelled_but_commits :
  let W := exec true [sc_of [st MExec FIgnore; mkStep ACancel FStop; st MExec FIgnore] RNil] [0; 0; 0; 0; 0]%nat [] in
  wlog W = [mkEnt 0 1 CBegin OOk vgen; mkEnt 0 1 (CStmt 0 KExec) OOk vgen; mkEnt 0 1 CCommit OOk vgen] /\
  map tst (wthreads W) = [TDone (mkRes 1 (Some BNil) (RetErr ENil) false)].
Proof. vm_compute. auto. Qed.

(* the body commits itself, goes on, and returns nil: one Commit at the driver, the later
   statement and Transact's own Commit are answered sql.ErrTxDone *)
Example ex_body_commits_itself :
  let W := exec true [sc_of [mkStep ASelfCommit FStop; st MExec FIgnore] RNil] [0; 0; 0; 0]%nat [] in
  wlog W = [mkEnt 0 1 CBegin OOk vgen; mkEnt 0 1 CCommit OOk vgen] /\
  map tst (wthreads W) = [TDone (mkRes 1 (Some BNil) (RetErr (ECommit TxDone)) true)].
Proof. vm_compute. auto. Qed.

(* two transactions on one SqlConn, interleaved, and a third one begun on the pool from inside
   the body of the first (its quanta 2,2,2 lie inside transaction 0): each on its own connection,
   each ended once *)
Example ex_interleaved_and_nested :
  let scs := [mkScript true false false true true 1 [] [st MExec FStop; mkStep ANop FStop; st MExec FStop] (RErr vgen) 0;
              mkScript false false false true true 2 [] [st MQuery FStop] RNil 0;
              mkScript true false false true true 3 [] [st MExec FStop] RPanic 0] in
  let W := exec true scs [0; 1; 0; 0; 2; 2; 2; 1; 0; 0; 1]%nat [] in
  proj 0 (wlog W) = [mkEnt 0 1 CBegin OOk vgen; mkEnt 0 1 (CStmt 0 KExec) OOk vgen; mkEnt 0 1 (CStmt 2 KExec) OOk vgen; mkEnt 0 1 CRollback OOk vgen] /\
  proj 1 (wlog W) = [mkEnt 1 2 CBegin OOk vgen; mkEnt 1 2 (CStmt 0 KQuery) OOk vgen; mkEnt 1 2 CCommit OOk vgen] /\
  proj 2 (wlog W) = [mkEnt 2 3 CBegin OOk vgen; mkEnt 2 3 (CStmt 0 KExec) OOk vgen; mkEnt 2 3 CRollback OOk vgen] /\
  map tinuse (wthreads W) = [1; 0; 2].
Proof. vm_compute. auto. Qed.

(* a schedule that stops in the middle: transaction 0 is open, nothing is ended yet *)
Example ex_open_transaction :
  let W := exec true [sc_of [st MExec FStop; st MExec FStop] RNil] [0; 0]%nat [] in
  map tst (wthreads W) = [TBody 1 [st MExec FStop] false false] /\ count ent_end (wlog W) = 0%nat /\
  open_conn 1 (wthreads W) = 1%nat.
Proof. vm_compute. auto. Qed.

(* sentinel error values.  The second statement fails with the bare driver.ErrBadConn and the body
   returns it: the transaction is rolled back all the same (seeded change C14-5 skipped the
   rollback: "the server dropped the transaction with the connection anyway") *)
Example ex_badconn_statement_is_rolled_back :
  let W := exec true [sc_of [st MExec FStop; st MExec FStop] RNil] [0; 0; 0]%nat [ok; ok; bad] in
  wlog W = [mkEnt 0 1 CBegin OOk vgen; mkEnt 0 1 (CStmt 0 KExec) OOk vgen;
            mkEnt 0 1 (CStmt 1 KExec) OFail (mkVal VBadConn MBare); mkEnt 0 1 CRollback OOk vgen] /\
  map tst (wthreads W) =
  [TDone (mkRes 1 (Some (BErr (BStmt 1 (mkVal VBadConn MBare)))) (RetErr (EBody (BStmt 1 (mkVal VBadConn MBare)))) false)].
Proof. vm_compute. auto. Qed.

(* Begin answered driver.ErrBadConn twice: database/sql repeats it on other connections (7, 8); the
   transaction's own trace starts at the Begin that stood, on connection 9 *)
Example ex_begin_repeated_by_database_sql :
  let W := exec true [mkScript true false false true true 9 [7; 8] [st MExec FStop] RNil 0] [0; 0; 0]%nat [bad; bad] in
  wlog W = [mkEnt 0 7 CBeginRetry OFail (mkVal VBadConn MBare); mkEnt 0 8 CBeginRetry OFail (mkVal VBadConn MBare);
            mkEnt 0 9 CBegin OOk vgen; mkEnt 0 9 (CStmt 0 KExec) OOk vgen; mkEnt 0 9 CCommit OOk vgen] /\
  proj 0 (wlog W) = [mkEnt 0 9 CBegin OOk vgen; mkEnt 0 9 (CStmt 0 KExec) OOk vgen; mkEnt 0 9 CCommit OOk vgen].
Proof. vm_compute. auto. Qed.

(* the context passes its deadline while the first statement is in flight: the next statement is refused with
   context.DeadlineExceeded, the body returns it, the transaction is rolled back (mutation m18 returned
   without: "database/sql has rolled back already") *)
Example ex_deadline_during_statement :
  let W := exec true [mkScript true false true true true 1 [] [st MExec FStop; st MExec FStop] RNil 0] [0; 0; 0]%nat
                [ok; mkReply OOk true vgen] in
  wlog W = [mkEnt 0 1 CBegin OOk vgen; mkEnt 0 1 (CStmt 0 KExec) OOk vgen; mkEnt 0 1 CRollback OOk vgen] /\
  map tst (wthreads W) = [TDone (mkRes 1 (Some (BErr (BCtx 1 true))) (RetErr (EBody (BCtx 1 true))) false)].
Proof. vm_compute. auto. Qed.

(* a body during which the breaker opens twice, a failing statement in between: still Begin,
   statements, one Rollback *)
Example ex_breaker_opens_during_body :
  let W := exec true [sc_of [mkStep ATrip FStop; st MExec FStop; mkStep ATrip FStop; st MExec FStop] RNil]
                [0; 0; 0; 0; 0; 0]%nat [rp OOk false; rp OOk false; rp OFail false] in
  map ecall (wlog W) = [CBegin; CStmt 1 KExec; CStmt 3 KExec; CRollback] /\
  map untrip (map tsc (wthreads W)) <> map tsc (wthreads W).
Proof. vm_compute. split; [reflexivity | discriminate]. Qed.
