(* C14 — property theorems only.  Every theorem is closed by [exact] of a lemma
   proved in Proofs.v and followed by [Print Assumptions].

   [transact i] is the model of SqlConn.TransactCtx / Transact (Model.v); the input
   [i] = (breaker verdict, Begin outcome, the body as a list of statements of any
   length — each with its driver outcome ok / fail / refused-for-cancelled-context and
   the body's reaction return-it / ignore-it / panic —, how the body ends after its
   last statement nil / error / panic, Commit outcome, Rollback outcome).  All
   theorems quantify over every such input: every body length and fault placement. *)
From Coq Require Import List ZArith Bool Sorted.
From GZ Require Import C14.Model C14.Check C14.Proofs.
Import ListNotations.
Open Scope Z_scope.

(* Exactly one Begin.  If it fails: nothing else reaches the driver and the body is
   not run.  Otherwise the body runs once and the driver log is
   Begin, statements..., E   where E is a Commit or a Rollback: exactly one end call,
   and it is the last call. *)
Theorem ends_exactly_once : forall i,
  let_through i = true ->
  (ibegin i = false ->
     rlog (transact i) = [(CBegin, false)] /\ rruns (transact i) = 0 /\ rbody (transact i) = None) /\
  (ibegin i = true ->
     rruns (transact i) = 1 /\
     exists mid last ok,
       rlog (transact i) = (CBegin, true) :: mid ++ [(last, ok)] /\
       Forall (fun x => is_exec (fst x) = true) mid /\
       is_end last = true /\
       count is_begin (rlog (transact i)) = 1%nat /\
       count is_end (rlog (transact i)) = 1%nat).
Proof. exact ends_exactly_once_l. Qed.
Print Assumptions ends_exactly_once.

(* An already cancelled context (breaker.DoWithAcceptableCtx returns ctx.Err() at once) or
   the breaker refusing the call: no transaction, no body, the caller is told. *)
Theorem refused_call_runs_nothing : forall i,
  let_through i = false ->
  rlog (transact i) = [] /\ rruns (transact i) = 0 /\ rbody (transact i) = None /\
  rerr (transact i) = (if is_dead (ictx i) then ECanceled else EUnavailable).
Proof. exact breaker_refusal_l. Qed.
Print Assumptions refused_call_runs_nothing.

(* For EVERY input — every context state included: the driver sees at most one Begin and at
   most one end call, and exactly one end call iff the call was let through and Begin
   succeeded.  In particular cancelling the context during the body never ends the
   transaction behind go-zero's back (it begins with db.Begin(), i.e. context.Background()):
   the deferred Commit / Rollback is the one end call. *)
Theorem ends_at_most_once_whatever_the_context : forall i,
  (count is_end (rlog (transact i)) <= 1)%nat /\
  (count is_begin (rlog (transact i)) <= 1)%nat /\
  (count is_end (rlog (transact i)) = 1%nat <-> (let_through i = true /\ ibegin i = true)).
Proof. exact ends_at_most_once_l. Qed.
Print Assumptions ends_at_most_once_whatever_the_context.

(* Statements issued from the cancellation point on never reach the driver. *)
Theorem statements_after_cancel_never_reach_driver : forall i x,
  let_through i = true -> ibegin i = true ->
  In x (rlog (transact i)) -> is_exec (fst x) = true ->
  ctx_covers (ictx i) (exec_index x) = false.
Proof. exact statements_after_cancel_l. Qed.
Print Assumptions statements_after_cancel_never_reach_driver.

(* Commit iff the body returned nil; Rollback iff it returned an error or panicked. *)
Theorem commit_iff_body_nil : forall i,
  let_through i = true -> ibegin i = true ->
  ((exists ok, In (CCommit, ok) (rlog (transact i))) <-> rbody (transact i) = Some BNil) /\
  ((exists ok, In (CRollback, ok) (rlog (transact i))) <->
     (rbody (transact i) = Some BPanic \/ exists b, rbody (transact i) = Some (BErr b))).
Proof. exact commit_iff_body_nil_l. Qed.
Print Assumptions commit_iff_body_nil.

(* ... where "the body returned nil / an error / panicked" is what its script says:
   nil iff no failing statement made it leave and it ends with "return nil"; otherwise
   the first statement it reacts to decides (error of that statement, or panic). *)
Theorem body_outcome_is_the_scripts : forall i,
  let_through i = true -> ibegin i = true ->
  (rbody (transact i) = Some BNil <-> (quiet (estmts i) /\ ifin i = RNil)) /\
  (quiet (estmts i) -> rbody (transact i) = Some (fin_out (ifin i))) /\
  (forall pre s post, estmts i = pre ++ s :: post -> quiet pre -> reacts s = true ->
     rbody (transact i) = Some (reaction (Z.of_nat (length pre)) s)).
Proof. exact body_outcome_l. Qed.
Print Assumptions body_outcome_is_the_scripts.

(* A panic in the body: the last driver call is a Rollback, and the caller gets a
   non-nil "recover from ..." error (wrapping the rollback error if that failed too). *)
Theorem panic_rolls_back_and_errors : forall i,
  let_through i = true -> ibegin i = true -> rbody (transact i) = Some BPanic ->
  (exists mid, rlog (transact i) = (CBegin, true) :: mid ++ [(CRollback, irollback i)]) /\
  rerr (transact i) <> ENil /\
  rerr (transact i) = (if irollback i then ERecover else ERecoverRollback).
Proof. exact panic_rolls_back_and_errors_l. Qed.
Print Assumptions panic_rolls_back_and_errors.

(* The returned error is nil exactly when a Commit reached the driver and succeeded
   (for every input, including refused and failed-to-begin calls). *)
Theorem nil_only_if_commit_succeeded : forall i,
  rerr (transact i) = ENil <-> In (CCommit, true) (rlog (transact i)).
Proof. exact nil_iff_commit_succeeded_l. Qed.
Print Assumptions nil_only_if_commit_succeeded.

(* Commit and rollback failures are reported to the caller. *)
Theorem end_failures_surface : forall i,
  (In (CCommit, false) (rlog (transact i)) -> reports_commit_failure (rerr (transact i)) = true) /\
  (In (CRollback, false) (rlog (transact i)) -> reports_rollback_failure (rerr (transact i)) = true).
Proof. exact end_failures_surface_l. Qed.
Print Assumptions end_failures_surface.

(* The body's error comes back unchanged when the rollback worked, and named inside
   the "transaction failed: ..., rollback failed: ..." error otherwise. *)
Theorem body_error_is_returned : forall i b,
  let_through i = true -> ibegin i = true -> rbody (transact i) = Some (BErr b) ->
  rerr (transact i) = (if irollback i then EBody b else ETxFailedRollback b).
Proof. exact body_error_returned_l. Qed.
Print Assumptions body_error_is_returned.

(* Between Begin and the end call the driver sees only statements of the body, each at
   most once, in program order. *)
Theorem statements_in_order_at_most_once : forall i,
  let_through i = true -> ibegin i = true ->
  exists mid e, rlog (transact i) = (CBegin, true) :: mid ++ [e] /\
    StronglySorted (fun x y => exec_index x < exec_index y) mid /\
    Forall (fun x => 0 <= exec_index x < Z.of_nat (length (istmts i))) mid.
Proof. exact statements_in_order_l. Qed.
Print Assumptions statements_in_order_at_most_once.

(* ... and none is skipped while the body keeps going. *)
Theorem quiet_body_runs_every_statement : forall i j s,
  let_through i = true -> ibegin i = true -> quiet (estmts i) ->
  nth_error (estmts i) j = Some s -> sres_of s <> SCtx ->
  In (CExec (Z.of_nat j), match sres_of s with SOk => true | _ => false end) (rlog (transact i)).
Proof. exact quiet_body_runs_all_l. Qed.
Print Assumptions quiet_body_runs_every_statement.

(* The decidable check [prop_ok] that ./check applies to what the real code did:
   (a) the model always passes it (it is not stricter than what is proved), and
   (b) passing it means the property, read off the observed driver log. *)
Theorem model_passes_the_check : forall i,
  prop_ok (case_of i) = true /\ agrees (case_of i) = true.
Proof. exact model_passes_check_l. Qed.
Print Assumptions model_passes_the_check.

Theorem check_means_the_property : forall c,
  prop_ok c = true ->
  match olog c with
  | [] => let_through (cin c) = false /\ oruns c = 0 /\ e_nil (oerr c) = false
  | (CBegin, false) :: rest => rest = [] /\ oruns c = 0 /\ e_nil (oerr c) = false
  | (CBegin, true) :: rest =>
    oruns c = 1 /\
    exists mid last ok o,
      rest = mid ++ [(last, ok)] /\ obody c = Some o /\
      Forall (fun x => is_exec (fst x) = true) mid /\
      is_end last = true /\
      (is_commit last = true <-> o = BNil) /\
      (o = BPanic -> e_nil (oerr c) = false) /\
      (e_nil (oerr c) = true -> last = CCommit /\ ok = true) /\
      (ok = false -> e_nil (oerr c) = false /\
                     (if is_commit last then e_commit (oerr c) else e_rollback (oerr c)) = true)
  | _ => False
  end.
Proof. exact prop_ok_meaning_l. Qed.
Print Assumptions check_means_the_property.

(* ---- non-vacuity: concrete inputs meeting the hypotheses --------------------- *)

(* three statements, the second fails in the driver and the body returns that error;
   the rollback fails too *)
Definition ex_stmt_fails : input :=
  mkInput true true [mkStmt SOk FStop; mkStmt SFail FStop; mkStmt SOk FStop] RNil true false CLive.
Example ex_stmt_fails_run :
  transact ex_stmt_fails =
  mkResult [(CBegin, true); (CExec 0, true); (CExec 1, false); (CRollback, false)] 1
           (Some (BErr (BStmt 1))) (ETxFailedRollback (BStmt 1)).
Proof. vm_compute. reflexivity. Qed.

(* an ignored failure, then a panic after the last statement *)
Definition ex_panic : input :=
  mkInput true true [mkStmt SFail FIgnore; mkStmt SCtx FIgnore; mkStmt SOk FPanic] RPanic true true CLive.
Example ex_panic_hyp : ibrk ex_panic = true /\ ibegin ex_panic = true /\
  rbody (transact ex_panic) = Some BPanic /\ quiet (istmts ex_panic).
Proof. vm_compute. auto. Qed.
Example ex_panic_run :
  rlog (transact ex_panic) = [(CBegin, true); (CExec 0, false); (CExec 2, true); (CRollback, true)]
  /\ rerr (transact ex_panic) = ERecover.
Proof. vm_compute. auto. Qed.

(* a quiet body whose commit fails *)
Definition ex_commit_fails : input :=
  mkInput true true [mkStmt SOk FStop; mkStmt SOk FStop] RNil false true CLive.
Example ex_commit_fails_run :
  In (CCommit, false) (rlog (transact ex_commit_fails)) /\ rerr (transact ex_commit_fails) = ECommit
  /\ rbody (transact ex_commit_fails) = Some BNil.
Proof. vm_compute. auto 10. Qed.

Example ex_begin_fails :
  transact (mkInput true false [mkStmt SOk FStop] RNil true true CLive) = mkResult [(CBegin, false)] 0 None EBegin.
Proof. vm_compute. reflexivity. Qed.

(* a first reacting statement in the middle (hypotheses of body_outcome_is_the_scripts) *)
Example ex_reacting :
  istmts ex_stmt_fails = [mkStmt SOk FStop] ++ mkStmt SFail FStop :: [mkStmt SOk FStop]
  /\ quiet [mkStmt SOk FStop] /\ reacts (mkStmt SFail FStop) = true.
Proof. vm_compute. auto. Qed.

(* the context: dead before the call — nothing happens, ctx.Err() is returned *)
Example ex_dead_context :
  transact (mkInput true true [mkStmt SOk FStop] RNil true true CDead) = mkResult [] 0 None ECanceled.
Proof. vm_compute. reflexivity. Qed.

(* cancelled by the body before its 2nd statement: that statement is refused and the body
   returns context.Canceled -> one Rollback *)
Example ex_cancel_mid_body :
  transact (mkInput true true [mkStmt SOk FStop; mkStmt SOk FStop; mkStmt SOk FStop] RNil true true (CAt 1)) =
  mkResult [(CBegin, true); (CExec 0, true); (CRollback, true)] 1 (Some (BErr (BCtx 1))) (EBody (BCtx 1)).
Proof. vm_compute. reflexivity. Qed.

(* ... but a body that swallows statement errors COMMITS although its context is cancelled
   (observed on the real code too: the transaction is not bound to the context) *)
Example ex_cancelled_but_commits :
  transact (mkInput true true [mkStmt SOk FIgnore; mkStmt SOk FIgnore] RNil true true (CAt 1)) =
  mkResult [(CBegin, true); (CExec 0, true); (CCommit, true)] 1 (Some BNil) ENil.
Proof. vm_compute. reflexivity. Qed.
