(* C14 — proofs, part A: one quantum of one transaction.
   Specifications of drv / do_stmt / do_action / finish / tstep and the invariant that ties
   the state of a transaction to the driver calls made on its behalf so far. *)
From Coq Require Import List ZArith Bool Lia Sorted.
From GZ Require Import C14.Model.
Import ListNotations.
Open Scope Z_scope.

(* ---- generalities ------------------------------------------------------------- *)
Lemma ss_app : forall A (R : A -> A -> Prop) l1 l2,
  StronglySorted R l1 -> StronglySorted R l2 ->
  (forall x y, In x l1 -> In y l2 -> R x y) -> StronglySorted R (l1 ++ l2).
Proof.
  induction l1 as [|a l1 IH]; intros l2 H1 H2 H; cbn; [exact H2|].
  inversion H1 as [|? ? Hs Hf]; subst. constructor.
  - apply IH; auto. intros x y Hx Hy. apply H; [right|]; auto.
  - apply Forall_app. split; [exact Hf|]. apply Forall_forall. intros y Hy. apply H; [left|]; auto.
Qed.

Lemma count_app : forall p l1 l2, count p (l1 ++ l2) = (count p l1 + count p l2)%nat.
Proof. intros. unfold count. rewrite filter_app, app_length. reflexivity. Qed.

(* ---- the driver's script is followed, one reply per call ---------------------------- *)
Inductive follows : list reply -> list logent -> list reply -> Prop :=
| fol_nil : forall orc, follows orc [] orc
| fol_cons : forall orc e l orc',
    eout e = honoured (ecall e) (rout (fst (pop orc))) ->
    eval e = val_of (ecall e) (eout e) (rval (fst (pop orc))) ->
    follows (snd (pop orc)) l orc' -> follows orc (e :: l) orc'.

Lemma follows_app : forall a l1 b l2 c, follows a l1 b -> follows b l2 c -> follows a (l1 ++ l2) c.
Proof. intros a l1 b l2 c H. induction H; intros H2; cbn; [exact H2|]. constructor; auto. Qed.

Definition own (t : nat) (cn : Z) (l : list logent) : Prop :=
  Forall (fun e => etid e = t /\ econn e = cn) l.

Lemma own_app : forall t cn l1 l2, own t cn l1 -> own t cn l2 -> own t cn (l1 ++ l2).
Proof. intros. apply Forall_app. split; assumption. Qed.

Lemma drv_spec : forall t cn c orc o v b l orc',
  drv t cn c orc = (o, v, b, l, orc') ->
  l = [mkEnt t cn c o v] /\ o = honoured c (rout (fst (pop orc))) /\ orc' = snd (pop orc) /\
  v = val_of c o (rval (fst (pop orc))).
Proof.
  unfold drv. intros t cn c orc o v b l orc' H. destruct (pop orc) as [r orc1]. cbn in *.
  inversion H; subst. auto.
Qed.

Lemma drv_own_follows : forall t cn c orc o v b l orc',
  drv t cn c orc = (o, v, b, l, orc') -> own t cn l /\ follows orc l orc'.
Proof.
  intros t cn c orc o v b l orc' H. destruct (drv_spec _ _ _ _ _ _ _ _ _ H) as (-> & Ho & -> & Hv). split.
  - repeat constructor.
  - constructor; [exact Ho | exact Hv | constructor].
Qed.

Lemma honoured_not_end : forall c o, is_end c = false -> honoured c o <> OPanic.
Proof. intros c o H. unfold honoured. destruct o; try discriminate. rewrite H. discriminate. Qed.

(* ---- statements ------------------------------------------------------------------ *)
(* program order of statement calls: step index, Prepare before Stmt.Exec *)
Definition skey (e : logent) : Z :=
  match ecall e with
  | CStmt k KStmtExec => 2 * k + 1
  | CStmt k _ => 2 * k
  | _ => -1
  end.

Definition sorted_stmts (l : list logent) : Prop := StronglySorted (fun x y => skey x < skey y) l.

(* driver calls of the statement at step k *)
Definition stmts_at (k : Z) (l : list logent) : Prop :=
  Forall (fun e => ent_stmt e = true /\ 2 * k <= skey e <= 2 * k + 1) l /\ sorted_stmts l.

(* driver calls of the statements at steps < k *)
Definition stmts_lt (k : Z) (l : list logent) : Prop :=
  Forall (fun e => ent_stmt e = true /\ 0 <= skey e < 2 * k) l /\ sorted_stmts l.

Lemma stmts_at_nil : forall k, stmts_at k [].
Proof. intros k. split; constructor. Qed.

Lemma stmts_lt_mono : forall k k' l, stmts_lt k l -> k <= k' -> stmts_lt k' l.
Proof.
  intros k k' l [H S] Hk. split; [|exact S]. eapply Forall_impl; [|exact H].
  cbn beta. intros e [H1 H2]. split; [exact H1 | lia].
Qed.

Lemma stmts_lt_app : forall k l1 l2, 0 <= k -> stmts_lt k l1 -> stmts_at k l2 -> stmts_lt (k + 1) (l1 ++ l2).
Proof.
  intros k l1 l2 Hk [H1 S1] [H2 S2]. split.
  - apply Forall_app. split; (eapply Forall_impl; [|eassumption]); cbn beta; intros e [Ha Hb]; (split; [exact Ha | lia]).
  - apply ss_app; auto. intros x y Hx Hy. rewrite Forall_forall in H1, H2.
    specialize (H1 _ Hx). specialize (H2 _ Hy). cbn beta in *. lia.
Qed.

Lemma drv_stmt_at : forall t cn k kd orc o v b l orc',
  drv t cn (CStmt k kd) orc = (o, v, b, l, orc') -> stmts_at k l /\ o <> OPanic.
Proof.
  intros t cn k kd orc o v b l orc' H. destruct (drv_spec _ _ _ _ _ _ _ _ _ H) as (-> & -> & _). split.
  - split.
    + constructor; [|constructor]. cbn. split; [reflexivity|]. unfold skey. cbn. destruct kd; lia.
    + constructor; constructor.
  - apply honoured_not_end. reflexivity.
Qed.

Lemma do_stmt_spec : forall t cn k m sees dl orc r l orc1 c,
  do_stmt t cn k m sees dl orc = (r, l, orc1, c) ->
  own t cn l /\ follows orc l orc1 /\ stmts_at k l /\ r <> SPanic.
Proof.
  intros t cn k m sees dl orc r l orc1 c H. unfold do_stmt in H. destruct m.
  - destruct (drv t cn (CStmt k KExec) orc) as [[[[o v] b] l0] o1] eqn:E. inversion H; subst.
    destruct (drv_own_follows _ _ _ _ _ _ _ _ _ E) as [Ho Hf]. destruct (drv_stmt_at _ _ _ _ _ _ _ _ _ _ E) as [Hs _].
    repeat split; auto; try apply Hs. unfold res_of. destruct o; discriminate.
  - destruct (drv t cn (CStmt k KQuery) orc) as [[[[o v] b] l0] o1] eqn:E. inversion H; subst.
    destruct (drv_own_follows _ _ _ _ _ _ _ _ _ E) as [Ho Hf]. destruct (drv_stmt_at _ _ _ _ _ _ _ _ _ _ E) as [Hs _].
    repeat split; auto; try apply Hs. unfold res_of. destruct o; discriminate.
  - destruct (drv t cn (CStmt k KPrepare) orc) as [[[[o v] b] l0] o1] eqn:E.
    destruct (drv_own_follows _ _ _ _ _ _ _ _ _ E) as [Ho Hf]. destruct (drv_stmt_at _ _ _ _ _ _ _ _ _ _ E) as [Hs _].
    assert (Hdone : forall r', (r', l0, o1, b) = (r, l, orc1, c) -> r' <> SPanic ->
                      own t cn l /\ follows orc l orc1 /\ stmts_at k l /\ r <> SPanic).
    { intros r' Heq Hr. inversion Heq; subst. repeat split; auto; apply Hs. }
    destruct o; try (apply (Hdone _ H); discriminate).
    destruct (sees && b); [apply (Hdone _ H); discriminate|].
    destruct (drv t cn (CStmt k KStmtExec) o1) as [[[[o2 v2] b2] l2] o2'] eqn:E2. inversion H; subst.
    destruct (drv_own_follows _ _ _ _ _ _ _ _ _ E2) as [Ho2 Hf2].
    destruct (drv_spec _ _ _ _ _ _ _ _ _ E) as (El0 & _ & _). destruct (drv_spec _ _ _ _ _ _ _ _ _ E2) as (El2 & _ & _).
    repeat split.
    + apply own_app; assumption.
    + eapply follows_app; eassumption.
    + subst l0 l2. cbn. repeat constructor; cbn; unfold skey; cbn; lia.
    + subst l0 l2. cbn. repeat constructor. unfold skey. cbn. lia.
    + unfold res_of. destruct o2; discriminate.
Qed.

(* ---- ending ------------------------------------------------------------------------- *)
(* the result of an end call, read off its log entry *)
Definition xres (c : call) (o : outcome) (v : errval) : endres :=
  match o with
  | OOk => XOk
  | OFail => XErr (if is_commit c then DrvCommit v else DrvRollback v)
  | OPanic => XPanic
  end.

Lemma end_call_is_end : forall g o, is_end (end_call_of g o) = true.
Proof. intros g o. destruct o; cbn; try reflexivity. destruct g; reflexivity. Qed.

Lemma stmt_not_lost : forall e, ent_stmt e = true -> lostb e = false.
Proof. intros e H. unfold lostb, ent_end. unfold ent_stmt in H. destruct (ecall e); try discriminate; reflexivity. Qed.

Lemma count_lost_stmts : forall k l, stmts_at k l -> count lostb l = 0%nat.
Proof.
  intros k l [H _]. unfold count. induction H as [|e l [He _] _ IH]; [reflexivity|].
  cbn. rewrite (stmt_not_lost _ He). exact IH.
Qed.

Definition leakZ (b : bool) : Z := if b then 1 else 0.

Lemma do_selfend_spec : forall t cn k commit canc done orc r l orc1 canc1 done1 leak1,
  do_selfend t cn k commit canc done orc = (r, l, orc1, canc1, done1, leak1) ->
  own t cn l /\ follows orc l orc1 /\ done1 = true /\
  (done = true -> l = [] /\ leak1 = false) /\
  (done = false -> exists e, l = [e] /\ ent_end e = true /\ leak1 = lostb e).
Proof.
  intros t cn k commit canc done orc r l orc1 canc1 done1 leak1 H. unfold do_selfend in H.
  destruct done.
  - inversion H; subst. split; [constructor|]. split; [constructor|]. split; [reflexivity|].
    split; [auto | discriminate].
  - destruct (drv t cn (if commit then CCommit else CRollback) orc) as [[[[o v] b] l0] o1] eqn:E.
    destruct (drv_own_follows _ _ _ _ _ _ _ _ _ E) as [Ho Hf]. destruct (drv_spec _ _ _ _ _ _ _ _ _ E) as (El0 & _ & _).
    assert (Hend : is_end (if commit then CCommit else CRollback) = true) by (destruct commit; reflexivity).
    destruct o; inversion H; subst; (split; [exact Ho|]; split; [exact Hf|]; split; [reflexivity|];
      split; [discriminate|]; intros _;
      eexists; split; [reflexivity|]; unfold lostb, ent_end; cbn; rewrite Hend; auto).
Qed.

Lemma do_action_spec : forall t sc k a canc done orc r l orc1 canc1 done1 leak1,
  do_action t sc k a canc done orc = (r, l, orc1, canc1, done1, leak1) ->
  own t (sconn sc) l /\ follows orc l orc1 /\
  (done = true -> l = [] /\ done1 = true /\ leak1 = false) /\
  (done = false ->
     (done1 = false /\ stmts_at k l /\ leak1 = false) \/
     (done1 = true /\ is_self a = true /\ exists e, l = [e] /\ ent_end e = true /\ leak1 = lostb e)).
Proof.
  intros t sc k a canc done orc r l orc1 canc1 done1 leak1 H. unfold do_action in H.
  assert (Hsil : forall r', (r', @nil logent, orc, canc, done, false) = (r, l, orc1, canc1, done1, leak1) ->
            own t (sconn sc) l /\ follows orc l orc1 /\
            (done = true -> l = [] /\ done1 = true /\ leak1 = false) /\
            (done = false -> (done1 = false /\ stmts_at k l /\ leak1 = false) \/
               (done1 = true /\ is_self a = true /\ exists e, l = [e] /\ ent_end e = true /\ leak1 = lostb e))).
  { intros r' Heq. inversion Heq; subst. split; [constructor|]. split; [constructor|]. split.
    - intros ->. auto.
    - intros ->. left. split; [reflexivity|]. split; [apply stmts_at_nil | reflexivity]. }
  destruct a as [m withctx | | | | | |].
  - destruct (sctxapi sc && withctx && canc); [exact (Hsil _ H)|].
    destruct done; [exact (Hsil _ H)|].
    destruct (do_stmt t (sconn sc) k m (sctxapi sc && withctx) (sdl sc) orc) as [[[r0 l0] o1] c0] eqn:E.
    inversion H; subst. destruct (do_stmt_spec _ _ _ _ _ _ _ _ _ _ _ E) as (Ho & Hf & Hs & _).
    split; [exact Ho|]. split; [exact Hf|]. split; [discriminate|]. intros _. left. auto.
  - exact (Hsil _ H).
  - destruct (do_selfend_spec _ _ _ _ _ _ _ _ _ _ _ _ _ H) as (Ho & Hf & Hd & H1 & H2).
    split; [exact Ho|]. split; [exact Hf|]. split.
    + intros Hdn. destruct (H1 Hdn). auto.
    + intros Hdn. right. split; [exact Hd|]. split; [reflexivity|]. exact (H2 Hdn).
  - destruct (do_selfend_spec _ _ _ _ _ _ _ _ _ _ _ _ _ H) as (Ho & Hf & Hd & H1 & H2).
    split; [exact Ho|]. split; [exact Hf|]. split.
    + intros Hdn. destruct (H1 Hdn). auto.
    + intros Hdn. right. split; [exact Hd|]. split; [reflexivity|]. exact (H2 Hdn).
  - inversion H; subst. split; [constructor|]. split; [constructor|]. split.
    + intros ->. auto.
    + intros ->. left. split; [reflexivity|]. split; [apply stmts_at_nil | reflexivity].
  - exact (Hsil _ H).
  - exact (Hsil _ H).
Qed.

Lemma finish_spec : forall rf g t sc done o orc st' l orc1 leak,
  finish_with rf g t sc done o orc = (st', l, orc1, leak) ->
  own t (sconn sc) l /\ follows orc l orc1 /\
  (done = true -> l = [] /\ st' = TDone (mkRes 1 (Some o) (rf o (XErr TxDone)) true) /\ leak = false) /\
  (done = false -> exists e, l = [e] /\ ecall e = end_call_of g o /\
     st' = TDone (mkRes 1 (Some o) (rf o (xres (ecall e) (eout e) (eval e))) false) /\ leak = lostb e).
Proof.
  intros rf g t sc done o orc st' l orc1 leak H. unfold finish_with, try_end in H. destruct done.
  - inversion H; subst. split; [constructor|]. split; [constructor|]. split; [auto | discriminate].
  - destruct (drv t (sconn sc) (end_call_of g o) orc) as [[[[o0 v0] b] l0] o1] eqn:E.
    destruct (drv_own_follows _ _ _ _ _ _ _ _ _ E) as [Ho Hf]. destruct (drv_spec _ _ _ _ _ _ _ _ _ E) as (El0 & _ & _).
    inversion H; subst. split; [exact Ho|]. split; [exact Hf|]. split; [discriminate|]. intros _.
    eexists. split; [reflexivity|]. cbn [ecall eout]. split; [reflexivity|].
    pose proof (end_call_is_end g o) as He.
    split; [destruct o0; reflexivity|]. unfold lostb, ent_end. cbn. rewrite He. destruct o0; reflexivity.
Qed.

(* ---- the invariant --------------------------------------------------------------- *)
Definition begin_ok (b : logent) : Prop := ecall b = CBegin /\ eout b = OOk.

(* what a refused call returns *)
Definition refusal (sc : script) : err :=
  if sdead sc then ECtxDone (sdl sc) else if negb (sbrk sc) then EUnavailable else ENoConn.

Definition nsteps (sc : script) : Z := Z.of_nat (length (ssteps sc)).

(* [tr] = the driver calls made on behalf of the transaction so far *)
Definition tinv (rf : bout -> endres -> ret) (g : bool) (sc : script) (st : tstate) (tr : list logent) : Prop :=
  match st with
  | TIdle => tr = []
  | TBody k rest canc done =>
    exists b S pre,
      begin_ok b /\ stmts_lt k S /\ ssteps sc = pre ++ rest /\ k = Z.of_nat (length pre) /\
      let_through sc = true /\
      (if done
       then exists e, tr = b :: S ++ [e] /\ ent_end e = true /\ existsb (fun s => is_self (sact s)) pre = true
       else tr = b :: S)
  | TDone r =>
    (tr = [] /\ let_through sc = false /\ r = mkRes 0 None (RetErr (refusal sc)) false) \/
    (exists b, tr = [b] /\ ecall b = CBegin /\ eout b <> OOk /\ let_through sc = true /\
               r = mkRes 0 None (RetErr (EBegin (eval b))) false) \/
    (exists b S e o,
       tr = b :: S ++ [e] /\ begin_ok b /\ stmts_lt (nsteps sc) S /\ ent_end e = true /\
       let_through sc = true /\
       ((r = mkRes 1 (Some o) (rf o (xres (ecall e) (eout e) (eval e))) false /\ ecall e = end_call_of g o) \/
        (r = mkRes 1 (Some o) (rf o (XErr TxDone)) true /\ self_free sc = false)))
  end.

Lemma existsb_self_not_free : forall pre rest sc,
  ssteps sc = pre ++ rest -> existsb (fun s => is_self (sact s)) pre = true -> self_free sc = false.
Proof.
  intros pre rest sc Hs He. unfold self_free. rewrite Hs. apply not_true_is_false. intros Hf.
  rewrite forallb_app in Hf. apply andb_true_iff in Hf. destruct Hf as [Hf _].
  apply existsb_exists in He. destruct He as (s & Hin & Hs'). rewrite forallb_forall in Hf.
  specialize (Hf _ Hin). rewrite Hs' in Hf. discriminate.
Qed.

Lemma existsb_snoc : forall A (p : A -> bool) l x, existsb p (l ++ [x]) = existsb p l || p x.
Proof. intros. rewrite existsb_app. cbn. rewrite orb_false_r. reflexivity. Qed.

(* leaving the body from an invariant state *)
Lemma leave_inv : forall rf g t sc k rest canc done tr o orc st' l orc1 leak k',
  tinv rf g sc (TBody k rest canc done) tr -> 0 <= k' -> k <= k' <= nsteps sc ->
  finish_with rf g t sc done o orc = (st', l, orc1, leak) ->
  tinv rf g sc st' (tr ++ l) /\ leakZ leak = Z.of_nat (count lostb l).
Proof.
  intros rf g t sc k rest canc done tr o orc st' l orc1 leak k' Hinv Hk0 Hk Hfin.
  destruct Hinv as (b & S & pre & Hb & HS & Hsteps & Hkp & Hlt & Htr).
  destruct (finish_spec _ _ _ _ _ _ _ _ _ _ _ Hfin) as (_ & _ & Hd1 & Hd0).
  assert (HS' : stmts_lt (nsteps sc) S) by (eapply stmts_lt_mono; [exact HS | lia]).
  destruct done.
  - destruct (Hd1 eq_refl) as (-> & -> & ->). destruct Htr as (e & -> & He & Hex).
    rewrite app_nil_r. split; [|reflexivity]. right; right. exists b, S, e, o.
    split; [reflexivity|]. split; [exact Hb|]. split; [exact HS'|]. split; [exact He|]. split; [exact Hlt|].
    right. split; [reflexivity|]. eapply existsb_self_not_free; eassumption.
  - destruct (Hd0 eq_refl) as (e & -> & Hec & -> & ->). subst tr. split.
    + right; right. exists b, S, e, o.
      split; [reflexivity|]. split; [exact Hb|]. split; [exact HS'|].
      split; [unfold ent_end; rewrite Hec; apply end_call_is_end|]. split; [exact Hlt|].
      left. split; [reflexivity | exact Hec].
    + unfold count. cbn. destruct (lostb e); reflexivity.
Qed.

Lemma nsteps_split : forall sc pre s rest, ssteps sc = pre ++ s :: rest ->
  Z.of_nat (length pre) + 1 <= nsteps sc.
Proof. intros sc pre s rest H. unfold nsteps. rewrite H, app_length. cbn [length]. lia. Qed.

Lemma let_through_true : forall sc, let_through sc = true -> sdead sc = false /\ sbrk sc = true /\ sopen sc = true.
Proof.
  intros sc H. unfold let_through in H. apply andb_true_iff in H. destruct H as [H H3].
  apply andb_true_iff in H. destruct H as [H1 H2]. apply negb_true_iff in H1. auto.
Qed.

(* the Begins that database/sql gave up (it repeats them on another connection) *)
Definition retries (t : nat) (R : list logent) : Prop :=
  Forall (fun e => etid e = t /\ ecall e = CBeginRetry) R.

Lemma retries_not_lost : forall t R, retries t R -> count lostb R = 0%nat.
Proof.
  intros t R H. unfold count. induction H as [|e R [_ He] _ IH]; [reflexivity|].
  cbn. unfold lostb, ent_end. rewrite He. cbn. exact IH.
Qed.

Lemma begin_all_spec : forall fuel t rc cn orc o v c l orc',
  begin_all fuel t rc cn orc = (o, v, c, l, orc') ->
  exists R, l = R ++ [mkEnt t cn CBegin o v] /\ retries t R /\ follows orc l orc' /\ o <> OPanic.
Proof.
  induction fuel as [|fuel IH]; intros t rc cn orc o v c l orc' H; cbn [begin_all] in H.
  - exists []. destruct (drv_spec _ _ _ _ _ _ _ _ _ H) as (-> & Ho & _). destruct (drv_own_follows _ _ _ _ _ _ _ _ _ H) as [_ Hf].
    split; [reflexivity|]. split; [constructor|]. split; [exact Hf|]. rewrite Ho. apply honoured_not_end. reflexivity.
  - destruct (retried (fst (pop orc))) eqn:Er.
    + destruct (begin_all fuel t (tl rc) cn (snd (pop orc))) as [[[[o2 v2] c2] l2] o2'] eqn:E2.
      inversion H; subst. destruct (IH _ _ _ _ _ _ _ _ _ E2) as (R & -> & HR & Hf & Ho).
      exists (mkEnt t (hd cn rc) CBeginRetry OFail (rval (fst (pop orc))) :: R).
      split; [reflexivity|]. split; [constructor; [split; reflexivity | exact HR]|]. split; [|exact Ho].
      unfold retried in Er. constructor; cbn [ecall eout eval]; [| |exact Hf].
      * unfold honoured in *. cbn [is_end] in *. destruct (rout (fst (pop orc))); try discriminate; reflexivity.
      * reflexivity.
    + exists []. destruct (drv_spec _ _ _ _ _ _ _ _ _ H) as (-> & Ho & _). destruct (drv_own_follows _ _ _ _ _ _ _ _ _ H) as [_ Hf].
      split; [reflexivity|]. split; [constructor|]. split; [exact Hf|]. rewrite Ho. apply honoured_not_end. reflexivity.
Qed.

(* one quantum preserves the invariant; the calls it makes are the transaction's own, on its
   connection (but for the Begins database/sql gave up), answered by the script in order; a
   connection is lost iff an end call panicked *)
Lemma tstep_spec_started : forall rf g t sc st tr orc st' l orc' leak,
  st <> TIdle ->
  tinv rf g sc st tr -> tstep_with rf g t sc st orc = (st', l, orc', leak) ->
  tinv rf g sc st' (tr ++ l) /\ own t (sconn sc) l /\ follows orc l orc' /\
  leakZ leak = Z.of_nat (count lostb l).
Proof.
  intros rf g t sc st tr orc st' l orc' leak Hni Hinv H. destruct st as [|k rest canc done|r].
  - congruence.
  - (* TBody *)
    pose proof Hinv as Hinv0.
    destruct Hinv as (b & S & pre & Hb & HS & Hsteps & Hkp & Hlt & Htr).
    assert (Hk0 : 0 <= k) by lia.
    destruct rest as [|s rest].
    + (* the end of the body *)
      unfold tstep_with in H; cbn [tstep_fin] in H.
      assert (Hkn : k <= k <= nsteps sc).
      { unfold nsteps. rewrite Hsteps, app_nil_r. lia. }
      destruct (leave_inv _ _ _ _ _ _ _ _ _ _ _ _ _ _ _ k Hinv0 Hk0 Hkn H) as [Hi Hl].
      destruct (finish_spec _ _ _ _ _ _ _ _ _ _ _ H) as (Ho & Hf & _). auto.
    + unfold tstep_with in H; cbn [tstep_fin] in H.
      destruct (do_action t sc k (sact s) canc done orc) as [[[[[r l1] o1] canc1] done1] leak1] eqn:Ea.
      destruct (do_action_spec _ _ _ _ _ _ _ _ _ _ _ _ _ Ea) as (Ho1 & Hf1 & Hd1 & Hd0).
      pose proof (nsteps_split _ _ _ _ Hsteps) as Hns.
      (* the state after the step, as an invariant state *)
      assert (Hmid : tinv rf g sc (TBody (k + 1) rest canc1 done1) (tr ++ l1) /\ leakZ leak1 = Z.of_nat (count lostb l1)).
      { assert (Hpre : ssteps sc = (pre ++ [s]) ++ rest) by (rewrite <- app_assoc; exact Hsteps).
        assert (Hlen : k + 1 = Z.of_nat (length (pre ++ [s]))) by (rewrite app_length; cbn [length]; lia).
        assert (HSm : stmts_lt (k + 1) S) by (eapply stmts_lt_mono; [exact HS | lia]).
        destruct done.
        - destruct (Hd1 eq_refl) as (-> & -> & ->). rewrite app_nil_r. split; [|reflexivity].
          destruct Htr as (e & -> & He & Hex).
          exists b, S, (pre ++ [s]).
          split; [exact Hb|]. split; [exact HSm|]. split; [exact Hpre|]. split; [exact Hlen|]. split; [exact Hlt|].
          exists e. split; [reflexivity|]. split; [exact He|]. rewrite existsb_snoc, Hex. reflexivity.
        - subst tr. destruct (Hd0 eq_refl) as [(-> & Hs & ->) | (-> & Hself & e & -> & He & ->)].
          + split; [|rewrite (count_lost_stmts _ _ Hs); reflexivity].
            exists b, (S ++ l1), (pre ++ [s]).
            split; [exact Hb|]. split; [apply stmts_lt_app; auto|]. split; [exact Hpre|]. split; [exact Hlen|].
            split; [exact Hlt|]. reflexivity.
          + split; [|unfold count; cbn; destruct (lostb e); reflexivity].
            exists b, S, (pre ++ [s]).
            split; [exact Hb|]. split; [exact HSm|]. split; [exact Hpre|]. split; [exact Hlen|]. split; [exact Hlt|].
            exists e. split; [reflexivity|]. split; [exact He|]. rewrite existsb_snoc, Hself. apply orb_true_r. }
      destruct Hmid as [Hmid Hleak1].
      destruct (react r (sonfail s)) as [o|].
      * destruct (finish_with rf g t sc done1 o o1) as [[[st2 l2] o2] leak2] eqn:Ef.
        inversion H; subst st' l orc' leak.
        assert (Hk1 : k + 1 <= k + 1 <= nsteps sc) by lia.
        destruct (leave_inv _ _ _ _ _ _ _ _ _ _ _ _ _ _ _ (k + 1) Hmid ltac:(lia) Hk1 Ef) as [Hi Hl2].
        destruct (finish_spec _ _ _ _ _ _ _ _ _ _ _ Ef) as (Ho2 & Hf2 & _).
        rewrite app_assoc. split; [exact Hi|]. split; [apply own_app; assumption|].
        split; [eapply follows_app; eassumption|].
        rewrite count_app, Nat2Z.inj_add, <- Hleak1, <- Hl2.
        (* at most one of the two is a lost connection: after a panicking self end, the tx is done *)
        destruct leak1, leak2; cbn; try reflexivity. exfalso.
        destruct (finish_spec _ _ _ _ _ _ _ _ _ _ _ Ef) as (_ & _ & Hfd1 & _).
        destruct done.
        -- destruct (Hd1 eq_refl) as (_ & _ & Hx). discriminate.
        -- destruct (Hd0 eq_refl) as [(_ & _ & Hx) | (-> & _)]; [discriminate|].
           destruct (Hfd1 eq_refl) as (_ & _ & Hx). discriminate.
      * inversion H; subst st' l orc' leak. auto.
  - (* TDone *)
    unfold tstep_with in H; cbn [tstep_fin] in H. inversion H; subst. rewrite app_nil_r.
    split; [exact Hinv|]. split; [constructor|]. split; [constructor | reflexivity].
Qed.

Lemma tstep_spec : forall rf g t sc st tr orc st' l orc' leak,
  tinv rf g sc st tr -> tstep_with rf g t sc st orc = (st', l, orc', leak) ->
  exists R l', l = R ++ l' /\ retries t R /\
    tinv rf g sc st' (tr ++ l') /\ own t (sconn sc) l' /\ follows orc l orc' /\
    leakZ leak = Z.of_nat (count lostb l).
Proof.
  intros rf g t sc st tr orc st' l orc' leak Hinv H.
  destruct st as [|k rest canc done|r].
  2: { assert (Hni : TBody k rest canc done <> TIdle) by discriminate.
       destruct (tstep_spec_started _ _ _ _ _ _ _ _ _ _ _ Hni Hinv H) as (H1 & H2 & H3 & H4).
       exists [], l. split; [reflexivity|]. split; [constructor|]. auto. }
  2: { assert (Hni : TDone r <> TIdle) by discriminate.
       destruct (tstep_spec_started _ _ _ _ _ _ _ _ _ _ _ Hni Hinv H) as (H1 & H2 & H3 & H4).
       exists [], l. split; [reflexivity|]. split; [constructor|]. auto. }
  (* TIdle *)
  cbn in Hinv. subst tr. unfold tstep_with in H. cbn [tstep_fin] in H. cbn [app].
  assert (Href : forall e, sdead sc = true \/ (sdead sc = false /\ sbrk sc = false) \/
                    (sdead sc = false /\ sbrk sc = true /\ sopen sc = false) ->
                 e = refusal sc ->
                 (TDone (mkRes 0 None (RetErr e) false), @nil logent, orc, false) = (st', l, orc', leak) ->
                 exists R l', l = R ++ l' /\ retries t R /\
                   tinv rf g sc st' l' /\ own t (sconn sc) l' /\ follows orc l orc' /\ leakZ leak = Z.of_nat (count lostb l)).
  { intros e Hc -> Heq. inversion Heq; subst. exists [], []. split; [reflexivity|]. split; [constructor|].
    split; [|split; [constructor | split; [constructor | reflexivity]]].
    left. split; [reflexivity|]. split; [|reflexivity]. unfold let_through.
    destruct Hc as [-> | [[-> ->] | (-> & -> & ->)]]; reflexivity. }
  destruct (sdead sc) eqn:Hd; [apply (Href (ECtxDone (sdl sc))); auto; unfold refusal; rewrite Hd; reflexivity|].
  destruct (sbrk sc) eqn:Hb; cbn [negb] in H;
    [|apply (Href EUnavailable); auto; unfold refusal; rewrite Hd, Hb; reflexivity].
  destruct (sopen sc) eqn:Ho; cbn [negb] in H;
    [|apply (Href ENoConn); auto; unfold refusal; rewrite Hd, Hb; reflexivity].
  assert (Hlt : let_through sc = true) by (unfold let_through; rewrite Hd, Hb, Ho; reflexivity).
  destruct (begin_all max_begin_retries t (sretry sc) (sconn sc) orc) as [[[[o v] c] l0] o1] eqn:E.
  destruct (begin_all_spec _ _ _ _ _ _ _ _ _ _ E) as (R & El0 & HR & Hf & Hno).
  assert (Hnl : count lostb l0 = 0%nat).
  { rewrite El0, count_app, (retries_not_lost _ _ HR). unfold count, lostb, ent_end. reflexivity. }
  assert (Hown : own t (sconn sc) [mkEnt t (sconn sc) CBegin o v]) by (repeat constructor).
  destruct o; inversion H; subst st' l orc' leak.
  - exists R, [mkEnt t (sconn sc) CBegin OOk v].
    split; [exact El0|]. split; [exact HR|]. split; [|split; [exact Hown|split; [exact Hf|rewrite Hnl; reflexivity]]].
    exists (mkEnt t (sconn sc) CBegin OOk v), [], [].
    split; [split; reflexivity|]. split; [split; constructor|]. split; [reflexivity|]. split; [reflexivity|].
    split; [exact Hlt | reflexivity].
  - exists R, [mkEnt t (sconn sc) CBegin OFail v].
    split; [exact El0|]. split; [exact HR|]. split; [|split; [exact Hown|split; [exact Hf|rewrite Hnl; reflexivity]]].
    right; left. exists (mkEnt t (sconn sc) CBegin OFail v).
    split; [reflexivity|]. split; [reflexivity|]. split; [discriminate|]. split; [exact Hlt | reflexivity].
  - congruence.
Qed.

(* a transaction's own trace never contains a Begin that database/sql gave up *)
Definition noretry (l : list logent) : Prop := Forall (fun e => is_retry (ecall e) = false) l.

Lemma stmt_noretry : forall e, ent_stmt e = true -> is_retry (ecall e) = false.
Proof. intros e H. unfold ent_stmt in H. destruct (ecall e); try discriminate; reflexivity. Qed.
Lemma end_noretry : forall e, ent_end e = true -> is_retry (ecall e) = false.
Proof. intros e H. unfold ent_end in H. destruct (ecall e); try discriminate; reflexivity. Qed.
Lemma begin_noretry : forall e, ecall e = CBegin -> is_retry (ecall e) = false.
Proof. intros e H. rewrite H. reflexivity. Qed.

Lemma stmts_noretry : forall k S, stmts_lt k S -> noretry S.
Proof.
  intros k S [H _]. eapply Forall_impl; [|exact H]. cbn beta. intros e [He _]. apply stmt_noretry. exact He.
Qed.

Lemma tinv_noretry : forall rf g sc st tr, tinv rf g sc st tr -> noretry tr.
Proof.
  intros rf g sc st tr H. destruct st as [|k rest canc done|r]; cbn in H.
  - subst tr. constructor.
  - destruct H as (b & S & pre & [Hb _] & HS & _ & _ & _ & Htr). destruct done.
    + destruct Htr as (e & -> & He & _). constructor; [apply begin_noretry; exact Hb|].
      apply Forall_app. split; [eapply stmts_noretry; exact HS|]. constructor; [apply end_noretry; exact He | constructor].
    + subst tr. constructor; [apply begin_noretry; exact Hb | eapply stmts_noretry; exact HS].
  - destruct H as [(-> & _) | [(b & -> & Hb & _) | (b & S & e & o & -> & [Hb _] & HS & He & _)]].
    + constructor.
    + constructor; [apply begin_noretry; exact Hb | constructor].
    + constructor; [apply begin_noretry; exact Hb|].
      apply Forall_app. split; [eapply stmts_noretry; exact HS|]. constructor; [apply end_noretry; exact He | constructor].
Qed.
