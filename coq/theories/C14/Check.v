(* C14 — correspondence / property evaluation on what was observed on the
   implementation (harness/cmd/c14).  Executable only. *)
From Coq Require Import List ZArith Bool.
From GZ Require Export Lib.CheckLib C14.Model.
Import ListNotations.
Open Scope Z_scope.

(* raw facts about the error value Transact/TransactCtx returned *)
Record eobs := mkE
  { e_nil : bool;        (* err == nil *)
    e_unavail : bool;    (* errors.Is(err, breaker.ErrServiceUnavailable) *)
    e_begin : bool;      (* errors.Is(err, <the driver's Begin error>) *)
    e_commit : bool;     (* errors.Is(err, <the driver's Commit error>) *)
    e_rollback : bool;   (* errors.Is(err, <the driver's Rollback error>) *)
    e_same : bool;       (* err == the very error value the body returned *)
    e_recover : bool;    (* text starts with "recover from " *)
    e_txfailed : bool;   (* text starts with "transaction failed: <body error>, rollback failed: " *)
    e_canceled : bool }. (* errors.Is(err, context.Canceled) *)

Record case := mkCase
  { cin : input;                (* fault plan; [ibrk] is the observed breaker verdict *)
    olog : list logent;         (* what the fake driver logged *)
    oruns : Z;                  (* invocations of the body *)
    obody : option bout;        (* how the body ended, recorded by the body itself *)
    oerr : eobs;
    oinuse : Z }.               (* sql.DB connections still checked out afterwards *)

Definition call_eqb (a b : call) : bool :=
  match a, b with
  | CBegin, CBegin | CCommit, CCommit | CRollback, CRollback => true
  | CExec j, CExec k => j =? k
  | _, _ => false
  end.
Definition logent_eqb (a b : logent) : bool :=
  call_eqb (fst a) (fst b) && Bool.eqb (snd a) (snd b).
Definition berr_eqb (a b : berr) : bool :=
  match a, b with
  | BUser, BUser => true
  | BStmt j, BStmt k | BCtx j, BCtx k => j =? k
  | _, _ => false
  end.
Definition bout_eqb (a b : bout) : bool :=
  match a, b with
  | BNil, BNil | BPanic, BPanic => true
  | BErr x, BErr y => berr_eqb x y
  | _, _ => false
  end.
Definition eobs_eqb (a b : eobs) : bool :=
  Bool.eqb (e_nil a) (e_nil b) && Bool.eqb (e_unavail a) (e_unavail b) &&
  Bool.eqb (e_begin a) (e_begin b) && Bool.eqb (e_commit a) (e_commit b) &&
  Bool.eqb (e_rollback a) (e_rollback b) && Bool.eqb (e_same a) (e_same b) &&
  Bool.eqb (e_recover a) (e_recover b) && Bool.eqb (e_txfailed a) (e_txfailed b) &&
  Bool.eqb (e_canceled a) (e_canceled b).

(* the facts the harness would read off each error term of the model *)
Definition is_bctx (b : berr) : bool := match b with BCtx _ => true | _ => false end.
Definition facts (e : err) : eobs :=
  match e with
  | ENil                => mkE true  false false false false false false false false
  | EUnavailable        => mkE false true  false false false false false false false
  | ECanceled           => mkE false false false false false false false false true
  | EBegin              => mkE false false true  false false false false false false
  | EBody b             => mkE false false false false false true  false false (is_bctx b)
  | ECommit             => mkE false false false true  false false false false false
  | ERecover            => mkE false false false false false false true  false false
  | ERecoverRollback    => mkE false false false false true  false true  false false
  | ETxFailedRollback _ => mkE false false false false true  false false true  false
  end.

(* the model reproduces exactly what the implementation did *)
Definition agrees (c : case) : bool :=
  let r := transact (cin c) in
  list_eqb logent_eqb (rlog r) (olog c) &&
  (rruns r =? oruns c) &&
  opt_eqb bout_eqb (rbody r) (obody c) &&
  eobs_eqb (facts (rerr r)) (oerr c) &&
  (oinuse c =? 0).

(* ---- the property, evaluated on the observed driver log --------------------
   Written against the log itself; it does not call [transact]. *)
Fixpoint split_last {A} (l : list A) : option (list A * A) :=
  match l with
  | [] => None
  | [x] => Some ([], x)
  | x :: l' => match split_last l' with
               | Some (m, y) => Some (x :: m, y)
               | None => None
               end
  end.

Definition prop_ok (c : case) : bool :=
  let e := oerr c in
  match olog c with
  | [] =>
    (* no transaction at all: only when the context was already cancelled or the breaker
       refused the call; the body did not run and the caller is told *)
    negb (let_through (cin c)) && (oruns c =? 0) && negb (e_nil e)
  | (CBegin, false) :: rest =>
    (* cannot begin: nothing else reaches the driver, the body is not run *)
    match rest with [] => true | _ => false end && (oruns c =? 0) && negb (e_nil e)
  | (CBegin, true) :: rest =>
    (oruns c =? 1) &&
    match split_last rest, obody c with
    | Some (mid, (last, ok)), Some o =>
      (* between Begin and the end only statements; the end is one Commit or Rollback *)
      forallb (fun x => is_exec (fst x)) mid && is_end last &&
      (* commit iff the body returned nil; error or panic: rollback *)
      match o with
      | BNil => is_commit last
      | BErr _ | BPanic => is_rollback last
      end &&
      (* a panic is reported *)
      match o with BPanic => negb (e_nil e) | _ => true end &&
      (* nil only when the commit succeeded *)
      (if e_nil e then is_commit last && ok else true) &&
      (* a failed commit / rollback is visible in the returned error *)
      (if ok then true
       else negb (e_nil e) && (if is_commit last then e_commit e else e_rollback e))
    | _, _ => false
    end
  | _ => false
  end.

Definition model_obs (c : case) :=
  let r := transact (cin c) in (rlog r, rruns r, rbody r, facts (rerr r)).
