(* C14 — correspondence / property evaluation on what was observed on the
   implementation (harness/cmd/c14).  Executable only. *)
From Coq Require Import List ZArith Bool.
From GZ Require Export Lib.CheckLib C14.Model.
From GZgen Require Import C14Consts.
Import ListNotations.
Open Scope Z_scope.

(* raw facts about the error value Transact/TransactCtx returned *)
Record eobs := mkE
  { e_nil : bool;        (* err == nil *)
    e_begin : bool;      (* errors.Is(err, <the marker of the driver's Begin error>) *)
    e_commit : bool;     (* errors.Is(err, <the marker of the driver's Commit error>) *)
    e_rollback : bool;   (* errors.Is(err, <the marker of the driver's Rollback error>) *)
    e_same : bool;       (* err == the very error value the body returned *)
    e_recover : bool;    (* text starts with "recover from " *)
    e_txfailed : bool;   (* text starts with "transaction failed: <body error>, rollback failed: " *)
    e_noconn : bool;     (* errors.Is(err, <the connection provider's error>) *)
    e_nest : bool;       (* text is "cannot nest transactions" *)
    e_sent : list ekind }. (* the sentinel values err matches through errors.Is, in the order of [ekind] *)

(* how the call ended, as seen by the caller *)
Inductive robs :=
| ORet (e : eobs)     (* it returned *)
| OPanicked           (* it panicked *)
| ONever              (* its goroutine exited *)
| OOpen               (* still in the body when the run stopped *)
| ONotStarted.

Record tobs := mkT
  { o_ret : robs;
    o_runs : Z;                  (* invocations of the body *)
    o_body : option bout;        (* how the body ended, recorded by the body itself *)
    o_inuse : Z;                 (* sql.DB connections checked out when the call had ended *)
    o_nest : Z;                  (* invocations of bodies handed to a Transact on the transaction's session *)
    o_self : bool;               (* the body itself called Commit / Rollback on the transaction *)
    o_acc : Z;                   (* calls of the user's WithAcceptable functions *)
    o_accsame : bool }.          (* ... each with the very error that was returned, and only once the
                                    transaction was over (after its last driver call) *)

Record case := mkCase
  { cguard : bool;               (* the tree guards the commit against a body that never returned (GZgen) *)
    cscripts : list script;      (* [sbrk], [sconn] as observed *)
    csched : list nat;           (* the schedule that was forced *)
    coracle : list reply;        (* the driver's script *)
    olog : list logent;          (* what the driver logged *)
    oths : list tobs;
    ofinal : Z }.                (* connections checked out of the pools when the run was over *)

(* short forms used by the rendered cases *)
Definition en (t : nat) (cn : Z) (c : call) (o : outcome) : logent := mkEnt t cn c o vgen.
Definition rp (o : outcome) (c : bool) : reply := mkReply o c vgen.

(* ---- equality tests --------------------------------------------------------- *)
Definition ekind_eqb (a b : ekind) : bool :=
  match a, b with
  | VGeneric, VGeneric | VBadConn, VBadConn | VTxDone, VTxDone | VConnDone, VConnDone
  | VNoRows, VNoRows | VCanceled, VCanceled | VDeadline, VDeadline | VSkip, VSkip
  | VUnavail, VUnavail | VEOF, VEOF => true
  | _, _ => false
  end.
Definition emode_eqb (a b : emode) : bool :=
  match a, b with MBare, MBare | MWrap, MWrap | MCustom, MCustom => true | _, _ => false end.
Definition errval_eqb (a b : errval) : bool :=
  ekind_eqb (vkind a) (vkind b) && emode_eqb (vmode a) (vmode b).
Definition outcome_eqb (a b : outcome) : bool :=
  match a, b with OOk, OOk | OFail, OFail | OPanic, OPanic => true | _, _ => false end.
Definition skind_eqb (a b : skind) : bool :=
  match a, b with
  | KExec, KExec | KQuery, KQuery | KPrepare, KPrepare | KStmtExec, KStmtExec => true
  | _, _ => false
  end.
Definition call_eqb (a b : call) : bool :=
  match a, b with
  | CBegin, CBegin | CBeginRetry, CBeginRetry | CCommit, CCommit | CRollback, CRollback => true
  | CStmt j x, CStmt k y => (j =? k) && skind_eqb x y
  | _, _ => false
  end.
Definition logent_eqb (a b : logent) : bool :=
  Nat.eqb (etid a) (etid b) && (econn a =? econn b) && call_eqb (ecall a) (ecall b) &&
  outcome_eqb (eout a) (eout b) && errval_eqb (eval a) (eval b).
Definition berr_eqb (a b : berr) : bool :=
  match a, b with
  | BUser v, BUser w => errval_eqb v w
  | BCtx j a, BCtx k b => (j =? k) && Bool.eqb a b
  | BTxDone j, BTxDone k | BNest j, BNest k => j =? k
  | BStmt j v, BStmt k w | BSelfC j v, BSelfC k w | BSelfR j v, BSelfR k w => (j =? k) && errval_eqb v w
  | _, _ => false
  end.
Definition bout_eqb (a b : bout) : bool :=
  match a, b with
  | BNil, BNil | BPanic, BPanic | BGoexit, BGoexit => true
  | BErr x, BErr y => berr_eqb x y
  | _, _ => false
  end.
Definition eobs_eqb (a b : eobs) : bool :=
  Bool.eqb (e_nil a) (e_nil b) &&
  Bool.eqb (e_begin a) (e_begin b) && Bool.eqb (e_commit a) (e_commit b) &&
  Bool.eqb (e_rollback a) (e_rollback b) && Bool.eqb (e_same a) (e_same b) &&
  Bool.eqb (e_recover a) (e_recover b) && Bool.eqb (e_txfailed a) (e_txfailed b) &&
  Bool.eqb (e_noconn a) (e_noconn b) && Bool.eqb (e_nest a) (e_nest b) &&
  list_eqb ekind_eqb (e_sent a) (e_sent b).
Definition robs_eqb (a b : robs) : bool :=
  match a, b with
  | ORet x, ORet y => eobs_eqb x y
  | OPanicked, OPanicked | ONever, ONever | OOpen, OOpen | ONotStarted, ONotStarted => true
  | _, _ => false
  end.
Definition tobs_eqb (a b : tobs) : bool :=
  robs_eqb (o_ret a) (o_ret b) && (o_runs a =? o_runs b) && opt_eqb bout_eqb (o_body a) (o_body b) &&
  (o_inuse a =? o_inuse b) && (o_nest a =? o_nest b) && Bool.eqb (o_self a) (o_self b) &&
  (o_acc a =? o_acc b) && Bool.eqb (o_accsame a) (o_accsame b).

(* ---- what the harness would read off the model ------------------------------- *)
Definition noE : eobs := mkE false false false false false false false false false [].

(* an injected error carries a marker of its origin (Begin / Commit / Rollback / statement / the
   body) unless it is a bare sentinel value *)
Definition role_visible (v : errval) : bool :=
  match vkind v, vmode v with
  | VGeneric, _ => true
  | _, MBare => false
  | _, _ => true
  end.
Definition sent_of (v : errval) : list ekind :=
  match vkind v with VGeneric => [] | k => [k] end.

Definition cause_facts (c : ecause) (e : eobs) : eobs :=
  match c with
  | DrvCommit v => mkE (e_nil e) (e_begin e) (role_visible v) (e_rollback e) (e_same e) (e_recover e)
                       (e_txfailed e) (e_noconn e) (e_nest e) (sent_of v)
  | DrvRollback v => mkE (e_nil e) (e_begin e) (e_commit e) (role_visible v) (e_same e) (e_recover e)
                         (e_txfailed e) (e_noconn e) (e_nest e) (sent_of v)
  | TxDone => mkE (e_nil e) (e_begin e) (e_commit e) (e_rollback e) (e_same e) (e_recover e)
                  (e_txfailed e) (e_noconn e) (e_nest e) [VTxDone]
  end.

Definition berr_facts (b : berr) : eobs :=
  (*                 nil   begin commit rollb same rec   txf   noc   nest  sentinels *)
  match b with
  | BUser v     => mkE false false false false true false false false false (sent_of v)
  | BStmt _ v   => mkE false false false false true false false false false (sent_of v)
  | BCtx _ dl   => mkE false false false false true false false false false [if dl then VDeadline else VCanceled]
  | BTxDone _   => mkE false false false false true false false false false [VTxDone]
  | BNest _     => mkE false false false false true false false false true  []
  | BSelfC _ v  => mkE false false (role_visible v) false true false false false false (sent_of v)
  | BSelfR _ v  => mkE false false false (role_visible v) true false false false false (sent_of v)
  end.

Definition facts (e : err) : eobs :=
  match e with
  | ENil            => mkE true  false false false false false false false false []
  | EUnavailable    => mkE false false false false false false false false false [VUnavail]
  | ECtxDone dl     => mkE false false false false false false false false false [if dl then VDeadline else VCanceled]
  | ENoConn         => mkE false false false false false false false true  false []
  | EBegin v        => mkE false (role_visible v) false false false false false false false (sent_of v)
  | EBody b         => berr_facts b
  | ECommit c       => cause_facts c noE
  | ERecover None   => mkE false false false false false true  false false false []
  | ERecover (Some c) => cause_facts c (mkE false false false false false true false false false [])
  | ETxFailed _ c   => cause_facts c (mkE false false false false false false true false false [])
  end.

(* commonSqlConn.acceptable consults the user's functions for a non-nil error that is not
   one of sql.ErrNoRows / sql.ErrTxDone / context.Canceled (regenerated); the breaker asks it only
   for calls it let through and that returned *)
Definition builtin_acceptable (k : ekind) : bool :=
  match k with
  | VNoRows => gen_acc_norows
  | VTxDone => gen_acc_txdone
  | VCanceled => gen_acc_canceled
  | _ => false
  end.
Definition consults (e : err) : bool :=
  match e with
  | ENil | EUnavailable | ECtxDone _ => false
  | _ => negb (existsb builtin_acceptable (e_sent (facts e)))
  end.

Definition robs_of (r : ret) : robs :=
  match r with RetErr e => ORet (facts e) | RetPanic => OPanicked | RetNever => ONever end.

Definition tobs_of (th : thread) : tobs :=
  match tst th with
  | TIdle => mkT ONotStarted 0 None 0 0 false 0 true
  | TBody _ _ _ done => mkT OOpen 1 None 0 0 done 0 true
  | TDone r =>
    let acc := match rret r with RetErr e => if consults e then sacc (tsc th) else 0 | _ => 0 end in
    mkT (robs_of (rret r)) (rruns r) (rbody r) (tinuse th) 0 (rself r) acc true
  end.

(* ---- the property, evaluated on the observed driver log --------------------
   Written against the log itself; it does not run the model. *)
Fixpoint split_last {A} (l : list A) : option (list A * A) :=
  match l with
  | [] => None
  | [x] => Some ([], x)
  | x :: l' => match split_last l' with
               | Some (m, y) => Some (x :: m, y)
               | None => None
               end
  end.

Definition ret_nil (r : robs) : bool := match r with ORet e => e_nil e | _ => false end.
Definition ret_err (r : robs) : bool := match r with ORet e => negb (e_nil e) | _ => false end.
Definition is_goexit (o : bout) : bool := match o with BGoexit => true | _ => false end.

(* the returned error lets the caller see that the Commit / Rollback failed with [v]: through the
   marker of the injected error, or — a bare sentinel value has none — through that value *)
Definition shows (x : eobs) (commit : bool) (v : errval) : bool :=
  if role_visible v then (if commit then e_commit x else e_rollback x)
  else existsb (ekind_eqb (vkind v)) (e_sent x).

(* the end call made by Transact's deferred function, for a body that ended with [bo] *)
Definition end_ok (bo : bout) (e : logent) (r : robs) : bool :=
  (* commit iff the body returned nil; error, panic, goroutine exit: rollback *)
  match bo with BNil => is_commit (ecall e) | _ => is_rollback (ecall e) end &&
  (* a failed commit / rollback is visible in the returned error; a panicking one is not
     turned into a normal return *)
  match eout e with
  | OOk => true
  | OFail =>
    match r with
    | ORet x => negb (e_nil x) && shows x (is_commit (ecall e)) (eval e)
    | ONever => is_goexit bo
    | _ => false
    end
  | OPanic => match r with OPanicked => true | _ => false end
  end.

(* a call that has ended, after a successful Begin; [rest] = its driver calls after the Begin *)
Definition finished_ok (rest : list logent) (o : tobs) : bool :=
  match split_last rest, o_body o with
  | Some (mid, e), Some bo =>
    (* between Begin and the end only statements; the end is one Commit or Rollback, and
       nothing reaches the driver after it *)
    forallb ent_stmt mid && ent_end e &&
    (* ... made by Transact, unless the body ended the transaction itself *)
    (o_self o || end_ok bo e (o_ret o)) &&
    (* a panic is reported *)
    match bo with BPanic => negb (ret_nil (o_ret o)) | _ => true end &&
    (* only a call whose body exited the goroutine does not come back *)
    match o_ret o with ONever => is_goexit bo | _ => true end &&
    (* nil only when the commit succeeded *)
    (if ret_nil (o_ret o) then is_commit (ecall e) && outcome_eqb (eout e) OOk else true) &&
    (* the call itself panics only when the driver's end call panicked: a panic of the BODY - whatever
       its value: a string, an error, a runtime.Error, nil - is reported as an error, it does not escape *)
    (match o_ret o with OPanicked => outcome_eqb (eout e) OPanic | _ => true end)
  | _, _ => false
  end.

(* a call that is still in its body: the transaction is open (or was ended by the body) *)
Definition open_ok (rest : list logent) (o : tobs) : bool :=
  match o_body o with
  | Some _ => false
  | None =>
    if o_self o then
      match split_last rest with
      | Some (mid, e) => forallb ent_stmt mid && ent_end e
      | None => false
      end
    else forallb ent_stmt rest
  end.

(* one transaction: [tr] = the driver calls made on its behalf, in order *)
Definition prop_thread (sc : script) (tr : list logent) (o : tobs) : bool :=
  match tr with
  | [] =>
    (* no transaction at all: only when the call was refused (context already cancelled, breaker,
       no connection) or never made; the body did not run and the caller is not told "nil" *)
    (o_runs o =? 0) && negb (ret_nil (o_ret o)) &&
    match o_ret o with ONotStarted => true | OOpen => false | _ => negb (let_through sc) end
  | b :: rest =>
    ent_begin b &&
    (* everything on the connection of the Begin *)
    forallb (fun e => econn e =? econn b) rest &&
    match eout b with
    | OOk =>
      (o_runs o =? 1) &&
      match o_ret o with
      | ONotStarted => false
      | OOpen => open_ok rest o
      | _ => finished_ok rest o
      end
    | _ =>
      (* cannot begin: nothing else reaches the driver, the body is not run, an error comes back *)
      match rest with [] => true | _ => false end && (o_runs o =? 0) && ret_err (o_ret o)
    end
  end.

Fixpoint prop_threads (t : nat) (scs : list script) (os : list tobs)
  (log : list logent) : bool :=
  match scs, os with
  | [], [] => true
  | sc :: scs', o :: os' =>
    prop_thread sc (proj t log) o && prop_threads (S t) scs' os' log
  | _, _ => false
  end.

(* ---- ... and on the log as a whole, whoever made the calls and whatever the callers were told:
   on every connection, as many Commit/Rollback as successful Begin (plus the transactions that
   are still open), and no connection stays checked out -- except those lost to a driver whose
   Commit / Rollback panicked *)
Definition still_open (o : tobs) : bool :=
  match o_ret o with OOpen => negb (o_self o) | _ => false end.

Fixpoint open_on (c : Z) (scs : list script) (os : list tobs) : Z :=
  match scs, os with
  | sc :: scs', o :: os' => (if still_open o && (sconn sc =? c) then 1 else 0) + open_on c scs' os'
  | _, _ => 0
  end.

Definition conn_balanced (scs : list script) (os : list tobs) (log : list logent) (c : Z) : bool :=
  Z.of_nat (count (fun e => on_conn c e && begun_ok e) log) =?
  Z.of_nat (count (fun e => on_conn c e && ent_end e) log) + open_on c scs os.

Definition log_balanced (scs : list script) (os : list tobs) (log : list logent) : bool :=
  forallb (fun e => conn_balanced scs os log (econn e)) log.

Definition pool_ok (c : case) : bool :=
  ofinal c =? Z.of_nat (count lostb (olog c)) + Z.of_nat (length (filter still_open (oths c))).

(* "the body is not run if the transaction cannot begin": a Transact / TransactCtx on a transaction's
   own session (NewSqlConnFromSession(s), CachedConn.WithSession(s)) begins no transaction of its own
   - nothing reaches the driver on its behalf - so the body handed to it is never run *)
Definition no_nested_body (c : case) : bool := forallb (fun o => o_nest o =? 0) (oths c).

Definition prop_ok (c : case) : bool :=
  prop_threads 0 (cscripts c) (oths c) (olog c) &&
  (* no driver call on behalf of nobody *)
  forallb (fun e => Nat.ltb (etid e) (length (cscripts c))) (olog c) &&
  log_balanced (cscripts c) (oths c) (olog c) && pool_ok c && no_nested_body c.

(* ---- the model reproduces exactly what the implementation did ------------------ *)
Definition model_world (c : case) : world := exec (cguard c) (cscripts c) (csched c) (coracle c).

Definition agrees (c : case) : bool :=
  let w := model_world c in
  list_eqb logent_eqb (wlog w) (olog c) &&
  list_eqb tobs_eqb (map tobs_of (wthreads w)) (oths c) &&
  (count_open (wthreads w) + wleaks w =? ofinal c).

Definition model_obs (c : case) :=
  let w := model_world c in (wlog w, map tobs_of (wthreads w), wleaks w).
