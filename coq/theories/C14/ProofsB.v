(* C14 — proofs, part B: the world. For every set of transactions, every schedule and every
   script of the driver: the invariant of every transaction, the script is followed call by
   call, lost connections are exactly the panicked end calls, and on every connection the
   successful Begins are balanced by end calls and open transactions. *)
From Coq Require Import List ZArith Bool Lia Sorted.
From GZ Require Import C14.Model C14.ProofsA.
Import ListNotations.
Open Scope Z_scope.

(* ---- set_nth / proj ------------------------------------------------------------- *)
Lemma set_nth_length : forall A n (x : A) l, length (set_nth n x l) = length l.
Proof. intros A n x l. revert n. induction l as [|y l IH]; intros [|n]; cbn; auto. Qed.

Lemma nth_error_set_nth_eq : forall A n (x y : A) l,
  nth_error l n = Some y -> nth_error (set_nth n x l) n = Some x.
Proof. intros A n x y l. revert n. induction l as [|z l IH]; intros [|n] H; cbn in *; try discriminate; auto. Qed.

Lemma nth_error_set_nth_neq : forall A n m (x : A) l,
  n <> m -> nth_error (set_nth n x l) m = nth_error l m.
Proof.
  intros A n m x l. revert n m. induction l as [|z l IH]; intros [|n] [|m] H; cbn; auto;
    try (exfalso; congruence); try (apply IH; congruence).
Qed.

Lemma map_set_nth : forall A B (f : A -> B) n x y l,
  nth_error l n = Some y -> f x = f y -> map f (set_nth n x l) = map f l.
Proof.
  intros A B f n x y l. revert n. induction l as [|z l IH]; intros [|n] H E; cbn in *; try discriminate; auto.
  - inversion H; subst. rewrite E. reflexivity.
  - rewrite (IH n H E). reflexivity.
Qed.

Lemma filter_set_nth : forall A (p : A -> bool) n x y l,
  nth_error l n = Some y ->
  (length (filter p (set_nth n x l)) + (if p y then 1 else 0) =
   length (filter p l) + (if p x then 1 else 0))%nat.
Proof.
  intros A p n x y l. revert n. induction l as [|z l IH]; intros [|n] H; cbn in *; try discriminate.
  - inversion H; subst. destruct (p x), (p y); cbn; lia.
  - specialize (IH n H). destruct (p z); cbn; lia.
Qed.

Lemma proj_app : forall t l1 l2, proj t (l1 ++ l2) = proj t l1 ++ proj t l2.
Proof. intros. unfold proj. apply filter_app. Qed.

Lemma proj_own : forall t cn l, own t cn l -> noretry l -> proj t l = l.
Proof.
  intros t cn l H. unfold proj. induction H as [|e l [He _] _ IH]; intros Hn; [reflexivity|].
  apply Forall_cons_iff in Hn. destruct Hn as [Hn1 Hn2].
  cbn. rewrite He, Nat.eqb_refl, Hn1, (IH Hn2). reflexivity.
Qed.

Lemma proj_other : forall t t' cn l, own t cn l -> t' <> t -> proj t' l = [].
Proof.
  intros t t' cn l H Hne. unfold proj. induction H as [|e l [He _] _ IH]; [reflexivity|].
  cbn. rewrite He. destruct (Nat.eqb t t') eqn:E; [apply Nat.eqb_eq in E; congruence | exact IH].
Qed.

Lemma proj_retries : forall t t' R, retries t R -> proj t' R = [].
Proof.
  intros t t' R H. unfold proj. induction H as [|e R [_ He] _ IH]; [reflexivity|].
  cbn. rewrite He. cbn. rewrite andb_false_r. exact IH.
Qed.

Lemma count_retries_zero : forall (p : logent -> bool) t R,
  (forall e, ecall e = CBeginRetry -> p e = false) -> retries t R -> count p R = 0%nat.
Proof.
  intros p t R Hp H. unfold count. induction H as [|e R [_ He] _ IH]; [reflexivity|].
  cbn. rewrite (Hp _ He). exact IH.
Qed.

Lemma retries_tid : forall t R n, retries t R -> (t < n)%nat -> Forall (fun e => (etid e < n)%nat) R.
Proof. intros t R n H Hn. eapply Forall_impl; [|exact H]. cbn. intros e [He _]. rewrite He. exact Hn. Qed.

(* ---- the invariant of the world ------------------------------------------------------- *)
(* connections held by open transactions, per connection *)
Definition holds_on (c : Z) (th : thread) : bool := holds_conn th && (sconn (tsc th) =? c).
Definition open_conn (c : Z) (ths : list thread) : nat := length (filter (holds_on c) ths).

Record ginv (rf : bout -> endres -> ret) (g : bool) (scs : list script) (orc0 : list reply) (w : world) : Prop :=
  { g_threads : forall t th, nth_error (wthreads w) t = Some th ->
                  tinv rf g (tsc th) (tst th) (proj t (wlog w)) /\
                  Forall (fun e => econn e = sconn (tsc th)) (proj t (wlog w));
    g_scripts : map tsc (wthreads w) = scs;
    g_follows : follows orc0 (wlog w) (worc w);
    g_leaks : wleaks w = Z.of_nat (count lostb (wlog w));
    g_tids : Forall (fun e => (etid e < length scs)%nat) (wlog w);
    g_balance : forall c,
        count (fun e => on_conn c e && begun_ok e) (wlog w) =
        (count (fun e => on_conn c e && ent_end e) (wlog w) + open_conn c (wthreads w))%nat }.

(* what a transaction's trace contributes to the balance of its connection *)
Lemma count_stmts_zero : forall (p : logent -> bool) k l,
  (forall e, ent_stmt e = true -> p e = false) -> stmts_lt k l -> count p l = 0%nat.
Proof.
  intros p k l Hp [H _]. unfold count. induction H as [|e l [He _] _ IH]; [reflexivity|].
  cbn. rewrite (Hp _ He). exact IH.
Qed.

Lemma stmt_not_begun : forall c e, ent_stmt e = true -> on_conn c e && begun_ok e = false.
Proof.
  intros c e H. unfold begun_ok, ent_begin. unfold ent_stmt in H.
  destruct (ecall e); try discriminate. cbn. apply andb_false_r.
Qed.

Lemma stmt_not_end : forall c e, ent_stmt e = true -> on_conn c e && ent_end e = false.
Proof.
  intros c e H. unfold ent_end. unfold ent_stmt in H.
  destruct (ecall e); try discriminate; cbn; apply andb_false_r.
Qed.

Lemma begin_not_end : forall e, ecall e = CBegin -> ent_end e = false.
Proof. intros e H. unfold ent_end. rewrite H. reflexivity. Qed.

Lemma end_not_begun : forall e, ent_end e = true -> begun_ok e = false.
Proof. intros e H. unfold begun_ok, ent_begin. unfold ent_end in H. destruct (ecall e); try discriminate; reflexivity. Qed.

Definition b2n (b : bool) : nat := if b then 1%nat else 0%nat.

Lemma count_cons : forall p e l, count p (e :: l) = (b2n (p e) + count p l)%nat.
Proof. intros. unfold count. cbn. destruct (p e); reflexivity. Qed.

Lemma count_nil : forall p, count p [] = 0%nat.
Proof. reflexivity. Qed.

Lemma trace_balance : forall rf g sc st tr c iu,
  tinv rf g sc st tr -> Forall (fun e => econn e = sconn sc) tr ->
  count (fun e => on_conn c e && begun_ok e) tr =
  (count (fun e => on_conn c e && ent_end e) tr + b2n (holds_on c (mkThread sc st iu)))%nat.
Proof.
  intros rf g sc st tr c iu Hinv Hc. unfold holds_on, holds_conn. cbn [tst tsc].
  assert (Hon : forall e, In e tr -> on_conn c e = (sconn sc =? c)).
  { intros e He. rewrite Forall_forall in Hc. unfold on_conn. rewrite (Hc _ He). reflexivity. }
  destruct st as [|k rest canc done|r]; cbn in Hinv.
  - subst tr. reflexivity.
  - destruct Hinv as (b & S & pre & [Hb1 Hb2] & HS & _ & _ & _ & Htr).
    assert (Hbb : begun_ok b = true) by (unfold begun_ok, ent_begin; rewrite Hb1, Hb2; reflexivity).
    assert (Hbe : ent_end b = false) by (apply begin_not_end; exact Hb1).
    destruct done.
    + destruct Htr as (e & -> & He & _).
      rewrite !count_cons, !count_app, !count_cons, !count_nil.
      rewrite (count_stmts_zero _ _ _ (stmt_not_begun c) HS), (count_stmts_zero _ _ _ (stmt_not_end c) HS).
      rewrite Hbb, Hbe, He, (end_not_begun _ He), !andb_true_r, !andb_false_r.
      rewrite (Hon b), (Hon e); [|apply in_cons, in_or_app; right; left; reflexivity | left; reflexivity].
      cbn. destruct (sconn sc =? c); reflexivity.
    + subst tr. rewrite !count_cons.
      rewrite (count_stmts_zero _ _ _ (stmt_not_begun c) HS), (count_stmts_zero _ _ _ (stmt_not_end c) HS).
      rewrite Hbb, Hbe, !andb_true_r, !andb_false_r, (Hon b); [|left; reflexivity].
      cbn. destruct (sconn sc =? c); reflexivity.
  - rewrite andb_false_l. cbn [b2n].
    destruct Hinv as [(-> & _) | [(b & -> & Hb1 & Hb2 & _) | (b & S & e & o & -> & [Hb1 Hb2] & HS & He & _)]].
    + reflexivity.
    + rewrite !count_cons, !count_nil. unfold begun_ok, ent_begin, ent_end. rewrite Hb1.
      destruct (eout b); try congruence; rewrite !andb_false_r; reflexivity.
    + assert (Hbb : begun_ok b = true) by (unfold begun_ok, ent_begin; rewrite Hb1, Hb2; reflexivity).
      assert (Hbe : ent_end b = false) by (apply begin_not_end; exact Hb1).
      rewrite !count_cons, !count_app, !count_cons, !count_nil.
      rewrite (count_stmts_zero _ _ _ (stmt_not_begun c) HS), (count_stmts_zero _ _ _ (stmt_not_end c) HS).
      rewrite Hbb, Hbe, He, (end_not_begun _ He), !andb_true_r, !andb_false_r.
      rewrite (Hon b), (Hon e); [|apply in_cons, in_or_app; right; left; reflexivity | left; reflexivity].
      cbn. destruct (sconn sc =? c); reflexivity.
Qed.

Lemma init_ginv : forall rf g scs orc, ginv rf g scs orc (init scs orc).
Proof.
  intros rf g scs orc. unfold init. constructor; cbn.
  - intros t th H. rewrite nth_error_map in H. destruct (nth_error scs t); [|discriminate].
    inversion H; subst. cbn. split; [reflexivity | constructor].
  - rewrite map_map. cbn. apply map_id.
  - constructor.
  - reflexivity.
  - constructor.
  - intros c. unfold open_conn. cbn. induction scs as [|sc scs IH]; [reflexivity|]. cbn. exact IH.
Qed.

Lemma own_conn : forall t cn l, own t cn l -> Forall (fun e => econn e = cn) l.
Proof. intros t cn l H. eapply Forall_impl; [|exact H]. cbn. intros e [_ He]. exact He. Qed.

Lemma own_tid : forall t cn l n, own t cn l -> (t < n)%nat -> Forall (fun e => (etid e < n)%nat) l.
Proof. intros t cn l n H Hn. eapply Forall_impl; [|exact H]. cbn. intros e [He _]. rewrite He. exact Hn. Qed.

Lemma wstep_ginv : forall rf g scs orc0 w t, ginv rf g scs orc0 w -> ginv rf g scs orc0 (wstep_with rf g w t).
Proof.
  intros rf g scs orc0 w t G. unfold wstep_with, wstep_gen.
  destruct (nth_error (wthreads w) t) as [th|] eqn:Ht; [|exact G].
  destruct (tstep_with rf g t (tsc th) (tst th) (worc w)) as [[[st' l] orc'] leak] eqn:Es.
  destruct (g_threads _ _ _ _ _ G t th Ht) as [Hinv Hconn].
  destruct (tstep_spec _ _ _ _ _ _ _ _ _ _ _ Hinv Es) as (R & l' & -> & HR & Hinv' & Hown & Hfol & Hleak).
  pose proof (tinv_noretry _ _ _ _ _ Hinv') as Hnr. apply Forall_app in Hnr. destruct Hnr as [_ Hnr].
  set (inuse := if is_done st' && negb (is_done (tst th))
                then count_open (set_nth t (mkThread (tsc th) st' (tinuse th)) (wthreads w)) +
                     (wleaks w + (if leak then 1 else 0))
                else tinuse th).
  assert (Hlen : (t < length scs)%nat).
  { rewrite <- (g_scripts _ _ _ _ _ G), map_length. apply nth_error_Some. congruence. }
  assert (Hconn' : Forall (fun e => econn e = sconn (tsc th)) (proj t (wlog w) ++ l')).
  { apply Forall_app. split; [exact Hconn | eapply own_conn; exact Hown]. }
  constructor; cbn [wthreads wlog worc wleaks].
  - intros t' th' H'. destruct (Nat.eq_dec t t') as [<- | Hne].
    + rewrite (nth_error_set_nth_eq _ _ _ _ _ Ht) in H'. inversion H'; subst th'. cbn [tsc tst].
      rewrite !proj_app, (proj_retries _ _ _ HR), (proj_own _ _ _ Hown Hnr). split; assumption.
    + rewrite (nth_error_set_nth_neq _ _ _ _ _ Hne) in H'.
      rewrite !proj_app, (proj_retries _ _ _ HR), (proj_other _ _ _ _ Hown (not_eq_sym Hne)), app_nil_r.
      exact (g_threads _ _ _ _ _ G t' th' H').
  - rewrite (map_set_nth _ _ tsc t (mkThread (tsc th) st' inuse) th _ Ht eq_refl). exact (g_scripts _ _ _ _ _ G).
  - eapply follows_app; [exact (g_follows _ _ _ _ _ G) | exact Hfol].
  - rewrite count_app, Nat2Z.inj_add, <- (g_leaks _ _ _ _ _ G), <- Hleak. unfold leakZ. reflexivity.
  - apply Forall_app. split; [exact (g_tids _ _ _ _ _ G)|].
    apply Forall_app. split; [eapply retries_tid; eassumption | eapply own_tid; eassumption].
  - intros c. rewrite !count_app.
    rewrite (count_retries_zero (fun e => on_conn c e && begun_ok e) t R), (count_retries_zero (fun e => on_conn c e && ent_end e) t R); auto;
      try (intros e He; unfold begun_ok, ent_begin, ent_end; rewrite He; cbn; apply andb_false_r).
    pose proof (g_balance _ _ _ _ _ G c) as HB.
    pose proof (trace_balance _ _ _ _ _ c (tinuse th) Hinv Hconn) as H0.
    pose proof (trace_balance _ _ _ _ _ c inuse Hinv' Hconn') as H1.
    rewrite !count_app in H1.
    pose proof (filter_set_nth _ (holds_on c) t (mkThread (tsc th) st' inuse) th _ Ht) as HF.
    unfold open_conn in *. destruct th as [sc0 st0 iu0]. cbn [tsc tst tinuse] in *.
    unfold b2n in *.
    destruct (holds_on c (mkThread sc0 st0 iu0)), (holds_on c (mkThread sc0 st' inuse)); lia.
Qed.

Lemma run_ginv : forall rf g scs orc0 sched w, ginv rf g scs orc0 w -> ginv rf g scs orc0 (run_with rf g w sched).
Proof.
  intros rf g scs orc0 sched. unfold run_with, run_gen. induction sched as [|t sched IH]; intros w G; cbn; [exact G|].
  apply IH. apply (wstep_ginv rf g scs orc0 w t). exact G.
Qed.

Theorem exec_ginv : forall rf g scs sched orc, ginv rf g scs orc (exec_with rf g scs sched orc).
Proof. intros. unfold exec_with, exec_gen. apply (run_ginv rf g scs orc sched). apply init_ginv. Qed.

(* ---- the script of the driver, read positionally --------------------------------------- *)
Definition dflt : reply := mkReply OOk false vgen.

Lemma follows_nth : forall orc l orc',
  follows orc l orc' ->
  orc' = skipn (length l) orc /\
  forall i e, nth_error l i = Some e ->
    eout e = honoured (ecall e) (rout (nth i orc dflt)) /\
    eval e = val_of (ecall e) (eout e) (rval (nth i orc dflt)).
Proof.
  intros orc l orc' H. induction H as [orc | orc e l orc' He Hv _ [IH1 IH2]].
  - split; [reflexivity|]. intros i e H. destruct i; discriminate.
  - split.
    + rewrite IH1. destruct orc; cbn; [destruct (length l); reflexivity | reflexivity].
    + intros i e' Hi. destruct i as [|i].
      * cbn in Hi. inversion Hi; subst e'. rewrite He at 1. rewrite Hv. destruct orc; split; reflexivity.
      * cbn in Hi. destruct (IH2 _ _ Hi) as [H1 H2]. rewrite H1 at 1. rewrite H2.
        destruct orc as [|r orc]; cbn; [destruct i; split; reflexivity | split; reflexivity].
Qed.
