(* C14 — proofs, part E: transactions do not interfere.
   In any run — any interleaving with any other transactions on the same or other SqlConns —
   transaction t goes through exactly the states, and makes exactly the driver calls, of the run in
   which only t is scheduled and the driver's script consists of the replies t received. *)
From Coq Require Import List ZArith Bool Lia.
From GZ Require Import C14.Model C14.ProofsA C14.ProofsB.
Import ListNotations.
Open Scope Z_scope.

(* ---- a quantum reads a finite prefix of the driver's script ---------------------------- *)
Lemma drv_local : forall t cn c O o v b l O', drv t cn c O = (o, v, b, l, O') ->
  forall x, drv t cn c (fst (pop O) :: x) = (o, v, b, l, x).
Proof.
  unfold drv. intros t cn c O o v b l O' H x. destruct (pop O) as [r O1]. cbn in *.
  inversion H; subst. reflexivity.
Qed.

Lemma do_stmt_local : forall t cn k m sees dl O r l O1 c,
  do_stmt t cn k m sees dl O = (r, l, O1, c) ->
  exists rs, forall x, do_stmt t cn k m sees dl (rs ++ x) = (r, l, x, c).
Proof.
  intros t cn k m sees dl O r l O1 c H. unfold do_stmt in H. destruct m.
  - destruct (drv t cn (CStmt k KExec) O) as [[[[o v] b] l0] o1] eqn:E. inversion H; subst.
    exists [fst (pop O)]. intros x. unfold do_stmt. cbn [app]. rewrite (drv_local _ _ _ _ _ _ _ _ _ E x). reflexivity.
  - destruct (drv t cn (CStmt k KQuery) O) as [[[[o v] b] l0] o1] eqn:E. inversion H; subst.
    exists [fst (pop O)]. intros x. unfold do_stmt. cbn [app]. rewrite (drv_local _ _ _ _ _ _ _ _ _ E x). reflexivity.
  - destruct (drv t cn (CStmt k KPrepare) O) as [[[[o v] b] l0] o1] eqn:E.
    destruct o.
    + destruct (sees && b) eqn:Esb.
      * inversion H; subst. exists [fst (pop O)]. intros x. unfold do_stmt. cbn [app].
        rewrite (drv_local _ _ _ _ _ _ _ _ _ E x), Esb. reflexivity.
      * destruct (drv t cn (CStmt k KStmtExec) o1) as [[[[o2 v2] b2] l2] o2'] eqn:E2. inversion H; subst.
        exists [fst (pop O); fst (pop o1)]. intros x. unfold do_stmt. cbn [app].
        rewrite (drv_local _ _ _ _ _ _ _ _ _ E (fst (pop o1) :: x)), Esb, (drv_local _ _ _ _ _ _ _ _ _ E2 x). reflexivity.
    + inversion H; subst. exists [fst (pop O)]. intros x. unfold do_stmt. cbn [app].
      rewrite (drv_local _ _ _ _ _ _ _ _ _ E x). reflexivity.
    + inversion H; subst. exists [fst (pop O)]. intros x. unfold do_stmt. cbn [app].
      rewrite (drv_local _ _ _ _ _ _ _ _ _ E x). reflexivity.
Qed.

Lemma do_selfend_local : forall t cn k commit canc done O res,
  do_selfend t cn k commit canc done O = res ->
  exists rs, forall x, do_selfend t cn k commit canc done (rs ++ x) =
    (let '(r, l, _, c1, d1, lk) := res in (r, l, x, c1, d1, lk)).
Proof.
  intros t cn k commit canc done O res H. unfold do_selfend in H. destruct done.
  - subst res. exists []. intros x. reflexivity.
  - destruct (drv t cn (if commit then CCommit else CRollback) O) as [[[[o v] b] l0] o1] eqn:E.
    exists [fst (pop O)]. intros x. unfold do_selfend. cbn [app].
    rewrite (drv_local _ _ _ _ _ _ _ _ _ E x). subst res. destruct o; reflexivity.
Qed.

Lemma do_action_local : forall t sc k a canc done O r l O1 c1 d1 lk,
  do_action t sc k a canc done O = (r, l, O1, c1, d1, lk) ->
  exists rs, forall x, do_action t sc k a canc done (rs ++ x) = (r, l, x, c1, d1, lk).
Proof.
  intros t sc k a canc done O r l O1 c1 d1 lk H. unfold do_action in H.
  assert (Hsil : forall r' c' d', (r', @nil logent, O, c', d', false) = (r, l, O1, c1, d1, lk) ->
            forall f : list reply -> aout, (forall x, f x = (r', [], x, c', d', false)) ->
            exists rs, forall x, f (rs ++ x) = (r, l, x, c1, d1, lk)).
  { intros r' c' d' Heq f Hf. inversion Heq; subst. exists []. intros x. apply Hf. }
  destruct a as [m withctx | | | | | |].
  - destruct (sctxapi sc && withctx && canc) eqn:E1.
    { apply (Hsil _ _ _ H (fun x => do_action t sc k (AStmt m withctx) canc done x)).
      intros x. unfold do_action. rewrite E1. reflexivity. }
    destruct done eqn:E2.
    { apply (Hsil _ _ _ H (fun x => do_action t sc k (AStmt m withctx) canc true x)).
      intros x. unfold do_action. rewrite E1. reflexivity. }
    destruct (do_stmt t (sconn sc) k m (sctxapi sc && withctx) (sdl sc) O) as [[[r0 l0] o1] c0] eqn:E.
    inversion H; subst. destruct (do_stmt_local _ _ _ _ _ _ _ _ _ _ _ E) as [rs Hrs]. exists rs. intros x.
    unfold do_action. rewrite E1, (Hrs x). reflexivity.
  - apply (Hsil _ _ _ H (fun x => do_action t sc k ANest canc done x)). intros x. reflexivity.
  - destruct (do_selfend_local _ _ _ _ _ _ _ _ H) as [rs Hrs]. exists rs. intros x.
    unfold do_action. rewrite (Hrs x). reflexivity.
  - destruct (do_selfend_local _ _ _ _ _ _ _ _ H) as [rs Hrs]. exists rs. intros x.
    unfold do_action. rewrite (Hrs x). reflexivity.
  - apply (Hsil _ _ _ H (fun x => do_action t sc k ACancel canc done x)). intros x. reflexivity.
  - apply (Hsil _ _ _ H (fun x => do_action t sc k ANop canc done x)). intros x. reflexivity.
  - apply (Hsil _ _ _ H (fun x => do_action t sc k ATrip canc done x)). intros x. reflexivity.
Qed.

Lemma finish_local : forall rf g t sc done o O st' l O1 lk,
  finish_with rf g t sc done o O = (st', l, O1, lk) ->
  exists rs, forall x, finish_with rf g t sc done o (rs ++ x) = (st', l, x, lk).
Proof.
  intros rf g t sc done o O st' l O1 lk H. unfold finish_with, try_end in H. destruct done.
  - inversion H; subst. exists []. intros x. reflexivity.
  - destruct (drv t (sconn sc) (end_call_of g o) O) as [[[[o0 v0] b] l0] o1] eqn:E. inversion H; subst.
    exists [fst (pop O)]. intros x. unfold finish_with, try_end. cbn [app].
    rewrite (drv_local _ _ _ _ _ _ _ _ _ E x). reflexivity.
Qed.

Lemma begin_all_local : forall fuel t rc cn O o v c l O1,
  begin_all fuel t rc cn O = (o, v, c, l, O1) ->
  exists rs, forall x, begin_all fuel t rc cn (rs ++ x) = (o, v, c, l, x).
Proof.
  induction fuel as [|fuel IH]; intros t rc cn O o v c l O1 H; cbn [begin_all] in H.
  - exists [fst (pop O)]. intros x. cbn [begin_all app]. apply (drv_local _ _ _ _ _ _ _ _ _ H x).
  - destruct (retried (fst (pop O))) eqn:Er.
    + destruct (begin_all fuel t (tl rc) cn (snd (pop O))) as [[[[o2 v2] c2] l2] o2'] eqn:E2.
      destruct (IH _ _ _ _ _ _ _ _ _ E2) as [rs Hrs]. exists (fst (pop O) :: rs). intros x.
      cbn [begin_all app pop fst snd]. rewrite Er, (Hrs x). inversion H; subst. reflexivity.
    + exists [fst (pop O)]. intros x. cbn [begin_all app pop fst snd]. rewrite Er.
      apply (drv_local _ _ _ _ _ _ _ _ _ H x).
Qed.

Lemma tstep_local : forall rf g t sc st O st' l O1 lk,
  tstep_with rf g t sc st O = (st', l, O1, lk) ->
  exists rs, forall x, tstep_with rf g t sc st (rs ++ x) = (st', l, x, lk).
Proof.
  intros rf g t sc st O st' l O1 lk H. unfold tstep_with in *. destruct st as [|k rest canc done|r].
  - cbn [tstep_fin] in H.
    destruct (sdead sc) eqn:Hd.
    { inversion H; subst. exists []. intros x. cbn [tstep_fin app]. rewrite Hd. reflexivity. }
    destruct (negb (sbrk sc)) eqn:Hb.
    { inversion H; subst. exists []. intros x. cbn [tstep_fin app]. rewrite Hd, Hb. reflexivity. }
    destruct (negb (sopen sc)) eqn:Ho.
    { inversion H; subst. exists []. intros x. cbn [tstep_fin app]. rewrite Hd, Hb, Ho. reflexivity. }
    destruct (begin_all max_begin_retries t (sretry sc) (sconn sc) O) as [[[[o v] c] l0] o1] eqn:E.
    destruct (begin_all_local _ _ _ _ _ _ _ _ _ _ E) as [rs Hrs].
    exists rs. intros x. cbn [tstep_fin]. rewrite Hd, Hb, Ho, (Hrs x).
    destruct o; inversion H; subst; reflexivity.
  - destruct rest as [|s rest]; cbn [tstep_fin] in H.
    + destruct (finish_local _ _ _ _ _ _ _ _ _ _ _ H) as [rs Hrs]. exists rs. intros x. cbn [tstep_fin]. apply Hrs.
    + destruct (do_action t sc k (sact s) canc done O) as [[[[[r l1] o1] canc1] done1] leak1] eqn:Ea.
      destruct (do_action_local _ _ _ _ _ _ _ _ _ _ _ _ _ Ea) as [rs1 H1].
      destruct (react r (sonfail s)) as [o|] eqn:Er.
      * destruct (finish_with rf g t sc done1 o o1) as [[[st2 l2] o2] leak2] eqn:Ef. inversion H; subst.
        destruct (finish_local _ _ _ _ _ _ _ _ _ _ _ Ef) as [rs2 H2].
        exists (rs1 ++ rs2). intros x. cbn [tstep_fin]. rewrite <- app_assoc, (H1 (rs2 ++ x)), Er, (H2 x). reflexivity.
      * inversion H; subst. exists rs1. intros x. cbn [tstep_fin]. rewrite (H1 x), Er. reflexivity.
  - cbn in H. inversion H; subst. exists []. intros x. reflexivity.
Qed.

(* every driver call of a quantum is made while its transaction is running (in any state) *)
Definition tagged (u : nat) (l : list logent) : Prop := Forall (fun e => etid e = u) l.

Lemma own_tagged : forall u cn l, own u cn l -> tagged u l.
Proof. intros u cn l H. eapply Forall_impl; [|exact H]. cbn beta. tauto. Qed.

Lemma tstep_tagged : forall rf g u sc st O st' l O' lk,
  tstep_with rf g u sc st O = (st', l, O', lk) -> tagged u l.
Proof.
  intros rf g u sc st O st' l O' lk Es. unfold tstep_with in Es.
  destruct st as [|k rest canc done|r]; cbn [tstep_fin] in Es.
  - destruct (sdead sc); [inversion Es; constructor|].
    destruct (negb (sbrk sc)); [inversion Es; constructor|].
    destruct (negb (sopen sc)); [inversion Es; constructor|].
    destruct (begin_all max_begin_retries u (sretry sc) (sconn sc) O) as [[[[o v] c] l0] o1] eqn:E.
    destruct (begin_all_spec _ _ _ _ _ _ _ _ _ _ E) as (R & -> & HR & _).
    assert (Ht : tagged u (R ++ [mkEnt u (sconn sc) CBegin o v])).
    { apply Forall_app. split; [eapply Forall_impl; [|exact HR]; cbn beta; tauto | repeat constructor]. }
    destruct o; inversion Es; subst; exact Ht.
  - destruct rest as [|s rest].
    + destruct (finish_spec _ _ _ _ _ _ _ _ _ _ _ Es) as (Ho & _). eapply own_tagged; exact Ho.
    + destruct (do_action u sc k (sact s) canc done O) as [[[[[r l1] o1] canc1] done1] leak1] eqn:Ea.
      destruct (do_action_spec _ _ _ _ _ _ _ _ _ _ _ _ _ Ea) as (Ho1 & _).
      destruct (react r (sonfail s)).
      * destruct (finish_with rf g u sc done1 b o1) as [[[st2 l2] o2] leak2] eqn:Ef. inversion Es; subst.
        destruct (finish_spec _ _ _ _ _ _ _ _ _ _ _ Ef) as (Ho2 & _).
        apply Forall_app. split; eapply own_tagged; eassumption.
      * inversion Es; subst. eapply own_tagged; exact Ho1.
  - inversion Es. constructor.
Qed.

Lemma calls_of_app : forall t l1 l2, calls_of t (l1 ++ l2) = calls_of t l1 ++ calls_of t l2.
Proof. intros. unfold calls_of. apply filter_app. Qed.

Lemma calls_of_tagged : forall t l, tagged t l -> calls_of t l = l.
Proof.
  intros t l H. unfold calls_of. induction H as [|e l He _ IH]; [reflexivity|].
  cbn. rewrite He, Nat.eqb_refl, IH. reflexivity.
Qed.

Lemma calls_of_other : forall t t' l, tagged t l -> t' <> t -> calls_of t' l = [].
Proof.
  intros t t' l H Hne. unfold calls_of. induction H as [|e l He _ IH]; [reflexivity|].
  cbn. rewrite He. destruct (Nat.eqb t t') eqn:E; [apply Nat.eqb_eq in E; congruence | exact IH].
Qed.

(* ---- the world ---------------------------------------------------------------------- *)
Definition state_of (w : world) (t : nat) : option tstate := option_map tst (nth_error (wthreads w) t).

Lemma wstep_other : forall rf g w u t, u <> t ->
  state_of (wstep_with rf g w u) t = state_of w t /\
  calls_of t (wlog (wstep_with rf g w u)) = calls_of t (wlog w) /\
  map tsc (wthreads (wstep_with rf g w u)) = map tsc (wthreads w).
Proof.
  intros rf g w u t Hne. unfold wstep_with, wstep_gen.
  destruct (nth_error (wthreads w) u) as [th|] eqn:Hu; [|auto].
  destruct (tstep_with rf g u (tsc th) (tst th) (worc w)) as [[[st' l] orc'] leak] eqn:Es.
  cbn [wthreads wlog]. unfold state_of. cbn [wthreads].
  rewrite (nth_error_set_nth_neq _ _ _ _ _ Hne). split; [reflexivity|]. split.
  - (* entries of the step belong to u *)
    pose proof (tstep_tagged _ _ _ _ _ _ _ _ _ _ Es) as Hown.
    rewrite calls_of_app, (calls_of_other _ _ _ Hown (not_eq_sym Hne)), app_nil_r. reflexivity.
  - apply (map_set_nth _ _ tsc u _ th _ Hu). reflexivity.
Qed.

(* the run in which only t is scheduled *)
Definition only (t : nat) (sched : list nat) : list nat := filter (Nat.eqb t) sched.

Lemma only_snoc : forall t sched u, only t (sched ++ [u]) = only t sched ++ (if Nat.eqb t u then [u] else []).
Proof. intros. unfold only. rewrite filter_app. cbn. destruct (Nat.eqb t u); reflexivity. Qed.

Lemma run_snoc : forall rf g w sched u, run_with rf g w (sched ++ [u]) = wstep_with rf g (run_with rf g w sched) u.
Proof. intros. unfold run_with, run_gen. rewrite fold_left_app. reflexivity. Qed.

Lemma run_scripts : forall rf g sched w, map tsc (wthreads (run_with rf g w sched)) = map tsc (wthreads w).
Proof.
  intros rf g sched. induction sched as [|u sched IH] using rev_ind; intros w; [reflexivity|].
  rewrite run_snoc. unfold wstep_with, wstep_gen.
  destruct (nth_error (wthreads (run_with rf g w sched)) u) as [th|] eqn:Hu; [|apply IH].
  destruct (tstep_with rf g u (tsc th) (tst th) (worc (run_with rf g w sched))) as [[[st' l] orc'] leak].
  cbn [wthreads]. erewrite (map_set_nth _ _ tsc u _ th _ Hu); [apply IH | reflexivity].
Qed.

Lemma state_script : forall w t st, state_of w t = Some st ->
  exists th, nth_error (wthreads w) t = Some th /\ tst th = st.
Proof. intros w t st H. unfold state_of in H. destruct (nth_error (wthreads w) t) as [th|]; [|discriminate]. exists th. inversion H. auto. Qed.

Lemma nth_script : forall w w' t th th', map tsc (wthreads w) = map tsc (wthreads w') ->
  nth_error (wthreads w) t = Some th -> nth_error (wthreads w') t = Some th' -> tsc th = tsc th'.
Proof.
  intros w w' t th th' Hm H1 H2.
  assert (E1 : nth_error (map tsc (wthreads w)) t = Some (tsc th)) by (rewrite nth_error_map, H1; reflexivity).
  assert (E2 : nth_error (map tsc (wthreads w')) t = Some (tsc th')) by (rewrite nth_error_map, H2; reflexivity).
  rewrite Hm in E1. congruence.
Qed.

Theorem solo_l : forall rf g scs sched orc t,
  exists orc_t, forall x,
    let W := run_with rf g (init scs orc) sched in
    let W1 := run_with rf g (init scs (orc_t ++ x)) (only t sched) in
    state_of W1 t = state_of W t /\ wlog W1 = calls_of t (wlog W) /\ worc W1 = x.
Proof.
  intros rf g scs sched orc t. induction sched as [|u sched IH] using rev_ind.
  - exists []. intros x. cbn. auto.
  - destruct IH as [orc_t IH]. rewrite only_snoc. destruct (Nat.eqb t u) eqn:Etu.
    + apply Nat.eqb_eq in Etu. subst u.
      set (W := run_with rf g (init scs orc) sched) in *.
      (* the quantum of t in the full run *)
      destruct (nth_error (wthreads W) t) as [th|] eqn:Ht.
      * destruct (tstep_with rf g t (tsc th) (tst th) (worc W)) as [[[st' l] orc'] leak] eqn:Es.
        destruct (tstep_local _ _ _ _ _ _ _ _ _ _ Es) as [rs Hrs].
        pose proof (tstep_tagged _ _ _ _ _ _ _ _ _ _ Es) as Hown.
        exists (orc_t ++ rs). intros x. cbn zeta. rewrite !run_snoc, <- app_assoc. fold W.
        destruct (IH (rs ++ x)) as (Hst & Hlog & Horc). cbn zeta in Hst, Hlog, Horc. fold W in Hst, Hlog.
        set (W1 := run_with rf g (init scs (orc_t ++ rs ++ x)) (only t sched)) in *.
        assert (Hst' : state_of W t = Some (tst th)) by (unfold state_of; rewrite Ht; reflexivity).
        rewrite Hst' in Hst. destruct (state_script _ _ _ Hst) as (th1 & Ht1 & Hst1).
        assert (Hsc : tsc th1 = tsc th).
        { apply (nth_script W1 W t th1 th); auto. unfold W1, W. rewrite !run_scripts. reflexivity. }
        unfold wstep_with, wstep_gen. rewrite Ht1, Ht, Hsc, Hst1, Horc, (Hrs x), Es.
        cbn [wthreads wlog worc]. unfold state_of. cbn [wthreads].
        rewrite (nth_error_set_nth_eq _ _ _ _ _ Ht1), (nth_error_set_nth_eq _ _ _ _ _ Ht). cbn.
        split; [reflexivity|]. split; [|reflexivity].
        rewrite calls_of_app, (calls_of_tagged _ _ Hown), Hlog. reflexivity.
      * exists orc_t. intros x. cbn zeta. rewrite !run_snoc. fold W.
        destruct (IH x) as (Hst & Hlog & Horc). cbn zeta in Hst, Hlog, Horc. fold W in Hst, Hlog.
        set (W1 := run_with rf g (init scs (orc_t ++ x)) (only t sched)) in *.
        assert (Hn1 : nth_error (wthreads W1) t = None).
        { unfold state_of in Hst. rewrite Ht in Hst. destruct (nth_error (wthreads W1) t); [discriminate | reflexivity]. }
        unfold wstep_with, wstep_gen. rewrite Hn1, Ht. auto.
    + apply Nat.eqb_neq in Etu. exists orc_t. intros x. cbn zeta. rewrite app_nil_r, run_snoc.
      destruct (IH x) as (Hst & Hlog & Horc). cbn zeta in Hst, Hlog, Horc.
      destruct (wstep_other rf g (run_with rf g (init scs orc) sched) u t (not_eq_sym Etu)) as (H1 & H2 & _).
      rewrite H1, H2. auto.
Qed.
