(* C14 — proofs, part C: the property, read off the invariant, for every transaction of every
   run of the machine. *)
From Coq Require Import List ZArith Bool Lia Sorted.
From GZ Require Import C14.Model C14.ProofsA C14.ProofsB.
Import ListNotations.
Open Scope Z_scope.

Section Run.
  Variables (g : bool) (scs : list script) (sched : list nat) (orc : list reply).
  Let W := exec g scs sched orc.

  Lemma W_ginv : ginv ret_of g scs orc W.
  Proof. apply exec_ginv. Qed.

  Variables (t : nat) (th : thread).
  Hypothesis Hth : nth_error (wthreads W) t = Some th.
  Let sc := tsc th.
  Let tr := proj t (wlog W).

  Lemma th_inv : tinv ret_of g sc (tst th) tr.
  Proof. exact (proj1 (g_threads _ _ _ _ _ W_ginv t th Hth)). Qed.

  Lemma th_conn : Forall (fun e => econn e = sconn sc) tr.
  Proof. exact (proj2 (g_threads _ _ _ _ _ W_ginv t th Hth)). Qed.

  Lemma th_script : nth_error scs t = Some sc.
  Proof.
    rewrite <- (g_scripts _ _ _ _ _ W_ginv), nth_error_map, Hth. reflexivity.
  Qed.

  (* counting in a trace of the shape Begin :: statements ++ [end] *)
  Lemma count_shape : forall b S e k,
    ecall b = CBegin -> stmts_lt k S -> ent_end e = true ->
    count ent_end (b :: S ++ [e]) = 1%nat /\ count ent_begin (b :: S ++ [e]) = 1%nat.
  Proof.
    intros b S e k Hb HS He.
    assert (Hbe : ent_end b = false) by (apply begin_not_end; exact Hb).
    assert (Hbb : ent_begin b = true) by (unfold ent_begin; rewrite Hb; reflexivity).
    assert (Heb : ent_begin e = false).
    { unfold ent_begin. unfold ent_end in He. destruct (ecall e); try discriminate; reflexivity. }
    rewrite !count_cons, !count_app, !count_cons, !count_nil.
    rewrite (count_stmts_zero ent_end k S), (count_stmts_zero ent_begin k S); auto.
    - rewrite Hbe, Hbb, He, Heb. split; reflexivity.
    - intros x Hx. unfold ent_begin. unfold ent_stmt in Hx. destruct (ecall x); try discriminate; reflexivity.
    - intros x Hx. unfold ent_end. unfold ent_stmt in Hx. destruct (ecall x); try discriminate; reflexivity.
  Qed.

  Lemma count_open_shape : forall b S k,
    ecall b = CBegin -> stmts_lt k S ->
    count ent_end (b :: S) = 0%nat /\ count ent_begin (b :: S) = 1%nat.
  Proof.
    intros b S k Hb HS.
    assert (Hbe : ent_end b = false) by (apply begin_not_end; exact Hb).
    assert (Hbb : ent_begin b = true) by (unfold ent_begin; rewrite Hb; reflexivity).
    rewrite !count_cons.
    rewrite (count_stmts_zero ent_end k S), (count_stmts_zero ent_begin k S); auto.
    - rewrite Hbe, Hbb. split; reflexivity.
    - intros x Hx. unfold ent_begin. unfold ent_stmt in Hx. destruct (ecall x); try discriminate; reflexivity.
    - intros x Hx. unfold ent_end. unfold ent_stmt in Hx. destruct (ecall x); try discriminate; reflexivity.
  Qed.

  Lemma stmts_forall : forall k S, stmts_lt k S -> Forall (fun e => ent_stmt e = true) S.
  Proof. intros k S [H _]. eapply Forall_impl; [|exact H]. cbn beta. tauto. Qed.

  (* T1: the shape of the trace in every state *)
  Lemma shape_l :
    match tst th with
    | TIdle => tr = []
    | TBody _ _ _ done =>
      exists b S, ecall b = CBegin /\ eout b = OOk /\ Forall (fun e => ent_stmt e = true) S /\
        if done then exists e, tr = b :: S ++ [e] /\ ent_end e = true /\ count ent_end tr = 1%nat
        else tr = b :: S /\ count ent_end tr = 0%nat
    | TDone r =>
      (rruns r = 0 /\ rbody r = None /\
         (tr = [] \/ exists b, tr = [b] /\ ecall b = CBegin /\ eout b <> OOk)) \/
      (rruns r = 1 /\ exists b S e,
         tr = b :: S ++ [e] /\ ecall b = CBegin /\ eout b = OOk /\
         Forall (fun x => ent_stmt x = true) S /\ ent_end e = true /\
         count ent_end tr = 1%nat /\ count ent_begin tr = 1%nat)
    end.
  Proof.
    pose proof th_inv as H. fold sc. destruct (tst th) as [|k rest canc done|r]; cbn in H.
    - exact H.
    - destruct H as (b & S & pre & [Hb1 Hb2] & HS & _ & _ & _ & Htr). exists b, S.
      split; [exact Hb1|]. split; [exact Hb2|]. split; [eapply stmts_forall; exact HS|].
      destruct done.
      + destruct Htr as (e & Htr & He & _). exists e. split; [exact Htr|]. split; [exact He|].
        rewrite Htr. apply (count_shape b S e k Hb1 HS He).
      + split; [exact Htr|]. rewrite Htr. apply (count_open_shape b S k Hb1 HS).
    - destruct H as [(Htr & _ & ->) | [(b & Htr & Hb1 & Hb2 & _ & ->) | (b & S & e & o & Htr & [Hb1 Hb2] & HS & He & _ & Hr)]].
      + left. cbn. auto.
      + left. cbn. split; [reflexivity|]. split; [reflexivity|]. right. exists b. auto.
      + right. split; [destruct Hr as [[-> _] | [-> _]]; reflexivity|].
        exists b, S, e. split; [exact Htr|]. split; [exact Hb1|]. split; [exact Hb2|].
        split; [eapply stmts_forall; exact HS|]. split; [exact He|]. rewrite Htr.
        apply (count_shape b S e _ Hb1 HS He).
  Qed.

  (* at most one Begin, at most one end call, in every state *)
  Lemma at_most_once_l : (count ent_end tr <= 1)%nat /\ (count ent_begin tr <= 1)%nat.
  Proof.
    pose proof th_inv as H. fold sc in H. destruct (tst th) as [|k rest canc done|r]; cbn in H.
    - rewrite H. cbn. lia.
    - destruct H as (b & S & pre & [Hb1 Hb2] & HS & _ & _ & _ & Htr). destruct done.
      + destruct Htr as (e & -> & He & _). destruct (count_shape b S e k Hb1 HS He) as [-> ->]. lia.
      + rewrite Htr. destruct (count_open_shape b S k Hb1 HS) as [-> ->]. lia.
    - destruct H as [(-> & _) | [(b & -> & Hb1 & _) | (b & S & e & o & -> & [Hb1 Hb2] & HS & He & _)]].
      + cbn. lia.
      + rewrite !count_cons, !count_nil. rewrite (begin_not_end _ Hb1). destruct (ent_begin b); cbn; lia.
      + destruct (count_shape b S e _ Hb1 HS He) as [-> ->]. lia.
  Qed.

  (* T1': statements in program order, each driver entry point at most once *)
  Lemma statements_in_order_l : forall r, tst th = TDone r -> rruns r = 1 ->
    exists b S e, tr = b :: S ++ [e] /\
      StronglySorted (fun x y => skey x < skey y) S /\
      Forall (fun x => 0 <= skey x < 2 * nsteps sc) S.
  Proof.
    intros r Hst Hr. pose proof th_inv as H. fold sc in H. rewrite Hst in H. cbn in H.
    destruct H as [(_ & _ & ->) | [(b & _ & _ & _ & _ & ->) | (b & S & e & o & Htr & _ & [HS1 HS2] & _)]];
      try (cbn in Hr; discriminate).
    exists b, S, e. split; [exact Htr|]. split; [exact HS2|].
    eapply Forall_impl; [|exact HS1]. cbn beta. tauto.
  Qed.

  (* T2: refused calls *)
  Lemma refused_l : let_through sc = false ->
    tr = [] /\ (tst th = TIdle \/ tst th = TDone (mkRes 0 None (RetErr (refusal sc)) false)).
  Proof.
    intros Hlt. pose proof th_inv as H. fold sc in H. destruct (tst th) as [|k rest canc done|r]; cbn in H.
    - auto.
    - destruct H as (b & S & pre & _ & _ & _ & _ & Hl & _). congruence.
    - destruct H as [(-> & _ & ->) | [(b & _ & _ & _ & Hl & _) | (b & S & e & o & _ & _ & _ & _ & Hl & _)]];
        try congruence. auto.
  Qed.

  (* the body is run iff Begin succeeded *)
  Lemma body_runs_iff_begun_l : forall r, tst th = TDone r ->
    (rruns r = 1 <-> exists b, In b tr /\ ecall b = CBegin /\ eout b = OOk) /\ (rruns r = 0 \/ rruns r = 1).
  Proof.
    intros r Hst. pose proof th_inv as H. fold sc in H. rewrite Hst in H. cbn in H.
    destruct H as [(Htr & _ & ->) | [(b & Htr & Hb1 & Hb2 & _ & ->) | (b & S & e & o & Htr & [Hb1 Hb2] & HS & He & _ & Hr)]].
    - rewrite Htr. cbn. split; [|auto]. split; [discriminate | intros (b & [] & _)].
    - rewrite Htr. cbn. split; [|auto]. split; [discriminate|].
      intros (b' & [<- | []] & _ & Hb'). congruence.
    - assert (Hrr : rruns r = 1) by (destruct Hr as [[-> _] | [-> _]]; reflexivity).
      split; [|auto]. split; [|intros _; exact Hrr]. intros _. exists b. rewrite Htr. split; [left; reflexivity | auto].
  Qed.

  (* the end call of a finished transaction that began *)
  Lemma finished_l : forall r, tst th = TDone r -> rruns r = 1 ->
    exists b S e o, tr = b :: S ++ [e] /\ ent_end e = true /\ rbody r = Some o /\
      ((rself r = false /\ ecall e = end_call_of g o /\ rret r = ret_of o (xres (ecall e) (eout e) (eval e))) \/
       (rself r = true /\ self_free sc = false /\ rret r = ret_of o (XErr TxDone))).
  Proof.
    intros r Hst Hr. pose proof th_inv as H. fold sc in H. rewrite Hst in H. cbn in H.
    destruct H as [(_ & _ & ->) | [(b & _ & _ & _ & _ & ->) | (b & S & e & o & Htr & _ & _ & He & _ & Hx)]];
      try (cbn in Hr; discriminate).
    exists b, S, e, o. split; [exact Htr|]. split; [exact He|].
    destruct Hx as [[-> Hc] | [-> Hs]]; cbn; (split; [reflexivity|]); [left | right]; auto.
  Qed.

  Lemma self_free_not_self : forall r, tst th = TDone r -> self_free sc = true -> rself r = false.
  Proof.
    intros r Hst Hsf. pose proof th_inv as H. fold sc in H. rewrite Hst in H. cbn in H.
    destruct H as [(_ & _ & ->) | [(b & _ & _ & _ & _ & ->) | (b & S & e & o & _ & _ & _ & _ & _ & Hx)]];
      try reflexivity.
    destruct Hx as [[-> _] | [_ Hs]]; [reflexivity | congruence].
  Qed.

  Lemma in_trace_end : forall b S e x k, stmts_lt k S -> ecall b = CBegin ->
    In x (b :: S ++ [e]) -> ent_end x = true -> x = e.
  Proof.
    intros b S e x k HS Hb Hin Hx. destruct Hin as [<- | Hin].
    - rewrite (begin_not_end _ Hb) in Hx. discriminate.
    - apply in_app_or in Hin. destruct Hin as [Hin | [<- | []]]; [|reflexivity].
      destruct HS as [HS _]. rewrite Forall_forall in HS. destruct (HS _ Hin) as [Hs _].
      unfold ent_end in Hx. unfold ent_stmt in Hs. destruct (ecall x); discriminate.
  Qed.

  (* the unique end call of a finished transaction whose body did not end it itself *)
  Lemma deferred_end_l : forall r, tst th = TDone r -> rruns r = 1 -> rself r = false ->
    exists o e, rbody r = Some o /\ In e tr /\ ecall e = end_call_of g o /\
      rret r = ret_of o (xres (ecall e) (eout e) (eval e)) /\
      (forall x, In x tr -> ent_end x = true -> x = e).
  Proof.
    intros r Hst Hr Hself. pose proof th_inv as H. fold sc in H. rewrite Hst in H. cbn in H.
    destruct H as [(_ & _ & ->) | [(b & _ & _ & _ & _ & ->) | (b & S & e & o & Htr & [Hb1 _] & HS & He & _ & Hx)]];
      try (cbn in Hr; discriminate).
    destruct Hx as [[-> Hc] | [-> _]]; [|cbn in Hself; discriminate].
    exists o, e. cbn. split; [reflexivity|]. rewrite Htr.
    split; [right; apply in_or_app; right; left; reflexivity|]. split; [exact Hc|]. split; [reflexivity|].
    intros x Hin Hx. eapply in_trace_end; eauto.
  Qed.

  (* T3: commit iff the body returned nil *)
  Lemma commit_iff_body_nil_l : forall r o, tst th = TDone r -> rruns r = 1 -> rself r = false ->
    rbody r = Some o -> (g = true \/ o <> BGoexit) ->
    ((exists e, In e tr /\ ecall e = CCommit) <-> o = BNil) /\
    ((exists e, In e tr /\ ecall e = CRollback) <-> o <> BNil).
  Proof.
    intros r o Hst Hr Hself Hbody Hg.
    destruct (deferred_end_l r Hst Hr Hself) as (o' & e & Hb' & Hin & Hc & _ & Huniq).
    rewrite Hbody in Hb'. inversion Hb'; subst o'.
    assert (Hcall : ecall e = if match o with BNil => true | _ => false end then CCommit else CRollback).
    { rewrite Hc. destruct o; cbn; try reflexivity. destruct Hg as [-> | Hg]; [reflexivity | congruence]. }
    split; split.
    - intros (x & Hx & Hxc). assert (x = e) by (apply Huniq; auto; unfold ent_end; rewrite Hxc; reflexivity).
      subst x. rewrite Hxc in Hcall. destruct o; try discriminate; reflexivity.
    - intros ->. exists e. auto.
    - intros (x & Hx & Hxc). assert (x = e) by (apply Huniq; auto; unfold ent_end; rewrite Hxc; reflexivity).
      subst x. rewrite Hxc in Hcall. destruct o; try discriminate.
    - intros Hn. exists e. split; [exact Hin|]. rewrite Hcall. destruct o; try reflexivity. congruence.
  Qed.

  (* T4: nil only when the commit succeeded *)
  Lemma nil_only_if_commit_succeeded_l : forall r, tst th = TDone r -> rret r = RetErr ENil ->
    exists pre e, tr = pre ++ [e] /\ ecall e = CCommit /\ eout e = OOk /\ rbody r = Some BNil.
  Proof.
    intros r Hst Hnil. pose proof th_inv as H. fold sc in H. rewrite Hst in H. cbn in H.
    destruct H as [(_ & _ & ->) | [(b & _ & _ & _ & _ & ->) | (b & S & e & o & Htr & _ & _ & He & _ & Hx)]].
    - cbn in Hnil. unfold refusal in Hnil. destruct (sdead sc); [discriminate|]. destruct (negb (sbrk sc)); discriminate.
    - cbn in Hnil. discriminate.
    - exists (b :: S), e. split; [exact Htr|]. destruct Hx as [[-> Hc] | [-> _]]; cbn in Hnil.
      + unfold ent_end in He. destruct o; destruct (eout e); cbn in Hnil; try discriminate;
          destruct (ecall e); try discriminate; cbn in Hc; try (destruct g; discriminate); auto.
      + destruct o; discriminate.
  Qed.

  Lemma nil_iff_commit_succeeded_l : forall r, tst th = TDone r -> rself r = false -> g = true ->
    (rret r = RetErr ENil <-> exists e, In e tr /\ ecall e = CCommit /\ eout e = OOk).
  Proof.
    intros r Hst Hself Hg. split.
    - intros Hnil. destruct (nil_only_if_commit_succeeded_l r Hst Hnil) as (pre & e & Htr & Hc & Ho & _).
      exists e. rewrite Htr. split; [apply in_or_app; right; left; reflexivity | auto].
    - intros (e & Hin & Hc & Ho).
      assert (Hr : rruns r = 1).
      { destruct (body_runs_iff_begun_l r Hst) as [_ [H0 | H1]]; [|exact H1]. exfalso.
        pose proof th_inv as H. fold sc in H. rewrite Hst in H. cbn in H.
        destruct H as [(Htr & _) | [(b & Htr & Hb1 & _) | (b & S & e' & o & _ & _ & _ & _ & _ & Hx)]].
        - fold tr in Htr. rewrite Htr in Hin. contradiction.
        - fold tr in Htr. rewrite Htr in Hin. destruct Hin as [<- | []]. congruence.
        - destruct Hx as [[-> _] | [-> _]]; cbn in H0; discriminate. }
      destruct (deferred_end_l r Hst Hr Hself) as (o & e' & Hb & _ & Hc' & Hret & Huniq).
      assert (e = e') by (apply Huniq; auto; unfold ent_end; rewrite Hc; reflexivity). subst e'.
      rewrite Hret, Hc, Ho. rewrite Hc, Hg in Hc'. destruct o; cbn in Hc'; try discriminate. reflexivity.
  Qed.

  (* T5: failures of the end call surface; a panicking end call is not turned into a return *)
  Lemma end_failures_surface_l : forall r e, tst th = TDone r -> rself r = false ->
    In e tr -> ent_end e = true ->
    (eout e = OPanic -> rret r = RetPanic) /\
    (eout e = OFail -> rbody r <> Some BGoexit ->
       (ecall e = CCommit -> rret r = RetErr (ECommit (DrvCommit (eval e)))) /\
       (ecall e = CRollback -> reports_rollback_failure (rret r) = true)) /\
    (eout e = OFail -> rbody r = Some BGoexit -> rret r = RetNever).
  Proof.
    intros r e Hst Hself Hin He.
    assert (Hr : rruns r = 1).
    { destruct (body_runs_iff_begun_l r Hst) as [_ [H0 | H1]]; [|exact H1]. exfalso.
      pose proof th_inv as H. fold sc in H. rewrite Hst in H. cbn in H.
      destruct H as [(Htr & _) | [(b & Htr & Hb1 & _) | (b & S & e' & o & _ & _ & _ & _ & _ & Hx)]].
      - fold tr in Htr. rewrite Htr in Hin. contradiction.
      - fold tr in Htr. rewrite Htr in Hin. destruct Hin as [<- | []]. rewrite (begin_not_end _ Hb1) in He. discriminate.
      - destruct Hx as [[-> _] | [-> _]]; cbn in H0; discriminate. }
    destruct (deferred_end_l r Hst Hr Hself) as (o & e' & Hb & _ & Hc' & Hret & Huniq).
    assert (e = e') by (apply Huniq; auto). subst e'. rewrite Hret, Hb.
    split; [|split].
    - intros ->. destruct o; reflexivity.
    - intros -> Hng. split; intros Hc; rewrite Hc; rewrite Hc in Hc'; destruct o; cbn in *;
        try reflexivity; try congruence; destruct g; discriminate.
    - intros -> Ho. inversion Ho; subst o. reflexivity.
  Qed.

  (* T6: a panic in the body is reported, whatever else happens *)
  Lemma panic_is_reported_l : forall r, tst th = TDone r -> rbody r = Some BPanic ->
    is_nil_ret (rret r) = false /\
    (rself r = false -> exists pre e, tr = pre ++ [e] /\ ecall e = CRollback /\
       rret r = match eout e with
                | OOk => RetErr (ERecover None)
                | OFail => RetErr (ERecover (Some (DrvRollback (eval e))))
                | OPanic => RetPanic
                end).
  Proof.
    intros r Hst Hb. pose proof th_inv as H. fold sc in H. rewrite Hst in H. cbn in H.
    destruct H as [(_ & _ & ->) | [(b & _ & _ & _ & _ & ->) | (b & S & e & o & Htr & _ & _ & He & _ & Hx)]];
      try (cbn in Hb; discriminate).
    destruct Hx as [[-> Hc] | [-> _]]; cbn in Hb; inversion Hb; subst o; cbn.
    - split; [destruct (eout e); reflexivity|]. intros _. exists (b :: S), e. split; [exact Htr|].
      cbn in Hc. split; [exact Hc|]. rewrite Hc. destruct (eout e); reflexivity.
    - split; [reflexivity | discriminate].
  Qed.

  (* T7: the body's error comes back unchanged if the rollback worked, inside the
     "transaction failed ..., rollback failed ..." error otherwise *)
  Lemma body_error_returned_l : forall r b, tst th = TDone r -> rself r = false -> rbody r = Some (BErr b) ->
    exists pre e, tr = pre ++ [e] /\ ecall e = CRollback /\
      rret r = match eout e with
               | OOk => RetErr (EBody b)
               | OFail => RetErr (ETxFailed b (DrvRollback (eval e)))
               | OPanic => RetPanic
               end.
  Proof.
    intros r b0 Hst Hself Hb. pose proof th_inv as H. fold sc in H. rewrite Hst in H. cbn in H.
    destruct H as [(_ & _ & ->) | [(b & _ & _ & _ & _ & ->) | (b & S & e & o & Htr & _ & _ & He & _ & Hx)]];
      try (cbn in Hb; discriminate).
    destruct Hx as [[-> Hc] | [-> _]]; cbn in Hb, Hself; [|discriminate]. inversion Hb; subst o.
    exists (b :: S), e. split; [exact Htr|]. cbn in Hc. split; [exact Hc|]. cbn. rewrite Hc.
    destruct (eout e); reflexivity.
  Qed.

  (* T8: a body that exits its goroutine: rollback (in a tree with the guard), and the call does
     not come back with a result *)
  Lemma goexit_l : forall r, tst th = TDone r -> rbody r = Some BGoexit ->
    (rret r = RetNever \/ rret r = RetPanic) /\
    (rself r = false -> exists pre e, tr = pre ++ [e] /\ ecall e = (if g then CRollback else CCommit)).
  Proof.
    intros r Hst Hb. pose proof th_inv as H. fold sc in H. rewrite Hst in H. cbn in H.
    destruct H as [(_ & _ & ->) | [(b & _ & _ & _ & _ & ->) | (b & S & e & o & Htr & _ & _ & He & _ & Hx)]];
      try (cbn in Hb; discriminate).
    destruct Hx as [[-> Hc] | [-> _]]; cbn in Hb; inversion Hb; subst o; cbn.
    - split; [destruct (eout e); auto|]. intros _. exists (b :: S), e. split; [exact Htr | exact Hc].
    - split; [auto | discriminate].
  Qed.
  (* every call that is let through — wherever its quanta lie in the schedule, in particular between
     two quanta of another transaction: a call made from inside that one's body — has a bracket of
     its own: its own Begin and, if that succeeded, its own statements and its own end call, all on
     its own connection; and it returns nil only if ITS commit succeeded *)
  Lemma own_bracket_l : forall r, tst th = TDone r -> let_through sc = true ->
    (exists b, tr = [b] /\ ecall b = CBegin /\ eout b <> OOk /\ rruns r = 0 /\
               rret r = RetErr (EBegin (eval b))) \/
    (exists b S e, tr = b :: S ++ [e] /\ ecall b = CBegin /\ eout b = OOk /\
       Forall (fun x => ent_stmt x = true) S /\ ent_end e = true /\ rruns r = 1 /\
       Forall (fun x => econn x = sconn sc) tr /\
       (rret r = RetErr ENil -> ecall e = CCommit /\ eout e = OOk)).
  Proof.
    intros r Hst Hlt. pose proof th_inv as H. fold sc in H. rewrite Hst in H. cbn in H.
    destruct H as [(_ & Hl & _) | [(b & Htr & Hb1 & Hb2 & _ & ->) | (b & S & e & o & Htr & [Hb1 Hb2] & HS & He & _ & Hr)]].
    - congruence.
    - left. exists b. cbn. auto.
    - right. exists b, S, e. split; [exact Htr|]. split; [exact Hb1|]. split; [exact Hb2|].
      split; [eapply stmts_forall; exact HS|]. split; [exact He|].
      split; [destruct Hr as [[-> _] | [-> _]]; reflexivity|]. split; [exact th_conn|].
      intros Hnil. destruct (nil_only_if_commit_succeeded_l r Hst Hnil) as (pre & e' & Htr' & Hc & Ho & _).
      fold tr in Htr'. rewrite Htr in Htr'. change (b :: S ++ [e]) with ((b :: S) ++ [e]) in Htr'.
      apply app_inj_tail in Htr'. destruct Htr' as [_ <-]. auto.
  Qed.
End Run.

(* ---- global statements -------------------------------------------------------------- *)
Lemma script_followed_l : forall g scs sched orc,
  let W := exec g scs sched orc in
  worc W = skipn (length (wlog W)) orc /\
  forall i e, nth_error (wlog W) i = Some e ->
    eout e = honoured (ecall e) (rout (nth i orc dflt)) /\
    eval e = val_of (ecall e) (eout e) (rval (nth i orc dflt)).
Proof. intros g scs sched orc W. apply follows_nth. exact (g_follows _ _ _ _ _ (W_ginv g scs sched orc)). Qed.

Lemma balanced_l : forall g scs sched orc c,
  let W := exec g scs sched orc in
  count (fun e => on_conn c e && begun_ok e) (wlog W) =
  (count (fun e => on_conn c e && ent_end e) (wlog W) + open_conn c (wthreads W))%nat.
Proof. intros g scs sched orc c W. exact (g_balance _ _ _ _ _ (W_ginv g scs sched orc) c). Qed.

Lemma leaks_l : forall g scs sched orc,
  let W := exec g scs sched orc in wleaks W = Z.of_nat (count lostb (wlog W)).
Proof. intros g scs sched orc W. exact (g_leaks _ _ _ _ _ (W_ginv g scs sched orc)). Qed.

Lemma every_call_is_somebodys_l : forall g scs sched orc e,
  let W := exec g scs sched orc in
  In e (wlog W) -> exists th, nth_error (wthreads W) (etid e) = Some th /\ In e (calls_of (etid e) (wlog W)).
Proof.
  intros g scs sched orc e W Hin.
  pose proof (g_tids _ _ _ _ _ (W_ginv g scs sched orc)) as Ht. rewrite Forall_forall in Ht.
  specialize (Ht _ Hin). rewrite <- (g_scripts _ _ _ _ _ (W_ginv g scs sched orc)), map_length in Ht.
  destruct (nth_error (wthreads W) (etid e)) as [th|] eqn:E.
  - exists th. split; [reflexivity|]. unfold calls_of. apply filter_In. split; [exact Hin | apply Nat.eqb_refl].
  - apply nth_error_None in E. fold W in Ht. lia.
Qed.

(* a Transact on the transaction's own session: no driver call, the transaction neither ended
   nor touched, the inner body not run (it does not even appear in the machine) *)
Lemma nest_is_refused_l : forall t sc k canc done orc,
  do_action t sc k ANest canc done orc = (SErr (BNest k), [], orc, canc, done, false).
Proof. reflexivity. Qed.
