(* C14 — proofs, part G: THE BREAKER OF THE SqlConn OPENING WHILE A BODY RUNS changes nothing for the
   transaction that has begun.  commonSqlConn.TransactCtx asks the breaker once, before Begin (the
   whole transaction is one breaker request); Begin, the statements of the session, Commit and
   Rollback do not go through it.  In the model an [ATrip] step (other requests on the same SqlConn
   fail until its breaker refuses requests) is therefore a step without effect: the run in which
   every [ATrip] is replaced by [ANop] is the same run — same driver calls, same results, same
   connections checked out — for every set of transactions, schedule and driver script. *)
From Coq Require Import List ZArith Bool Lia.
From GZ Require Import C14.Model.
Import ListNotations.
Open Scope Z_scope.

Definition untrip_step (s : step) : step :=
  match sact s with ATrip => mkStep ANop (sonfail s) | _ => s end.

Definition untrip (sc : script) : script :=
  mkScript (sctxapi sc) (sdead sc) (sdl sc) (sbrk sc) (sopen sc) (sconn sc) (sretry sc)
           (map untrip_step (ssteps sc)) (sfin sc) (sacc sc).

Definition untrip_st (st : tstate) : tstate :=
  match st with TBody k rest c d => TBody k (map untrip_step rest) c d | _ => st end.

Definition untrip_th (th : thread) : thread := mkThread (untrip (tsc th)) (untrip_st (tst th)) (tinuse th).

Definition untrip_w (w : world) : world :=
  mkWorld (map untrip_th (wthreads w)) (wlog w) (worc w) (wleaks w).

Lemma untrip_onfail : forall s, sonfail (untrip_step s) = sonfail s.
Proof. intros s. unfold untrip_step. destruct (sact s); reflexivity. Qed.

Lemma do_action_untrip : forall t sc k s canc done orc,
  do_action t (untrip sc) k (sact (untrip_step s)) canc done orc = do_action t sc k (sact s) canc done orc.
Proof.
  intros t sc k s canc done orc. unfold untrip_step. destruct (sact s) eqn:E; cbn [sact]; rewrite ?E; reflexivity.
Qed.

Lemma finish_untrip : forall g t sc done o orc,
  finish g t (untrip sc) done o orc = finish g t sc done o orc.
Proof. reflexivity. Qed.

Lemma finish_is_done : forall g t sc done o orc,
  let '(st', l, q, lk) := finish g t sc done o orc in untrip_st st' = st'.
Proof.
  intros g t sc done o orc. unfold finish, finish_with.
  destruct (try_end t (sconn sc) (end_call_of g o) done orc) as [[x l] q]. reflexivity.
Qed.

Lemma tstep_untrip : forall g t sc st orc,
  tstep g t (untrip sc) (untrip_st st) orc =
  let '(st', l, q, lk) := tstep g t sc st orc in (untrip_st st', l, q, lk).
Proof.
  intros g t sc st orc. unfold tstep, tstep_with. destruct st as [|k rest c d|r].
  - cbn [untrip_st tstep_fin untrip sdead sdl sbrk sopen sconn sretry ssteps].
    destruct (sdead sc); [reflexivity|]. destruct (negb (sbrk sc)); [reflexivity|].
    destruct (negb (sopen sc)); [reflexivity|].
    destruct (begin_all max_begin_retries t (sretry sc) (sconn sc) orc) as [[[[o v] c] l] q].
    destruct o; reflexivity.
  - destruct rest as [|s rest]; cbn [untrip_st map tstep_fin].
    + change (sfin (untrip sc)) with (sfin sc).
      change (finish_with ret_of g t (untrip sc) d (fin_out (sfin sc)) orc)
        with (finish g t sc d (fin_out (sfin sc)) orc).
      pose proof (finish_is_done g t sc d (fin_out (sfin sc)) orc) as H. unfold finish in *.
      destruct (finish_with ret_of g t sc d (fin_out (sfin sc)) orc) as [[[a l] q] lk]. rewrite H. reflexivity.
    + rewrite do_action_untrip, untrip_onfail.
      destruct (do_action t sc k (sact s) c d orc) as [[[[[r l] q] c1] d1] lk1].
      destruct (react r (sonfail s)) as [o|]; [|reflexivity].
      change (finish_with ret_of g t (untrip sc) d1 o q) with (finish g t sc d1 o q).
      pose proof (finish_is_done g t sc d1 o q) as H. unfold finish in *.
      destruct (finish_with ret_of g t sc d1 o q) as [[[a l2] q2] lk2]. rewrite H. reflexivity.
  - reflexivity.
Qed.

Lemma map_set_nth_f : forall A B (f : A -> B) n x l, map f (set_nth n x l) = set_nth n (f x) (map f l).
Proof.
  intros A B f n x l. revert n. induction l as [|y l IH]; intros [|n]; cbn; auto. rewrite IH. reflexivity.
Qed.

Lemma holds_untrip : forall th, holds_conn (untrip_th th) = holds_conn th.
Proof. intros [sc st iu]. unfold holds_conn, untrip_th. cbn [tst]. destruct st as [|k r c d|r]; reflexivity. Qed.

Lemma count_open_untrip : forall ths, count_open (map untrip_th ths) = count_open ths.
Proof.
  intros ths. unfold count_open. f_equal.
  induction ths as [|th ths IH]; cbn [map filter]; [reflexivity|]. rewrite holds_untrip.
  destruct (holds_conn th); cbn [length]; rewrite IH; reflexivity.
Qed.

Lemma is_done_untrip : forall st, is_done (untrip_st st) = is_done st.
Proof. destruct st; reflexivity. Qed.

Lemma wstep_untrip : forall g w t, wstep g (untrip_w w) t = untrip_w (wstep g w t).
Proof.
  intros g w t. unfold wstep, wstep_with, wstep_gen. cbn [untrip_w wthreads worc wleaks wlog].
  rewrite nth_error_map. destruct (nth_error (wthreads w) t) as [th|]; cbn [option_map]; [|reflexivity].
  cbn [untrip_th tsc tst tinuse].
  pose proof (tstep_untrip g t (tsc th) (tst th) (worc w)) as H. unfold tstep in H. rewrite H. clear H.
  destruct (tstep_with ret_of g t (tsc th) (tst th) (worc w)) as [[[st' l] q] lk].
  unfold untrip_w. cbn [wthreads wlog worc wleaks]. f_equal.
  rewrite map_set_nth_f. unfold untrip_th at 3. cbn [tsc tst tinuse]. f_equal. f_equal.
  rewrite !is_done_untrip.
  change (mkThread (untrip (tsc th)) (untrip_st st') (tinuse th)) with (untrip_th (mkThread (tsc th) st' (tinuse th))).
  rewrite <- map_set_nth_f, count_open_untrip. reflexivity.
Qed.

Lemma init_untrip : forall scs orc, init (map untrip scs) orc = untrip_w (init scs orc).
Proof.
  intros scs orc. unfold init, untrip_w. cbn [wthreads wlog worc wleaks]. f_equal.
  rewrite !map_map. reflexivity.
Qed.

Theorem exec_untrip : forall g scs sched orc,
  exec g (map untrip scs) sched orc = untrip_w (exec g scs sched orc).
Proof.
  intros g scs sched orc. unfold exec, exec_with, exec_gen, run_gen. rewrite init_untrip.
  generalize (init scs orc). induction sched as [|t sched IH]; intros w; cbn [fold_left]; [reflexivity|].
  change (wstep_gen (tstep_with ret_of g)) with (wstep g) in *. rewrite wstep_untrip. apply IH.
Qed.

(* what a transaction is told and how its body ended: untouched *)
Definition result_of (th : thread) : option tresult := match tst th with TDone r => Some r | _ => None end.

Lemma result_untrip : forall th, result_of (untrip_th th) = result_of th.
Proof. intros [sc st iu]. unfold result_of, untrip_th. cbn [tst]. destruct st; reflexivity. Qed.

Theorem trip_changes_nothing : forall g scs sched orc,
  let W := exec g scs sched orc in
  let W' := exec g (map untrip scs) sched orc in
  wlog W' = wlog W /\ worc W' = worc W /\ wleaks W' = wleaks W /\
  map result_of (wthreads W') = map result_of (wthreads W) /\
  map tinuse (wthreads W') = map tinuse (wthreads W) /\
  count_open (wthreads W') = count_open (wthreads W).
Proof.
  intros g scs sched orc W W'. unfold W'. rewrite exec_untrip. fold W. unfold untrip_w. cbn [wlog worc wleaks wthreads].
  repeat split; auto.
  - rewrite map_map. apply map_ext. apply result_untrip.
  - rewrite map_map. apply map_ext. intros [sc st iu]. reflexivity.
  - apply count_open_untrip.
Qed.
