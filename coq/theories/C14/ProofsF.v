(* C14 — proofs, part F: HOW the caller's context ends — by cancellation or by its deadline —
   changes nothing in what reaches the driver: the two runs make the same driver calls, in the same
   order, on the same connections, with the same answers, and consume the same script. (Only the
   sentinel carried by the errors differs: context.Canceled / context.DeadlineExceeded.) *)
From Coq Require Import List ZArith Bool Lia.
From GZ Require Import C14.Model C14.ProofsA C14.ProofsB.
Import ListNotations.
Open Scope Z_scope.

Definition set_dl (b : bool) (sc : script) : script :=
  mkScript (sctxapi sc) (sdead sc) b (sbrk sc) (sopen sc) (sconn sc) (sretry sc) (ssteps sc) (sfin sc) (sacc sc).

(* same control state; finished calls are related whatever they returned *)
Definition ssim (s1 s2 : tstate) : Prop :=
  match s1, s2 with
  | TIdle, TIdle => True
  | TBody k r c d, TBody k' r' c' d' => k = k' /\ r = r' /\ c = c' /\ d = d'
  | TDone _, TDone _ => True
  | _, _ => False
  end.

Definition rsim (r1 r2 : sres) : Prop :=
  match r1, r2 with
  | SNone, SNone | SPanic, SPanic | SErr _, SErr _ => True
  | _, _ => False
  end.

Definition osim (o1 o2 : bout) : Prop :=
  match o1, o2 with
  | BNil, BNil | BPanic, BPanic | BGoexit, BGoexit | BErr _, BErr _ => True
  | _, _ => False
  end.

Lemma osim_end : forall g o1 o2, osim o1 o2 -> end_call_of g o1 = end_call_of g o2.
Proof. intros g [] [] H; try contradiction; reflexivity. Qed.

Lemma do_stmt_dl : forall t cn k m sees d1 d2 orc,
  let '(r1, l1, o1, c1) := do_stmt t cn k m sees d1 orc in
  let '(r2, l2, o2, c2) := do_stmt t cn k m sees d2 orc in
  rsim r1 r2 /\ l1 = l2 /\ o1 = o2 /\ c1 = c2.
Proof.
  intros t cn k m sees d1 d2 orc. unfold do_stmt. destruct m.
  - destruct (drv t cn (CStmt k KExec) orc) as [[[[o v] c] l] o1]. destruct o; cbn; auto.
  - destruct (drv t cn (CStmt k KQuery) orc) as [[[[o v] c] l] o1]. destruct o; cbn; auto.
  - destruct (drv t cn (CStmt k KPrepare) orc) as [[[[o v] c] l] o1]. destruct o; cbn; auto.
    destruct (sees && c); cbn; auto.
    destruct (drv t cn (CStmt k KStmtExec) o1) as [[[[o2 v2] c2] l2] o2']. destruct o2; cbn; auto.
Qed.

Lemma do_action_dl : forall b t sc k a canc done orc,
  let '(r1, l1, o1, c1, d1, k1) := do_action t sc k a canc done orc in
  let '(r2, l2, o2, c2, d2, k2) := do_action t (set_dl b sc) k a canc done orc in
  rsim r1 r2 /\ l1 = l2 /\ o1 = o2 /\ c1 = c2 /\ d1 = d2 /\ k1 = k2.
Proof.
  intros b t sc k a canc done orc. unfold do_action. cbn [set_dl sctxapi sconn sdl]. destruct a as [m w| | | | | |].
  - destruct (sctxapi sc && w && canc); [cbn; auto 10|]. destruct done; [cbn; auto 10|].
    pose proof (do_stmt_dl t (sconn sc) k m (sctxapi sc && w) (sdl sc) b orc) as H.
    destruct (do_stmt t (sconn sc) k m (sctxapi sc && w) (sdl sc) orc) as [[[r1 l1] o1] c1].
    destruct (do_stmt t (sconn sc) k m (sctxapi sc && w) b orc) as [[[r2 l2] o2] c2].
    destruct H as (H1 & -> & -> & ->). auto 10.
  - cbn; auto 10.
  - destruct (do_selfend t (sconn sc) k true canc done orc) as [[[[[r l] o] c] d] lk]. destruct r; cbn; auto 10.
  - destruct (do_selfend t (sconn sc) k false canc done orc) as [[[[[r l] o] c] d] lk]. destruct r; cbn; auto 10.
  - cbn; auto 10.
  - cbn; auto 10.
  - cbn; auto 10.
Qed.

Lemma react_sim : forall r1 r2 f, rsim r1 r2 ->
  match react r1 f, react r2 f with
  | None, None => True
  | Some o1, Some o2 => osim o1 o2
  | _, _ => False
  end.
Proof. intros [] [] f H; try contradiction; cbn; auto; destruct f; cbn; auto. Qed.

Lemma finish_dl : forall b g t sc done o1 o2 orc, osim o1 o2 ->
  let '(s1, l1, q1, k1) := finish g t sc done o1 orc in
  let '(s2, l2, q2, k2) := finish g t (set_dl b sc) done o2 orc in
  ssim s1 s2 /\ l1 = l2 /\ q1 = q2 /\ k1 = k2.
Proof.
  intros b g t sc done o1 o2 orc H. unfold finish, finish_with. cbn [set_dl sconn].
  rewrite (osim_end g _ _ H).
  destruct (try_end t (sconn sc) (end_call_of g o2) done orc) as [[x l] q]. cbn. auto.
Qed.

Lemma fin_out_sim : forall f, osim (fin_out f) (fin_out f).
Proof. destruct f; cbn; auto. Qed.

Lemma tstep_dl : forall b g t sc s1 s2 orc, ssim s1 s2 ->
  let '(a1, l1, q1, k1) := tstep g t sc s1 orc in
  let '(a2, l2, q2, k2) := tstep g t (set_dl b sc) s2 orc in
  ssim a1 a2 /\ l1 = l2 /\ q1 = q2 /\ k1 = k2.
Proof.
  intros b g t sc s1 s2 orc H. unfold tstep, tstep_with.
  destruct s1 as [|k r c d|r1]; destruct s2 as [|k' r' c' d'|r2]; try contradiction.
  - cbn [tstep_fin set_dl sdead sbrk sopen sconn sretry ssteps sdl].
    destruct (sdead sc); [cbn; auto|]. destruct (negb (sbrk sc)); [cbn; auto|]. destruct (negb (sopen sc)); [cbn; auto|].
    destruct (begin_all max_begin_retries t (sretry sc) (sconn sc) orc) as [[[[o v] c] l] q]. destruct o; cbn; auto.
  - destruct H as (<- & <- & <- & <-). destruct r as [|s r]; cbn [tstep_fin set_dl sfin].
    + apply (finish_dl b g t sc d _ _ orc (fin_out_sim (sfin sc))).
    + pose proof (do_action_dl b t sc k (sact s) c d orc) as Ha.
      destruct (do_action t sc k (sact s) c d orc) as [[[[[r1 l1] o1] c1] d1] k1].
      destruct (do_action t (set_dl b sc) k (sact s) c d orc) as [[[[[r2 l2] o2] c2] d2] k2].
      destruct Ha as (Hr & -> & -> & -> & -> & ->).
      pose proof (react_sim r1 r2 (sonfail s) Hr) as Hre.
      destruct (react r1 (sonfail s)) as [x1|]; destruct (react r2 (sonfail s)) as [x2|]; try contradiction.
      * pose proof (finish_dl b g t sc d2 x1 x2 o2 Hre) as Hf. unfold finish in Hf.
        destruct (finish_with ret_of g t sc d2 x1 o2) as [[[a1 m1] q1] j1].
        destruct (finish_with ret_of g t (set_dl b sc) d2 x2 o2) as [[[a2 m2] q2] j2].
        destruct Hf as (Hs & -> & -> & ->). auto.
      * cbn. auto 10.
  - cbn. auto.
Qed.

(* ---- the world ------------------------------------------------------------------------ *)
Definition tsim (b : bool) (th1 th2 : thread) : Prop :=
  tsc th2 = set_dl b (tsc th1) /\ ssim (tst th1) (tst th2).

Definition wsim (b : bool) (w1 w2 : world) : Prop :=
  Forall2 (tsim b) (wthreads w1) (wthreads w2) /\ wlog w1 = wlog w2 /\ worc w1 = worc w2 /\ wleaks w1 = wleaks w2.

Lemma Forall2_nth : forall A B (R : A -> B -> Prop) l1 l2 n,
  Forall2 R l1 l2 ->
  match nth_error l1 n, nth_error l2 n with
  | Some a, Some b => R a b
  | None, None => True
  | _, _ => False
  end.
Proof.
  intros A B R l1 l2 n H. revert n. induction H as [|a b l1 l2 Hab _ IH]; intros [|n]; cbn; auto. apply IH.
Qed.

Lemma Forall2_set_nth : forall A B (R : A -> B -> Prop) l1 l2 n a b,
  Forall2 R l1 l2 -> R a b -> Forall2 R (set_nth n a l1) (set_nth n b l2).
Proof.
  intros A B R l1 l2 n a b H Hab. revert n. induction H as [|x y l1 l2 Hxy H IH]; intros [|n]; cbn.
  - constructor.
  - constructor.
  - constructor; assumption.
  - constructor; [assumption | apply IH].
Qed.

Lemma wstep_dl : forall b g w1 w2 t, wsim b w1 w2 -> wsim b (wstep g w1 t) (wstep g w2 t).
Proof.
  intros b g w1 w2 t (Hth & Hlog & Horc & Hlk). unfold wstep, wstep_with, wstep_gen, tstep_with.
  pose proof (Forall2_nth _ _ _ _ _ t Hth) as Hn.
  destruct (nth_error (wthreads w1) t) as [th1|]; destruct (nth_error (wthreads w2) t) as [th2|]; try contradiction.
  - destruct Hn as [Hsc Hst]. rewrite Hsc, <- Horc.
    pose proof (tstep_dl b g t (tsc th1) (tst th1) (tst th2) (worc w1) Hst) as Hs. unfold tstep, tstep_with in Hs.
    destruct (tstep_fin (finish_with ret_of g) t (tsc th1) (tst th1) (worc w1)) as [[[a1 l1] q1] k1].
    destruct (tstep_fin (finish_with ret_of g) t (set_dl b (tsc th1)) (tst th2) (worc w1)) as [[[a2 l2] q2] k2].
    destruct Hs as (Hs & -> & -> & ->). cbn [wthreads wlog worc wleaks tsc].
    split; [|rewrite Hlog, Hlk; auto].
    apply Forall2_set_nth; [exact Hth|]. split; [reflexivity | exact Hs].
  - split; auto.
Qed.

Theorem deadline_or_cancel_same_calls_l : forall b g scs sched orc,
  wlog (exec g (map (set_dl b) scs) sched orc) = wlog (exec g scs sched orc) /\
  worc (exec g (map (set_dl b) scs) sched orc) = worc (exec g scs sched orc).
Proof.
  intros b g scs sched orc.
  assert (H : wsim b (exec g scs sched orc) (exec g (map (set_dl b) scs) sched orc)).
  { unfold exec, exec_with, exec_gen, run_gen.
    assert (H0 : wsim b (init scs orc) (init (map (set_dl b) scs) orc)).
    { unfold init, wsim. cbn. split; [|auto]. induction scs as [|sc scs IH]; cbn; constructor; auto.
      split; cbn; auto. }
    revert H0. generalize (init scs orc) (init (map (set_dl b) scs) orc).
    induction sched as [|t sched IH]; intros w1 w2 H0; cbn; [exact H0|].
    apply IH. apply (wstep_dl b g w1 w2 t H0). }
  destruct H as (_ & H1 & H2 & _). auto.
Qed.
