(* C14 — obligations on the regenerated constants (coq/gen/C14Consts.v, rewritten from
   core/stores/sqlx/tx.go at every run): the theorems of Props.v that need the guard hold for
   TODAY's tree.  A tree in which transactOnConn's deferred function can no longer tell a body
   that returned nil from one that never returned breaks [goexit_guard_today]. *)
From Coq Require Import List ZArith Bool.
From GZ Require Import C14.Model C14.Check C14.ProofsA C14.ProofsB C14.ProofsC C14.ProofsD.
From GZgen Require Import C14Consts.
Import ListNotations.
Open Scope Z_scope.

Theorem goexit_guard_today : gen_goexit_guard = true.
Proof. reflexivity. Qed.
Print Assumptions goexit_guard_today.

(* commit iff the body returned nil — for every way a body can end, in today's tree *)
Theorem commit_iff_body_nil_today : forall scs sched orc t th r o,
  nth_error (wthreads (exec gen_goexit_guard scs sched orc)) t = Some th ->
  tst th = TDone r -> rruns r = 1 -> rself r = false -> rbody r = Some o ->
  ((exists e, In e (proj t (wlog (exec gen_goexit_guard scs sched orc))) /\ ecall e = CCommit) <-> o = BNil) /\
  ((exists e, In e (proj t (wlog (exec gen_goexit_guard scs sched orc))) /\ ecall e = CRollback) <-> o <> BNil).
Proof.
  intros scs sched orc t th r o H Hst Hr Hs Hb.
  exact (commit_iff_body_nil_l gen_goexit_guard scs sched orc t th H r o Hst Hr Hs Hb (or_introl goexit_guard_today)).
Qed.
Print Assumptions commit_iff_body_nil_today.

(* every run of today's model passes the check applied to the implementation *)
Theorem model_passes_the_check_today : forall scs sched orc,
  agrees (case_of gen_goexit_guard scs sched orc) = true /\
  prop_ok (case_of gen_goexit_guard scs sched orc) = true.
Proof.
  intros scs sched orc. destruct (model_passes_check_l gen_goexit_guard scs sched orc) as [Ha Hp].
  split; [exact Ha | exact (Hp goexit_guard_today)].
Qed.
Print Assumptions model_passes_the_check_today.
