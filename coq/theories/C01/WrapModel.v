(* C01 — the wrappers that put a breaker in front of a downstream call (executable model,
   no proofs):
     rest/handler/breakerhandler.go                         BreakerHandler        (Allow + promise)
     zrpc/internal/clientinterceptors/breakerinterceptor.go BreakerInterceptor    (DoWithAcceptableCtx, codes.Acceptable)
     zrpc/internal/serverinterceptors/breakerinterceptor.go Unary/StreamBreakerInterceptor
                                                            (DoWithAcceptable[Ctx], serverSideAcceptable, convertError)
     zrpc/internal/codes/accept.go                          Acceptable
     core/stores/redis/breakerhook.go                       ProcessHook / ProcessPipelineHook (+ redis.go acceptable)
     core/stores/sqlx/sqlconn.go                            ExecCtx & co. / commonSqlConn.acceptable
   Each wrapper is a function from (did the breaker reject?, is the context done?, what
   the downstream does) to (downstream invoked how often, what is recorded in the breaker:
   success / failure / drop, what the caller sees). *)
From Coq Require Import List ZArith QArith Bool.
From GZ Require Import C01.Model.
Import ListNotations.
Open Scope Z_scope.

Inductive sqlmeth :=
| MExec | MPrepare | MQueryRow | MQueryRowPartial | MQueryRows | MQueryRowsPartial | MTransact.

Definition is_query (m : sqlmeth) : bool :=
  match m with MQueryRow | MQueryRowPartial | MQueryRows | MQueryRowsPartial => true | _ => false end.

Inductive wkind :=
| WGrpcClient          (* clientinterceptors.BreakerInterceptor *)
| WGrpcServerUnary     (* serverinterceptors.UnaryBreakerInterceptor *)
| WGrpcServerStream    (* serverinterceptors.StreamBreakerInterceptor (no context) *)
| WRedisCmd            (* breakerHook.ProcessHook, ordinary command *)
| WRedisIgnoredCmd     (* breakerHook.ProcessHook, command in ignoreCmds (blpop) *)
| WRedisPipeline       (* breakerHook.ProcessPipelineHook *)
| WRedisReal           (* a Redis client on a real (mini)redis server: same hook *)
| WSqlExec             (* commonSqlConn.ExecCtx *)
| WSqlPredicate        (* commonSqlConn.acceptable alone *)
| WSqlM (m : sqlmeth) (usectx : bool)
| WGrpcServerChain.    (* UnaryBreakerInterceptor around UnaryTimeoutInterceptor around the handler: zrpc's order *)
                       (* the other breaker-wrapped methods of commonSqlConn: the *Ctx variant
                          (usectx) or the one that delegates with context.Background() *)

(* what the downstream (invoker / handler / next hook / driver) does *)
(* error SHAPES: how a sentinel sits inside the error the downstream returns.  The call sites
   classify with errors.Is semantics (errorx.In = errors.Is per candidate): an error matches a
   sentinel iff the sentinel is somewhere in its chain / tree (Unwrap() error, Unwrap() []error:
   errors.Join, fmt.Errorf with several %w) or some node's Is method says so (a net timeout error
   matching context.DeadlineExceeded) - so every shape matches its sentinel. *)
Inductive eshape := ShWrap2 | ShJoinFirst | ShJoinLast | ShMultiW | ShCustomIs.
Inductive sentinel := BCanceled | BDeadline | BBreakerUnavailable | BRedisNil | BSqlNoRows | BSqlTxDone.

Inductive derr :=
| DNil
| DStatus (code : Z)     (* a gRPC status error with this code (0..16) *)
| DCtxCanceled           (* context.Canceled *)
| DCtxDeadline           (* context.DeadlineExceeded, not a status error *)
| DBreakerUnavailable    (* breaker.ErrServiceUnavailable coming from below *)
| DRedisNil              (* redis.Nil *)
| DWrappedRedisNil       (* fmt.Errorf("%w", redis.Nil) *)
| DSqlNoRows | DSqlTxDone
| DSqlAcceptable         (* sqlx acceptableError{..} *)
| DOther                 (* any other error *)
| DPanic
| DWrappedCanceled       (* fmt.Errorf("%w", context.Canceled) *)
| DSqlCustom (i n : Z)   (* the error accepted by the i-th WithAcceptable option, on a connection made with n of them *)
| DSqlConnErr            (* the connection provider fails (the database is never reached) *)
| DSqlScanFail           (* the query succeeds, scanning the rows into the destination fails *)
| DSqlScanDeadline       (* iterating the rows ends with context.DeadlineExceeded *)
(* %w-wrapped sentinels: the call sites classify with errors.Is / errors.As *)
| DWrappedDeadline | DWrappedBreakerUnavailable | DWrappedSqlNoRows | DWrappedSqlTxDone
(* through the chain Breaker(Timeout(handler)): the handler is still running when the timeout fires
   (UnaryTimeoutInterceptor answers status DeadlineExceeded) / when the client cancels (status Canceled) *)
| DStallTimeout | DStallCancel
| DShaped (s : eshape) (b : sentinel).   (* the sentinel b in shape s *)

Definition bare (b : sentinel) : derr :=
  match b with
  | BCanceled => DCtxCanceled | BDeadline => DCtxDeadline | BBreakerUnavailable => DBreakerUnavailable
  | BRedisNil => DRedisNil | BSqlNoRows => DSqlNoRows | BSqlTxDone => DSqlTxDone
  end.

(* errors.Is semantics: a shaped sentinel is classified like the bare one *)
Definition canon (d : derr) : derr := match d with DShaped _ b => bare b | _ => d end.

(* gRPC codes: Canceled 1 Unknown 2 DeadlineExceeded 4 ResourceExhausted 8 Unimplemented 12
   Internal 13 Unavailable 14 DataLoss 15 *)
Definition grpc_failure_code (c : Z) : bool :=
  (c =? 4) || (c =? 13) || (c =? 14) || (c =? 15) || (c =? 12) || (c =? 8).

(* codes.Acceptable: status.Code(err) is the code of a status error, OK for nil and
   Unknown for every other error *)
Definition codes_acceptable0 (d : derr) : bool :=
  match d with
  | DStatus c => negb (grpc_failure_code c)
  | DStallTimeout => false      (* status DeadlineExceeded *)
  | _ => true
  end.

(* serverSideAcceptable *)
Definition server_acceptable0 (d : derr) : bool :=
  match d with
  | DCtxDeadline | DBreakerUnavailable | DWrappedDeadline | DWrappedBreakerUnavailable => false
  | _ => codes_acceptable0 d
  end.

(* redis.go acceptable: nil, redis.Nil, context.Canceled (errors.Is) *)
Definition redis_acceptable0 (d : derr) : bool :=
  match d with
  | DNil | DRedisNil | DWrappedRedisNil | DCtxCanceled | DWrappedCanceled => true
  | _ => false
  end.

(* commonSqlConn.acceptable: nil, ErrNoRows, ErrTxDone, context.Canceled (errors.Is),
   acceptableError (errors.As), then the WithAcceptable options (pre(err) || acceptable(err)) *)
Definition sql_acceptable0 (d : derr) : bool :=
  match d with
  | DNil | DSqlNoRows | DSqlTxDone | DCtxCanceled | DWrappedCanceled | DSqlAcceptable
  | DWrappedSqlNoRows | DWrappedSqlTxDone => true
  | DSqlCustom i n => (1 <=? i) && (i <=? n)
  | _ => false
  end.

(* queryRows: func(err) bool { return scanFailed || db.acceptable(err) } - a scan failure is
   the caller's fault, not the database's; isScanFailed excludes DeadlineExceeded *)
Definition sqlq_acceptable0 (d : derr) : bool :=
  match d with DSqlScanFail => true | _ => sql_acceptable0 d end.

Definition codes_acceptable (d : derr) : bool := codes_acceptable0 (canon d).
Definition server_acceptable (d : derr) : bool := server_acceptable0 (canon d).
Definition redis_acceptable (d : derr) : bool := redis_acceptable0 (canon d).
Definition sql_acceptable (d : derr) : bool := sql_acceptable0 (canon d).
Definition sqlq_acceptable (d : derr) : bool := sqlq_acceptable0 (canon d).

Definition w_acceptable (k : wkind) (d : derr) : bool :=
  match k with
  | WGrpcClient => codes_acceptable d
  | WGrpcServerUnary | WGrpcServerStream | WGrpcServerChain => server_acceptable d
  | WRedisCmd | WRedisIgnoredCmd | WRedisPipeline | WRedisReal => redis_acceptable d
  | WSqlExec | WSqlPredicate => sql_acceptable d
  | WSqlM m _ => if is_query m then sqlq_acceptable d else sql_acceptable d
  end.

(* does the wrapper look at the context before entering the breaker (the *Ctx entry)? *)
Definition w_uses_ctx (k : wkind) : bool :=
  match k with WGrpcServerStream => false | WSqlM _ u => u | _ => true end.

(* what the caller of the wrapper sees *)
Inductive seen :=
| SNil
| SSame                  (* the downstream's own error value, unchanged *)
| SBreakerUnavailable    (* breaker.ErrServiceUnavailable itself *)
| SStatus (code : Z)     (* a (new) gRPC status error *)
| SCtxErr                (* ctx.Err() of the done context *)
| SPanic                 (* the downstream's panic value, re-raised *)
| SBool (b : bool).      (* the predicate's answer (WSqlPredicate) *)

Record wrapres := mkWR
  { wr_invoked : Z;   (* how many times the downstream ran *)
    wr_succ : Z; wr_fail : Z; wr_drop : Z;   (* what was added to the breaker's window *)
    wr_seen : seen }.

Definition pass_seen (k : wkind) (d : derr) : seen :=
  match d with
  | DNil => SNil
  | DPanic => SPanic
  | DStallTimeout => SStatus 4
  | DStallCancel => SStatus 1
  | DBreakerUnavailable | DWrappedBreakerUnavailable | DShaped _ BBreakerUnavailable =>
    match k with
    | WGrpcServerUnary | WGrpcServerStream | WGrpcServerChain => SStatus 14   (* convertError: errors.Is *)
    | _ => SSame
    end
  | _ => SSame
  end.

Definition rejected_seen (k : wkind) : seen :=
  match k with
  | WGrpcServerUnary | WGrpcServerStream | WGrpcServerChain => SStatus 14     (* codes.Unavailable *)
  | _ => SBreakerUnavailable
  end.

Definition wrap (k : wkind) (rej ctxdone : bool) (d : derr) : wrapres :=
  match k with
  | WSqlPredicate => mkWR 0 0 0 0 (SBool (sql_acceptable d))
  | WRedisIgnoredCmd => mkWR 1 0 0 0 (pass_seen k d)        (* bypasses the breaker *)
  | _ =>
    if w_uses_ctx k && ctxdone then mkWR 0 0 0 0 SCtxErr
    else if rej then mkWR 0 0 0 1 (rejected_seen k)
    else
      let ok := match d with DPanic => false | _ => w_acceptable k d end in
      mkWR 1 (if ok then 1 else 0) (if ok then 0 else 1) 0 (pass_seen k d)
  end.

(* The context of a wrapper call over the LIFE of the call.  Every wrapper looks at it once, on
   entry (the *Ctx entry point of the breaker: done => nothing runs, nothing is recorded, the
   caller gets ctx.Err()).  What has become of it when the downstream returns - the client went
   away, the call's own deadline passed while the handler / statement / command was running - is
   not an input of the record: the outcome is classified by the wrapper's table alone.  (A
   handler that ran into its deadline and returns DeadlineExceeded / Internal / ... with a context
   that is done is exactly the overload the breaker has to count.) *)
Inductive wctx :=
| XLive                (* live from entry to return *)
| XDone                (* cancelled before the call *)
| XCancelledAtReturn   (* live on entry; cancelled while the downstream runs *)
| XExpiredAtReturn     (* live on entry; past its deadline when the downstream returns *)
| XExpired.            (* past its deadline before the call *)

Definition x_done_at_entry (x : wctx) : bool :=
  match x with XDone | XExpired => true | _ => false end.
Definition x_done_at_return (x : wctx) : bool :=
  match x with XLive => false | _ => true end.

Definition wrapx (k : wkind) (rej : bool) (x : wctx) (d : derr) : wrapres :=
  wrap k rej (x_done_at_entry x) d.

(* the wrapper as an entry point of the breaker model: DoWithAcceptable[Ctx] with the
   downstream outcome classified by the wrapper's predicate *)
Definition w_outcome (k : wkind) (d : derr) : outcome :=
  match d with
  | DPanic => OPanic
  | DNil => OOk
  | _ => if w_acceptable k d then OErrA else OErrU
  end.

(* ------------------------------------------------------------------ REST *)

(* The route's handler seen through the middleware chain the rest engine builds INSIDE the
   breaker (engine.go: Breaker, Shedding, Timeout, Recover, ... handler).  The handler runs a
   script of response-writer calls and then returns, panics, or stalls until the request
   times out / the client goes away.  What BreakerHandler judges is cw.Code of
   response.WithCodeResponseWriter: the LAST WriteHeader argument that reached it (200 if none). *)
Inductive hop :=
| HWriteHeader (c : Z) | HWrite | HFlush
| HCtxDone (deadline : bool).  (* the request's context ends now (client gone / deadline passed); the
                                  handler goes on.  Only without TimeoutHandler (script_wf): behind
                                  it the end of the context races with the handler's return *)
Inductive hend :=
| HReturn
| HPanicEnd
| HStallTimeout        (* still running when the route's timeout fires *)
| HStallCancel.        (* still running when the client cancels the request *)
Inductive hchain :=
| ChPlain (recover : bool)       (* [RecoverHandler] handler *)
| ChTimeout (recover : bool).    (* TimeoutHandler [RecoverHandler] handler - the engine's order *)

(* handler.timeoutWriter: the handler's first status wins, body buffered until Flush *)
Record twst := mkTW { tw_wrote : bool; tw_code : Z; tw_flushed : bool; tw_cw : Z }.

Definition tw_header (t : twst) (c : Z) : twst :=
  if tw_wrote t then t else mkTW true c (tw_flushed t) (tw_cw t).

Definition tw_op (t : twst) (o : hop) : twst :=
  match o with
  | HWriteHeader c => tw_header t c
  | HWrite => tw_header t 200
  | HFlush =>
    let t1 := tw_header t 200 in
    if tw_flushed t1 then t1
    else mkTW true (tw_code t1) true (if tw_code t1 =? 200 then tw_cw t1 else tw_code t1)
  | HCtxDone _ => t       (* excluded by script_wf *)
  end.

(* the handler returned: TimeoutHandler copies the status unless it is 200 or already flushed *)
Definition tw_done (t : twst) : Z :=
  if negb (tw_code t =? 200) && negb (tw_flushed t) then tw_code t else tw_cw t.

(* without TimeoutHandler the script writes to cw itself: the last WriteHeader wins *)
Definition cw_op (code : Z) (o : hop) : Z :=
  match o with HWriteHeader c => c | _ => code end.

Definition is_ctx_op (o : hop) : bool := match o with HCtxDone _ => true | _ => false end.

(* scripts whose outcome is determined: no end of the context in mid-script behind TimeoutHandler *)
Definition script_wf (ch : hchain) (ops : list hop) : bool :=
  match ch with ChPlain _ => true | ChTimeout _ => negb (existsb is_ctx_op ops) end.

(* (cw.Code when BreakerHandler's deferred function runs, does the panic reach the breaker?) *)
Definition script_result (ch : hchain) (ops : list hop) (e : hend) : Z * bool :=
  match ch with
  | ChPlain rec =>
    let code := fold_left cw_op ops 200 in
    match e with
    | HPanicEnd => if rec then (500, false) else (code, true)   (* RecoverHandler: WriteHeader(500) *)
    | _ => (code, false)
    end
  | ChTimeout rec =>
    let t := fold_left tw_op ops (mkTW false 200 false 200) in
    match e with
    | HReturn => (tw_done t, false)
    | HPanicEnd =>
      if rec then (tw_done (tw_header t 500), false)   (* recovered inside: 500 unless a status was set *)
      else (tw_cw t, true)                             (* re-raised by TimeoutHandler *)
    | HStallTimeout => (503, false)     (* a timed-out request IS a 503 - also after a flush *)
    | HStallCancel => (499, false)      (* client closed request *)
    end
  end.

(* what the next handler does with the response *)
Inductive hout :=
| HCode (c : Z)                  (* WriteHeader(c) (or nothing written: c = 200), returns *)
| HPanic (written : option Z)    (* panics, after WriteHeader(c) or before writing anything *)
| HScript (ch : hchain) (ops : list hop) (e : hend).

(* the status code BreakerHandler's deferred function looks at *)
Definition h_code (h : hout) : Z :=
  match h with
  | HCode c => c
  | HPanic (Some c) => c
  | HPanic None => 200
  | HScript ch ops e => fst (script_result ch ops e)
  end.

Definition hout_wf (h : hout) : bool :=
  match h with HScript ch ops _ => script_wf ch ops | _ => true end.

(* promise.Accept() iff code < 500 *)
Definition rest_accepts (h : hout) : bool := h_code h <? 500.

Definition rest_entry (h : hout) : entry := if rest_accepts h then EAllowAccept else EAllowReject.

Inductive rseen := RSCode (c : Z) | RSPanic (c : Z).   (* status the client gets / panic propagates *)

Record rres := mkRR { rr_invoked : Z; rr_succ : Z; rr_fail : Z; rr_drop : Z; rr_seen : rseen }.

Definition rest_wrap (rej : bool) (h : hout) : rres :=
  if rej then mkRR 0 0 0 1 (RSCode 503)
  else mkRR 1 (if rest_accepts h then 1 else 0) (if rest_accepts h then 0 else 1) 0
            (match h with
             | HCode c => RSCode c
             | HPanic _ => RSPanic (h_code h)
             | HScript ch ops e =>      (* what the client receives is not judged for scripts *)
               if snd (script_result ch ops e) then RSPanic (-2) else RSCode (-2)
             end).

(* a history of HTTP requests through one BreakerHandler = a history of Allow calls *)
Record hreq := mkHReq { hq_out : hout; hq_gap : Z; hq_dur : Z; hq_u : Q }.

Definition rest_call (r : hreq) : call :=
  mkCall (rest_entry (hq_out r)) CNone OOk (hq_gap r) (hq_dur r) (hq_u r).

Definition rest_obs (r : hreq) (o : obs) : rres :=
  rest_wrap (match o_verdict o with Some VReject => true | _ => false end) (hq_out r).

Definition rest_run (cfg : config) (base : Z) (rs : list hreq) : list rres :=
  map (fun p => rest_obs (fst p) (snd p))
      (combine rs (snd (run cfg (init_world cfg base) (map rest_call rs)))).
