(* C01 — concurrent calls, part 2: lastPass is the time of the latest throttled admission of
   the interleaved log, every decision was taken with exactly that value, hence guaranteed
   probing (T3) and rejection under total failure (T4) hold under EVERY interleaving. *)
From Coq Require Import List ZArith QArith Bool Lia Arith.
From GZ Require Import Lib.RollingWindow Lib.RollingWindowSpec Lib.RollingWindowProofs.
From GZ Require Import C01.Model C01.Spec C01.Proofs C01.ProofsConc.
Import ListNotations.
Open Scope Z_scope.

Lemma decisions_of_app : forall l1 l2, decisions_of (l1 ++ l2) = decisions_of l1 ++ decisions_of l2.
Proof.
  induction l1 as [|e l1 IH]; intros l2; [reflexivity|].
  destruct e; cbn [decisions_of app]; rewrite IH; reflexivity.
Qed.

Record linv (cfg : config) (base : Z) (calls : list call) (w : iworld) : Prop :=
  { lv_clock : base <= i_clock w;
    lv_last : slast (i_st w) = last_throttled (decisions_of (i_log w));
    lv_times : Forall (fun d => base <= fst d) (decisions_of (i_log w));
    lv_dec : forall pre tid t r v post, i_log w = pre ++ EvDecide tid t r v :: post ->
      v = decide cfg r (last_throttled (decisions_of pre)) t (k_u (nth tid calls dummy_call)) }.

Lemma init_linv : forall cfg base calls, linv cfg base calls (init_iworld cfg base (length calls)).
Proof.
  intros. constructor; cbn [init_iworld i_st i_clock i_log decisions_of init slast].
  - lia.
  - reflexivity.
  - constructor.
  - intros pre tid t r v post H. destruct pre; discriminate.
Qed.

(* an event that is not a decision, appended by a step that leaves lastPass alone *)
Lemma linv_other : forall cfg base calls w e st' ts' now,
  linv cfg base calls w -> i_clock w <= now ->
  decisions_of [e] = [] -> slast st' = slast (i_st w) ->
  linv cfg base calls (mkIW st' now ts' (i_log w ++ [e])).
Proof.
  intros cfg base calls w e st' ts' now [Hc Hl Ht Hd] Hnow He Hs.
  assert (Hds : decisions_of (i_log w ++ [e]) = decisions_of (i_log w)).
  { rewrite decisions_of_app, He. apply app_nil_r. }
  constructor; cbn [i_st i_clock i_log].
  - lia.
  - rewrite Hs, Hds. exact Hl.
  - rewrite Hds. exact Ht.
  - intros pre tid t r v post H. apply snoc_split in H.
    destruct H as [(_ & _ & Hx)|(post' & _ & Hlog)].
    + subst e. discriminate He.
    + eapply Hd. exact Hlog.
Qed.

Lemma linv_clock : forall cfg base calls w ts' now,
  linv cfg base calls w -> i_clock w <= now ->
  linv cfg base calls (mkIW (i_st w) now ts' (i_log w)).
Proof.
  intros cfg base calls w ts' now [Hc Hl Ht Hd] Hnow. constructor; cbn [i_st i_clock i_log]; auto. lia.
Qed.

Lemma istep_linv : forall cfg base calls w tid dt,
  linv cfg base calls w -> 0 <= dt -> linv cfg base calls (istep cfg calls w (tid, dt)).
Proof.
  intros cfg base calls w tid dt Hinv Hdt. unfold istep.
  destruct (Nat.leb_spec (length calls) tid) as [Hge|Hlt].
  { apply linv_clock; [exact Hinv|lia]. }
  set (c := nth tid calls dummy_call) in *.
  set (now := i_clock w + dt) in *.
  destruct (nth tid (i_threads w) (TDone None ctx_obs)) as [|r|r v|ro o] eqn:Ets.
  - destruct (k_ctx c).
    + apply linv_other; auto; lia.
    + apply linv_other; auto; lia.
    + apply linv_clock; [exact Hinv|lia].
  - (* the decision *)
    destruct Hinv as [Hc Hl Ht Hd].
    set (v := decide cfg r (slast (i_st w)) now (k_u c)).
    assert (Hds : decisions_of (i_log w ++ [EvDecide tid now r v]) = decisions_of (i_log w) ++ [(now, v)]).
    { rewrite decisions_of_app. reflexivity. }
    constructor; cbn [i_st i_clock i_log slast].
    + lia.
    + rewrite Hds, last_throttled_snoc. cbn [fst snd]. unfold last_after. rewrite Hl. reflexivity.
    + rewrite Hds. apply Forall_app. split; [exact Ht|]. constructor; [cbn [fst]; lia|constructor].
    + intros pre tid0 t r0 v0 post H. apply snoc_split in H.
      destruct H as [(_ & Hpre & Hx)|(post' & _ & Hlog)].
      * injection Hx as E1 E2 E3 E4. subst pre tid0 t r0 v0. rewrite <- Hl. reflexivity.
      * eapply Hd. exact Hlog.
  - apply linv_other; auto; lia.
  - apply linv_clock; [exact Hinv|lia].
Qed.

Lemma irun_linv : forall cfg base calls sched w,
  sched_ok sched -> linv cfg base calls w -> linv cfg base calls (irun cfg calls w sched).
Proof.
  induction sched as [|[tid dt] sched IH]; intros w Hs Hw; [exact Hw|].
  cbn [irun fold_left]. inversion Hs as [|? ? Hdt Hs']; subst. cbn in Hdt.
  apply IH; [exact Hs'|]. apply istep_linv; assumption.
Qed.

Lemma ireach_linv : forall cfg base calls sched,
  sched_ok sched -> linv cfg base calls (ireach cfg base calls sched).
Proof. intros. unfold ireach. apply irun_linv; [assumption|apply init_linv]. Qed.

(* lastPass at any moment = the time of the latest throttled admission decided so far *)
Lemma interleaved_lastpass : forall cfg base calls sched,
  sched_ok sched ->
  slast (i_st (ireach cfg base calls sched)) =
  last_throttled (decisions_of (i_log (ireach cfg base calls sched))).
Proof. intros. apply (lv_last _ _ _ _ (ireach_linv cfg base calls sched H)). Qed.

(* T3 under every interleaving: whatever happened concurrently, a decision taken more than
   forcePassDuration after the latest throttled admission decided before it lets the call
   through - for every draw (the draws are those of [calls], universally quantified) *)
Lemma interleaved_probe : forall cfg base calls sched pre tid t r v post,
  0 < base -> sched_ok sched ->
  i_log (ireach cfg base calls sched) = pre ++ EvDecide tid t r v :: post ->
  some_throttled (decisions_of pre) ->
  c_force cfg < t - last_throttled (decisions_of pre) ->
  v = VAdmit \/ v = VForcePass.
Proof.
  intros cfg base calls sched pre tid t r v post Hbase Hs Hlog Hsome Hlate.
  pose proof (ireach_linv cfg base calls sched Hs) as [Hc Hl Ht Hd].
  rewrite (Hd _ _ _ _ _ _ Hlog).
  destruct (last_throttled_in _ Hsome) as (d & Hin & _ & Hlast).
  assert (Hpos : 0 < last_throttled (decisions_of pre)).
  { rewrite Hlast. rewrite Hlog, decisions_of_app in Ht. apply Forall_app in Ht. destruct Ht as (Ht & _).
    rewrite Forall_forall in Ht. specialize (Ht d Hin). lia. }
  rewrite force_due_verdict by assumption.
  destruct (Qle_bool _ 0); auto.
Qed.

(* T4 under every interleaving: a decision taken on a read without any success among >= T
   recorded calls, with no force-pass due, rejects for every draw below (T-protection)/(T+1) *)
Lemma interleaved_total_failure : forall cfg base calls sched pre tid t r v post T,
  cfg_ok cfg -> sched_ok sched ->
  i_log (ireach cfg base calls sched) = pre ++ EvDecide tid t r v :: post ->
  w_accepts r = 0 -> 0 <= T -> T <= w_total r ->
  (last_throttled (decisions_of pre) = 0 \/ t - last_throttled (decisions_of pre) <= c_force cfg) ->
  let u := k_u (nth tid calls dummy_call) in
  (0 <= u)%Q -> (u < inject_Z (T - c_protection cfg) / inject_Z (T + 1))%Q ->
  v = VReject.
Proof.
  intros cfg base calls sched pre tid t r v post T (Hb & Hiv & Hp) Hs Hlog Ha HT0 HT Hforce. cbn zeta. intros Hu0 Hu.
  pose proof (ireach_linv cfg base calls sched Hs) as [Hc Hl Ht Hd].
  pose proof (ireach_inv cfg base calls sched Hs) as Hinv.
  rewrite (Hd _ _ _ _ _ _ Hlog).
  (* r is what history() returned to this thread: no success => no working bucket *)
  assert (Hin : In (EvDecide tid t r v) (i_log (ireach cfg base calls sched))).
  { rewrite Hlog. apply in_or_app. right. left. reflexivity. }
  destruct (iv_dec _ _ _ _ Hinv _ _ _ _ Hin) as (_ & pre0 & t0 & post0 & Hread & _).
  destruct (iv_reads _ _ _ _ Hinv _ _ _ _ _ Hread) as (Er & _ & _).
  destruct (history_counts (rw_run (winit cfg base) (marks_of pre0)) t0) as (_ & _ & _ & C4).
  rewrite <- Er in C4.
  apply total_failure_decide with (T := T); try assumption.
  - apply C4. exact Ha.
  - unfold force_due. destruct Hforce as [E|E].
    + rewrite E. reflexivity.
    + apply andb_false_iff. right. apply Z.ltb_ge. exact E.
Qed.
