(* C01 — proofs about the wrapper models (WrapModel.v). *)
From Coq Require Import List ZArith QArith Bool Lia.
From GZ Require Import Lib.RollingWindow C01.Model C01.Spec C01.Proofs C01.WrapModel.
Import ListNotations.
Open Scope Z_scope.

Lemma rest_chain_table :
  (* a timed-out request is a failure whatever the handler had sent, a cancelled one is not *)
  (forall rec ops, rest_accepts (HScript (ChTimeout rec) ops HStallTimeout) = false) /\
  (forall rec ops, rest_accepts (HScript (ChTimeout rec) ops HStallCancel) = true) /\
  (* without TimeoutHandler the LAST status decides (e.g. 103 Early Hints, then 500) *)
  (forall rec ops c, h_code (HScript (ChPlain rec) (ops ++ [HWriteHeader c]) HReturn) = c) /\
  (* a panic caught by RecoverHandler is a 500 *)
  (forall ops, h_code (HScript (ChPlain true) ops HPanicEnd) = 500) /\
  (* behind TimeoutHandler the handler's FIRST status is the one handed on when it returns *)
  (forall rec c ops, h_code (HScript (ChTimeout rec) (HWriteHeader c :: ops) HReturn) = c).
Proof.
  repeat split; try reflexivity.
  - intros rec ops c. cbn. rewrite fold_left_app. reflexivity.
  - intros rec c ops. cbn [h_code script_result fst].
    assert (H : forall ops t, tw_wrote t = true ->
              tw_done (fold_left tw_op ops t) = tw_done t /\ tw_wrote (fold_left tw_op ops t) = true).
    { induction ops0 as [|o ops0 IH]; intros t Ht; [auto|]. cbn [fold_left].
      assert (Hh : forall c0, tw_header t c0 = t) by (intros; unfold tw_header; rewrite Ht; reflexivity).
      destruct o; cbn [tw_op]; rewrite ?Hh.
      - apply IH. exact Ht.
      - apply IH. exact Ht.
      - destruct (tw_flushed t) eqn:Ef; [apply IH; exact Ht|].
        destruct (IH (mkTW true (tw_code t) true (if tw_code t =? 200 then tw_cw t else tw_code t)) eq_refl) as (I1 & I2).
        rewrite I1, I2. split; [|reflexivity]. unfold tw_done. cbn. rewrite Ef.
        destruct (tw_code t =? 200); cbn; rewrite ?andb_false_r; reflexivity.
      - apply IH. exact Ht. }
    assert (E0 : tw_op (mkTW false 200 false 200) (HWriteHeader c) = mkTW true c false 200) by reflexivity.
    cbn [fold_left]. rewrite E0.
    destruct (H ops (mkTW true c false 200) eq_refl) as (H1 & _). rewrite H1.
    unfold tw_done. cbn. destruct (c =? 200) eqn:E; cbn; [apply Z.eqb_eq in E; congruence|reflexivity].
Qed.

Definition through_breaker (k : wkind) : bool :=
  match k with WSqlPredicate | WRedisIgnoredCmd => false | _ => true end.

Lemma wrap_through : forall k rej ctxdone d,
  through_breaker k = true ->
  wrap k rej ctxdone d =
  if w_uses_ctx k && ctxdone then mkWR 0 0 0 0 SCtxErr
  else if rej then mkWR 0 0 0 1 (rejected_seen k)
  else let ok := match d with DPanic => false | _ => w_acceptable k d end in
       mkWR 1 (if ok then 1 else 0) (if ok then 0 else 1) 0 (pass_seen k d).
Proof. intros k rej ctxdone d Hk. destruct k; try discriminate Hk; reflexivity. Qed.

Lemma wrap_once : forall k rej ctxdone d,
  through_breaker k = true ->
  let r := wrap k rej ctxdone d in
  let short := w_uses_ctx k && ctxdone in
  (0 <= wr_succ r /\ 0 <= wr_fail r /\ 0 <= wr_drop r /\ wr_succ r + wr_fail r + wr_drop r <= 1) /\
  (short = true ->
     wr_invoked r = 0 /\ wr_succ r + wr_fail r + wr_drop r = 0 /\ wr_seen r = SCtxErr) /\
  (short = false -> rej = true ->
     wr_invoked r = 0 /\ wr_drop r = 1 /\ wr_succ r = 0 /\ wr_fail r = 0 /\
     wr_seen r = rejected_seen k) /\
  (short = false -> rej = false ->
     wr_invoked r = 1 /\ wr_drop r = 0 /\ wr_succ r + wr_fail r = 1 /\
     (wr_succ r = 1 <-> (d <> DPanic /\ w_acceptable k d = true)) /\
     wr_seen r = pass_seen k d).
Proof.
  intros k rej ctxdone d Hk. cbn zeta. rewrite (wrap_through k rej ctxdone d Hk).
  set (ok := match d with DPanic => false | _ => w_acceptable k d end).
  assert (Hok : ok = true <-> (d <> DPanic /\ w_acceptable k d = true)).
  { unfold ok. destruct d; split; try (intros H; split; [discriminate|exact H]); try (intros (_ & H); exact H);
      try discriminate; intros (H & _); contradiction. }
  destruct (w_uses_ctx k && ctxdone); [|destruct rej]; cbn [wr_invoked wr_succ wr_fail wr_drop wr_seen].
  - repeat split; intros; try discriminate; lia.
  - repeat split; intros; try discriminate; lia.
  - cbn zeta. fold ok. split; [destruct ok; lia|]. split; [discriminate|]. split; [discriminate|].
    intros _ _. split; [reflexivity|]. split; [reflexivity|]. split; [destruct ok; reflexivity|].
    split; [|reflexivity]. rewrite <- Hok. destruct ok; split; intros; try discriminate; reflexivity.
Qed.

(* the context over the life of the call: live on entry and admitted => one downstream run and
   one record by the table alone; a context that has ended when the downstream returns (client
   gone, the call's own deadline passed) changes nothing at all *)
Lemma wrapx_live_on_entry : forall k x d,
  through_breaker k = true -> x_done_at_entry x = false ->
  let r := wrapx k false x d in
  wr_invoked r = 1 /\ wr_drop r = 0 /\ wr_succ r + wr_fail r = 1 /\
  (wr_fail r = 1 <-> (d = DPanic \/ w_acceptable k d = false)) /\
  r = wrapx k false XLive d.
Proof.
  intros k x d Hk Hx. cbn zeta. unfold wrapx. rewrite Hx. cbn [x_done_at_entry].
  split; [|split; [|split; [|split; [|reflexivity]]]];
    rewrite (wrap_through k false false d Hk), andb_false_r; cbn zeta;
    set (ok := match d with DPanic => false | _ => w_acceptable k d end);
    assert (Hok : ok = false <-> d = DPanic \/ w_acceptable k d = false)
      by (unfold ok; destruct d; split; auto; intros [H|H]; try discriminate H; auto);
    cbn [wr_invoked wr_succ wr_fail wr_drop]; try reflexivity.
  - destruct ok; reflexivity.
  - rewrite <- Hok. destruct ok; split; intros; try discriminate; reflexivity.
Qed.

Lemma wrapx_done_on_entry : forall k rej x d,
  through_breaker k = true -> w_uses_ctx k = true -> x_done_at_entry x = true ->
  let r := wrapx k rej x d in
  wr_invoked r = 0 /\ wr_succ r + wr_fail r + wr_drop r = 0 /\ wr_seen r = SCtxErr.
Proof.
  intros k rej x d Hk Hu Hx. cbn zeta. unfold wrapx. rewrite Hx.
  destruct (wrap_once k rej true d Hk) as (_ & H & _). cbn zeta in H. rewrite Hu in H. exact (H eq_refl).
Qed.

Lemma wrap_bypass : forall rej ctxdone d,
  let r := wrap WRedisIgnoredCmd rej ctxdone d in
  wr_invoked r = 1 /\ wr_succ r + wr_fail r + wr_drop r = 0 /\ wr_seen r = pass_seen WRedisIgnoredCmd d.
Proof. intros. cbn. auto. Qed.

(* the wrapper is the entry point DoWithAcceptable[Ctx] of the breaker model, with the
   downstream outcome classified by its predicate *)
Lemma w_outcome_ok : forall k d,
  through_breaker k = true ->
  counts_as_success EDoAcc (w_outcome k d) = match d with DPanic => false | _ => w_acceptable k d end.
Proof.
  intros k d Hk. unfold w_outcome.
  destruct d; try reflexivity; try (destruct (w_acceptable k _); reflexivity).
  destruct k as [| | | | | | | | |m u|]; try discriminate Hk; try reflexivity. destruct m; reflexivity.
Qed.

Lemma wrap_is_entry_live : forall cfg w k (ctxdone : bool) d gap dur u cm,
  through_breaker k = true -> cm = CLive \/ cm = CNone -> w_uses_ctx k && ctxdone = false ->
  let c := mkCall EDoAcc cm (w_outcome k d) gap dur u in
  let now := w_clock w + gap in
  let o := snd (step cfg w c) in
  let w' := fst (step cfg w c) in
  let rej := match o_verdict o with Some VReject => true | _ => false end in
  let r := wrap k rej ctxdone d in
  wr_invoked r = o_req o /\
  w_marks w' = w_marks w ++
    (if wr_drop r =? 1 then [(now, v_drop)]
     else if wr_succ r =? 1 then [(now + dur, v_success)]
     else if wr_fail r =? 1 then [(now + dur, v_fail)] else []).
Proof.
  intros cfg w k ctxdone d gap dur u cm Hk Hcm Hshort. cbn zeta. rewrite step_unfold. cbn zeta.
  cbn [k_ctx k_gap k_dur k_entry k_out k_u].
  rewrite (w_outcome_ok k d Hk).
  set (ok := match d with DPanic => false | _ => w_acceptable k d end).
  destruct Hcm as [-> | ->];
    (match goal with |- context [decide ?a ?b ?c ?e ?f] => destruct (decide a b c e f) end;
     cbn [rejected fst snd o_verdict o_req w_marks is_allow];
     rewrite (wrap_through k _ ctxdone d Hk), Hshort; cbn zeta; fold ok;
     cbn [wr_invoked wr_succ wr_fail wr_drop];
     (split; [reflexivity|]); destruct ok; reflexivity).
Qed.

Lemma wrap_is_entry : forall cfg w k (ctxdone : bool) d gap dur u,
  through_breaker k = true ->
  let cm := if w_uses_ctx k then (if ctxdone then CDone else CLive) else CNone in
  let c := mkCall EDoAcc cm (w_outcome k d) gap dur u in
  let now := w_clock w + gap in
  let o := snd (step cfg w c) in
  let w' := fst (step cfg w c) in
  let rej := match o_verdict o with Some VReject => true | _ => false end in
  let r := wrap k rej ctxdone d in
  wr_invoked r = o_req o /\
  w_marks w' = w_marks w ++
    (if wr_drop r =? 1 then [(now, v_drop)]
     else if wr_succ r =? 1 then [(now + dur, v_success)]
     else if wr_fail r =? 1 then [(now + dur, v_fail)] else []).
Proof.
  intros cfg w k ctxdone d gap dur u Hk.
  destruct (w_uses_ctx k) eqn:Eu; [destruct ctxdone|].
  - cbn zeta. rewrite step_unfold. cbn zeta. cbn [k_ctx fst snd o_verdict o_req w_marks].
    rewrite (wrap_through k _ true d Hk), Eu. cbn. rewrite app_nil_r. auto.
  - apply wrap_is_entry_live; [exact Hk|auto|rewrite Eu; reflexivity].
  - apply wrap_is_entry_live; [exact Hk|auto|rewrite Eu; reflexivity].
Qed.

(* ---- which outcomes count as failures *)

Lemma grpc_table : forall c,
  grpc_failure_code c = true <->
  (c = 4 \/ c = 8 \/ c = 12 \/ c = 13 \/ c = 14 \/ c = 15).
Proof.
  intros c. unfold grpc_failure_code. rewrite !orb_true_iff, !Z.eqb_eq. tauto.
Qed.

Lemma acceptability_tables0 :
  (* gRPC client: only status errors with one of six codes are failures *)
  (forall d, codes_acceptable0 d = false <-> d = DStallTimeout \/ exists c, d = DStatus c /\ grpc_failure_code c = true) /\
  (* gRPC server: the same, plus a plain context.DeadlineExceeded and a breaker error from below *)
  (forall d, server_acceptable0 d = false <->
     d = DCtxDeadline \/ d = DBreakerUnavailable \/ d = DWrappedDeadline \/ d = DWrappedBreakerUnavailable \/
     d = DStallTimeout \/ exists c, d = DStatus c /\ grpc_failure_code c = true) /\
  (* redis: nil, redis.Nil, context.Canceled (also wrapped) are fine, everything else fails *)
  (forall d, redis_acceptable0 d = true <->
     d = DNil \/ d = DRedisNil \/ d = DWrappedRedisNil \/ d = DCtxCanceled \/ d = DWrappedCanceled) /\
  (* sql: nil, ErrNoRows, ErrTxDone, context.Canceled (also wrapped), acceptableError, what a
     WithAcceptable option accepts; for the Query* methods also a failure to scan the rows *)
  (forall d, sql_acceptable0 d = true <->
     d = DNil \/ d = DSqlNoRows \/ d = DSqlTxDone \/ d = DCtxCanceled \/ d = DWrappedCanceled \/ d = DSqlAcceptable \/
     d = DWrappedSqlNoRows \/ d = DWrappedSqlTxDone \/
     exists i n, d = DSqlCustom i n /\ 1 <= i <= n) /\
  (forall d, sqlq_acceptable0 d = true <-> d = DSqlScanFail \/ sql_acceptable0 d = true) /\
  (* REST: Accept iff the status seen by the deferred function is below 500; a handler that
     panics before writing a status leaves 200 there *)
  (forall h, rest_accepts h = true <-> h_code h < 500) /\ rest_accepts (HPanic None) = true.
Proof.
  repeat split.
  - destruct d; cbn; try discriminate; auto. intros H. right. exists code. split; [reflexivity|].
    destruct (grpc_failure_code code); [reflexivity|discriminate].
  - intros [->|(c & -> & H)]; cbn; [reflexivity|]. rewrite H. reflexivity.
  - destruct d; cbn; try discriminate; auto 7. intros H. do 5 right. exists code. split; [reflexivity|].
    destruct (grpc_failure_code code); [reflexivity|discriminate].
  - intros [->|[->|[->|[->|[->|(c & -> & H)]]]]]; cbn; try reflexivity. rewrite H. reflexivity.
  - destruct d; cbn; try discriminate; tauto.
  - intros [->|[->|[->|[->| ->]]]]; reflexivity.
  - destruct d; cbn; try discriminate; try tauto; auto 10.
    intros H. apply andb_true_iff in H. destruct H as (H1 & H2). apply Z.leb_le in H1. apply Z.leb_le in H2.
    repeat right. exists i, n. auto.
  - intros [->|[->|[->|[->|[->|[->|[->|[->|(i & n & -> & H1 & H2)]]]]]]]]; try reflexivity.
    cbn. apply andb_true_iff. split; apply Z.leb_le; assumption.
  - destruct d; cbn; auto.
  - intros [->|H]; [reflexivity|]. destruct d; cbn in *; auto.
  - unfold rest_accepts. apply Z.ltb_lt.
  - unfold rest_accepts. apply Z.ltb_lt.
Qed.


(* the tables hold of every error SHAPE through errors.Is semantics: a sentinel wrapped twice, inside
   errors.Join (either position), inside a multi-%w error or matched by a custom Is method is
   classified like the bare sentinel ([canon]) *)
Lemma acceptability_tables :
  (forall d, codes_acceptable d = false <-> canon d = DStallTimeout \/ exists c, canon d = DStatus c /\ grpc_failure_code c = true) /\
  (forall d, server_acceptable d = false <->
     canon d = DCtxDeadline \/ canon d = DBreakerUnavailable \/ canon d = DWrappedDeadline \/ canon d = DWrappedBreakerUnavailable \/
     canon d = DStallTimeout \/ exists c, canon d = DStatus c /\ grpc_failure_code c = true) /\
  (forall d, redis_acceptable d = true <->
     canon d = DNil \/ canon d = DRedisNil \/ canon d = DWrappedRedisNil \/ canon d = DCtxCanceled \/ canon d = DWrappedCanceled) /\
  (forall d, sql_acceptable d = true <->
     canon d = DNil \/ canon d = DSqlNoRows \/ canon d = DSqlTxDone \/ canon d = DCtxCanceled \/ canon d = DWrappedCanceled \/
     canon d = DSqlAcceptable \/ canon d = DWrappedSqlNoRows \/ canon d = DWrappedSqlTxDone \/
     exists i n, canon d = DSqlCustom i n /\ 1 <= i <= n) /\
  (forall d, sqlq_acceptable d = true <-> canon d = DSqlScanFail \/ sql_acceptable d = true) /\
  (forall h, rest_accepts h = true <-> h_code h < 500) /\ rest_accepts (HPanic None) = true.
Proof.
  destruct acceptability_tables0 as (H1 & H2 & H3 & H4 & H5 & H6 & H7).
  repeat split; try (intros; apply H6; assumption); try exact H7.
  all: intros; first [apply (H1 (canon d)) | apply (H2 (canon d)) | apply (H3 (canon d)) | apply (H4 (canon d)) | apply (H5 (canon d))]; assumption.
Qed.

Lemma shaped_like_bare : forall k s b, w_acceptable k (DShaped s b) = w_acceptable k (bare b).
Proof. intros k s b. destruct k as [| | | | | | | | |m u|]; try destruct m; destruct b; reflexivity. Qed.

(* REST: exactly-once *)
Lemma rest_once : forall rej h,
  let r := rest_wrap rej h in
  (rej = true -> rr_invoked r = 0 /\ rr_drop r = 1 /\ rr_succ r = 0 /\ rr_fail r = 0 /\ rr_seen r = RSCode 503) /\
  (rej = false -> rr_invoked r = 1 /\ rr_drop r = 0 /\ rr_succ r + rr_fail r = 1 /\
                  (rr_succ r = 1 <-> h_code h < 500)).
Proof.
  intros rej h. cbn zeta. unfold rest_wrap. destruct rej; split; intros; try discriminate; cbn.
  - auto.
  - unfold rest_accepts. destruct (Z.ltb_spec (h_code h) 500); cbn; repeat split; intros; try lia.
Qed.

(* REST = the Allow entry point: the mark of the call is the promise resolution *)
Lemma rest_is_entry : forall cfg w r,
  let c := rest_call r in
  let o := snd (step cfg w c) in
  let rr := rest_obs r o in
  let now := w_clock w + hq_gap r in
  w_marks (fst (step cfg w c)) = w_marks w ++
    (if rr_drop rr =? 1 then [(now, v_drop)]
     else if rr_succ rr =? 1 then [(now + hq_dur r, v_success)] else [(now + hq_dur r, v_fail)]).
Proof.
  intros cfg w r. cbn zeta. rewrite step_unfold. cbn zeta. unfold rest_call, rest_obs, rest_entry.
  cbn [k_ctx k_gap k_dur k_entry k_out k_u].
  match goal with |- context [decide ?a ?b ?c ?e ?f] => destruct (decide a b c e f) end;
    cbn [rejected fst snd o_verdict w_marks]; unfold rest_wrap;
    destruct (rest_accepts (hq_out r)); cbn; reflexivity.
Qed.
