(* C01 — proofs that mention coq/gen/C01Consts.v: re-checked at every run against the
   constants extracted from core/breaker/googlebreaker.go and bucket.go of the checked
   tree.  They establish the side conditions of the theorems of Props.v for today's
   constants and restate the theorems with the numbers of the property text. *)
From Coq Require Import List ZArith QArith Bool Lia.
From GZ Require Import Lib.RollingWindow Lib.RollingWindowSpec C01.Model C01.Spec C01.Proofs C01.Gen.
From GZgen Require Import C01Consts.
Import ListNotations.
Open Scope Z_scope.

Lemma gen_cfg_ok : cfg_ok cfg_gen.
Proof. unfold cfg_ok. vm_compute. repeat split; discriminate. Qed.

(* "plus 10% of the accepted ones" *)
Lemma gen_minK_ok : (11 # 10 <= c_minK cfg_gen)%Q.
Proof. vm_compute. discriminate. Qed.

Lemma gen_k_ok : (c_minK cfg_gen <= c_k cfg_gen)%Q.
Proof. vm_compute. discriminate. Qed.

(* "exceed 5"; and (100 - 5)/101 >= 94% *)
Lemma gen_protection_ok : c_protection cfg_gen = 5.
Proof. reflexivity. Qed.

(* "more than 1 s after the previous throttled admission" *)
Lemma gen_force_ok : c_force cfg_gen = 1000000000.
Proof. reflexivity. Qed.

(* "the preceding 10 s window": buckets * bucketDuration = 10 s *)
Lemma gen_window_ok : c_buckets cfg_gen * bucket_duration cfg_gen = 10000000000.
Proof. reflexivity. Qed.

(* bucket.go: the values handed to stat.Add *)
Lemma gen_values_ok : gen_success = v_success /\ gen_fail = v_fail /\ gen_drop = v_drop.
Proof. repeat split; reflexivity. Qed.

(* T1 with the numbers of the property text, for today's constants *)
Theorem reject_only_if_over_today : forall base cs c,
  times_ok (cs ++ [c]) ->
  let w := reach cfg_gen base cs in
  let now := w_clock w + k_gap c in
  let o := snd (step cfg_gen w c) in
  (* ErrServiceUnavailable / the fallback's value came back and the request did not run *)
  (o_res o = RUnavailable \/ o_res o = RFallback) /\ o_req o = 0 ->
  let vals := window_vals cfg_gen base (w_marks w) now in
  (* non-accepted (failures + rejections) > 5 + 10% of accepted *)
  50 + n_success vals < 10 * (n_fail vals + n_drop vals).
Proof.
  intros base cs c Ht. cbn zeta. intros Hres.
  pose proof (reject_only_if_over_run cfg_gen base cs c gen_cfg_ok Ht Hres) as H. cbn zeta in H.
  apply over_property_text in H.
  - rewrite n_partition in H. lia.
  - exact gen_minK_ok.
  - rewrite gen_protection_ok. lia.
  - apply n_if_nonneg.
Qed.
Print Assumptions reject_only_if_over_today.

(* T3 with 1 s *)
Theorem probe_guaranteed_today : forall base cs c,
  0 < base -> times_ok (cs ++ [c]) ->
  let w := reach cfg_gen base cs in
  let now := w_clock w + k_gap c in
  some_throttled (w_decisions w) ->
  1000000000 < now - last_throttled (w_decisions w) ->
  k_ctx c <> CDone ->
  forall u,
    let o := snd (step cfg_gen w (with_draw c u)) in
    o_res o = result_of (k_entry c) (k_out c) /\
    o_req o = (if is_allow (k_entry c) then 0 else 1) /\ o_fb o = 0.
Proof.
  intros base cs c Hb Ht. cbn zeta. intros Hs Hl Hc u.
  apply (probe_guaranteed_run cfg_gen base cs c Hb Ht Hs); [rewrite gen_force_ok; exact Hl|exact Hc].
Qed.
Print Assumptions probe_guaranteed_today.

(* T4 at T = 100: every draw below 94% is rejected *)
Lemma gen_total_failure_94 :
  (94 # 100 <= inject_Z (100 - c_protection cfg_gen) / inject_Z (100 + 1))%Q.
Proof. vm_compute. discriminate. Qed.

Theorem total_failure_rejects_today : forall base cs c,
  times_ok (cs ++ [c]) ->
  let w := reach cfg_gen base cs in
  let now := w_clock w + k_gap c in
  let vals := window_vals cfg_gen base (w_marks w) now in
  k_ctx c <> CDone ->
  n_success vals = 0 -> 100 <= n_total vals ->
  (last_throttled (w_decisions w) = 0 \/ now - last_throttled (w_decisions w) <= 1000000000) ->
  (0 <= k_u c)%Q -> (k_u c < 94 # 100)%Q ->
  let o := snd (step cfg_gen w c) in
  o_req o = 0 /\ o_res o = (if has_fallback (k_entry c) then RFallback else RUnavailable).
Proof.
  intros base cs c Ht. cbn zeta. intros Hc Hs HT Hf Hu0 Hu.
  destruct (total_failure_rejects_run cfg_gen base cs c 100 gen_cfg_ok Ht Hc Hs ltac:(lia) HT) as (_ & H1 & _ & H2).
  - rewrite gen_force_ok. exact Hf.
  - exact Hu0.
  - eapply Qlt_le_trans; [exact Hu|exact gen_total_failure_94].
  - auto.
Qed.
Print Assumptions total_failure_rejects_today.
