(* C01 — the configuration made of the constants re-extracted from the source at
   every run (coq/gen/C01Consts.v).  Definitions only. *)
From Coq Require Import ZArith QArith.
From GZ Require Import C01.Model.
From GZgen Require Import C01Consts.

Definition cfg_gen : config :=
  mkCfg gen_window gen_buckets gen_forcePassDuration gen_k gen_minK gen_protection.
