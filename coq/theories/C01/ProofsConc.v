(* C01 — concurrent calls: every interleaving of the atomic actions read / decide / mark
   of any number of calls keeps the window equal to the log of marks, every read is the
   window summary of the marks made before it, every rejection was decided on a read that
   satisfies the admission law, and every call marks exactly once. *)
From Coq Require Import List ZArith QArith Bool Lia Arith.
From GZ Require Import Lib.RollingWindow Lib.RollingWindowSpec Lib.RollingWindowProofs.
From GZ Require Import C01.Model C01.Spec C01.Proofs.
Import ListNotations.
Open Scope Z_scope.

Lemma marks_of_app : forall l1 l2, marks_of (l1 ++ l2) = marks_of l1 ++ marks_of l2.
Proof.
  induction l1 as [|e l1 IH]; intros l2; [reflexivity|].
  destruct e; cbn [marks_of app]; rewrite IH; reflexivity.
Qed.

Lemma marks_by_app : forall tid l1 l2, marks_by tid (l1 ++ l2) = marks_by tid l1 ++ marks_by tid l2.
Proof. intros. unfold marks_by. apply filter_app. Qed.

Lemma snoc_split : forall {A} (l : list A) e pre x post,
  l ++ [e] = pre ++ x :: post ->
  (post = [] /\ pre = l /\ x = e) \/ (exists post', post = post' ++ [e] /\ l = pre ++ x :: post').
Proof.
  intros A l e pre x post. destruct post as [|y post _] using rev_ind; intros H.
  - left. apply app_inj_tail in H. destruct H; subst; auto.
  - right. exists post. change (pre ++ x :: post ++ [y]) with (pre ++ (x :: post) ++ [y]) in H.
    rewrite app_assoc in H. apply app_inj_tail in H. destruct H; subst; auto.
Qed.

Definition thread_ok (calls : list call) (log : list event) (tid : nat) (ts : tstate) : Prop :=
  let c := nth tid calls dummy_call in
  match ts with
  | TInit => marks_by tid log = []
  | TRead r => marks_by tid log = [] /\ exists pre t0 post, log = pre ++ EvRead tid t0 r :: post
  | TDecided r v => marks_by tid log = [] /\ exists t, In (EvDecide tid t r v) log
  | TDone None o => marks_by tid log = [] /\ k_ctx c = CDone /\ o = ctx_obs
  | TDone (Some r) o =>
    exists t v tm, In (EvDecide tid t r v) log /\
                   marks_by tid log = [EvMark tid tm (mark_value c v)] /\ o = call_obs c v
  end.

Record iinv (cfg : config) (base : Z) (calls : list call) (w : iworld) : Prop :=
  { iv_win : swin (i_st w) = rw_run (winit cfg base) (marks_of (i_log w));
    iv_mono : rw_mono base (marks_of (i_log w));
    iv_clock : rw_last_time base (marks_of (i_log w)) <= i_clock w;
    iv_len : length (i_threads w) = length calls;
    iv_reads : forall pre tid t r post, i_log w = pre ++ EvRead tid t r :: post ->
      r = history (rw_run (winit cfg base) (marks_of pre)) t /\
      rw_mono base (marks_of pre) /\ rw_last_time base (marks_of pre) <= t;
    iv_dec : forall tid t r v, In (EvDecide tid t r v) (i_log w) ->
      (exists lp, v = decide cfg r lp t (k_u (nth tid calls dummy_call))) /\
      exists pre t0 post, i_log w = pre ++ EvRead tid t0 r :: post /\ In (EvDecide tid t r v) post;
    iv_thr : forall tid, (tid < length calls)%nat ->
      thread_ok calls (i_log w) tid (nth tid (i_threads w) TInit) }.

Lemma thread_ok_ext : forall calls log tid ts e,
  thread_ok calls log tid ts -> is_mark_of tid e = false -> thread_ok calls (log ++ [e]) tid ts.
Proof.
  intros calls log tid ts e H He. unfold thread_ok in *.
  assert (Hm : marks_by tid (log ++ [e]) = marks_by tid log).
  { rewrite marks_by_app. unfold marks_by at 2. cbn [filter]. rewrite He. apply app_nil_r. }
  destruct ts as [|r|r v|[r|] o]; rewrite Hm.
  - exact H.
  - destruct H as (H1 & pre & t0 & post & H2). split; [exact H1|].
    exists pre, t0, (post ++ [e]). rewrite H2, <- app_assoc. reflexivity.
  - destruct H as (H1 & t & H2). split; [exact H1|]. exists t. apply in_or_app. left. exact H2.
  - destruct H as (t & v & tm & H1 & H2 & H3). exists t, v, tm.
    split; [apply in_or_app; left; exact H1|auto].
  - exact H.
Qed.

Lemma init_iinv : forall cfg base calls, iinv cfg base calls (init_iworld cfg base (length calls)).
Proof.
  intros. constructor; cbn [init_iworld i_st i_clock i_threads i_log marks_of].
  - reflexivity.
  - exact I.
  - cbn. lia.
  - apply repeat_length.
  - intros pre tid t r post H. destruct pre; discriminate.
  - intros tid t r v [].
  - intros tid Ht. rewrite nth_repeat. reflexivity.
Qed.

(* appending an event that is not a mark *)
Lemma iinv_nonmark : forall cfg base calls w tid e ts' st' now,
  iinv cfg base calls w -> i_clock w <= now ->
  (tid < length calls)%nat ->
  marks_of [e] = [] -> (forall tid', is_mark_of tid' e = false) ->
  swin st' = swin (i_st w) ->
  (* the new event is justified *)
  (forall tid0 t r, e = EvRead tid0 t r ->
     t = now /\ r = history (swin (i_st w)) now) ->
  (forall tid0 t r v, e = EvDecide tid0 t r v ->
     tid0 = tid /\ (exists lp, v = decide cfg r lp t (k_u (nth tid calls dummy_call))) /\
     exists pre t0 post, i_log w = pre ++ EvRead tid t0 r :: post) ->
  thread_ok calls (i_log w ++ [e]) tid ts' ->
  iinv cfg base calls (mkIW st' now (set_nth tid ts' (i_threads w)) (i_log w ++ [e])).
Proof.
  intros cfg base calls w tid e ts' st' now [Hw Hm Hc Hl Hr Hd Ht] Hnow Htid Hme Hnm Hst Hread Hdec Hts.
  assert (Hmarks : marks_of (i_log w ++ [e]) = marks_of (i_log w)).
  { rewrite marks_of_app, Hme. apply app_nil_r. }
  constructor; cbn [i_st i_clock i_threads i_log].
  - rewrite Hst, Hmarks. exact Hw.
  - rewrite Hmarks. exact Hm.
  - rewrite Hmarks. lia.
  - rewrite set_nth_length. exact Hl.
  - intros pre tid0 t r post H. apply snoc_split in H. destruct H as [(Hp & Hpre & Hx)|(post' & Hp & Hlog)].
    + subst pre.
      destruct (Hread _ _ _ (eq_sym Hx)) as (Et & Er). subst t.
      rewrite Er, Hw. repeat split; auto. lia.
    + eapply Hr. exact Hlog.
  - intros tid0 t r v Hin. apply in_app_or in Hin. destruct Hin as [Hin|[Hin|[]]].
    + destruct (Hd _ _ _ _ Hin) as (H1 & pre & t0 & post & H2 & H3). split; [exact H1|].
      exists pre, t0, (post ++ [e]). split; [rewrite H2, <- app_assoc; reflexivity|].
      apply in_or_app. left. exact H3.
    + destruct (Hdec _ _ _ _ Hin) as (E & H1 & pre & t0 & post & H2). subst tid0.
      split; [exact H1|]. exists pre, t0, (post ++ [e]).
      split; [rewrite H2, <- app_assoc; reflexivity|].
      apply in_or_app. right. left. exact Hin.
  - intros tid' Ht'. destruct (Nat.eq_dec tid tid') as [E|E].
    + subst tid'. rewrite nth_set_nth_eq by lia. exact Hts.
    + rewrite nth_set_nth_neq by exact E. apply thread_ok_ext; [apply Ht; exact Ht'|apply Hnm].
Qed.

Lemma iinv_clock : forall cfg base calls w now,
  iinv cfg base calls w -> i_clock w <= now ->
  iinv cfg base calls (mkIW (i_st w) now (i_threads w) (i_log w)).
Proof.
  intros cfg base calls w now [Hw Hm Hc Hl Hr Hd Ht] Hnow.
  constructor; cbn [i_st i_clock i_threads i_log]; auto. lia.
Qed.

Lemma istep_inv : forall cfg base calls w tid dt,
  iinv cfg base calls w -> 0 <= dt -> iinv cfg base calls (istep cfg calls w (tid, dt)).
Proof.
  intros cfg base calls w tid dt Hinv Hdt. unfold istep.
  destruct (Nat.leb_spec (length calls) tid) as [Hge|Hlt].
  { apply iinv_clock; [exact Hinv|lia]. }
  pose proof (iv_thr _ _ _ _ Hinv tid Hlt) as Hth.
  rewrite (nth_indep _ (TDone None ctx_obs) TInit) by (rewrite (iv_len _ _ _ _ Hinv); exact Hlt).
  set (c := nth tid calls dummy_call) in *.
  set (now := i_clock w + dt) in *.
  destruct (nth tid (i_threads w) TInit) as [|r|r v|ro o] eqn:Ets.
  - (* TInit *)
    assert (Hdone : k_ctx c = CDone ->
      iinv cfg base calls (mkIW (i_st w) now (set_nth tid (TDone None ctx_obs) (i_threads w)) (i_log w))).
    { intros Hctx. destruct Hinv as [Hw Hm Hc Hl Hr Hd Ht].
      constructor; cbn [i_st i_clock i_threads i_log]; auto.
      - lia.
      - rewrite set_nth_length. exact Hl.
      - intros tid' Ht'. destruct (Nat.eq_dec tid tid') as [E|E].
        + subst tid'. rewrite nth_set_nth_eq by lia. cbn. fold c. auto.
        + rewrite nth_set_nth_neq by exact E. apply Ht. exact Ht'. }
    assert (Hlive : k_ctx c <> CDone ->
      iinv cfg base calls
        (mkIW (i_st w) now (set_nth tid (TRead (history (swin (i_st w)) now)) (i_threads w))
              (i_log w ++ [EvRead tid now (history (swin (i_st w)) now)]))).
    { intros _. apply iinv_nonmark; auto; try lia.
      - intros tid0 t r E. injection E as _ <- <-. auto.
      - intros tid0 t r v E. discriminate.
      - cbn. split.
        + rewrite marks_by_app. cbn in Hth. rewrite Hth. reflexivity.
        + exists (i_log w), now, []. reflexivity. }
    destruct (k_ctx c); [apply Hlive; discriminate|apply Hlive; discriminate|apply Hdone; reflexivity].
  - (* TRead *)
    cbn in Hth. destruct Hth as (Hmb & pre & t0 & post & Hlog).
    apply iinv_nonmark; auto; try lia.
    + intros tid0 t r' E. discriminate.
    + intros tid0 t r' v E. injection E as <- <- <- <-.
      split; [reflexivity|]. split; [eexists; reflexivity|]. exists pre, t0, post. exact Hlog.
    + cbn. split.
      * rewrite marks_by_app, Hmb. reflexivity.
      * eexists. apply in_or_app. right. left. reflexivity.
  - (* TDecided: the mark *)
    cbn in Hth. destruct Hth as (Hmb & td & Hin).
    destruct Hinv as [Hw Hm Hc Hl Hr Hd Ht].
    assert (Hmarks : marks_of (i_log w ++ [EvMark tid now (mark_value c v)]) =
                     marks_of (i_log w) ++ [(now, mark_value c v)]).
    { rewrite marks_of_app. reflexivity. }
    constructor; cbn [i_st i_clock i_threads i_log mark swin slast].
    + rewrite Hmarks, rw_run_snoc, Hw. reflexivity.
    + rewrite Hmarks. apply mono_snoc. split; [exact Hm|cbn [fst]; lia].
    + rewrite Hmarks, last_time_snoc. cbn [fst]. lia.
    + rewrite set_nth_length. exact Hl.
    + intros pre tid0 t r0 post H. apply snoc_split in H.
      destruct H as [(_ & _ & Hx)|(post' & Hp & Hlog)]; [discriminate|].
      eapply Hr. exact Hlog.
    + intros tid0 t r0 v0 Hin0. apply in_app_or in Hin0. destruct Hin0 as [Hin0|[Hin0|[]]]; [|discriminate].
      destruct (Hd _ _ _ _ Hin0) as (H1 & pre & t0 & post & H2 & H3). split; [exact H1|].
      exists pre, t0, (post ++ [EvMark tid now (mark_value c v)]).
      split; [rewrite H2, <- app_assoc; reflexivity|]. apply in_or_app. left. exact H3.
    + intros tid' Ht'. destruct (Nat.eq_dec tid tid') as [E|E].
      * subst tid'. rewrite nth_set_nth_eq by lia. cbn. fold c.
        exists td, v, now. split; [apply in_or_app; left; exact Hin|]. split; [|reflexivity].
        rewrite marks_by_app, Hmb. unfold marks_by. cbn [filter is_mark_of].
        rewrite Nat.eqb_refl. reflexivity.
      * rewrite nth_set_nth_neq by exact E. apply thread_ok_ext; [apply Ht; exact Ht'|].
        cbn. apply Nat.eqb_neq. exact E.
  - (* TDone *)
    apply iinv_clock; [exact Hinv|lia].
Qed.

Lemma irun_inv : forall cfg base calls sched w,
  sched_ok sched -> iinv cfg base calls w -> iinv cfg base calls (irun cfg calls w sched).
Proof.
  induction sched as [|[tid dt] sched IH]; intros w Hs Hw; [exact Hw|].
  cbn [irun fold_left]. inversion Hs as [|? ? Hdt Hs']; subst. cbn in Hdt.
  apply IH; [exact Hs'|]. apply istep_inv; assumption.
Qed.

Lemma ireach_inv : forall cfg base calls sched,
  sched_ok sched -> iinv cfg base calls (ireach cfg base calls sched).
Proof. intros. unfold ireach. apply irun_inv; [assumption|apply init_iinv]. Qed.

(* ---------------------------------------------------------------- theorems *)

(* every read is the summary of the calls recorded before it in the last `buckets`
   intervals (it may be older than the window at decision or mark time) *)
Lemma interleaved_read_sums : forall cfg base calls sched pre tid t r post,
  cfg_ok cfg -> sched_ok sched ->
  i_log (ireach cfg base calls sched) = pre ++ EvRead tid t r :: post ->
  let vals := window_vals cfg base (marks_of pre) t in
  w_total r = n_total vals /\ w_accepts r = n_success vals.
Proof.
  intros cfg base calls sched pre tid t r post (Hb & Hiv & Hp) Hs Hlog. cbn zeta.
  destruct (iv_reads _ _ _ _ (ireach_inv cfg base calls sched Hs) _ _ _ _ _ Hlog) as (Er & Hm & Hl).
  destruct (history_counts (rw_run (winit cfg base) (marks_of pre)) t) as (H1 & H2 & _).
  rewrite <- Er in H1, H2.
  assert (Hcat : concat (rw_reduce (rw_run (winit cfg base) (marks_of pre)) t) =
                 window_vals cfg base (marks_of pre) t).
  { unfold winit, window_vals. rewrite reduce_concat_window; try assumption; try lia.
    rewrite Z2Nat.id by lia. reflexivity. }
  rewrite Hcat in H1, H2. auto.
Qed.

(* T1 for every interleaving: a rejection was decided on the thread's own earlier read, and
   the calls recorded before that read, in its window, satisfy the admission law *)
Lemma interleaved_reject_over : forall cfg base calls sched tid t r,
  cfg_ok cfg -> sched_ok sched ->
  In (EvDecide tid t r VReject) (i_log (ireach cfg base calls sched)) ->
  exists pre t0 post,
    i_log (ireach cfg base calls sched) = pre ++ EvRead tid t0 r :: post /\
    In (EvDecide tid t r VReject) post /\
    let vals := window_vals cfg base (marks_of pre) t0 in
    over cfg (n_total vals) (n_success vals).
Proof.
  intros cfg base calls sched tid t r Hcfg Hs Hin.
  destruct (iv_dec _ _ _ _ (ireach_inv cfg base calls sched Hs) _ _ _ _ Hin)
    as ((lp & Hv) & pre & t0 & post & Hlog & Hin').
  exists pre, t0, post. split; [exact Hlog|]. split; [exact Hin'|]. cbn zeta.
  destruct (interleaved_read_sums cfg base calls sched pre tid t0 r post Hcfg Hs Hlog) as (S1 & S2).
  rewrite <- S1, <- S2. eapply reject_over_read; [| |symmetry; exact Hv].
  - rewrite S2. apply n_if_nonneg.
  - rewrite S1. unfold n_total. lia.
Qed.

(* T2 for every interleaving: at any moment a call has marked at most once; when it has
   returned it has marked exactly once with the value fixed by its verdict and outcome and
   produced the matching observation (nothing at all for a done context); and the window is
   exactly the log of marks *)
Lemma interleaved_accounting : forall cfg base calls sched tid,
  cfg_ok cfg -> sched_ok sched -> (tid < length calls)%nat ->
  let w := ireach cfg base calls sched in
  let c := nth tid calls dummy_call in
  (length (marks_by tid (i_log w)) <= 1)%nat /\
  (forall ro o, nth tid (i_threads w) TInit = TDone ro o ->
     (ro = None /\ k_ctx c = CDone /\ o = ctx_obs /\ marks_by tid (i_log w) = []) \/
     (exists r t v tm, ro = Some r /\ In (EvDecide tid t r v) (i_log w) /\
        marks_by tid (i_log w) = [EvMark tid tm (mark_value c v)] /\ o = call_obs c v)) /\
  (forall now, i_clock w <= now ->
     let h := history (swin (i_st w)) now in
     let vals := window_vals cfg base (marks_of (i_log w)) now in
     w_total h = n_total vals /\ w_accepts h = n_success vals /\
     sum_fail (swin (i_st w)) now = n_fail vals /\ sum_drop (swin (i_st w)) now = n_drop vals).
Proof.
  intros cfg base calls sched tid Hcfg Hs Htid. cbn zeta.
  pose proof (ireach_inv cfg base calls sched Hs) as Hinv.
  pose proof (iv_thr _ _ _ _ Hinv tid Htid) as Hth.
  split; [|split].
  - unfold thread_ok in Hth. destruct (nth tid (i_threads _) TInit) as [|r|r v|[r|] o].
    + rewrite Hth. cbn. lia.
    + destruct Hth as (-> & _). cbn. lia.
    + destruct Hth as (-> & _). cbn. lia.
    + destruct Hth as (t & v & tm & _ & -> & _). cbn. lia.
    + destruct Hth as (-> & _). cbn. lia.
  - intros ro o E. rewrite E in Hth. cbn in Hth. destruct ro as [r|].
    + right. destruct Hth as (t & v & tm & H1 & H2 & H3). exists r, t, v, tm. auto.
    + left. destruct Hth as (H1 & H2 & H3). auto.
  - intros now Hnow.
    destruct Hcfg as (Hb & Hiv & Hp). destruct Hinv as [Hw Hm Hc Hl Hr Hd Ht].
    set (w := ireach cfg base calls sched) in *.
    assert (Hcat : concat (rw_reduce (swin (i_st w)) now) = window_vals cfg base (marks_of (i_log w)) now).
    { rewrite Hw. unfold winit, window_vals. rewrite reduce_concat_window; try assumption; try lia.
      rewrite Z2Nat.id by lia. reflexivity. }
    destruct (history_counts (swin (i_st w)) now) as (H1 & H2 & _).
    rewrite Hcat in H1, H2. unfold sum_fail, sum_drop. rewrite sum_fold_fail, sum_fold_drop, Hcat.
    repeat split; auto.
Qed.
