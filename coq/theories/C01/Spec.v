(* C01 — vocabulary of the theorem statements (definitions only, no proofs). *)
From Coq Require Import List ZArith QArith Bool.
From GZ Require Import Lib.RollingWindow Lib.RollingWindowSpec C01.Model.
Import ListNotations.
Open Scope Z_scope.

(* side conditions on the constants (re-proved for today's source in GenProofs.v) *)
Definition cfg_ok (cfg : config) : Prop :=
  1 <= c_buckets cfg /\ 0 < bucket_duration cfg /\ 0 <= c_protection cfg.

(* clocks only move forward *)
Definition times_ok (cs : list call) : Prop := Forall (fun c => 0 <= k_gap c /\ 0 <= k_dur c) cs.

(* the world after a history of calls on a breaker created at time base *)
Definition reach (cfg : config) (base : Z) (cs : list call) : world := final cfg (init_world cfg base) cs.

(* ---- "the calls recorded in the preceding window", over the ghost log of stat.Add *)

(* values recorded during the last `buckets` intervals up to and including the one
   containing now (interval index of t = (t - base) / bucketDuration) *)
Definition window_vals (cfg : config) (base : Z) (marks : list (Z * Z)) (now : Z) : list Z :=
  let n := rw_idx base (bucket_duration cfg) now in
  rw_vals_in base (bucket_duration cfg) marks (n - c_buckets cfg + 1) n.

Definition is_success (v : Z) : bool := negb (v =? 1) && negb (v =? 2).
Definition is_fail (v : Z) : bool := v =? 1.
Definition is_drop (v : Z) : bool := v =? 2.

Definition n_total (l : list Z) : Z := Z.of_nat (length l).
Definition n_if (p : Z -> bool) (l : list Z) : Z := Z.of_nat (length (filter p l)).
Definition n_success := n_if is_success.
Definition n_fail := n_if is_fail.
Definition n_drop := n_if is_drop.

(* the admission law on counts: non-accepted > protection + (minK - 1) * accepted *)
Definition over (cfg : config) (total accepts : Z) : Prop :=
  (inject_Z (c_protection cfg) + (c_minK cfg - 1) * inject_Z accepts < inject_Z (total - accepts))%Q.

(* ---- the previous throttled admission *)

(* time of the last decision that let a call through while throttling (0: none) *)
Definition last_throttled (ds : list (Z * verdict)) : Z :=
  fold_left (fun acc d => if throttled_pass (snd d) then fst d else acc) ds 0.

Definition some_throttled (ds : list (Z * verdict)) : Prop :=
  exists d, In d ds /\ throttled_pass (snd d) = true.

(* a call replaced its draw *)
Definition with_draw (c : call) (u : Q) : call :=
  mkCall (k_entry c) (k_ctx c) (k_out c) (k_gap c) (k_dur c) u.

Definition recorded_calls (cs : list call) : Z :=
  Z.of_nat (length (filter (fun c => match k_ctx c with CDone => false | _ => true end) cs)).

(* ---- interleavings *)

Definition sched_ok (sched : list (nat * Z)) : Prop := Forall (fun a => 0 <= snd a) sched.

Definition ireach (cfg : config) (base : Z) (calls : list call) (sched : list (nat * Z)) : iworld :=
  irun cfg calls (init_iworld cfg base (length calls)) sched.

Definition is_mark_of (tid : nat) (e : event) : bool :=
  match e with EvMark t _ _ => Nat.eqb t tid | _ => false end.

Definition marks_by (tid : nat) (l : list event) : list event := filter (is_mark_of tid) l.

(* the decisions of an interleaved log, as a decision log (time, verdict), oldest first *)
Fixpoint decisions_of (l : list event) : list (Z * verdict) :=
  match l with
  | [] => []
  | EvDecide _ t _ v :: l' => (t, v) :: decisions_of l'
  | _ :: l' => decisions_of l'
  end.

(* read off an observation *)
Definition was_rejected (o : obs) : bool := match o_verdict o with Some VReject => true | _ => false end.
Definition was_admitted (o : obs) : bool :=
  match o_verdict o with Some v => negb (rejected v) | None => false end.
