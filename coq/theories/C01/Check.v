(* C01 — correspondence / property evaluation on histories observed on the
   implementation.  Executable only.

   agrees  : the model (C01/Model.v over Lib/RollingWindow.v, constants regenerated from
             googlebreaker.go) reproduces every observable of every call, up to the first
             call whose float64 comparison is a near-tie of the exact one.
   prop_ok : the property text, evaluated directly on the observed history with a
             reference window (interval index -> sums of the recorded calls); it uses
             neither rw_* nor step/accept of the model. *)
From Coq Require Import List ZArith QArith Bool.
From GZ Require Export Lib.CheckLib Lib.RollingWindow Lib.RollingWindowSpec C01.Model C01.Gen C01.WrapModel C01.Multi.
From GZgen Require Export C01Consts.
Import ListNotations.
Open Scope Z_scope.

(* what the executor reports per call *)
Record iobs := mkI
  { x_res : result; x_req : Z; x_fb : Z;
    x_fbarg : bool;      (* the fallback was handed ErrServiceUnavailable *)
    x_draws : Z;         (* number of random draws made during the call *)
    x_last : Z;          (* lastPass - base after the call, -1 when lastPass = 0 *)
    x_acc : Z; x_tot : Z; x_failing : Z; x_working : Z;   (* history() after the call *)
    x_fail : Z; x_drop : Z;                               (* Reduce: sums of Failure / Drop *)
    x_pacc : Z; x_ptot : Z; x_pfailing : Z; x_pworking : Z;   (* history() just before the call *)
    x_pred : Z }.        (* the caller's predicate: 10 * (times called) + (times called with the value the request returned) *)

(* the injected draw: r.Float64() = m / 2^53 *)
Definition mkU (m : Z) : Q := Qmake m 9007199254740992.

(* wrapper executors: one call through a wrapper in front of a real breaker whose decision
   is forced, and what was observed *)
Record wcall := mkWC { wc_kind : wkind; wc_rej : bool; wc_ctx : wctx; wc_d : derr }.
Record wobs := mkWO { wo_invoked : Z; wo_succ : Z; wo_fail : Z; wo_drop : Z; wo_seen : seen }.
(* REST: next handler invoked?, what the client got *)
Record robs := mkRO { ro_invoked : Z; ro_seen : rseen }.

(* forced interleavings: what the executor reports after every schedule action ... *)
Record sobs := mkS
  { s_draws : Z; s_last : Z; s_acc : Z; s_tot : Z; s_failing : Z; s_working : Z; s_fail : Z; s_drop : Z }.
(* ... and per call at the end of the schedule (state 0 not started, 1 parked in its request /
   holding its promise, 2 returned) *)
Record tobs := mkT { t_state : Z; t_res : result; t_req : Z; t_fb : Z; t_fbarg : bool }.

Record case := mkCase
  { cbase : Z; ccalls : list call;
    cobs : list iobs;               (* sequential history: one observation per call *)
    csched : list (nat * Z);        (* non-empty: the calls are concurrent, forced schedule *)
    csobs : list sobs; ctobs : list tobs;
    cwcalls : list wcall; cwobs : list wobs;     (* non-empty: independent wrapper calls *)
    crest : list hreq; crobs : list robs;        (* non-empty: requests through one BreakerHandler *)
    cnamed : list bool;                          (* non-empty: several breakers (true: a registry name) *)
    cmops : list mop; cmobs : list (option iobs) }.  (* operations; one row per call node in pre-order,
                                                        None when the node never ran *)

(* ------------------------------------------------------------ near-ties *)

Definition two30 : Q := 1073741824 # 1.
Definition Qabs' (a : Q) : Q := if Qle_bool 0 a then a else (- a)%Q.
Definition Qmax' (a b : Q) : Q := if Qle_bool a b then b else a.
(* |a-b| < 2^-30 * max(|a|,|b|) *)
Definition rel_close (a b : Q) : bool :=
  Qltb (Qabs' (a - b) * two30)%Q (Qmax' (Qabs' a) (Qabs' b)).

(* dropRatio <= 0 decided on a (near-)tie.  With failingBuckets = 0 (w = k = 1.5) or
   accepts = 0 (w*0 = 0) the float64 computation is exact on integers below 2^52, so
   only f > 0 with accepts > 0 counts. *)
Definition tie_sign (cfg : config) (r : wres) : bool :=
  negb (w_failing r =? 0) && negb (w_accepts r =? 0) &&
  (Qeq_bool (drop_num cfg r) 0 ||
   rel_close (inject_Z (w_total r - c_protection cfg)) (weight cfg r * inject_Z (w_accepts r))%Q).

Definition tie_draw (cfg : config) (r : wres) (u : Q) : bool := rel_close u (scaled_ratio cfg r).

Definition near_tie (cfg : config) (r : wres) (lastPass now : Z) (u : Q) : bool :=
  tie_sign cfg r ||
  (negb (Qle_bool (drop_ratio cfg r) 0) && negb (force_due cfg lastPass now) && tie_draw cfg r u).

(* ------------------------------------------------------------ agrees *)

Definition result_eqb (a b : result) : bool :=
  match a, b with
  | RNil, RNil | RUnavailable, RUnavailable | RErrU, RErrU | RErrA, RErrA
  | RPanic, RPanic | RFallback, RFallback | RCtxDone, RCtxDone | ROther, ROther
  | RErrSUW, RErrSUW | RDeadline, RDeadline | RPanicSU, RPanicSU => true
  | _, _ => false
  end.

Definition draws_of (v : option verdict) : Z :=
  match v with Some VReject | Some VRandomPass => 1 | _ => 0 end.

Definition obs_match (base : Z) (w1 : world) (m : obs) (o : iobs) : bool :=
  let h := history (swin (w_st w1)) (w_clock w1) in
  result_eqb (o_res m) (x_res o) && (o_req m =? x_req o) && (o_fb m =? x_fb o) &&
  (implb (0 <? x_fb o) (x_fbarg o)) &&
  (draws_of (o_verdict m) =? x_draws o) &&
  ((if slast (w_st w1) =? 0 then -1 else slast (w_st w1) - base) =? x_last o) &&
  (w_accepts h =? x_acc o) && (w_total h =? x_tot o) &&
  (w_failing h =? x_failing o) && (w_working h =? x_working o) &&
  (sum_fail (swin (w_st w1)) (w_clock w1) =? x_fail o) &&
  (sum_drop (swin (w_st w1)) (w_clock w1) =? x_drop o).

(* the caller's predicate is asked exactly once, about the value the request returned (nil
   included), by an admitted DoWithAcceptable / DoWithFallbackAcceptable call whose request did
   not panic; never otherwise *)
Definition pred_expected (c : call) (m : obs) : Z :=
  match k_entry c, o_verdict m with
  | (EDoAcc | EDoFbAcc), Some v =>
    if rejected v then 0
    else match k_out c with OPanic | OPanicSU => 0 | _ => 11 end
  | _, _ => 0
  end.

Fixpoint agrees_from (cfg : config) (base : Z) (w : world) (cs : list call) (os : list iobs) : bool :=
  match cs, os with
  | [], [] => true
  | c :: cs', o :: os' =>
    let now := w_clock w + k_gap c in
    let tie := match k_ctx c with
               | CDone => false
               | _ => near_tie cfg (history (swin (w_st w)) now) (slast (w_st w)) now (k_u c)
               end in
    let h0 := history (swin (w_st w)) now in
    if negb ((w_accepts h0 =? x_pacc o) && (w_total h0 =? x_ptot o) &&
             (w_failing h0 =? x_pfailing o) && (w_working h0 =? x_pworking o)) then false
    else if tie then true     (* float64 vs exact: the rest of the history is not compared *)
    else let '(w1, m) := step cfg w c in
         obs_match base w1 m o && (pred_expected c m =? x_pred o) && agrees_from cfg base w1 cs' os'
  | _, _ => false
  end.

Definition seq_agrees (c : case) : bool :=
  agrees_from cfg_gen (cbase c) (init_world cfg_gen (cbase c)) (ccalls c) (cobs c).

(* ---- forced interleavings.  One schedule action of the executor is: start = read; decide;
   and, when rejected, mark (the implementation cannot be stopped between them: the gates
   are in the request callback), finish = mark. *)
Definition macro (cfg : config) (calls : list call) (w : iworld) (a : nat * Z)
  : iworld * bool * Z :=    (* new world, near-tie, draws *)
  let '(tid, dt) := a in
  match nth tid (i_threads w) (TDone None ctx_obs) with
  | TInit =>
    let w1 := istep cfg calls w (tid, dt) in
    match nth tid (i_threads w1) TInit with
    | TRead r =>
      let c := nth tid calls dummy_call in
      let tie := near_tie cfg r (slast (i_st w1)) (i_clock w1) (k_u c) in
      let w2 := istep cfg calls w1 (tid, 0) in
      match nth tid (i_threads w2) TInit with
      | TDecided _ v =>
        (if rejected v then istep cfg calls w2 (tid, 0) else w2, tie, draws_of (Some v))
      | _ => (w2, tie, 0)
      end
    | _ => (w1, false, 0)
    end
  | _ => (istep cfg calls w (tid, dt), false, 0)
  end.

Definition sobs_match (base : Z) (w : iworld) (draws : Z) (o : sobs) : bool :=
  let h := history (swin (i_st w)) (i_clock w) in
  (draws =? s_draws o) &&
  ((if slast (i_st w) =? 0 then -1 else slast (i_st w) - base) =? s_last o) &&
  (w_accepts h =? s_acc o) && (w_total h =? s_tot o) &&
  (w_failing h =? s_failing o) && (w_working h =? s_working o) &&
  (sum_fail (swin (i_st w)) (i_clock w) =? s_fail o) &&
  (sum_drop (swin (i_st w)) (i_clock w) =? s_drop o).

Definition tobs_match (calls : list call) (tid : nat) (ts : tstate) (o : tobs) : bool :=
  let c := nth tid calls dummy_call in
  match ts with
  | TInit => (t_state o =? 0) && (t_req o =? 0) && (t_fb o =? 0)
  | TRead _ => false
  | TDecided _ _ => (t_state o =? 1) && (t_req o =? (if is_allow (k_entry c) then 0 else 1)) && (t_fb o =? 0)
  | TDone _ m => (t_state o =? 2) && result_eqb (o_res m) (t_res o) && (o_req m =? t_req o) &&
                 (o_fb m =? t_fb o) && implb (0 <? t_fb o) (t_fbarg o)
  end.

Fixpoint tobs_all (calls : list call) (tid : nat) (ts : list tstate) (os : list tobs) : bool :=
  match ts, os with
  | [], [] => true
  | t :: ts', o :: os' => tobs_match calls tid t o && tobs_all calls (S tid) ts' os'
  | _, _ => false
  end.

Fixpoint conc_from (cfg : config) (base : Z) (calls : list call) (w : iworld)
         (sched : list (nat * Z)) (os : list sobs) (ts : list tobs) : bool :=
  match sched, os with
  | [], [] => tobs_all calls 0 (i_threads w) ts
  | a :: sched', o :: os' =>
    let '(w1, tie, draws) := macro cfg calls w a in
    if tie then true
    else sobs_match base w1 draws o && conc_from cfg base calls w1 sched' os' ts
  | _, _ => false
  end.

Definition conc_agrees (c : case) : bool :=
  conc_from cfg_gen (cbase c) (ccalls c) (init_iworld cfg_gen (cbase c) (length (ccalls c)))
            (csched c) (csobs c) (ctobs c).

(* ---- wrappers *)
Definition seen_eqb (a b : seen) : bool :=
  match a, b with
  | SNil, SNil | SSame, SSame | SBreakerUnavailable, SBreakerUnavailable
  | SCtxErr, SCtxErr | SPanic, SPanic => true
  | SStatus x, SStatus y => x =? y
  | SBool x, SBool y => Bool.eqb x y
  | _, _ => false
  end.

Definition rseen_eqb (a b : rseen) : bool :=
  match a, b with
  | RSCode x, RSCode y | RSPanic x, RSPanic y => x =? y
  | _, _ => false
  end.

(* Redis.GetCtx turns redis.Nil into ("", nil) above the hook *)
Definition real_seen (k : wkind) (d : derr) (s : seen) : seen :=
  match k, d, s with
  | WRedisReal, DRedisNil, SSame => SNil
  | _, _, _ => s
  end.

Definition wcall_agrees (c : wcall) (o : wobs) : bool :=
  let r := wrapx (wc_kind c) (wc_rej c) (wc_ctx c) (wc_d c) in
  (wr_invoked r =? wo_invoked o) && (wr_succ r =? wo_succ o) && (wr_fail r =? wo_fail o) &&
  (wr_drop r =? wo_drop o) && seen_eqb (real_seen (wc_kind c) (wc_d c) (wr_seen r)) (wo_seen o).

Fixpoint all2 {A B} (f : A -> B -> bool) (l1 : list A) (l2 : list B) : bool :=
  match l1, l2 with
  | [], [] => true
  | x :: l1', y :: l2' => f x y && all2 f l1' l2'
  | _, _ => false
  end.

(* ---- several breakers / registry / nested calls (C01/Multi.v) *)
Definition nop_match (m : obs) (o : iobs) : bool :=
  result_eqb (o_res m) (x_res o) && (o_req m =? x_req o) && (o_fb m =? x_fb o) &&
  (x_draws o =? 0) && (x_last o =? -1) && (x_tot o =? 0) && (x_ptot o =? 0) && (x_fail o =? 0) && (x_drop o =? 0).

Definition row_tie (cfg : config) (r : mrow) : bool :=
  match r with
  | MRun lc _ wpre _ =>
    let now := w_clock wpre + k_gap lc in
    match k_ctx lc with
    | CDone => false
    | _ => near_tie cfg (history (swin (w_st wpre)) now) (slast (w_st wpre)) now (k_u lc)
    end
  | _ => false
  end.

Definition row_match (base : Z) (r : mrow) (o : option iobs) : bool :=
  match r, o with
  | MSkip, None => true
  | MNopRun m, Some o => nop_match m o
  | MRun lc m wpre wpost, Some o =>
    let now := w_clock wpre + k_gap lc in
    let h0 := history (swin (w_st wpre)) now in
    (w_accepts h0 =? x_pacc o) && (w_total h0 =? x_ptot o) &&
    (w_failing h0 =? x_pfailing o) && (w_working h0 =? x_pworking o) &&
    obs_match base wpost m o
  | _, _ => false
  end.

Definition op_wf (nslots : nat) (op : mop) : bool :=
  match op with MCall n => nwf nslots n | MNoBreaker i _ => (i <? nslots)%nat end.

Definition op_calls (op : mop) : list call :=
  match op with MCall n => ncalls n | MNoBreaker _ _ => [] end.

Fixpoint magrees_ops (cfg : config) (base : Z) (ms : mworld) (ops : list mop) (os : list (option iobs)) : bool :=
  match ops with
  | [] => match os with [] => true | _ => false end
  | op :: ops' =>
    let '(ms1, rows) := mstep cfg ms op in
    if existsb (row_tie cfg) rows then true      (* float64 vs exact: stop comparing *)
    else let n := length rows in
         all2 (row_match base) rows (firstn n os) && magrees_ops cfg base ms1 ops' (skipn n os)
  end.

Fixpoint rest_agrees_from (cfg : config) (w : world) (rs : list hreq) (os : list robs) : bool :=
  match rs, os with
  | [], [] => true
  | r :: rs', o :: os' =>
    let now := w_clock w + hq_gap r in
    if near_tie cfg (history (swin (w_st w)) now) (slast (w_st w)) now (hq_u r) then true
    else let '(w1, m) := step cfg w (rest_call r) in
         let rr := rest_obs r m in
         (rr_invoked rr =? ro_invoked o) && rseen_eqb (rr_seen rr) (ro_seen o) &&
         rest_agrees_from cfg w1 rs' os'
  | _, _ => false
  end.

Definition multi_agrees (c : case) : bool :=
  forallb (op_wf (length (cnamed c))) (cmops c) &&
  magrees_ops cfg_gen (cbase c) (minit cfg_gen (cbase c) (cnamed c)) (cmops c) (cmobs c).

Definition agrees (c : case) : bool :=
  match cnamed c with _ :: _ => multi_agrees c | [] =>
  match cwcalls c, crest c, csched c with
  | _ :: _, _, _ => all2 wcall_agrees (cwcalls c) (cwobs c)
  | [], _ :: _, _ => forallb (fun r => hout_wf (hq_out r)) (crest c) &&
                     rest_agrees_from cfg_gen (init_world cfg_gen (cbase c)) (crest c) (crobs c)
  | [], [], [] => seq_agrees c
  | [], [], _ => conc_agrees c
  end end.

Definition model_wobs (c : case) :=
  (map (fun k => wrapx (wc_kind k) (wc_rej k) (wc_ctx k) (wc_d k)) (cwcalls c),
   rest_run cfg_gen (cbase c) (crest c)).

Definition model_obs (c : case) :=
  match csched c with
  | [] => map (fun o => (o_res o, o_req o, o_fb o, o_verdict o))
              (snd (run cfg_gen (init_world cfg_gen (cbase c)) (ccalls c)))
  | _ => map (fun t => match t with
                       | TDone _ o => (o_res o, o_req o, o_fb o, o_verdict o)
                       | TDecided _ v => (ROther, 1, 0, Some v)
                       | _ => (ROther, 0, 0, None)
                       end)
             (i_threads (fold_left (fun w a => fst (fst (macro cfg_gen (ccalls c) w a))) (csched c)
                                   (init_iworld cfg_gen (cbase c) (length (ccalls c)))))
  end.

(* ------------------------------------------------------------ prop_ok *)

(* the constants of the property text *)
Definition prop_protection : Z := 5.             (* "exceed 5 ..." *)
Definition prop_fraction : Q := 1 # 10.          (* "... plus 10% of the accepted ones" *)
Definition prop_force : Z := 1000000000.         (* "more than 1 s after ..." *)
Definition prop_window : Z := 10000000000.       (* "the preceding 10 s window" *)

(* reference window: interval index -> sums of the calls recorded in that interval *)
Definition rlog := list (Z * bstat).

Fixpoint ref_add (l : rlog) (i v : Z) : rlog :=
  match l with
  | [] => [(i, bucket_add b_zero v)]
  | (j, b) :: l' => if j =? i then (j, bucket_add b v) :: l' else (j, b) :: ref_add l' i v
  end.

Fixpoint ref_bucket (l : rlog) (i : Z) : bstat :=
  match l with
  | [] => b_zero
  | (j, b) :: l' => if j =? i then b else ref_bucket l' i
  end.

Record geom := mkGeom { g_t0 : Z; g_iv : Z; g_size : Z }.

Definition ref_buckets (g : geom) (l : rlog) (now : Z) : list bstat :=
  let n := rw_idx (g_t0 g) (g_iv g) now in
  map (ref_bucket l) (zrange (n - g_size g + 1) n).

Definition ref_history (g : geom) (l : rlog) (now : Z) : wres := hist_of (ref_buckets g l now).

Definition ref_record (g : geom) (l : rlog) (t v : Z) : rlog :=
  ref_add l (rw_idx (g_t0 g) (g_iv g) t) v.

Record pstate := mkP
  { p_log : rlog; p_clock : Z;
    p_lsure : Z;          (* time of the last admission made while surely throttling; 0 = none *)
    p_unsure : bool }.    (* some earlier admission was a near-tie: lastPass is not known *)

Definition sums_match (g : geom) (l : rlog) (now : Z) (o : iobs) : bool :=
  let bs := ref_buckets g l now in
  let h := hist_of bs in
  (w_accepts h =? x_acc o) && (w_total h =? x_tot o) &&
  (w_failing h =? x_failing o) && (w_working h =? x_working o) &&
  (fold_left (fun a b => a + b_fail b) bs 0 =? x_fail o) &&
  (fold_left (fun a b => a + b_drop b) bs 0 =? x_drop o).

(* T1 on reference counts: non-accepted > 5 + 10% of accepted *)
Definition over_limit (h : wres) : bool :=
  Qltb (inject_Z prop_protection + prop_fraction * inject_Z (w_accepts h))%Q
       (inject_Z (w_total h - w_accepts h)).

(* the window accept() read is the reference window *)
Definition pc_pre (g : geom) (p : pstate) (now : Z) (o : iobs) : bool :=
  let h := ref_history g (p_log p) now in
  (w_accepts h =? x_pacc o) && (w_total h =? x_ptot o) &&
  (w_failing h =? x_pfailing o) && (w_working h =? x_pworking o).

(* done context: ctx.Err(), nothing runs, nothing recorded *)
Definition pc_done (g : geom) (p : pstate) (now : Z) (o : iobs) : bool :=
  result_eqb (x_res o) RCtxDone && (x_req o =? 0) && (x_fb o =? 0) && sums_match g (p_log p) now o.

(* Was the call rejected?  Read off what only a rejection / an admission can show: a Do*
   call was admitted iff its request ran; Allow was admitted iff it returned nil.  The
   returned VALUE does not tell: the request of an admitted call may itself return
   ErrServiceUnavailable (a nested breaker that is open) or the fallback's value. *)
Definition pc_rejected (e : entry) (o : iobs) : bool :=
  if is_allow e then negb (result_eqb (x_res o) RNil) else (x_req o =? 0).

Definition pc_reject (g : geom) (p : pstate) (now : Z) (e : entry) (o : iobs) : pstate * bool :=
  let h := ref_history g (p_log p) now in
  let log' := ref_record g (p_log p) now v_drop in
  (mkP log' now (p_lsure p) (p_unsure p),
   (* T2: request not run, fallback exactly once iff there is one, one drop recorded *)
   (x_req o =? 0) &&
   (if has_fallback e then result_eqb (x_res o) RFallback && (x_fb o =? 1) && x_fbarg o
    else result_eqb (x_res o) RUnavailable && (x_fb o =? 0)) &&
   sums_match g log' now o &&
   (* T1 *)
   over_limit h &&
   (* T3: not later than 1 s after the previous throttled admission *)
   (p_unsure p || negb ((0 <? p_lsure p) && (prop_force <? now - p_lsure p)))).

(* an admitted call whose request returned at [t] what makes the call return [expected] and
   count as a success iff [succ] *)
Definition pc_admit (cfg : config) (g : geom) (p : pstate) (now t : Z) (e : entry)
           (expected : result) (succ : bool) (u : Q) (o : iobs) : pstate * bool :=
  let h := ref_history g (p_log p) now in
  let x := if succ then v_success else v_fail in
  let log' := ref_record g (p_log p) t x in
  let sure_pos := negb (Qle_bool (drop_ratio cfg h) 0) && negb (tie_sign cfg h) in
  (mkP log' t (if sure_pos then now else p_lsure p) (p_unsure p || tie_sign cfg h),
   (* T2: request exactly once, error unchanged / panic re-raised, the fallback does not run,
      one success or failure *)
   result_eqb (x_res o) expected &&
   (x_req o =? (if is_allow e then 0 else 1)) && (x_fb o =? 0) &&
   sums_match g log' t o &&
   (* T4: total failure, no force-pass due, draw surely below (total-5)/(total+1) *)
   negb (negb (p_unsure p) && (w_accepts h =? 0) &&
         negb (force_due cfg (p_lsure p) now) &&
         Qltb u ((inject_Z (w_total h - prop_protection) / inject_Z (w_total h + 1)))%Q &&
         negb (rel_close u (inject_Z (w_total h - prop_protection) / inject_Z (w_total h + 1))%Q))).

Definition pcheck (cfg : config) (g : geom) (p : pstate) (c : call) (o : iobs) : pstate * bool :=
  let now := p_clock p + k_gap c in
  let e := k_entry c in
  match k_ctx c with
  | CDone => (mkP (p_log p) now (p_lsure p) (p_unsure p), pc_done g p now o)
  | _ =>
    if pc_rejected e o then
      let '(p', ok) := pc_reject g p now e o in (p', pc_pre g p now o && ok)
    else
      let '(p', ok) := pc_admit cfg g p now (now + k_dur c) e (result_of e (k_out c))
                                (counts_as_success e (k_out c)) (k_u c) o in
      (p', pc_pre g p now o && ok)
  end.

Fixpoint pcheck_all (cfg : config) (g : geom) (p : pstate) (cs : list call) (os : list iobs) : bool :=
  match cs, os with
  | [], [] => true
  | c :: cs', o :: os' => let '(p', ok) := pcheck cfg g p c o in ok && pcheck_all cfg g p' cs' os'
  | _, _ => false
  end.

Definition seq_prop_ok (c : case) : bool :=
  pcheck_all cfg_gen (mkGeom (cbase c) (bucket_duration cfg_gen) gen_buckets)
             (mkP [] (cbase c) 0 false) (ccalls c) (cobs c).

(* ---- forced interleavings: T1 w.r.t. the window the call read (the calls recorded before
   its start action) and T2 (per call, and window sums after every action), from the
   observations only.  Whether a call was rejected at its start is read off its result. *)
Definition t_rejected (o : tobs) : bool :=
  (t_state o =? 2) && (t_req o =? 0) && match t_res o with RUnavailable | RFallback => true | _ => false end.

Definition dummy_tobs : tobs := mkT 0 ROther 0 0 false.

Fixpoint bump (n : nat) (l : list nat) : list nat :=
  match l, n with
  | [], _ => []
  | x :: l', O => S x :: l'
  | x :: l', S n' => x :: bump n' l'
  end.

Definition sums6 (g : geom) (l : rlog) (now : Z) (o : sobs) : bool :=
  let bs := ref_buckets g l now in
  let h := hist_of bs in
  (w_accepts h =? s_acc o) && (w_total h =? s_tot o) &&
  (w_failing h =? s_failing o) && (w_working h =? s_working o) &&
  (fold_left (fun a b => a + b_fail b) bs 0 =? s_fail o) &&
  (fold_left (fun a b => a + b_drop b) bs 0 =? s_drop o).

Fixpoint cprop_from (cfg : config) (g : geom) (calls : list call) (ts : list tobs) (l : rlog) (clock : Z)
         (lsure : Z) (unsure : bool)      (* as in pstate: the last sure throttled admission *)
         (cnt : list nat) (sched : list (nat * Z)) (os : list sobs) : bool * list nat :=
  match sched, os with
  | [], [] => (true, cnt)
  | (tid, dt) :: sched', o :: os' =>
    let now := clock + dt in
    let c := nth tid calls dummy_call in
    let tb := nth tid ts dummy_tobs in
    let n := nth tid cnt 2%nat in
    let live := match k_ctx c with CDone => false | _ => true end in
    let h := ref_history g l now in
    let '(l', ok, lsure', unsure') :=
      match n with
      | O => if live && t_rejected tb
             then (ref_record g l now v_drop,
                   over_limit h &&                                                   (* T1 *)
                   (* T3: a start action is read + decide, so "the previous throttled admission" is
                      the latest one among the start actions before this one - also when that call
                      is still in flight *)
                   (unsure || negb ((0 <? lsure) && (prop_force <? now - lsure))),
                   lsure, unsure)
             else if live
                  then (l, true,
                        (if negb (Qle_bool (drop_ratio cfg h) 0) && negb (tie_sign cfg h) then now else lsure),
                        unsure || tie_sign cfg h)
                  else (l, true, lsure, unsure)
      | S O => if live && negb (t_rejected tb)
               then (ref_record g l now (if counts_as_success (k_entry c) (k_out c) then v_success else v_fail), true,
                     lsure, unsure)
               else (l, true, lsure, unsure)
      | _ => (l, true, lsure, unsure)
      end in
    if ok && sums6 g l' now o
    then cprop_from cfg g calls ts l' now lsure' unsure' (bump tid cnt) sched' os'
    else (false, cnt)
  | _, _ => (false, cnt)
  end.

(* T2 per call at the end of the schedule *)
Definition tcheck (c : call) (n : nat) (o : tobs) : bool :=
  let e := k_entry c in
  match n with
  | O => (t_state o =? 0) && (t_req o =? 0) && (t_fb o =? 0)
  | _ =>
    match k_ctx c with
    | CDone => (t_state o =? 2) && result_eqb (t_res o) RCtxDone && (t_req o =? 0) && (t_fb o =? 0)
    | _ =>
      if t_rejected o then
        (t_req o =? 0) &&
        (if has_fallback e then result_eqb (t_res o) RFallback && (t_fb o =? 1) && t_fbarg o
         else result_eqb (t_res o) RUnavailable && (t_fb o =? 0))
      else
        (t_req o =? (if is_allow e then 0 else 1)) && (t_fb o =? 0) &&
        match n with
        | S O => t_state o =? 1
        | _ => (t_state o =? 2) && result_eqb (t_res o) (result_of e (k_out c))
        end
    end
  end.

Fixpoint tcheck_all (calls : list call) (cnt : list nat) (ts : list tobs) : bool :=
  match calls, cnt, ts with
  | [], [], [] => true
  | c :: calls', n :: cnt', o :: ts' => tcheck c n o && tcheck_all calls' cnt' ts'
  | _, _, _ => false
  end.

Definition conc_prop_ok (c : case) : bool :=
  let g := mkGeom (cbase c) (bucket_duration cfg_gen) gen_buckets in
  let '(ok, cnt) := cprop_from cfg_gen g (ccalls c) (ctobs c) [] (cbase c) 0 false
                               (repeat O (length (ccalls c))) (csched c) (csobs c) in
  ok && tcheck_all (ccalls c) cnt (ctobs c).

(* ---- wrappers: "resolves the promise exactly once: Accept on success / acceptable error,
   Reject otherwise; a rejected call never reaches the downstream and the caller sees
   503 / Unavailable / ErrServiceUnavailable", on the observations.  The tables of failures
   are written out here independently of WrapModel. *)
Definition spec_is_failure (k : wkind) (d : derr) : bool :=
  match d with
  | DPanic => true
  | DNil => false
  | DShaped _ b =>
    (* errors.Is semantics: whatever the shape (wrapped twice, joined, multi-%w, custom Is), the
       sentinel decides as it does bare - per site *)
    match k with
    | WGrpcClient => false
    | WGrpcServerUnary | WGrpcServerStream | WGrpcServerChain =>
      match b with BDeadline | BBreakerUnavailable => true | _ => false end
    | WRedisCmd | WRedisIgnoredCmd | WRedisPipeline | WRedisReal =>
      match b with BRedisNil | BCanceled => false | _ => true end
    | WSqlExec | WSqlPredicate | WSqlM _ _ =>
      match b with BSqlNoRows | BSqlTxDone | BCanceled => false | _ => true end
    end
  | _ =>
    match k with
    | WGrpcClient =>
      match d with DStatus c => existsb (Z.eqb c) [4; 8; 12; 13; 14; 15] | DStallTimeout => true | _ => false end
    | WGrpcServerUnary | WGrpcServerStream | WGrpcServerChain =>
      match d with
      | DStallTimeout => true      (* a timed-out call is a DeadlineExceeded *)
      | DStatus c => existsb (Z.eqb c) [4; 8; 12; 13; 14; 15]
      | DCtxDeadline | DBreakerUnavailable | DWrappedDeadline | DWrappedBreakerUnavailable => true
      | _ => false
      end
    | WRedisCmd | WRedisIgnoredCmd | WRedisPipeline | WRedisReal =>
      match d with DRedisNil | DWrappedRedisNil | DCtxCanceled | DWrappedCanceled => false | _ => true end
    | WSqlExec | WSqlPredicate | WSqlM _ _ =>
      match d with
      | DSqlNoRows | DSqlTxDone | DCtxCanceled | DWrappedCanceled | DSqlAcceptable
      | DWrappedSqlNoRows | DWrappedSqlTxDone => false
      | DSqlCustom i n => negb ((1 <=? i) && (i <=? n))     (* accepted by one of the n WithAcceptable options *)
      | DSqlScanFail =>                                     (* a scan failure does not count against the database *)
        match k with
        | WSqlM (MQueryRow | MQueryRowPartial | MQueryRows | MQueryRowsPartial) _ => false
        | _ => true
        end
      | _ => true
      end
    end
  end.

Definition wcall_prop (c : wcall) (o : wobs) : bool :=
  let k := wc_kind c in
  match k with
  | WSqlPredicate => seen_eqb (wo_seen o) (SBool (negb (spec_is_failure k (wc_d c))))
  | WRedisIgnoredCmd => (wo_invoked o =? 1) && (wo_succ o + wo_fail o + wo_drop o =? 0)
  | _ =>
    (* the context counts on entry only: done before the call => nothing happens; live on entry
       => the call is judged by the site's table whatever the context has become on return *)
    if (match k with WGrpcServerStream | WSqlM _ false => false
        | _ => match wc_ctx c with XDone | XExpired => true | _ => false end end) then
      (wo_invoked o =? 0) && (wo_succ o =? 0) && (wo_fail o =? 0) && (wo_drop o =? 0) &&
      seen_eqb (wo_seen o) SCtxErr
    else if wc_rej c then
      (wo_invoked o =? 0) && (wo_succ o =? 0) && (wo_fail o =? 0) && (wo_drop o =? 1) &&
      (seen_eqb (wo_seen o) SBreakerUnavailable || seen_eqb (wo_seen o) (SStatus 14))
    else
      (wo_invoked o =? 1) && (wo_drop o =? 0) &&
      (if spec_is_failure k (wc_d c) then (wo_succ o =? 0) && (wo_fail o =? 1)
       else (wo_succ o =? 1) && (wo_fail o =? 0)) &&
      match wc_d c with
      | DNil => seen_eqb (wo_seen o) SNil
      | DPanic => seen_eqb (wo_seen o) SPanic
      | _ => negb (seen_eqb (wo_seen o) SNil) || (match k, wc_d c with WRedisReal, DRedisNil => true | _, _ => false end)
      end
  end.

(* REST: the whole clause on a reference window fed with what the breaker MUST have recorded for
   each admitted request - success iff the status BreakerHandler has to judge (what reached
   its writer last; a timed-out request is a 503, also after a flush) is below 500.  The
   breaker of the handler cannot be read out, so a wrong record shows in the decisions that
   follow: T1 (rejected only when over the limit), T3 (no rejection later than 1 s after a
   sure throttled admission) and T4 (under recorded total failure a draw surely below
   (total-5)/(total+1) must be rejected). *)
Fixpoint rest_prop_from (cfg : config) (g : geom) (p : pstate) (rs : list hreq) (os : list robs) : bool :=
  match rs, os with
  | [], [] => true
  | r :: rs', o :: os' =>
    let now := p_clock p + hq_gap r in
    let h := ref_history g (p_log p) now in
    if ro_invoked o =? 0 then
      (* rejected: 503, never reaches the handler, and the window was over the limit *)
      rseen_eqb (ro_seen o) (RSCode 503) && over_limit h &&
      (p_unsure p || negb ((0 <? p_lsure p) && (prop_force <? now - p_lsure p))) &&
      rest_prop_from cfg g (mkP (ref_record g (p_log p) now v_drop) now (p_lsure p) (p_unsure p)) rs' os'
    else
      let t := now + hq_dur r in
      let x := if h_code (hq_out r) <? 500 then v_success else v_fail in
      let sure_pos := negb (Qle_bool (drop_ratio cfg h) 0) && negb (tie_sign cfg h) in
      let bound := (inject_Z (w_total h - prop_protection) / inject_Z (w_total h + 1))%Q in
      (ro_invoked o =? 1) &&
      rseen_eqb (ro_seen o) (match hq_out r with
                             | HCode c => RSCode c
                             | HPanic _ => RSPanic (h_code (hq_out r))
                             | HScript ch ops e => if snd (script_result ch ops e) then RSPanic (-2) else RSCode (-2)
                             end) &&
      negb (negb (p_unsure p) && (w_accepts h =? 0) && negb (force_due cfg (p_lsure p) now) &&
            Qltb (hq_u r) bound && negb (rel_close (hq_u r) bound)) &&
      rest_prop_from cfg g (mkP (ref_record g (p_log p) t x) t (if sure_pos then now else p_lsure p)
                                (p_unsure p || tie_sign cfg h)) rs' os'
  | _, _ => false
  end.

(* ---- several breakers / registry / nested calls, from the observations only: one reference
   window per breaker (its grid starts when the breaker came into being), the clock shared.
   The request of an admitted outer call returned what the inner call was OBSERVED to
   return (wrapped when it was ErrServiceUnavailable and the request wraps): the outer call
   must hand exactly that back, count it by its own predicate, and not run its fallback. *)
Inductive pslot := PFresh | PLive (g : geom) (p : pstate) | PNop.

Definition presolve (cfg : config) (now : Z) (s : pslot) : pslot :=
  match s with
  | PFresh => PLive (mkGeom now (bucket_duration cfg) (c_buckets cfg)) (mkP [] now 0 false)
  | _ => s
  end.

Definition all_none (l : list (option iobs)) : bool :=
  forallb (fun o => match o with None => true | Some _ => false end) l.

Definition mp_shell (cfg : config) (ps : list pslot) (clock : Z) (i : nat) (c : call) (nskip : nat)
           (body : list pslot -> Z -> list (option iobs) -> list pslot * Z * outcome * list (option iobs) * bool)
           (os : list (option iobs)) : list pslot * Z * result * list (option iobs) * bool :=
  match os with
  | Some o :: os1 =>
    let now := clock + k_gap c in
    let e := k_entry c in
    let sl := presolve cfg now (nth i ps PFresh) in
    let ps0 := set_nth i sl ps in
    match sl with
    | PFresh => (ps, clock, ROther, [], false)
    | PNop =>
      (* nopBreaker: the request runs once whatever the context, its result comes back, no fallback *)
      let '(ps1, clk1, out, os2, ok1) := body ps0 now os1 in
      (ps1, clk1 + k_dur c, x_res o, os2,
       ok1 && result_eqb (x_res o) (nop_result e out) && (x_req o =? (if is_allow e then 0 else 1)) && (x_fb o =? 0))
    | PLive g p =>
      match k_ctx c with
      | CDone => (ps0, now, x_res o, skipn nskip os1, pc_done g p now o && all_none (firstn nskip os1))
      | _ =>
        if pc_rejected e o then
          let '(p', ok) := pc_reject g p now e o in
          (set_nth i (PLive g p') ps0, now, x_res o, skipn nskip os1,
           pc_pre g p now o && ok && all_none (firstn nskip os1))
        else
          let '(ps1, clk1, out, os2, ok1) := body ps0 now os1 in
          let t := clk1 + k_dur c in
          let '(p', ok) := pc_admit cfg g p now t e (result_of e out) (counts_as_success e out) (k_u c) o in
          (set_nth i (PLive g p') ps1, t, x_res o, os2, pc_pre g p now o && ok1 && ok)
      end
    end
  | _ => (ps, clock, ROther, [], false)     (* a node whose enclosing request ran must have run *)
  end.

Fixpoint mp_node (cfg : config) (ps : list pslot) (clock : Z) (n : ncall) (os : list (option iobs))
  : list pslot * Z * result * list (option iobs) * bool :=
  match n with
  | NLeaf i c => mp_shell cfg ps clock i c 0 (fun ps0 clk os0 => (ps0, clk, k_out c, os0, true)) os
  | NNest i c wr inner =>
    mp_shell cfg ps clock i c (nsize inner)
             (fun ps0 clk os0 => let '(ps1, clk1, r, os1, ok) := mp_node cfg ps0 clk inner os0 in
                                 (ps1, clk1, outcome_via wr r, os1, ok)) os
  end.

Fixpoint mp_ops (cfg : config) (ps : list pslot) (clock : Z) (ops : list mop) (os : list (option iobs)) : bool :=
  match ops with
  | [] => match os with [] => true | _ => false end
  | MCall n :: ops' =>
    let '(ps1, clk1, _, os1, ok) := mp_node cfg ps clock n os in
    ok && mp_ops cfg ps1 clk1 ops' os1
  | MNoBreaker i gap :: ops' => mp_ops cfg (set_nth i PNop ps) (clock + gap) ops' os
  end.

Definition multi_prop_ok (c : case) : bool :=
  forallb (op_wf (length (cnamed c))) (cmops c) &&
  mp_ops cfg_gen
         (map (fun n : bool => if n then PFresh
                               else PLive (mkGeom (cbase c) (bucket_duration cfg_gen) gen_buckets) (mkP [] (cbase c) 0 false))
              (cnamed c))
         (cbase c) (cmops c) (cmobs c).

Definition prop_ok (c : case) : bool :=
  (* the window the property talks about is the one the source configures *)
  (gen_window =? prop_window) &&
  match cnamed c with _ :: _ => multi_prop_ok c | [] =>
  match cwcalls c, crest c, csched c with
  | _ :: _, _, _ => all2 wcall_prop (cwcalls c) (cwobs c)
  | [], _ :: _, _ => forallb (fun r => hout_wf (hq_out r)) (crest c) &&
                     rest_prop_from cfg_gen (mkGeom (cbase c) (bucket_duration cfg_gen) gen_buckets)
                                    (mkP [] (cbase c) 0 false) (crest c) (crobs c)
  | [], [], [] => seq_prop_ok c
  | [], [], _ => conc_prop_ok c
  end end.
