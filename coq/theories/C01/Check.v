(* C01 — correspondence / property evaluation on histories observed on the
   implementation.  Executable only.

   agrees  : the model (C01/Model.v over Lib/RollingWindow.v, constants regenerated from
             googlebreaker.go) reproduces every observable of every call, up to the first
             call whose float64 comparison is a near-tie of the exact one.
   prop_ok : the property text, evaluated directly on the observed history with a
             reference window (interval index -> sums of the recorded calls); it uses
             neither rw_* nor step/accept of the model. *)
From Coq Require Import List ZArith QArith Bool.
From GZ Require Export Lib.CheckLib Lib.RollingWindow Lib.RollingWindowSpec C01.Model C01.Gen.
From GZgen Require Export C01Consts.
Import ListNotations.
Open Scope Z_scope.

(* what the executor reports per call *)
Record iobs := mkI
  { x_res : result; x_req : Z; x_fb : Z;
    x_fbarg : bool;      (* the fallback was handed ErrServiceUnavailable *)
    x_draws : Z;         (* number of random draws made during the call *)
    x_last : Z;          (* lastPass - base after the call, -1 when lastPass = 0 *)
    x_acc : Z; x_tot : Z; x_failing : Z; x_working : Z;   (* history() after the call *)
    x_fail : Z; x_drop : Z;                               (* Reduce: sums of Failure / Drop *)
    x_pacc : Z; x_ptot : Z; x_pfailing : Z; x_pworking : Z }. (* history() just before the call *)

(* the injected draw: r.Float64() = m / 2^53 *)
Definition mkU (m : Z) : Q := Qmake m 9007199254740992.

Record case := mkCase { cbase : Z; ccalls : list call; cobs : list iobs }.

(* ------------------------------------------------------------ near-ties *)

Definition two30 : Q := 1073741824 # 1.
Definition Qabs' (a : Q) : Q := if Qle_bool 0 a then a else (- a)%Q.
Definition Qmax' (a b : Q) : Q := if Qle_bool a b then b else a.
(* |a-b| < 2^-30 * max(|a|,|b|) *)
Definition rel_close (a b : Q) : bool :=
  Qltb (Qabs' (a - b) * two30)%Q (Qmax' (Qabs' a) (Qabs' b)).

(* dropRatio <= 0 decided on a (near-)tie.  With failingBuckets = 0 (w = k = 1.5) or
   accepts = 0 (w*0 = 0) the float64 computation is exact on integers below 2^52, so
   only f > 0 with accepts > 0 counts. *)
Definition tie_sign (cfg : config) (r : wres) : bool :=
  negb (w_failing r =? 0) && negb (w_accepts r =? 0) &&
  (Qeq_bool (drop_num cfg r) 0 ||
   rel_close (inject_Z (w_total r - c_protection cfg)) (weight cfg r * inject_Z (w_accepts r))%Q).

Definition tie_draw (cfg : config) (r : wres) (u : Q) : bool := rel_close u (scaled_ratio cfg r).

Definition near_tie (cfg : config) (r : wres) (lastPass now : Z) (u : Q) : bool :=
  tie_sign cfg r ||
  (negb (Qle_bool (drop_ratio cfg r) 0) && negb (force_due cfg lastPass now) && tie_draw cfg r u).

(* ------------------------------------------------------------ agrees *)

Definition result_eqb (a b : result) : bool :=
  match a, b with
  | RNil, RNil | RUnavailable, RUnavailable | RErrU, RErrU | RErrA, RErrA
  | RPanic, RPanic | RFallback, RFallback | RCtxDone, RCtxDone | ROther, ROther => true
  | _, _ => false
  end.

Definition draws_of (v : option verdict) : Z :=
  match v with Some VReject | Some VRandomPass => 1 | _ => 0 end.

Definition obs_match (base : Z) (w1 : world) (m : obs) (o : iobs) : bool :=
  let h := history (swin (w_st w1)) (w_clock w1) in
  result_eqb (o_res m) (x_res o) && (o_req m =? x_req o) && (o_fb m =? x_fb o) &&
  (implb (0 <? x_fb o) (x_fbarg o)) &&
  (draws_of (o_verdict m) =? x_draws o) &&
  ((if slast (w_st w1) =? 0 then -1 else slast (w_st w1) - base) =? x_last o) &&
  (w_accepts h =? x_acc o) && (w_total h =? x_tot o) &&
  (w_failing h =? x_failing o) && (w_working h =? x_working o) &&
  (sum_fail (swin (w_st w1)) (w_clock w1) =? x_fail o) &&
  (sum_drop (swin (w_st w1)) (w_clock w1) =? x_drop o).

Fixpoint agrees_from (cfg : config) (base : Z) (w : world) (cs : list call) (os : list iobs) : bool :=
  match cs, os with
  | [], [] => true
  | c :: cs', o :: os' =>
    let now := w_clock w + k_gap c in
    let tie := match k_ctx c with
               | CDone => false
               | _ => near_tie cfg (history (swin (w_st w)) now) (slast (w_st w)) now (k_u c)
               end in
    let h0 := history (swin (w_st w)) now in
    if negb ((w_accepts h0 =? x_pacc o) && (w_total h0 =? x_ptot o) &&
             (w_failing h0 =? x_pfailing o) && (w_working h0 =? x_pworking o)) then false
    else if tie then true     (* float64 vs exact: the rest of the history is not compared *)
    else let '(w1, m) := step cfg w c in
         obs_match base w1 m o && agrees_from cfg base w1 cs' os'
  | _, _ => false
  end.

Definition agrees (c : case) : bool :=
  agrees_from cfg_gen (cbase c) (init_world cfg_gen (cbase c)) (ccalls c) (cobs c).

Definition model_obs (c : case) :=
  map (fun o => (o_res o, o_req o, o_fb o, o_verdict o))
      (snd (run cfg_gen (init_world cfg_gen (cbase c)) (ccalls c))).

(* ------------------------------------------------------------ prop_ok *)

(* the constants of the property text *)
Definition prop_protection : Z := 5.             (* "exceed 5 ..." *)
Definition prop_fraction : Q := 1 # 10.          (* "... plus 10% of the accepted ones" *)
Definition prop_force : Z := 1000000000.         (* "more than 1 s after ..." *)
Definition prop_window : Z := 10000000000.       (* "the preceding 10 s window" *)

(* reference window: interval index -> sums of the calls recorded in that interval *)
Definition rlog := list (Z * bstat).

Fixpoint ref_add (l : rlog) (i v : Z) : rlog :=
  match l with
  | [] => [(i, bucket_add b_zero v)]
  | (j, b) :: l' => if j =? i then (j, bucket_add b v) :: l' else (j, b) :: ref_add l' i v
  end.

Fixpoint ref_bucket (l : rlog) (i : Z) : bstat :=
  match l with
  | [] => b_zero
  | (j, b) :: l' => if j =? i then b else ref_bucket l' i
  end.

Record geom := mkGeom { g_t0 : Z; g_iv : Z; g_size : Z }.

Definition ref_buckets (g : geom) (l : rlog) (now : Z) : list bstat :=
  let n := rw_idx (g_t0 g) (g_iv g) now in
  map (ref_bucket l) (zrange (n - g_size g + 1) n).

Definition ref_history (g : geom) (l : rlog) (now : Z) : wres := hist_of (ref_buckets g l now).

Definition ref_record (g : geom) (l : rlog) (t v : Z) : rlog :=
  ref_add l (rw_idx (g_t0 g) (g_iv g) t) v.

Record pstate := mkP
  { p_log : rlog; p_clock : Z;
    p_lsure : Z;          (* time of the last admission made while surely throttling; 0 = none *)
    p_unsure : bool }.    (* some earlier admission was a near-tie: lastPass is not known *)

Definition sums_match (g : geom) (l : rlog) (now : Z) (o : iobs) : bool :=
  let bs := ref_buckets g l now in
  let h := hist_of bs in
  (w_accepts h =? x_acc o) && (w_total h =? x_tot o) &&
  (w_failing h =? x_failing o) && (w_working h =? x_working o) &&
  (fold_left (fun a b => a + b_fail b) bs 0 =? x_fail o) &&
  (fold_left (fun a b => a + b_drop b) bs 0 =? x_drop o).

(* T1 on reference counts: non-accepted > 5 + 10% of accepted *)
Definition over_limit (h : wres) : bool :=
  Qltb (inject_Z prop_protection + prop_fraction * inject_Z (w_accepts h))%Q
       (inject_Z (w_total h - w_accepts h)).

Definition pcheck (cfg : config) (g : geom) (p : pstate) (c : call) (o : iobs) : pstate * bool :=
  let now := p_clock p + k_gap c in
  let e := k_entry c in
  match k_ctx c with
  | CDone =>
    (* done context: ctx.Err(), nothing runs, nothing recorded *)
    (mkP (p_log p) now (p_lsure p) (p_unsure p),
     result_eqb (x_res o) RCtxDone && (x_req o =? 0) && (x_fb o =? 0) && sums_match g (p_log p) now o)
  | _ =>
    let h := ref_history g (p_log p) now in
    (* the window accept() read is the reference window *)
    let pre_ok := (w_accepts h =? x_pacc o) && (w_total h =? x_ptot o) &&
                  (w_failing h =? x_pfailing o) && (w_working h =? x_pworking o) in
    let was_rejected := match x_res o with RUnavailable | RFallback => true | _ => false end in
    if was_rejected then
      let log' := ref_record g (p_log p) now v_drop in
      let ok := pre_ok &&
        (* T2: request not run, fallback exactly once iff there is one, one drop recorded *)
        (x_req o =? 0) &&
        (if has_fallback e then result_eqb (x_res o) RFallback && (x_fb o =? 1) && x_fbarg o
         else result_eqb (x_res o) RUnavailable && (x_fb o =? 0)) &&
        sums_match g log' now o &&
        (* T1 *)
        over_limit h &&
        (* T3: not later than 1 s after the previous throttled admission *)
        (p_unsure p || negb ((0 <? p_lsure p) && (prop_force <? now - p_lsure p))) in
      (mkP log' now (p_lsure p) (p_unsure p), ok)
    else
      let t := now + k_dur c in
      let x := if counts_as_success e (k_out c) then v_success else v_fail in
      let log' := ref_record g (p_log p) t x in
      let sure_pos := negb (Qle_bool (drop_ratio cfg h) 0) && negb (tie_sign cfg h) in
      let ok := pre_ok &&
        (* T2: request exactly once, error unchanged / panic re-raised, one success or failure *)
        result_eqb (x_res o) (result_of e (k_out c)) &&
        (x_req o =? (if is_allow e then 0 else 1)) && (x_fb o =? 0) &&
        sums_match g log' t o &&
        (* T4: total failure, no force-pass due, draw surely below (total-5)/(total+1) *)
        negb (negb (p_unsure p) && (w_accepts h =? 0) &&
              negb (force_due cfg (p_lsure p) now) &&
              Qltb (k_u c) ((inject_Z (w_total h - prop_protection) / inject_Z (w_total h + 1)))%Q &&
              negb (rel_close (k_u c) (inject_Z (w_total h - prop_protection) / inject_Z (w_total h + 1))%Q)) in
      (mkP log' t (if sure_pos then now else p_lsure p)
           (p_unsure p || tie_sign cfg h), ok)
  end.

Fixpoint pcheck_all (cfg : config) (g : geom) (p : pstate) (cs : list call) (os : list iobs) : bool :=
  match cs, os with
  | [], [] => true
  | c :: cs', o :: os' => let '(p', ok) := pcheck cfg g p c o in ok && pcheck_all cfg g p' cs' os'
  | _, _ => false
  end.

Definition prop_ok (c : case) : bool :=
  (* the window the property talks about is the one the source configures *)
  (gen_window =? prop_window) &&
  pcheck_all cfg_gen (mkGeom (cbase c) (bucket_duration cfg_gen) gen_buckets)
             (mkP [] (cbase c) 0 false) (ccalls c) (cobs c).
