(* C01 — property theorems only.  Every theorem is closed by [exact] of a lemma proved
   in Proofs.v / ProofsConc.v and followed by [Print Assumptions].

   Vocabulary (C01/Spec.v): [reach cfg base cs] is the world after the history of calls
   [cs] on a breaker created at time [base] (any constants [cfg]); [step cfg w c] performs
   one more call and returns its observation; [w_marks w] is the log of everything handed
   to stat.Add (time, value); [window_vals cfg base marks now] are the values recorded in
   the last [buckets] intervals up to [now]; [w_decisions w] is the log of accept()
   decisions.  All theorems hold for every history, of any length. *)
From Coq Require Import List ZArith QArith Bool Lia.
From GZ Require Import Lib.RollingWindow Lib.RollingWindowSpec C01.Model C01.Spec C01.Proofs C01.ProofsConc C01.ProofsConc2.
From GZ Require Import C01.WrapModel C01.WrapProofs C01.Multi C01.MultiProofs C01.Gen C01.Check C01.CheckProofs.
Import ListNotations.
Open Scope Z_scope.

(* T1  A call is rejected (ErrServiceUnavailable, or the fallback's result, comes back and the
   request did not run - an admitted request may itself return ErrServiceUnavailable, e.g.
   from a nested breaker: see unavailable_iff_rejected) only if, among
   the calls recorded in the window accept() read, non-accepted > protection +
   (minK - 1) * accepted.  (GenProofs.v: with today's constants this reads
   10 * (total - accepts) > 50 + accepts.) *)
Theorem reject_only_if_over : forall cfg base cs c,
  cfg_ok cfg -> times_ok (cs ++ [c]) ->
  let w := reach cfg base cs in
  let now := w_clock w + k_gap c in
  let o := snd (step cfg w c) in
  (o_res o = RUnavailable \/ o_res o = RFallback) /\ o_req o = 0 ->
  let vals := window_vals cfg base (w_marks w) now in
  over cfg (n_total vals) (n_success vals).
Proof. exact reject_only_if_over_run. Qed.
Print Assumptions reject_only_if_over.

(* T1 on a single decision, whatever window summary it was taken on (used for concurrent
   calls, where the summary may be older than the window at decision time) *)
Theorem reject_only_if_over_read : forall cfg r lastPass now u,
  0 <= w_accepts r -> 0 <= w_total r ->
  decide cfg r lastPass now u = VReject -> over cfg (w_total r) (w_accepts r).
Proof. exact reject_over_read. Qed.
Print Assumptions reject_only_if_over_read.

Theorem over_means_5_plus_10_percent : forall cfg total accepts,
  (11 # 10 <= c_minK cfg)%Q -> 5 <= c_protection cfg -> 0 <= accepts ->
  over cfg total accepts -> 50 + accepts < 10 * (total - accepts).
Proof. exact over_property_text. Qed.
Print Assumptions over_means_5_plus_10_percent.

(* what identifies a rejection from outside: the returned value AND the request not having run.
   (The value alone does not: the request of an admitted call may return
   ErrServiceUnavailable or the fallback's value itself - OErrSU, OErrFB.) *)
Theorem unavailable_iff_rejected : forall cfg w c,
  let o := snd (step cfg w c) in
  ((o_res o = RUnavailable \/ o_res o = RFallback) /\ o_req o = 0) <-> o_verdict o = Some VReject.
Proof. exact unavailable_is_reject. Qed.
Print Assumptions unavailable_iff_rejected.

(* T2  Exact accounting of one call, for every entry point, context mode and outcome, from
   any state of the breaker. *)
Theorem exact_accounting : forall cfg w c,
  let now := w_clock w + k_gap c in
  let w' := fst (step cfg w c) in
  let o := snd (step cfg w c) in
  match k_ctx c with
  | CDone =>
    o_res o = RCtxDone /\ o_req o = 0 /\ o_fb o = 0 /\
    w_st w' = w_st w /\ w_marks w' = w_marks w
  | _ =>
    exists v, o_verdict o = Some v /\
    if rejected v then
      o_req o = 0 /\ o_fb o = (if has_fallback (k_entry c) then 1 else 0) /\
      o_res o = (if has_fallback (k_entry c) then RFallback else RUnavailable) /\
      w_marks w' = w_marks w ++ [(now, v_drop)] /\
      swin (w_st w') = rw_add (swin (w_st w)) now v_drop
    else
      let x := if counts_as_success (k_entry c) (k_out c) then v_success else v_fail in
      o_req o = (if is_allow (k_entry c) then 0 else 1) /\ o_fb o = 0 /\
      o_res o = result_of (k_entry c) (k_out c) /\
      w_marks w' = w_marks w ++ [(now + k_dur c, x)] /\
      swin (w_st w') = rw_add (swin (w_st w)) (now + k_dur c) x
  end.
Proof. exact exact_accounting_step. Qed.
Print Assumptions exact_accounting.

(* ... where success/failure follows the acceptability predicate, the error is returned
   unchanged and a panic is a failure that is re-raised - for EVERY value the request may
   produce, including the ones that collide with the breaker's own (ErrServiceUnavailable bare
   or wrapped, context.Canceled / DeadlineExceeded under a live context, the fallback's value,
   a panic with ErrServiceUnavailable) *)
Theorem acceptability :
  (* default predicate: a success iff the request returned nil *)
  (forall e o, e = EDo \/ e = EDoFb -> (counts_as_success e o = true <-> returns_nil o = true)) /\
  (* caller's predicate (a user callback: a function of the returned value, nil included, that may
     look at side state): a success iff it ANSWERS true; a panic of the request or of the predicate
     is a failure *)
  (forall e o, e = EDoAcc \/ e = EDoFbAcc ->
     (counts_as_success e o = true <-> pred_answer o = Some true)) /\
  (forall o, pred_answer o = Some true <-> o = OOk \/ o = OErrA \/ o = OErrSUW \/ o = OCanceled \/ o = OErrUAcc) /\
  (forall e, is_allow e = false ->
     result_of e OOk = RNil /\ result_of e OErrU = RErrU /\
     result_of e OErrA = RErrA /\ result_of e OPanic = RPanic /\
     result_of e OErrSU = RUnavailable /\ result_of e OErrSUW = RErrSUW /\
     result_of e OCanceled = RCtxDone /\ result_of e ODeadline = RDeadline /\
     result_of e OErrFB = RFallback /\ result_of e OPanicSU = RPanicSU /\
     result_of e OOkRej = RNil /\ result_of e OErrUAcc = RErrU) /\
  (forall o, counts_as_success EAllowAccept o = true /\ counts_as_success EAllowReject o = false).
Proof. exact acceptability_table. Qed.
Print Assumptions acceptability.

(* ... and nil is no exception (seeded C01-11 recorded every nil return as a success without
   asking the predicate): an admitted DoWithAcceptable / DoWithFallbackAcceptable call whose
   request returns nil while its predicate says "unacceptable" (rest/httpc: a 5xx response
   behind a nil error) is recorded exactly once, as a FAILURE; nil comes back, no fallback *)
Theorem recorded_as_the_predicate_says_also_for_nil : forall cfg w c,
  k_ctx c <> CDone -> (k_entry c = EDoAcc \/ k_entry c = EDoFbAcc) -> k_out c = OOkRej ->
  rejected (snd (accept cfg (w_st w) (w_clock w + k_gap c) (k_u c))) = false ->
  let w' := fst (step cfg w c) in
  let o := snd (step cfg w c) in
  w_marks w' = w_marks w ++ [(w_clock w + k_gap c + k_dur c, v_fail)] /\ o_res o = RNil /\ o_req o = 1 /\ o_fb o = 0.
Proof. exact nil_rejected_by_predicate_is_failure. Qed.
Print Assumptions recorded_as_the_predicate_says_also_for_nil.

(* T2 lifted to histories: every call that reached accept() is in the log exactly once, and
   at any later time the window sums are exactly the numbers of logged calls of the last
   [buckets] intervals (total, successes, failures, drops). *)
Theorem exact_accounting_history : forall cfg base cs now,
  cfg_ok cfg -> times_ok cs ->
  let w := reach cfg base cs in
  w_clock w <= now ->
  let h := history (swin (w_st w)) now in
  let vals := window_vals cfg base (w_marks w) now in
  n_total (map snd (w_marks w)) = recorded_calls cs /\
  w_total h = n_total vals /\ w_accepts h = n_success vals /\
  sum_fail (swin (w_st w)) now = n_fail vals /\ sum_drop (swin (w_st w)) now = n_drop vals /\
  n_total vals = n_success vals + n_fail vals + n_drop vals.
Proof. exact accounting_run. Qed.
Print Assumptions exact_accounting_history.

(* T2 over whole histories, run counts (the fallback count included): along ANY history the
   request runs exactly for the admitted Do* calls (once), the fallback exactly for the
   rejected calls that have one (once) - never for an admitted call, whatever value its
   request returned - an admitted call hands back what its request returned, a rejected one
   ErrServiceUnavailable / the fallback's value *)
Theorem exact_runs_history : forall cfg cs w,
  Forall2 (fun c o =>
             o_req o = (if was_admitted o && negb (is_allow (k_entry c)) then 1 else 0) /\
             o_fb o = (if was_rejected o && has_fallback (k_entry c) then 1 else 0) /\
             (was_admitted o = true -> o_res o = result_of (k_entry c) (k_out c)) /\
             (was_rejected o = true ->
              o_res o = (if has_fallback (k_entry c) then RFallback else RUnavailable)))
          cs (snd (run cfg w cs)).
Proof. exact run_exact_runs. Qed.
Print Assumptions exact_runs_history.

(* T3  After any history containing a throttled admission, a call arriving more than
   forcePassDuration after the latest one is let through whatever the draw: the request runs
   once and its result comes back. *)
Theorem probe_guaranteed : forall cfg base cs c,
  0 < base -> times_ok (cs ++ [c]) ->
  let w := reach cfg base cs in
  let now := w_clock w + k_gap c in
  some_throttled (w_decisions w) ->
  c_force cfg < now - last_throttled (w_decisions w) ->
  k_ctx c <> CDone ->
  forall u,
    let o := snd (step cfg w (with_draw c u)) in
    (o_verdict o = Some VAdmit \/ o_verdict o = Some VForcePass) /\
    o_res o = result_of (k_entry c) (k_out c) /\
    o_req o = (if is_allow (k_entry c) then 0 else 1) /\ o_fb o = 0.
Proof. exact probe_guaranteed_run. Qed.
Print Assumptions probe_guaranteed.

(* T4  Sustained total failure: no success among the >= T calls recorded in the window and no
   force-pass due => the call is rejected for every draw below (T - protection)/(T + 1). *)
Theorem total_failure_rejects : forall cfg base cs c T,
  cfg_ok cfg -> times_ok (cs ++ [c]) ->
  let w := reach cfg base cs in
  let now := w_clock w + k_gap c in
  let vals := window_vals cfg base (w_marks w) now in
  k_ctx c <> CDone ->
  n_success vals = 0 -> 0 <= T -> T <= n_total vals ->
  (last_throttled (w_decisions w) = 0 \/ now - last_throttled (w_decisions w) <= c_force cfg) ->
  (0 <= k_u c)%Q -> (k_u c < inject_Z (T - c_protection cfg) / inject_Z (T + 1))%Q ->
  let o := snd (step cfg w c) in
  o_verdict o = Some VReject /\ o_req o = 0 /\
  o_fb o = (if has_fallback (k_entry c) then 1 else 0) /\
  o_res o = (if has_fallback (k_entry c) then RFallback else RUnavailable).
Proof. exact total_failure_rejects_run. Qed.
Print Assumptions total_failure_rejects.

(* T5  Concurrent calls.  Each call is a thread of three atomic actions read (history()
   under the read lock) / decide (lastPass atomics + draw) / mark (stat.Add under the write
   lock); [ireach cfg base calls sched] is the world after the schedule [sched] (a list of
   (thread, clock advance >= 0)), for ANY schedule.  The log records every action. *)

(* every read returns the counts of the calls recorded before it in the last [buckets]
   intervals at its own time - possibly an older window than at decision or mark time *)
Theorem interleaved_reads_see_recorded_window : forall cfg base calls sched pre tid t r post,
  cfg_ok cfg -> sched_ok sched ->
  i_log (ireach cfg base calls sched) = pre ++ EvRead tid t r :: post ->
  let vals := window_vals cfg base (marks_of pre) t in
  w_total r = n_total vals /\ w_accepts r = n_success vals.
Proof. exact interleaved_read_sums. Qed.
Print Assumptions interleaved_reads_see_recorded_window.

(* T1 under every interleaving: a rejection was decided on the call's own earlier read, and
   the calls recorded before that read satisfy the admission law in its window *)
Theorem interleaved_reject_only_if_over : forall cfg base calls sched tid t r,
  cfg_ok cfg -> sched_ok sched ->
  In (EvDecide tid t r VReject) (i_log (ireach cfg base calls sched)) ->
  exists pre t0 post,
    i_log (ireach cfg base calls sched) = pre ++ EvRead tid t0 r :: post /\
    In (EvDecide tid t r VReject) post /\
    let vals := window_vals cfg base (marks_of pre) t0 in
    over cfg (n_total vals) (n_success vals).
Proof. exact interleaved_reject_over. Qed.
Print Assumptions interleaved_reject_only_if_over.

(* T2 under every interleaving: a call never marks twice; once it has returned it has marked
   exactly once, with drop / success / failure as fixed by its verdict, entry point and
   outcome, and returned the matching observation (request and fallback run counts, error
   class) - or nothing at all for a done context; and at all times the window sums are the
   counts of the marks logged in the last [buckets] intervals *)
Theorem interleaved_exact_accounting : forall cfg base calls sched tid,
  cfg_ok cfg -> sched_ok sched -> (tid < length calls)%nat ->
  let w := ireach cfg base calls sched in
  let c := nth tid calls dummy_call in
  (length (marks_by tid (i_log w)) <= 1)%nat /\
  (forall ro o, nth tid (i_threads w) TInit = TDone ro o ->
     (ro = None /\ k_ctx c = CDone /\ o = ctx_obs /\ marks_by tid (i_log w) = []) \/
     (exists r t v tm, ro = Some r /\ In (EvDecide tid t r v) (i_log w) /\
        marks_by tid (i_log w) = [EvMark tid tm (mark_value c v)] /\ o = call_obs c v)) /\
  (forall now, i_clock w <= now ->
     let h := history (swin (i_st w)) now in
     let vals := window_vals cfg base (marks_of (i_log w)) now in
     w_total h = n_total vals /\ w_accepts h = n_success vals /\
     sum_fail (swin (i_st w)) now = n_fail vals /\ sum_drop (swin (i_st w)) now = n_drop vals).
Proof. exact interleaved_accounting. Qed.
Print Assumptions interleaved_exact_accounting.

(* T3 / T4 under EVERY interleaving.  [decisions_of log] are the decisions (time, verdict) of
   an interleaved log, in order. *)

(* lastPass always is the time of the latest throttled admission decided so far *)
Theorem interleaved_lastpass_is_last_throttled : forall cfg base calls sched,
  sched_ok sched ->
  slast (i_st (ireach cfg base calls sched)) =
  last_throttled (decisions_of (i_log (ireach cfg base calls sched))).
Proof. exact interleaved_lastpass. Qed.
Print Assumptions interleaved_lastpass_is_last_throttled.

(* T3: whatever ran concurrently, a decision taken more than forcePassDuration after the latest
   throttled admission decided before it lets the call through, for every draw (the draws are
   those of [calls], universally quantified); by interleaved_exact_accounting the call then
   runs its request once and returns its result *)
Theorem interleaved_probe_guaranteed : forall cfg base calls sched pre tid t r v post,
  0 < base -> sched_ok sched ->
  i_log (ireach cfg base calls sched) = pre ++ EvDecide tid t r v :: post ->
  some_throttled (decisions_of pre) ->
  c_force cfg < t - last_throttled (decisions_of pre) ->
  v = VAdmit \/ v = VForcePass.
Proof. exact interleaved_probe. Qed.
Print Assumptions interleaved_probe_guaranteed.

(* T4: a decision taken on a read (by interleaved_reads_see_recorded_window: the counts of the
   calls recorded before that read) without any success among >= T recorded calls, with no
   force-pass due, rejects for every draw below (T - protection)/(T + 1) *)
Theorem interleaved_total_failure_rejects : forall cfg base calls sched pre tid t r v post T,
  cfg_ok cfg -> sched_ok sched ->
  i_log (ireach cfg base calls sched) = pre ++ EvDecide tid t r v :: post ->
  w_accepts r = 0 -> 0 <= T -> T <= w_total r ->
  (last_throttled (decisions_of pre) = 0 \/ t - last_throttled (decisions_of pre) <= c_force cfg) ->
  let u := k_u (nth tid calls dummy_call) in
  (0 <= u)%Q -> (u < inject_Z (T - c_protection cfg) / inject_Z (T + 1))%Q ->
  v = VReject.
Proof. exact interleaved_total_failure. Qed.
Print Assumptions interleaved_total_failure_rejects.

(* M  Several breakers at once (C01/Multi.v): plain instances, NAMES of the package-level
   registry (breaker.Do*(name, ..) / GetBreaker: the breaker comes into being at the first use
   of the name; NoBreakerFor turns the name into a nopBreaker) and call TREES: the request of
   a call goes through another breaker and hands back what that one returned (wrapped or not).
   [mrun cfg (minit cfg base named) ops] reports one row per node; a row
   [MRun lc o wpre wpost] says: the node's breaker was in world [wpre], the node was the call
   [lc] of that breaker and produced observation [o] and world [wpost]. *)

(* every step of every live breaker of the system, in every history, is ONE step of the
   sequential model after a history of that breaker alone: T1-T4 and the accounting theorems
   above hold of each breaker whatever happens on the others and however calls are nested *)
Theorem multi_every_step_is_sequential : forall cfg base named ops,
  Forall op_ok ops ->
  Forall (fun r => match r with
                   | MRun lc o wpre wpost =>
                     (exists b cs, times_ok (cs ++ [lc]) /\ wpre = reach cfg b cs) /\
                     step cfg wpre lc = (wpost, o)
                   | MNopRun o => o_fb o = 0 /\ o_verdict o = None /\ (o_req o = 0 \/ o_req o = 1)
                   | _ => True
                   end)
         (snd (mrun cfg (minit cfg base named) ops)).
Proof. exact multi_rows_sequential. Qed.
Print Assumptions multi_every_step_is_sequential.

Theorem multi_reject_only_if_over_limit : forall cfg base named ops lc o wpre wpost,
  cfg_ok cfg -> Forall op_ok ops ->
  In (MRun lc o wpre wpost) (snd (mrun cfg (minit cfg base named) ops)) ->
  (o_res o = RUnavailable \/ o_res o = RFallback) /\ o_req o = 0 ->
  exists b, let vals := window_vals cfg b (w_marks wpre) (w_clock wpre + k_gap lc) in
            over cfg (n_total vals) (n_success vals).
Proof. exact multi_reject_only_if_over. Qed.
Print Assumptions multi_reject_only_if_over_limit.

(* the fallback of a call anywhere in a tree runs only if THAT call was rejected by ITS
   breaker; an admitted call returns what its request returned - e.g. the
   ErrServiceUnavailable of an inner breaker that is open - and does not run the fallback *)
Theorem multi_exact_runs_per_node : forall cfg base named ops lc o wpre wpost,
  Forall op_ok ops ->
  In (MRun lc o wpre wpost) (snd (mrun cfg (minit cfg base named) ops)) ->
  o_req o = (if was_admitted o && negb (is_allow (k_entry lc)) then 1 else 0) /\
  o_fb o = (if was_rejected o && has_fallback (k_entry lc) then 1 else 0) /\
  (was_admitted o = true -> o_res o = result_of (k_entry lc) (k_out lc)).
Proof. exact multi_exact_runs. Qed.
Print Assumptions multi_exact_runs_per_node.

(* no state leaks: a call tree touches the breakers on its path only; a history leaves alone
   every breaker / name none of its operations mentions *)
Theorem multi_call_tree_frame : forall cfg n ms j,
  ~ In j (ninsts n) ->
  nth j (m_slots (fst (fst (nstep cfg ms n)))) SFresh = nth j (m_slots ms) SFresh.
Proof. exact nstep_frame. Qed.
Print Assumptions multi_call_tree_frame.

Theorem multi_no_state_leak : forall cfg ops ms j,
  (forall op, In op ops -> ~ In j (op_insts op)) ->
  nth j (m_slots (fst (mrun cfg ms ops))) SFresh = nth j (m_slots ms) SFresh.
Proof. exact multi_isolation. Qed.
Print Assumptions multi_no_state_leak.

(* W  The wrappers that put the breaker in front of a downstream call (C01/WrapModel.v):
   gRPC client / server (unary, stream) interceptors, the redis hook (command, pipeline, a
   client on a real server), sqlx ExecCtx, and the REST BreakerHandler.
   [wrap k rej ctxdone d]: what wrapper k does when the breaker rejects or not, the context
   is done or not, and the downstream returns / panics d. *)

(* the promise is resolved exactly once: nothing at all for a done context (wrappers using
   the *Ctx entry), exactly one drop and no downstream call for a rejected call, which shows
   the caller ErrServiceUnavailable (status Unavailable on the gRPC server side); exactly one
   success or failure and exactly one downstream call otherwise, a success iff the downstream
   did not panic and its result is acceptable for that wrapper *)
Theorem wrapper_resolves_exactly_once : forall k rej ctxdone d,
  through_breaker k = true ->
  let r := wrap k rej ctxdone d in
  let short := w_uses_ctx k && ctxdone in
  (0 <= wr_succ r /\ 0 <= wr_fail r /\ 0 <= wr_drop r /\ wr_succ r + wr_fail r + wr_drop r <= 1) /\
  (short = true ->
     wr_invoked r = 0 /\ wr_succ r + wr_fail r + wr_drop r = 0 /\ wr_seen r = SCtxErr) /\
  (short = false -> rej = true ->
     wr_invoked r = 0 /\ wr_drop r = 1 /\ wr_succ r = 0 /\ wr_fail r = 0 /\
     wr_seen r = rejected_seen k) /\
  (short = false -> rej = false ->
     wr_invoked r = 1 /\ wr_drop r = 0 /\ wr_succ r + wr_fail r = 1 /\
     (wr_succ r = 1 <-> (d <> DPanic /\ w_acceptable k d = true)) /\
     wr_seen r = pass_seen k d).
Proof. exact wrap_once. Qed.
Print Assumptions wrapper_resolves_exactly_once.

(* the context over the LIFE of a call through a wrapper [wrapx k rej x d]: x says what the
   context is on entry and what it has become when the downstream returns (cancelled by the
   client / past the call's own deadline while the handler, statement or command ran).
   Live on entry and admitted: one downstream run, one record, a failure iff the downstream
   panicked or its result is unacceptable by the site's table - the same record as under a
   context that stays live.  (Seeded change C01-3 made a done context on return a success.) *)
Theorem wrapper_judges_outcome_not_context : forall k x d,
  through_breaker k = true -> x_done_at_entry x = false ->
  let r := wrapx k false x d in
  wr_invoked r = 1 /\ wr_drop r = 0 /\ wr_succ r + wr_fail r = 1 /\
  (wr_fail r = 1 <-> (d = DPanic \/ w_acceptable k d = false)) /\
  r = wrapx k false XLive d.
Proof. exact wrapx_live_on_entry. Qed.
Print Assumptions wrapper_judges_outcome_not_context.

(* done on entry (cancelled or past its deadline), a site that uses the *Ctx entry point:
   nothing runs, nothing is recorded, the caller gets the context's error *)
Theorem wrapper_done_context_short_circuits : forall k rej x d,
  through_breaker k = true -> w_uses_ctx k = true -> x_done_at_entry x = true ->
  let r := wrapx k rej x d in
  wr_invoked r = 0 /\ wr_succ r + wr_fail r + wr_drop r = 0 /\ wr_seen r = SCtxErr.
Proof. exact wrapx_done_on_entry. Qed.
Print Assumptions wrapper_done_context_short_circuits.

Example ex_wrapper_context :
  wr_fail (wrapx WGrpcServerUnary false XExpiredAtReturn DCtxDeadline) = 1 /\
  wr_fail (wrapx WGrpcClient false XCancelledAtReturn (DStatus 13)) = 1 /\
  wr_succ (wrapx WRedisCmd false XCancelledAtReturn DCtxCanceled) = 1 /\
  wr_invoked (wrapx (WSqlM MQueryRows true) false XExpired DOther) = 0.
Proof. vm_compute. auto. Qed.

(* the ignored redis commands (blpop) never touch the breaker *)
Theorem wrapper_ignored_command_bypasses : forall rej ctxdone d,
  let r := wrap WRedisIgnoredCmd rej ctxdone d in
  wr_invoked r = 1 /\ wr_succ r + wr_fail r + wr_drop r = 0 /\ wr_seen r = pass_seen WRedisIgnoredCmd d.
Proof. exact wrap_bypass. Qed.
Print Assumptions wrapper_ignored_command_bypasses.

(* which outcomes are failures, per wrapper *)
Theorem wrapper_acceptability_table :
  (forall d, codes_acceptable d = false <-> canon d = DStallTimeout \/ exists c, canon d = DStatus c /\ grpc_failure_code c = true) /\
  (forall d, server_acceptable d = false <->
     canon d = DCtxDeadline \/ canon d = DBreakerUnavailable \/ canon d = DWrappedDeadline \/ canon d = DWrappedBreakerUnavailable \/
     canon d = DStallTimeout \/ exists c, canon d = DStatus c /\ grpc_failure_code c = true) /\
  (forall d, redis_acceptable d = true <->
     canon d = DNil \/ canon d = DRedisNil \/ canon d = DWrappedRedisNil \/ canon d = DCtxCanceled \/ canon d = DWrappedCanceled) /\
  (forall d, sql_acceptable d = true <->
     canon d = DNil \/ canon d = DSqlNoRows \/ canon d = DSqlTxDone \/ canon d = DCtxCanceled \/ canon d = DWrappedCanceled \/
     canon d = DSqlAcceptable \/ canon d = DWrappedSqlNoRows \/ canon d = DWrappedSqlTxDone \/
     exists i n, canon d = DSqlCustom i n /\ 1 <= i <= n) /\
  (forall d, sqlq_acceptable d = true <-> canon d = DSqlScanFail \/ sql_acceptable d = true) /\
  (forall h, rest_accepts h = true <-> h_code h < 500) /\ rest_accepts (HPanic None) = true.
Proof. exact acceptability_tables. Qed.
Print Assumptions wrapper_acceptability_table.

(* error SHAPES (errors.Is semantics; [canon] above): at every site a sentinel wrapped twice, inside
   errors.Join (first / last), inside a multi-%w error or matched through a custom Is method
   (a net timeout error and context.DeadlineExceeded) is classified exactly like the bare sentinel.
   (Seeded C01-12: errorx.In walking Unwrap with == does not see into joins / multi-%w / Is methods.) *)
Theorem wrapper_matches_sentinels_in_every_shape : forall k s b,
  w_acceptable k (DShaped s b) = w_acceptable k (bare b).
Proof. exact shaped_like_bare. Qed.
Print Assumptions wrapper_matches_sentinels_in_every_shape.

(* DeadlineExceeded 4, ResourceExhausted 8, Unimplemented 12, Internal 13, Unavailable 14, DataLoss 15 *)
Theorem grpc_failure_codes : forall c,
  grpc_failure_code c = true <-> (c = 4 \/ c = 8 \/ c = 12 \/ c = 13 \/ c = 14 \/ c = 15).
Proof. exact grpc_table. Qed.
Print Assumptions grpc_failure_codes.

(* each wrapper IS the entry point DoWithAcceptable[Ctx] of the breaker model with the
   downstream outcome classified by its table: same downstream run count, same mark in the
   window log - so T1-T5 apply to calls made through the wrappers *)
Theorem wrapper_is_breaker_entry_point : forall cfg w k (ctxdone : bool) d gap dur u,
  through_breaker k = true ->
  let cm := if w_uses_ctx k then (if ctxdone then CDone else CLive) else CNone in
  let c := mkCall EDoAcc cm (w_outcome k d) gap dur u in
  let now := w_clock w + gap in
  let o := snd (step cfg w c) in
  let w' := fst (step cfg w c) in
  let rej := match o_verdict o with Some VReject => true | _ => false end in
  let r := wrap k rej ctxdone d in
  wr_invoked r = o_req o /\
  w_marks w' = w_marks w ++
    (if wr_drop r =? 1 then [(now, v_drop)]
     else if wr_succ r =? 1 then [(now + dur, v_success)]
     else if wr_fail r =? 1 then [(now + dur, v_fail)] else []).
Proof. exact wrap_is_entry. Qed.
Print Assumptions wrapper_is_breaker_entry_point.

(* REST BreakerHandler: 503 without running the handler when rejected; otherwise the handler
   runs once and the promise is resolved once, Accept iff the status is below 500 *)
Theorem rest_resolves_exactly_once : forall rej h,
  let r := rest_wrap rej h in
  (rej = true -> rr_invoked r = 0 /\ rr_drop r = 1 /\ rr_succ r = 0 /\ rr_fail r = 0 /\ rr_seen r = RSCode 503) /\
  (rej = false -> rr_invoked r = 1 /\ rr_drop r = 0 /\ rr_succ r + rr_fail r = 1 /\
                  (rr_succ r = 1 <-> h_code h < 500)).
Proof. exact rest_once. Qed.
Print Assumptions rest_resolves_exactly_once.

(* REST through the chain the engine builds inside the breaker (Timeout, Recover, handler): the
   status BreakerHandler judges.  A timed-out request is a failure whatever the handler had
   already sent (written, flushed: an implicit 200 on the wire), a request the client cancelled
   is not; without TimeoutHandler the LAST status set decides (103 then 500 is a failure); a
   recovered panic is a 500; behind TimeoutHandler the handler's first status is handed on. *)
Theorem rest_chain_outcomes :
  (forall rec ops, rest_accepts (HScript (ChTimeout rec) ops HStallTimeout) = false) /\
  (forall rec ops, rest_accepts (HScript (ChTimeout rec) ops HStallCancel) = true) /\
  (forall rec ops c, h_code (HScript (ChPlain rec) (ops ++ [HWriteHeader c]) HReturn) = c) /\
  (forall ops, h_code (HScript (ChPlain true) ops HPanicEnd) = 500) /\
  (forall rec c ops, h_code (HScript (ChTimeout rec) (HWriteHeader c :: ops) HReturn) = c).
Proof. exact rest_chain_table. Qed.
Print Assumptions rest_chain_outcomes.

Theorem rest_is_allow_entry_point : forall cfg w r,
  let c := rest_call r in
  let o := snd (step cfg w c) in
  let rr := rest_obs r o in
  let now := w_clock w + hq_gap r in
  w_marks (fst (step cfg w c)) = w_marks w ++
    (if rr_drop rr =? 1 then [(now, v_drop)]
     else if rr_succ rr =? 1 then [(now + hq_dur r, v_success)] else [(now + hq_dur r, v_fail)]).
Proof. exact rest_is_entry. Qed.
Print Assumptions rest_is_allow_entry_point.

(* J  The executable judgement of Check.v (prop_ok) against the model: the tests that decide
   WHICH clause of the property applies to an observed call are exact on model-conformant
   observations, and its admission-law test (the property's own 5 and 10 %) follows from the
   model's rejection rule for today's constants. *)

(* "rejected iff the request did not run (Allow: iff it returned non-nil)" is exactly the
   model's verdict, for every entry point and outcome - also when the request's own value is
   ErrServiceUnavailable or the fallback's *)
Theorem judgement_rejected_exact : forall cfg w c,
  k_ctx c <> CDone ->
  let o := snd (step cfg w c) in
  pc_rejected (k_entry c) (iobs_of o) = was_rejected o.
Proof. exact pc_rejected_exact. Qed.
Print Assumptions judgement_rejected_exact.

Theorem judgement_over_limit_sound : forall r lp now u,
  0 <= w_accepts r -> 0 <= w_total r ->
  decide cfg_gen r lp now u = VReject -> over_limit r = true.
Proof. exact over_limit_sound. Qed.
Print Assumptions judgement_over_limit_sound.

Theorem judgement_admitted_runs_exact : forall cfg w c,
  let o := snd (step cfg w c) in
  was_admitted o = true ->
  result_eqb (o_res o) (result_of (k_entry c) (k_out c)) = true /\
  (o_req o =? (if is_allow (k_entry c) then 0 else 1)) = true /\ (o_fb o =? 0) = true.
Proof. exact pc_admit_runs_exact. Qed.
Print Assumptions judgement_admitted_runs_exact.

(* the wrapper judgement (its own failure tables, written out independently of WrapModel, and the
   "context counts on entry only" rule) accepts the model's record for every call site, admitted
   or rejected, every context life, every downstream outcome: the tables agree *)
Theorem judgement_wrapper_accepts_model : forall k rej x d,
  wcall_prop (mkWC k rej x d) (wobs_of k d (wrapx k rej x d)) = true.
Proof. exact wcall_prop_accepts_model. Qed.
Print Assumptions judgement_wrapper_accepts_model.

(* ---- non-vacuity: concrete histories meeting the hypotheses (today's constants) *)

Definition ex_base : Z := 1000000000000.
Definition ex_fail (gap : Z) (u : Q) : call := mkCall EDoFb CNone OErrU gap 0 u.

(* ten failures 1 ms apart with draw 0: the 7th..10th are rejected; an 11th too *)
Example ex_rejected :
  o_res (snd (step cfg_default (reach cfg_default ex_base (repeat (ex_fail 1000000 0) 10))
                   (ex_fail 1000000 0))) = RFallback
  /\ times_ok (repeat (ex_fail 1000000 0) 10 ++ [ex_fail 1000000 0]) /\ cfg_ok cfg_default.
Proof.
  split; [vm_compute; reflexivity|]. split.
  - unfold times_ok. apply Forall_app. split; [apply Forall_forall; intros x Hx; apply repeat_spec in Hx; subst|constructor; [|constructor]]; cbn; lia.
  - unfold cfg_ok. vm_compute. repeat split; discriminate.
Qed.

(* ten failures with draw 0.999: the 7th..10th pass while throttling (lastPass set); a call
   1 s + 1 ns later with draw 0 is force-passed, 1 s later exactly it is rejected *)
Definition ex_probe_pre : list call := repeat (ex_fail 1000000 (999 # 1000)) 10.
Example ex_probe :
  existsb (fun d => throttled_pass (snd d)) (w_decisions (reach cfg_default ex_base ex_probe_pre)) = true
  /\ last_throttled (w_decisions (reach cfg_default ex_base ex_probe_pre)) = ex_base + 10000000
  /\ o_verdict (snd (step cfg_default (reach cfg_default ex_base ex_probe_pre) (ex_fail 1000000001 0))) = Some VForcePass
  /\ o_verdict (snd (step cfg_default (reach cfg_default ex_base ex_probe_pre) (ex_fail 1000000000 0))) = Some VReject.
Proof. vm_compute. repeat split; reflexivity. Qed.

(* 100 failures 10 ms apart with draw 0: the first six are let through, the rest are rejected;
   then total failure in the window (100 recorded calls, no success, lastPass never set):
   a call drawing 0.94 is rejected *)
Definition ex_tf_pre : list call := repeat (mkCall EDo CNone OErrU 10000000 0 0) 100.
Example ex_total_failure :
  let w := reach cfg_default ex_base ex_tf_pre in
  let vals := window_vals cfg_default ex_base (w_marks w) (w_clock w) in
  n_success vals = 0 /\ n_total vals = 100 /\ last_throttled (w_decisions w) = 0 /\
  o_res (snd (step cfg_default w (mkCall EDo CNone OOk 0 0 (94 # 100)))) = RUnavailable.
Proof. vm_compute. repeat split; reflexivity. Qed.

(* two concurrent calls after six failures: both read the window (6 failures) before either
   marks; both are rejected on that same, by then older, window; both mark a drop *)
Definition ex_conc_calls : list call :=
  repeat (mkCall EDo CNone OErrU 0 0 (999 # 1000)) 6 ++ repeat (mkCall EDoFb CNone OOk 0 0 0) 2.
Definition ex_conc_sched : list (nat * Z) :=
  flat_map (fun i => [(i, 1000); (i, 0); (i, 0)]) (seq 0 6)
  ++ [(6%nat, 5); (7%nat, 5); (6%nat, 0); (7%nat, 0); (7%nat, 1); (6%nat, 1)].
Example ex_conc :
  let w := ireach cfg_default ex_base ex_conc_calls ex_conc_sched in
  sched_ok ex_conc_sched /\
  nth 6 (i_threads w) TInit = TDone (Some (mkW 0 6 1 0)) (mkObs RFallback 0 1 (Some VReject)) /\
  nth 7 (i_threads w) TInit = TDone (Some (mkW 0 6 1 0)) (mkObs RFallback 0 1 (Some VReject)) /\
  w_total (history (swin (i_st w)) (i_clock w)) = 8.
Proof.
  cbn zeta. split.
  - unfold sched_ok. apply Forall_forall. intros a Ha. vm_compute in Ha.
    repeat (destruct Ha as [Ha|Ha]; [subst a; cbn; lia|]). destruct Ha.
  - vm_compute. repeat split; reflexivity.
Qed.

(* a registry: name 0 is driven open (it is created at its first use, 5 ms after the system
   started), name 1 is not affected and admits; an outer call on name 1 whose request goes
   through name 0 is admitted, runs its request once, gets the inner rejection back unchanged
   and does not run its fallback; after NoBreakerFor(name 0) everything passes there *)
Definition ex_multi_ops : list mop :=
  repeat (MCall (NLeaf 0 (mkCall EDo CNone OErrU 5000000 0 0))) 12 ++
  [MCall (NNest 1 (mkCall EDoFb CLive OOk 1000 0 0) false (NLeaf 0 (mkCall EDo CNone OOk 0 0 0)));
   MNoBreaker 0 0;
   MCall (NLeaf 0 (mkCall EDoFb CNone OErrSU 0 0 0))].
Example ex_multi :
  Forall op_ok ex_multi_ops /\
  map (fun row => match row with
                  | MRun _ o _ _ => Some (o_res o, o_req o, o_fb o, o_verdict o)
                  | MNopRun o => Some (o_res o, o_req o, o_fb o, None)
                  | _ => None end)
      (skipn 12 (snd (mrun cfg_default (minit cfg_default ex_base [true; true]) ex_multi_ops)))
  = [Some (RUnavailable, 1, 0, Some VAdmit); Some (RUnavailable, 0, 0, Some VReject);
     Some (RUnavailable, 1, 0, None)] /\
  match nth 1 (m_slots (fst (mrun cfg_default (minit cfg_default ex_base [true; true]) ex_multi_ops))) SFresh with
  | SLive w => w_marks w = [(ex_base + 12 * 5000000 + 1000, v_fail)]
  | _ => False
  end.
Proof.
  split.
  - apply Forall_forall. intros op Hop. vm_compute in Hop.
    repeat (destruct Hop as [Hop|Hop]; [subst op; cbn; unfold ncall_ok, call_ok; cbn; repeat constructor; cbn; lia|]).
    destruct Hop.
  - vm_compute. split; reflexivity.
Qed.
