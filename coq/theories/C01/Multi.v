(* C01 — several breakers at once, the package-level registry of core/breaker/breakers.go
   and nested calls (executable model, no proofs).

   A system is a list of slots sharing one clock:
     SLive w   a breaker (Model.world: window, lastPass, ghost logs);
     SFresh    a NAME of the registry that has not been used yet: GetBreaker / breaker.Do*(name)
               create the breaker at the first use (NewBreaker at THAT time: the window's
               grid starts there);
     SNop      a name after NoBreakerFor(name): nopBreaker - the request just runs.
   A call is a tree: the request of an admitted call may go through another breaker (the
   inner call) and hand back what that one returned, unchanged or - when it is
   ErrServiceUnavailable - wrapped with %w.  This is how an ADMITTED request comes to return
   the breaker's own sentinel value.
   Every node is one [Model.step] of its own breaker, placed on the shared clock: the call
   arrives at [now], its request takes until [t] (the inner call included) and returns the
   outcome derived from the inner call's result.
   The model is meant for trees that do not re-enter a breaker on their own path ([nwf]);
   re-entrant calls are interleavings and belong to the concurrent model. *)
From Coq Require Import List ZArith QArith Bool.
From GZ Require Import Lib.RollingWindow C01.Model.
Import ListNotations.
Open Scope Z_scope.

Inductive slot := SFresh | SLive (w : world) | SNop.

Record mworld := mkMW { m_clock : Z; m_slots : list slot }.

(* plain instances exist from the start, names do not *)
Definition minit (cfg : config) (base : Z) (named : list bool) : mworld :=
  mkMW base (map (fun n : bool => if n then SFresh else SLive (init_world cfg base)) named).

(* GetBreaker(name) at time now *)
Definition resolve (cfg : config) (now : Z) (s : slot) : slot :=
  match s with SFresh => SLive (init_world cfg now) | _ => s end.

Inductive ncall :=
| NLeaf (i : nat) (c : call)
| NNest (i : nat) (c : call) (wrapsu : bool) (inner : ncall).   (* k_out c is not used *)

Inductive mop :=
| MCall (n : ncall)
| MNoBreaker (i : nat) (gap : Z).     (* NoBreakerFor(name of slot i) *)

Fixpoint nsize (n : ncall) : nat :=
  match n with NLeaf _ _ => 1 | NNest _ _ _ inner => S (nsize inner) end.

Fixpoint ninsts (n : ncall) : list nat :=
  match n with NLeaf i _ => [i] | NNest i _ _ inner => i :: ninsts inner end.

Fixpoint ncalls (n : ncall) : list call :=
  match n with NLeaf _ c => [c] | NNest _ c _ inner => c :: ncalls inner end.

(* no breaker is re-entered on the path, every index names a slot *)
Fixpoint nwf (nslots : nat) (n : ncall) : bool :=
  match n with
  | NLeaf i _ => (i <? nslots)%nat
  | NNest i _ _ inner => (i <? nslots)%nat && negb (existsb (Nat.eqb i) (ninsts inner)) && nwf nslots inner
  end.

(* what the outer request returns, given what the inner call returned / raised *)
Definition outcome_of_result (r : result) : outcome :=
  match r with
  | RNil => OOk | RUnavailable => OErrSU | RErrU => OErrU | RErrA => OErrA | RPanic => OPanic
  | RFallback => OErrFB | RCtxDone => OCanceled | ROther => OErrU
  | RErrSUW => OErrSUW | RDeadline => ODeadline | RPanicSU => OPanicSU
  end.

Definition outcome_via (wrapsu : bool) (r : result) : outcome :=
  match r with
  | RUnavailable => if wrapsu then OErrSUW else OErrSU
  | _ => outcome_of_result r
  end.

(* the node's call as a call of its own breaker: arrives at [now], the request returns [o] at [t] *)
Definition local_call (c : call) (w : world) (now t : Z) (o : outcome) : call :=
  mkCall (k_entry c) (k_ctx c) o (now - w_clock w) (t - now) (k_u c).

(* what is reported per node, in pre-order *)
Inductive mrow :=
| MSkip                                   (* the enclosing request never ran *)
| MNopRun (o : obs)                       (* through a nopBreaker *)
| MRun (lc : call) (o : obs) (wpre wpost : world)   (* one step of a live breaker: (wpost, o) = step wpre lc *)
| MBad.                                   (* index out of range *)

(* nopBreaker runs the request and hands its result back: the caller's predicate is never asked
   (so one that would panic does not) *)
Definition plain_entry (e : entry) : entry :=
  match e with EDoAcc => EDo | EDoFbAcc => EDoFb | _ => e end.

Definition nop_result (e : entry) (o : outcome) : result := result_of (plain_entry e) o.

Definition nop_obs (c : call) (o : outcome) : obs :=
  mkObs (nop_result (k_entry c) o) (if is_allow (k_entry c) then 0 else 1) 0 None.

Definition will_run (cfg : config) (w : world) (now : Z) (c : call) : bool :=
  match k_ctx c with
  | CDone => false
  | _ => negb (rejected (decide cfg (history (swin (w_st w)) now) (slast (w_st w)) now (k_u c)))
  end.

(* one node: [nskip] = number of nodes below it, [body] = what its request does, started on
   the world it is handed (clock = now), returning the outcome of the request *)
Definition nshell (cfg : config) (ms : mworld) (i : nat) (c : call) (nskip : nat)
           (body : mworld -> mworld * list mrow * outcome) : mworld * list mrow * result :=
  let now := m_clock ms + k_gap c in
  let sl := resolve cfg now (nth i (m_slots ms) SFresh) in
  let ms0 := mkMW now (set_nth i sl (m_slots ms)) in
  if (length (m_slots ms) <=? i)%nat then (ms0, MBad :: repeat MSkip nskip, ROther) else
  match sl with
  | SFresh => (ms0, MBad :: repeat MSkip nskip, ROther)
  | SNop =>
    (* nopBreaker ignores the context and never rejects *)
    let '(ms1, rows, out) := body ms0 in
    let o := nop_obs c out in
    (mkMW (m_clock ms1 + k_dur c) (m_slots ms1), MNopRun o :: rows, o_res o)
  | SLive w =>
    if will_run cfg w now c then
      let '(ms1, rows, out) := body ms0 in
      let t := m_clock ms1 + k_dur c in
      let lc := local_call c w now t out in
      let '(w', o) := step cfg w lc in
      (mkMW t (set_nth i (SLive w') (m_slots ms1)), MRun lc o w w' :: rows, o_res o)
    else
      let lc := local_call c w now now (k_out c) in
      let '(w', o) := step cfg w lc in
      (mkMW now (set_nth i (SLive w') (m_slots ms0)), MRun lc o w w' :: repeat MSkip nskip, o_res o)
  end.

Fixpoint nstep (cfg : config) (ms : mworld) (n : ncall) : mworld * list mrow * result :=
  match n with
  | NLeaf i c => nshell cfg ms i c 0 (fun ms0 => (ms0, [], k_out c))
  | NNest i c wr inner =>
    nshell cfg ms i c (nsize inner)
           (fun ms0 => let '(ms1, rows, r) := nstep cfg ms0 inner in (ms1, rows, outcome_via wr r))
  end.

Definition mstep (cfg : config) (ms : mworld) (op : mop) : mworld * list mrow :=
  match op with
  | MCall n => let '(ms', rows, _) := nstep cfg ms n in (ms', rows)
  | MNoBreaker i gap => (mkMW (m_clock ms + gap) (set_nth i SNop (m_slots ms)), [])
  end.

Fixpoint mrun (cfg : config) (ms : mworld) (ops : list mop) : mworld * list mrow :=
  match ops with
  | [] => (ms, [])
  | op :: ops' => let '(ms1, r1) := mstep cfg ms op in
                  let '(ms2, r2) := mrun cfg ms1 ops' in (ms2, r1 ++ r2)
  end.
