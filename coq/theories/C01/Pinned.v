(* C01 — pinned buggy variants of the model and their refutations (witnesses by vm_compute).
   Each variant is a change that compiles and passes go-zero's own tests; the theorems of
   Props.v are false for it. *)
From Coq Require Import List ZArith QArith Bool Lia.
From GZ Require Import Lib.RollingWindow C01.Model C01.Spec C01.Multi.
Import ListNotations.
Open Scope Z_scope.

(* ------------------------------------------------------------------------------------
   P1 (seeded change C01-4): loggedThrottle.doReq hands fallback = nil to the inner breaker
   and runs the fallback ITSELF whenever errors.Is(result, ErrServiceUnavailable).  It cannot
   tell a rejection from an admitted request whose own error is (or wraps)
   ErrServiceUnavailable - what a request returns when it goes through a nested / downstream
   breaker that is open. *)

Definition is_unavailable (r : result) : bool :=
  match r with RUnavailable | RErrSUW => true | _ => false end.

Definition step_p1 (cfg : config) (w : world) (c : call) : world * obs :=
  let '(w', o) := step cfg w c in
  if has_fallback (k_entry c) && was_admitted o && is_unavailable (o_res o)
  then (w', mkObs RFallback (o_req o) 1 (o_verdict o))
  else (w', o).

(* "an admitted call returns its error unchanged and does not run the fallback" fails: on a
   fresh breaker (nothing recorded: certainly admitted) DoWithFallback of a request that
   returns ErrServiceUnavailable runs the request AND the fallback and returns the
   fallback's value *)
Theorem p1_fallback_on_admitted_refuted :
  ~ (forall cfg w c, let o := snd (step_p1 cfg w c) in
       was_admitted o = true -> o_fb o = 0 /\ o_res o = result_of (k_entry c) (k_out c)).
Proof.
  intros H.
  specialize (H cfg_default (init_world cfg_default 1000000000000)
                (mkCall EDoFb CNone OErrSU 0 0 0)).
  vm_compute in H. destruct (H eq_refl) as (H1 & _). discriminate H1.
Qed.

(* the same with two breakers: the downstream one (slot 1) has been driven open and rejects;
   the outer one (slot 0) is fresh and admits; the correct model returns the inner
   ErrServiceUnavailable unchanged, runs the outer request once and no fallback *)
Definition p1_warmup : list mop :=
  repeat (MCall (NLeaf 1 (mkCall EDo CNone OErrU 1000000 0 (999 # 1000)))) 20.
Definition p1_nested : ncall :=
  NNest 0 (mkCall EDoFb CNone OOk 1000000 0 0) false (NLeaf 1 (mkCall EDo CNone OErrU 0 0 0)).

Example p1_nested_correct :
  let ms := fst (mrun cfg_default (minit cfg_default 1000000000000 [false; false]) p1_warmup) in
  let '(_, rows, r) := nstep cfg_default ms p1_nested in
  r = RUnavailable /\
  map (fun row => match row with
                  | MRun _ o _ _ => Some (o_res o, o_req o, o_fb o, o_verdict o)
                  | _ => None end) rows
  = [Some (RUnavailable, 1, 0, Some VAdmit);        (* outer: admitted, request once, no fallback *)
     Some (RUnavailable, 0, 0, Some VReject)].      (* inner: rejected *)
Proof. vm_compute. split; reflexivity. Qed.

(* ------------------------------------------------------------------------------------
   P2 (seeded change C01-2): accept() stores lastPass = now BEFORE the force-pass test and the
   draw, i.e. also when the call is then rejected.  Rejections keep refreshing lastPass, so a
   steady stream of rejected calls starves the probe: a call arriving more than
   forcePassDuration after the previous throttled ADMISSION is rejected. *)

Definition accept_p2 (cfg : config) (s : state) (now : Z) (u : Q) : state * verdict :=
  let r := history (swin s) now in
  if Qle_bool (drop_ratio cfg r) 0 then (s, VAdmit)
  else
    let s' := mkSt (swin s) now in
    if force_due cfg (slast s) now then (s', VForcePass)
    else if Qltb u (scaled_ratio cfg r) then (s', VReject)
    else (s', VRandomPass).

Definition step_p2 (cfg : config) (w : world) (c : call) : world * obs :=
  let now := w_clock w + k_gap c in
  match k_ctx c with
  | CDone => (mkWorld (w_st w) now (w_marks w) (w_decisions w), mkObs RCtxDone 0 0 None)
  | _ =>
    let '(s1, v) := accept_p2 cfg (w_st w) now (k_u c) in
    if rejected v then
      (mkWorld (mark s1 now v_drop) now (w_marks w ++ [(now, v_drop)]) (w_decisions w ++ [(now, v)]),
       mkObs (if has_fallback (k_entry c) then RFallback else RUnavailable) 0
             (if has_fallback (k_entry c) then 1 else 0) (Some v))
    else
      let t := now + k_dur c in
      let x := if counts_as_success (k_entry c) (k_out c) then v_success else v_fail in
      (mkWorld (mark s1 t x) t (w_marks w ++ [(t, x)]) (w_decisions w ++ [(now, v)]),
       mkObs (result_of (k_entry c) (k_out c)) (if is_allow (k_entry c) then 0 else 1) 0 (Some v))
  end.

Definition reach_p2 (cfg : config) (base : Z) (cs : list call) : world :=
  fold_left (fun w c => fst (step_p2 cfg w c)) cs (init_world cfg base).

(* ten failures with a large draw (the 7th..10th pass while throttling), then a rejected call
   0.6 s later, then a call 0.6 s after that: 1.2 s after the latest throttled admission *)
Definition p2_history : list call :=
  repeat (mkCall EDo CNone OErrU 1000000 0 (999 # 1000)) 10 ++ [mkCall EDo CNone OErrU 600000000 0 0].
Definition p2_probe : call := mkCall EDo CNone OOk 600000000 0 0.

Theorem p2_probe_guaranteed_refuted :
  exists cfg base cs c,
    let w := reach_p2 cfg base cs in
    let now := w_clock w + k_gap c in
    0 < base /\ times_ok (cs ++ [c]) /\ some_throttled (w_decisions w) /\
    c_force cfg < now - last_throttled (w_decisions w) /\ k_ctx c <> CDone /\
    o_verdict (snd (step_p2 cfg w c)) = Some VReject.
Proof.
  exists cfg_default, 1000000000000, p2_history, p2_probe. cbn zeta.
  split; [lia|]. split.
  { unfold times_ok. apply Forall_forall. intros x Hx. vm_compute in Hx.
    repeat (destruct Hx as [Hx|Hx]; [subst x; cbn; lia|]). destruct Hx. }
  split.
  { exists (1000000000000 + 10000000, VRandomPass). split; [vm_compute; tauto|reflexivity]. }
  split; [vm_compute; reflexivity|]. split; [discriminate|]. vm_compute. reflexivity.
Qed.

(* the correct model lets that probe through *)
Example p2_correct :
  o_verdict (snd (step cfg_default (reach cfg_default 1000000000000 p2_history) p2_probe)) = Some VForcePass.
Proof. vm_compute. reflexivity. Qed.

(* ------------------------------------------------------------------------------------
   P3 (seeded change C01-9): response.WithCodeResponseWriter keeps the FIRST status that
   reached the wire (a wroteHeader flag set by WriteHeader, Write and Flush; WriteHeader
   updates Code only while it is clear).  BreakerHandler judges cw.Code, and TimeoutHandler -
   inside the breaker in the engine's chain - reports a timed-out request by WriteHeader(503) on
   that writer, also after the handler has flushed part of its output (implicit 200).  With
   the flag the late 503 no longer reaches Code: a timed-out request is recorded as a success. *)
From GZ Require Import C01.WrapModel.

Record cwst := mkCW { cw_wrote : bool; cw_code3 : Z }.
Definition cw3_header (s : cwst) (c : Z) : cwst := if cw_wrote s then s else mkCW true c.
Definition cw3_touch (s : cwst) : cwst := mkCW true (cw_code3 s).

(* the timeoutWriter in front of the pinned writer: (tw wrote, tw code, tw flushed, cw) *)
Definition tw3_op (t : bool * Z * bool * cwst) (o : hop) : bool * Z * bool * cwst :=
  let '(wrote, code, flushed, cw) := t in
  match o with
  | HWriteHeader c => if wrote then t else (true, c, flushed, cw)
  | HWrite => if wrote then t else (true, 200, flushed, cw)
  | HFlush =>
    let code1 := if wrote then code else 200 in
    let cw1 := if flushed then cw else if code1 =? 200 then cw else cw3_header cw code1 in
    (true, code1, true, cw3_touch cw1)             (* cw.Write + cw.Flush: the header is on the wire *)
  | HCtxDone _ => t
  end.

Definition script_code_p3 (ch : hchain) (ops : list hop) (e : hend) : Z :=
  match ch with
  | ChPlain _ =>
    cw_code3 (fold_left (fun s o => match o with HWriteHeader c => cw3_header s c | HCtxDone _ => s | _ => cw3_touch s end)
                        ops (mkCW false 200))
  | ChTimeout _ =>
    let '(wrote, code, flushed, cw) := fold_left tw3_op ops (false, 200, false, mkCW false 200) in
    match e with
    | HStallTimeout => cw_code3 (cw3_header cw 503)
    | HStallCancel => cw_code3 (cw3_header cw 499)
    | _ => cw_code3 (if negb (code =? 200) && negb flushed then cw3_header cw code else cw)
    end
  end.

(* HEAD: a timed-out request is a failure for the breaker whatever the handler had sent *)
Theorem timed_out_request_is_a_failure : forall rec ops,
  rest_accepts (HScript (ChTimeout rec) ops HStallTimeout) = false.
Proof. intros. reflexivity. Qed.

(* HEAD without TimeoutHandler: the last status set decides, not the first *)
Theorem last_status_decides : forall rec ops c,
  h_code (HScript (ChPlain rec) (ops ++ [HWriteHeader c]) HReturn) = c.
Proof. intros. cbn. rewrite fold_left_app. reflexivity. Qed.

(* pinned: write, flush, then the timeout - Code stays 200: recorded as success *)
Theorem p3_timed_out_after_flush_refuted :
  ~ (forall rec ops, 500 <= script_code_p3 (ChTimeout rec) ops HStallTimeout).
Proof. intros H. specialize (H true [HWrite; HFlush]). vm_compute in H. apply H. reflexivity. Qed.

Theorem p3_informational_then_5xx_refuted :
  ~ (forall rec ops c, script_code_p3 (ChPlain rec) (ops ++ [HWriteHeader c]) HReturn = c).
Proof. intros H. specialize (H false [HWriteHeader 103] 500). vm_compute in H. discriminate H. Qed.

(* the history of the seed's demonstration: a streaming handler that flushes and then times
   out, 14 requests with a draw that lets them through, then 6 drawing 0.  HEAD: every request
   is recorded as a failure and the last six are shed.  Pinned (each request is an Allow that
   gets Accepted): nothing is ever shed - sustained total failure never trips the breaker. *)
Definition p3_req (u : Q) : hreq := mkHReq (HScript (ChTimeout true) [HWrite; HFlush] HStallTimeout) 1000000 0 u.
Definition p3_history : list hreq := repeat (p3_req (999 # 1000)) 14 ++ repeat (p3_req 0) 6.
Definition rest_call_p3 (r : hreq) : call :=
  mkCall (match hq_out r with
          | HScript ch ops e => if script_code_p3 ch ops e <? 500 then EAllowAccept else EAllowReject
          | _ => rest_entry (hq_out r)
          end) CNone OOk (hq_gap r) (hq_dur r) (hq_u r).

Example p3_head_sheds :
  map (fun o => was_rejected o)
      (skipn 14 (snd (run cfg_default (init_world cfg_default 1000000000000) (map rest_call p3_history))))
  = repeat true 6.
Proof. vm_compute. reflexivity. Qed.

Theorem p3_total_failure_never_trips :
  forallb (fun o => negb (was_rejected o))
          (snd (run cfg_default (init_world cfg_default 1000000000000) (map rest_call_p3 p3_history))) = true.
Proof. vm_compute. reflexivity. Qed.

(* ------------------------------------------------------------------------------------
   P4 (seeded change C01-3): the zrpc server's UnaryBreakerInterceptor wraps its predicate,
     func(err) bool { if ctx.Err() != nil { return true }; return serverSideAcceptable(err) }
   "the caller has gone away, the result says nothing about this server".  But ctx.Err() is
   also non-nil when the call's OWN deadline passed while the handler ran: every result of a
   handler that ran into its deadline is then a success, and the server-side breaker never opens
   under sustained timeouts. *)
Definition wrap_p4 (k : wkind) (rej : bool) (x : wctx) (d : derr) : wrapres :=
  match k with
  | WGrpcServerUnary =>
    if x_done_at_entry x then mkWR 0 0 0 0 SCtxErr
    else if rej then mkWR 0 0 0 1 (rejected_seen k)
    else let ok := match d with DPanic => false | _ => x_done_at_return x || w_acceptable k d end in
         mkWR 1 (if ok then 1 else 0) (if ok then 0 else 1) 0 (pass_seen k d)
  | _ => wrapx k rej x d
  end.

(* HEAD: an admitted call whose downstream result is unacceptable is a failure whatever has
   become of the context *)
Theorem unacceptable_is_a_failure_whatever_the_context : forall k x d,
  (match k with WSqlPredicate | WRedisIgnoredCmd => false | _ => true end) = true ->
  x_done_at_entry x = false -> w_acceptable k d = false ->
  wr_fail (wrapx k false x d) = 1 /\ wr_succ (wrapx k false x d) = 0.
Proof.
  intros k x d Hk Hx Ha. unfold wrapx. rewrite Hx.
  assert (E : wrap k false false d =
              let ok := match d with DPanic => false | _ => w_acceptable k d end in
              mkWR 1 (if ok then 1 else 0) (if ok then 0 else 1) 0 (pass_seen k d)).
  { destruct k; try discriminate Hk; cbn [wrap w_uses_ctx]; rewrite ?andb_false_r; reflexivity. }
  rewrite E. cbn zeta. destruct d; cbv beta iota; rewrite ?Ha; cbn; auto.
Qed.

Theorem p4_deadline_passed_in_handler_refuted :
  ~ (forall x d, x_done_at_entry x = false -> w_acceptable WGrpcServerUnary d = false ->
                 wr_fail (wrap_p4 WGrpcServerUnary false x d) = 1).
Proof. intros H. specialize (H XExpiredAtReturn DCtxDeadline eq_refl eq_refl). vm_compute in H. discriminate H. Qed.

(* sustained timeouts: 100 calls whose handler runs into the call's deadline and returns
   DeadlineExceeded, then 6 calls drawing 0.  HEAD sheds the six; pinned records every one of the
   hundred as a success and sheds nothing. *)
Definition p4_call (acc : wkind -> bool -> wctx -> derr -> wrapres) (u : Q) : call :=
  let r := acc WGrpcServerUnary false XExpiredAtReturn DCtxDeadline in
  mkCall EDoAcc CLive (if wr_succ r =? 1 then OErrA else OErrU) 1000000 0 u.
Definition p4_history acc : list call := repeat (p4_call acc (999 # 1000)) 100 ++ repeat (p4_call acc 0) 6.

Example p4_head_sheds :
  map was_rejected (skipn 100 (snd (run cfg_default (init_world cfg_default 1000000000000) (p4_history wrapx))))
  = repeat true 6.
Proof. vm_compute. reflexivity. Qed.

Theorem p4_sustained_timeouts_never_trip :
  forallb (fun o => negb (was_rejected o))
          (snd (run cfg_default (init_world cfg_default 1000000000000) (p4_history wrap_p4))) = true.
Proof. vm_compute. reflexivity. Qed.

(* ------------------------------------------------------------------------------------
   P5 (seeded change C01-11): loggedThrottle.doReq wraps the caller's predicate as
     func(err) bool { if err == nil || acceptable(err) { return true }; errWin.add(..); return false }
   - the predicate is never asked about a NIL error.  A predicate that classifies by side state
   (rest/httpc: err == nil && resp.StatusCode < 500) is overruled: a backend answering 100 % 5xx
   behind nil errors never trips the breaker. *)
Definition counts_p5 (e : entry) (o : outcome) : bool := returns_nil o || counts_as_success e o.

Theorem p5_nil_shortcut_refuted :
  ~ (forall e o, e = EDoAcc \/ e = EDoFbAcc -> (counts_p5 e o = true <-> pred_answer o = Some true)).
Proof. intros H. destruct (H EDoAcc OOkRej (or_introl eq_refl)) as (H1 & _). specialize (H1 eq_refl). discriminate H1. Qed.

(* 100 calls through DoWithAcceptable returning nil with a 5xx behind it, then 6 drawing 0 *)
Definition p5_call (u : Q) : call := mkCall EDoAcc CNone OOkRej 1000000 0 u.
Definition p5_history : list call := repeat (p5_call (999 # 1000)) 100 ++ repeat (p5_call 0) 6.
Definition p5_as_pinned (c : call) : call :=
  mkCall (k_entry c) (k_ctx c) (if counts_p5 (k_entry c) (k_out c) then OOk else k_out c) (k_gap c) (k_dur c) (k_u c).

Example p5_head_sheds :
  map was_rejected (skipn 100 (snd (run cfg_default (init_world cfg_default 1000000000000) p5_history)))
  = repeat true 6.
Proof. vm_compute. reflexivity. Qed.

Theorem p5_all_5xx_never_trips :
  forallb (fun o => negb (was_rejected o))
          (snd (run cfg_default (init_world cfg_default 1000000000000) (map p5_as_pinned p5_history))) = true.
Proof. vm_compute. reflexivity. Qed.

(* ------------------------------------------------------------------------------------
   P6 (seeded change C01-12): errorx.In walks the chain once with errors.Unwrap and == instead of
   errors.Is per candidate: it still finds a sentinel behind single-%w wrappers, but not inside
   errors.Join / a multi-%w error (Unwrap() []error) nor through a custom Is method. *)
Definition seen_by_unwrap_eq (s : eshape) : bool := match s with ShWrap2 => true | _ => false end.
Definition server_acceptable_p6 (d : derr) : bool :=
  match d with
  | DShaped s b => if seen_by_unwrap_eq s then server_acceptable (bare b) else true   (* falls to codes.Acceptable: Unknown *)
  | _ => server_acceptable d
  end.
Definition redis_acceptable_p6 (d : derr) : bool :=
  match d with DShaped s b => seen_by_unwrap_eq s && redis_acceptable (bare b) | _ => redis_acceptable d end.

Theorem p6_joined_deadline_refuted :
  ~ (forall s b, server_acceptable_p6 (DShaped s b) = server_acceptable (bare b)).
Proof. intros H. specialize (H ShJoinLast BDeadline). discriminate H. Qed.

Theorem p6_net_timeout_refuted :
  ~ (forall b, server_acceptable_p6 (DShaped ShCustomIs b) = server_acceptable (bare b)).
Proof. intros H. specialize (H BDeadline). discriminate H. Qed.

Theorem p6_joined_redis_nil_refuted :
  ~ (forall s b, redis_acceptable_p6 (DShaped s b) = redis_acceptable (bare b)).
Proof. intros H. specialize (H ShJoinFirst BRedisNil). discriminate H. Qed.
