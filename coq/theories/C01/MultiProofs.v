(* C01 — several breakers, the registry, nested calls (C01/Multi.v): every node of every call
   tree of every history is ONE step of the sequential model of its own breaker from a world
   that breaker reached by a history of its own (so T1-T4 and the accounting theorems hold
   for each breaker of the system); a call tree touches the breakers on its path only. *)
From Coq Require Import List ZArith QArith Bool Lia Arith.
From GZ Require Import Lib.RollingWindow Lib.RollingWindowSpec Lib.RollingWindowProofs.
From GZ Require Import C01.Model C01.Spec C01.Proofs C01.Multi.
Import ListNotations.
Open Scope Z_scope.

(* ---- the sequential model: histories extend by one step, clocks move forward *)

Lemma final_app : forall cfg cs w c, final cfg w (cs ++ [c]) = fst (step cfg (final cfg w cs) c).
Proof.
  induction cs as [|c0 cs IH]; intros w c.
  - cbn [app]. rewrite final_cons. reflexivity.
  - cbn [app]. rewrite !final_cons. apply IH.
Qed.

Lemma reach_snoc : forall cfg b cs c, reach cfg b (cs ++ [c]) = fst (step cfg (reach cfg b cs) c).
Proof. intros. unfold reach. apply final_app. Qed.

Lemma step_clock : forall cfg w c, 0 <= k_dur c ->
  w_clock w + k_gap c <= w_clock (fst (step cfg w c)) <= w_clock w + k_gap c + k_dur c.
Proof.
  intros cfg w c Hd. rewrite step_unfold. cbn zeta.
  destruct (k_ctx c); try (destruct (rejected _)); cbn [fst w_clock]; lia.
Qed.

(* ---- the invariant of a system *)

Definition slot_ok (cfg : config) (clock : Z) (s : slot) : Prop :=
  match s with
  | SLive w => exists b cs, times_ok cs /\ w = reach cfg b cs /\ w_clock w <= clock
  | _ => True
  end.

Definition sys_ok (cfg : config) (ms : mworld) : Prop := Forall (slot_ok cfg (m_clock ms)) (m_slots ms).

(* a reported row of a live breaker is one step of the sequential model from a world that
   breaker reached by a history of its own *)
Definition row_ok (cfg : config) (r : mrow) : Prop :=
  match r with
  | MRun lc o wpre wpost =>
    (exists b cs, times_ok (cs ++ [lc]) /\ wpre = reach cfg b cs) /\ step cfg wpre lc = (wpost, o)
  | MNopRun o => o_fb o = 0 /\ o_verdict o = None /\ (o_req o = 0 \/ o_req o = 1)
  | _ => True
  end.

Lemma slot_ok_mono : forall cfg c1 c2 s, c1 <= c2 -> slot_ok cfg c1 s -> slot_ok cfg c2 s.
Proof.
  intros cfg c1 c2 s H Hs. destruct s; cbn in *; auto.
  destruct Hs as (b & cs & H1 & H2 & H3). exists b, cs. repeat split; auto. lia.
Qed.

Lemma Forall_set_nth : forall {A} (P : A -> Prop) l i x, Forall P l -> P x -> Forall P (set_nth i x l).
Proof.
  intros A P l. induction l as [|y l IH]; intros i x Hl Hx; destruct i; cbn; auto.
  - inversion Hl; subst. constructor; auto.
  - inversion Hl; subst. constructor; auto.
Qed.

Lemma Forall_nth_d : forall {A} (P : A -> Prop) l i d, Forall P l -> P d -> P (nth i l d).
Proof.
  intros A P l. induction l as [|y l IH]; intros i d Hl Hd; destruct i; cbn; auto.
  - inversion Hl; auto.
  - inversion Hl; subst. apply IH; auto.
Qed.

Lemma sys_ok_mono : forall cfg clock clock' slots,
  clock <= clock' -> Forall (slot_ok cfg clock) slots -> Forall (slot_ok cfg clock') slots.
Proof.
  intros cfg c1 c2 slots H Hs. eapply Forall_impl; [|exact Hs]. intros s. apply slot_ok_mono. exact H.
Qed.

Definition call_ok (c : call) : Prop := 0 <= k_gap c /\ 0 <= k_dur c.

(* what a node establishes: the system stays well-formed, the clock moves forward, the slots
   keep their number, every row is justified *)
Definition post_ok (cfg : config) (ms : mworld) (ms' : mworld) (rows : list mrow) : Prop :=
  sys_ok cfg ms' /\ m_clock ms <= m_clock ms' /\ length (m_slots ms') = length (m_slots ms) /\
  Forall (row_ok cfg) rows.

Lemma Forall_repeat_skip : forall cfg n, Forall (row_ok cfg) (repeat MSkip n).
Proof. intros. apply Forall_forall. intros x Hx. apply repeat_spec in Hx. subst. exact I. Qed.

Lemma nshell_ok : forall cfg ms i c nskip body,
  call_ok c -> sys_ok cfg ms ->
  (forall ms0, sys_ok cfg ms0 ->
     let '(ms1, rows, _) := body ms0 in post_ok cfg ms0 ms1 rows) ->
  let '(ms', rows, _) := nshell cfg ms i c nskip body in post_ok cfg ms ms' rows.
Proof.
  intros cfg ms i c nskip body (Hg & Hd) Hsys Hbody. unfold nshell.
  set (now := m_clock ms + k_gap c).
  set (sl := resolve cfg now (nth i (m_slots ms) SFresh)).
  assert (Hsl : slot_ok cfg now sl).
  { unfold sl. pose proof (Forall_nth_d (slot_ok cfg (m_clock ms)) (m_slots ms) i SFresh Hsys I) as H.
    destruct (nth i (m_slots ms) SFresh) as [|w|]; cbn [resolve].
    - cbn. exists now, []. repeat split; [constructor|cbn; lia].
    - apply slot_ok_mono with (m_clock ms); [unfold now; lia|exact H].
    - exact I. }
  assert (Hsys0 : sys_ok cfg (mkMW now (set_nth i sl (m_slots ms)))).
  { unfold sys_ok. cbn [m_clock m_slots]. apply Forall_set_nth; [|exact Hsl].
    apply sys_ok_mono with (m_clock ms); [unfold now; lia|exact Hsys]. }
  assert (Hbad : post_ok cfg ms (mkMW now (set_nth i sl (m_slots ms))) (MBad :: repeat MSkip nskip)).
  { split; [exact Hsys0|]. cbn [m_clock m_slots]. split; [unfold now; lia|]. split; [apply set_nth_length|].
    constructor; [exact I|apply Forall_repeat_skip]. }
  destruct (length (m_slots ms) <=? i)%nat; [exact Hbad|].
  destruct sl as [|w|] eqn:Esl.
  - exact Hbad.
  - (* a live breaker *)
    cbn in Hsl. destruct Hsl as (b & cs & Hcs & Hw & Hclk).
    (* one step of w at [now], whose request returns at t >= now *)
    assert (Hstep : forall t out slots1,
      now <= t -> Forall (slot_ok cfg t) slots1 -> length slots1 = length (m_slots ms) ->
      let lc := local_call c w now t out in
      let '(w', o) := step cfg w lc in
      sys_ok cfg (mkMW t (set_nth i (SLive w') slots1)) /\
      length (set_nth i (SLive w') slots1) = length (m_slots ms) /\
      row_ok cfg (MRun lc o w w')).
    { intros t out slots1 Ht Hs1 Hlen. cbn zeta.
      set (lc := local_call c w now t out).
      assert (Hlc : 0 <= k_gap lc /\ 0 <= k_dur lc) by (unfold lc, local_call; cbn; lia).
      destruct (step cfg w lc) as [w' o] eqn:Es.
      assert (Hw' : w' = reach cfg b (cs ++ [lc])) by (rewrite reach_snoc, <- Hw, Es; reflexivity).
      split; [|split].
      - unfold sys_ok. cbn [m_clock m_slots]. apply Forall_set_nth; [exact Hs1|].
        cbn. exists b, (cs ++ [lc]). split; [|split; [exact Hw'|]].
        + apply times_ok_app. split; [exact Hcs|]. constructor; [exact Hlc|constructor].
        + pose proof (step_clock cfg w lc (proj2 Hlc)) as Hc. rewrite Es in Hc. cbn [fst] in Hc.
          unfold lc, local_call in Hc. cbn in Hc. lia.
      - rewrite set_nth_length. exact Hlen.
      - cbn. split; [|exact Es]. exists b, cs. split; [|exact Hw].
        apply times_ok_app. split; [exact Hcs|]. constructor; [exact Hlc|constructor]. }
    destruct (will_run cfg w now c).
    + specialize (Hbody _ Hsys0). destruct (body (mkMW now (set_nth i (SLive w) (m_slots ms)))) as [[ms1 rows] out].
      destruct Hbody as (B1 & B2 & B3 & B4). cbn [m_clock m_slots] in B2, B3.
      rewrite set_nth_length in B3.
      assert (Ht1 : now <= m_clock ms1 + k_dur c) by lia.
      assert (Ht2 : m_clock ms1 <= m_clock ms1 + k_dur c) by lia.
      specialize (Hstep (m_clock ms1 + k_dur c) out (m_slots ms1) Ht1
                        (sys_ok_mono cfg _ _ _ Ht2 B1) B3).
      cbn zeta in Hstep. destruct (step cfg w _) as [w' o].
      destruct Hstep as (S1 & S2 & S3).
      split; [exact S1|]. cbn [m_clock m_slots]. split; [unfold now in *; lia|]. split; [exact S2|].
      constructor; [exact S3|exact B4].
    + specialize (Hstep now (k_out c) (set_nth i (SLive w) (m_slots ms)) (Z.le_refl now) Hsys0
                        (set_nth_length _ _ _)).
      cbn zeta in Hstep. destruct (step cfg w _) as [w' o].
      destruct Hstep as (S1 & S2 & S3).
      split; [exact S1|]. cbn [m_clock m_slots]. split; [unfold now; lia|]. split; [exact S2|].
      constructor; [exact S3|apply Forall_repeat_skip].
  - (* nopBreaker *)
    specialize (Hbody _ Hsys0). destruct (body (mkMW now (set_nth i SNop (m_slots ms)))) as [[ms1 rows] out].
    destruct Hbody as (B1 & B2 & B3 & B4). cbn [m_clock m_slots] in B2, B3. rewrite set_nth_length in B3.
    split; [|split; [|split]].
    + unfold sys_ok. cbn [m_clock m_slots]. apply sys_ok_mono with (m_clock ms1); [lia|exact B1].
    + cbn [m_clock]. unfold now in *. lia.
    + exact B3.
    + constructor; [|exact B4]. cbn. repeat split. destruct (is_allow (k_entry c)); auto.
Qed.

Definition ncall_ok (n : ncall) : Prop := Forall call_ok (ncalls n).

Lemma nstep_ok : forall cfg n ms,
  ncall_ok n -> sys_ok cfg ms ->
  let '(ms', rows, _) := nstep cfg ms n in post_ok cfg ms ms' rows.
Proof.
  induction n as [i c|i c wr inner IH]; intros ms Hn Hsys; cbn [nstep].
  - apply nshell_ok; [inversion Hn; assumption|exact Hsys|].
    intros ms0 H0. split; [exact H0|]. split; [lia|]. split; [reflexivity|constructor].
  - inversion Hn as [|? ? Hc Hin]; subst.
    apply nshell_ok; [exact Hc|exact Hsys|].
    intros ms0 H0. specialize (IH ms0 Hin H0). destruct (nstep cfg ms0 inner) as [[ms1 rows] r]. exact IH.
Qed.

Definition op_ok (op : mop) : Prop :=
  match op with MCall n => ncall_ok n | MNoBreaker _ gap => 0 <= gap end.

Lemma mstep_ok : forall cfg ms op,
  op_ok op -> sys_ok cfg ms ->
  let '(ms', rows) := mstep cfg ms op in post_ok cfg ms ms' rows.
Proof.
  intros cfg ms op Hop Hsys. destruct op as [n|i gap]; cbn [mstep].
  - pose proof (nstep_ok cfg n ms Hop Hsys) as H. destruct (nstep cfg ms n) as [[ms' rows] r]. exact H.
  - cbn in Hop. split; [|split; [|split]]; cbn [m_clock m_slots].
    + unfold sys_ok. cbn [m_clock m_slots]. apply Forall_set_nth; [|exact I].
      apply sys_ok_mono with (m_clock ms); [lia|exact Hsys].
    + lia.
    + apply set_nth_length.
    + constructor.
Qed.

Lemma mrun_ok : forall cfg ops ms,
  Forall op_ok ops -> sys_ok cfg ms ->
  let '(ms', rows) := mrun cfg ms ops in post_ok cfg ms ms' rows.
Proof.
  induction ops as [|op ops IH]; intros ms Hops Hsys; cbn [mrun].
  - split; [exact Hsys|]. split; [lia|]. split; [reflexivity|constructor].
  - inversion Hops as [|? ? Hop Hops']; subst.
    pose proof (mstep_ok cfg ms op Hop Hsys) as H1. destruct (mstep cfg ms op) as [ms1 r1].
    destruct H1 as (A1 & A2 & A3 & A4).
    specialize (IH ms1 Hops' A1). destruct (mrun cfg ms1 ops) as [ms2 r2].
    destruct IH as (B1 & B2 & B3 & B4).
    split; [exact B1|]. split; [lia|]. split; [congruence|]. apply Forall_app. auto.
Qed.

Lemma minit_ok : forall cfg base named, sys_ok cfg (minit cfg base named).
Proof.
  intros. unfold sys_ok, minit. cbn [m_clock m_slots]. apply Forall_forall. intros s Hs.
  apply in_map_iff in Hs. destruct Hs as (n & <- & _). destruct n; cbn; auto.
  exists base, []. repeat split; [constructor|cbn; lia].
Qed.

(* THE refinement: along every history of a system of breakers (plain and named ones, calls
   nested to any depth, NoBreakerFor), every reported step of a live breaker is a step of
   the sequential model after a history of that breaker alone *)
Theorem multi_rows_sequential : forall cfg base named ops,
  Forall op_ok ops ->
  Forall (row_ok cfg) (snd (mrun cfg (minit cfg base named) ops)).
Proof.
  intros cfg base named ops Hops.
  pose proof (mrun_ok cfg ops _ Hops (minit_ok cfg base named)) as H.
  destruct (mrun cfg (minit cfg base named) ops) as [ms rows]. destruct H as (_ & _ & _ & H). exact H.
Qed.

(* ... so the admission law holds of every rejection anywhere in the system: T1 *)
Theorem multi_reject_only_if_over : forall cfg base named ops lc o wpre wpost,
  cfg_ok cfg -> Forall op_ok ops ->
  In (MRun lc o wpre wpost) (snd (mrun cfg (minit cfg base named) ops)) ->
  (o_res o = RUnavailable \/ o_res o = RFallback) /\ o_req o = 0 ->
  exists b, let vals := window_vals cfg b (w_marks wpre) (w_clock wpre + k_gap lc) in
            over cfg (n_total vals) (n_success vals).
Proof.
  intros cfg base named ops lc o wpre wpost Hcfg Hops Hin Hres.
  pose proof (multi_rows_sequential cfg base named ops Hops) as H.
  rewrite Forall_forall in H. specialize (H _ Hin). cbn in H.
  destruct H as ((b & cs & Ht & Hw) & Hs). exists b. subst wpre.
  apply (reject_only_if_over_run cfg b cs lc Hcfg Ht). rewrite Hs. exact Hres.
Qed.

(* ... and the fallback of a call anywhere in the system runs only when THAT call was
   rejected by ITS breaker, the request only when admitted, and an admitted call hands back
   what its request returned - e.g. the ErrServiceUnavailable of an inner breaker *)
Theorem multi_exact_runs : forall cfg base named ops lc o wpre wpost,
  Forall op_ok ops ->
  In (MRun lc o wpre wpost) (snd (mrun cfg (minit cfg base named) ops)) ->
  o_req o = (if was_admitted o && negb (is_allow (k_entry lc)) then 1 else 0) /\
  o_fb o = (if was_rejected o && has_fallback (k_entry lc) then 1 else 0) /\
  (was_admitted o = true -> o_res o = result_of (k_entry lc) (k_out lc)).
Proof.
  intros cfg base named ops lc o wpre wpost Hops Hin.
  pose proof (multi_rows_sequential cfg base named ops Hops) as H.
  rewrite Forall_forall in H. specialize (H _ Hin). cbn in H. destruct H as (_ & Hs).
  pose proof (run_exact_runs cfg [lc] wpre) as R. cbn [run] in R. rewrite Hs in R. cbn [snd] in R.
  inversion R as [|? ? ? ? (R1 & R2 & R3 & _) _]; subst. auto.
Qed.

(* ---- isolation: a call tree touches the breakers on its path only *)

Lemma nshell_frame : forall cfg ms i c nskip body j,
  j <> i ->
  (forall ms0, nth j (m_slots (fst (fst (body ms0)))) SFresh = nth j (m_slots ms0) SFresh) ->
  nth j (m_slots (fst (fst (nshell cfg ms i c nskip body)))) SFresh = nth j (m_slots ms) SFresh.
Proof.
  intros cfg ms i c nskip body j Hj Hbody. unfold nshell.
  set (now := m_clock ms + k_gap c).
  set (sl := resolve cfg now (nth i (m_slots ms) SFresh)).
  assert (H0 : nth j (set_nth i sl (m_slots ms)) SFresh = nth j (m_slots ms) SFresh)
    by (apply nth_set_nth_neq; auto).
  destruct (length (m_slots ms) <=? i)%nat; [exact H0|].
  destruct sl as [|w|].
  - exact H0.
  - destruct (will_run cfg w now c).
    + specialize (Hbody (mkMW now (set_nth i (SLive w) (m_slots ms)))).
      destruct (body _) as [[ms1 rows] out]. cbn [fst m_slots] in Hbody.
      destruct (step cfg w _) as [w' o]. cbn [fst m_slots].
      rewrite nth_set_nth_neq by auto. rewrite Hbody. exact H0.
    + destruct (step cfg w _) as [w' o]. cbn [fst m_slots].
      rewrite nth_set_nth_neq by auto. exact H0.
  - specialize (Hbody (mkMW now (set_nth i SNop (m_slots ms)))).
    destruct (body _) as [[ms1 rows] out]. cbn [fst m_slots] in *. rewrite Hbody. exact H0.
Qed.

Theorem nstep_frame : forall cfg n ms j,
  ~ In j (ninsts n) ->
  nth j (m_slots (fst (fst (nstep cfg ms n)))) SFresh = nth j (m_slots ms) SFresh.
Proof.
  induction n as [i c|i c wr inner IH]; intros ms j Hj; cbn [nstep].
  - apply nshell_frame; [cbn in Hj; intuition|]. intros ms0. reflexivity.
  - cbn [ninsts] in Hj. apply nshell_frame; [intros E; apply Hj; left; auto|].
    intros ms0. specialize (IH ms0 j ltac:(intros H; apply Hj; right; exact H)).
    destruct (nstep cfg ms0 inner) as [[ms1 rows] r]. exact IH.
Qed.

Definition op_insts (op : mop) : list nat :=
  match op with MCall n => ninsts n | MNoBreaker i _ => [i] end.

Theorem multi_isolation : forall cfg ops ms j,
  (forall op, In op ops -> ~ In j (op_insts op)) ->
  nth j (m_slots (fst (mrun cfg ms ops))) SFresh = nth j (m_slots ms) SFresh.
Proof.
  induction ops as [|op ops IH]; intros ms j Hj; cbn [mrun]; [reflexivity|].
  assert (H1 : nth j (m_slots (fst (mstep cfg ms op))) SFresh = nth j (m_slots ms) SFresh).
  { specialize (Hj op (or_introl eq_refl)). destruct op as [n|i gap]; cbn [mstep op_insts] in *.
    - pose proof (nstep_frame cfg n ms j Hj) as H. destruct (nstep cfg ms n) as [[ms' rows] r]. exact H.
    - cbn [fst m_slots]. apply nth_set_nth_neq. intros E. apply Hj. left. exact E. }
  destruct (mstep cfg ms op) as [ms1 r1]. cbn [fst] in H1.
  specialize (IH ms1 j (fun op' H => Hj op' (or_intror H))).
  destruct (mrun cfg ms1 ops) as [ms2 r2]. cbn [fst] in *. congruence.
Qed.
