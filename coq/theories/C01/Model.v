(* C01 — circuit breaker: executable model of core/breaker/googlebreaker.go
   (accept / history / doReq / allow / markSuccess|Failure|Drop / googlePromise) and of
   the entry points of core/breaker/breaker.go (Do, DoWithAcceptable, DoWithFallback,
   DoWithFallbackAcceptable, Allow + Promise.Accept|Reject, and their *Ctx variants),
   on top of the shared window model Lib/RollingWindow.v.   No proofs in this file.

   Conventions
   - times are integer nanoseconds of timex.Now(); the clock is an argument;
   - the value added to the window is the Go constant: success = 0, fail = 1, drop = 2
     (bucket.Add: 1 -> fail, 2 -> drop, anything else -> succeed);
   - a bucket of the shared window model is the list of values added since its last
     reset; the breaker's {Sum, Success, Failure, Drop} is a fold of that list;
   - arithmetic that is float64 in Go (w, weightedAccepts, dropRatio) is exact Q here;
   - the random draw of mathx.Proba.TrueOnProba is the oracle argument [u] of the call;
   - all constants of googlebreaker.go are the fields of [config]; [cfg_default] holds
     today's values, coq/gen/C01Consts.v is re-extracted from the source at every run
     and C01/GenProofs.v re-proves the side conditions of the theorems for it. *)
From Coq Require Import List ZArith QArith Bool.
From GZ Require Import Lib.RollingWindow.
Import ListNotations.
Open Scope Z_scope.

(* ---------------------------------------------------------------- constants *)

Record config := mkCfg
  { c_window : Z;        (* window            = time.Second * 10 *)
    c_buckets : Z;       (* buckets           = 40 *)
    c_force : Z;         (* forcePassDuration = time.Second *)
    c_k : Q;             (* k                 = 1.5 *)
    c_minK : Q;          (* minK              = 1.1 *)
    c_protection : Z }.  (* protection        = 5 *)

Definition cfg_default : config :=
  mkCfg 10000000000 40 1000000000 (3 # 2) (11 # 10) 5.

(* bucketDuration := time.Duration(int64(window) / int64(buckets)) *)
Definition bucket_duration (cfg : config) : Z := Z.quot (c_window cfg) (c_buckets cfg).

(* ------------------------------------------------------------------ buckets *)

Definition v_success : Z := 0.
Definition v_fail : Z := 1.
Definition v_drop : Z := 2.

Record bstat := mkB { b_sum : Z; b_succ : Z; b_fail : Z; b_drop : Z }.
Definition b_zero : bstat := mkB 0 0 0 0.

(* bucket.Add *)
Definition bucket_add (b : bstat) (v : Z) : bstat :=
  if v =? 1 then mkB (b_sum b + 1) (b_succ b) (b_fail b + 1) (b_drop b)
  else if v =? 2 then mkB (b_sum b + 1) (b_succ b) (b_fail b) (b_drop b + 1)
  else mkB (b_sum b + 1) (b_succ b + 1) (b_fail b) (b_drop b).

Definition bucket_of (l : list Z) : bstat := fold_left bucket_add l b_zero.

(* ---------------------------------------------------------------- history() *)

Record wres := mkW { w_accepts : Z; w_total : Z; w_failing : Z; w_working : Z }.
Definition w_zero : wres := mkW 0 0 0 0.

(* the closure passed to stat.Reduce in googleBreaker.history *)
Definition hist_step (r : wres) (b : bstat) : wres :=
  mkW (w_accepts r + b_succ b) (w_total r + b_sum b)
      (if 0 <? b_succ b then 0 else if 0 <? b_fail b then w_failing r + 1 else w_failing r)
      (if 0 <? b_fail b then 0 else if 0 <? b_succ b then w_working r + 1 else w_working r).

Definition hist_of (bs : list bstat) : wres := fold_left hist_step bs w_zero.

Definition history (w : rw) (now : Z) : wres := hist_of (map bucket_of (rw_reduce w now)).

(* sums of the other two bucket fields over the same buckets (observables only) *)
Definition sum_fail (w : rw) (now : Z) : Z :=
  fold_left (fun a l => a + b_fail (bucket_of l)) (rw_reduce w now) 0.
Definition sum_drop (w : rw) (now : Z) : Z :=
  fold_left (fun a l => a + b_drop (bucket_of l)) (rw_reduce w now) 0.

(* ----------------------------------------------------------------- accept() *)

Record state := mkSt
  { swin : rw;      (* googleBreaker.stat *)
    slast : Z }.    (* googleBreaker.lastPass; 0 = never set *)

Definition init (cfg : config) (now : Z) : state :=
  mkSt (rw_new (Z.to_nat (c_buckets cfg)) (bucket_duration cfg) now false) 0.

Definition Qltb (a b : Q) : bool := negb (Qle_bool b a).

(* w = k - (k-minK)*failingBuckets/buckets ; mathx.AtLeast(w, minK) *)
Definition weight (cfg : config) (r : wres) : Q :=
  let w := (c_k cfg - (c_k cfg - c_minK cfg) * inject_Z (w_failing r) / inject_Z (c_buckets cfg))%Q in
  if Qltb w (c_minK cfg) then c_minK cfg else w.

(* numerator of dropRatio: (total - protection) - w*accepts *)
Definition drop_num (cfg : config) (r : wres) : Q :=
  (inject_Z (w_total r - c_protection cfg) - weight cfg r * inject_Z (w_accepts r))%Q.

Definition drop_ratio (cfg : config) (r : wres) : Q :=
  (drop_num cfg r / inject_Z (w_total r + 1))%Q.

(* dropRatio *= float64(buckets-workingBuckets) / buckets *)
Definition scaled_ratio (cfg : config) (r : wres) : Q :=
  (drop_ratio cfg r * (inject_Z (c_buckets cfg - w_working r) / inject_Z (c_buckets cfg)))%Q.

Inductive verdict :=
| VAdmit        (* dropRatio <= 0 *)
| VForcePass    (* throttling, lastPass > 0 and older than forcePassDuration *)
| VRandomPass   (* throttling, the draw was not below the ratio *)
| VReject.      (* throttling, u < ratio : ErrServiceUnavailable *)

Definition force_due (cfg : config) (lastPass now : Z) : bool :=
  (0 <? lastPass) && (c_force cfg <? now - lastPass).

(* the decision of accept() from what history() returned, lastPass, the clock and
   the draw *)
Definition decide (cfg : config) (r : wres) (lastPass now : Z) (u : Q) : verdict :=
  if Qle_bool (drop_ratio cfg r) 0 then VAdmit
  else if force_due cfg lastPass now then VForcePass
  else if Qltb u (scaled_ratio cfg r) then VReject
  else VRandomPass.

Definition rejected (v : verdict) : bool := match v with VReject => true | _ => false end.
Definition throttled_pass (v : verdict) : bool :=
  match v with VForcePass | VRandomPass => true | _ => false end.

(* lastPass after the decision: b.lastPass.Set(timex.Now()) on both throttled passes *)
Definition last_after (v : verdict) (lastPass now : Z) : Z :=
  if throttled_pass v then now else lastPass.

Definition accept (cfg : config) (s : state) (now : Z) (u : Q) : state * verdict :=
  let v := decide cfg (history (swin s) now) (slast s) now u in
  (mkSt (swin s) (last_after v (slast s) now), v).

(* markSuccess / markFailure / markDrop = stat.Add(v) *)
Definition mark (s : state) (now v : Z) : state := mkSt (rw_add (swin s) now v) (slast s).

(* ------------------------------------------------------------- entry points *)

Inductive entry :=
| EDo             (* Do(req)                                  : no fallback, acceptable = (err == nil) *)
| EDoAcc          (* DoWithAcceptable(req, acc)               : no fallback, caller's predicate *)
| EDoFb           (* DoWithFallback(req, fb)                  : fallback, acceptable = (err == nil) *)
| EDoFbAcc        (* DoWithFallbackAcceptable(req, fb, acc)   : fallback, caller's predicate *)
| EAllowAccept    (* Allow() then promise.Accept()  *)
| EAllowReject.   (* Allow() then promise.Reject(_) *)

Inductive ctxmode :=
| CNone           (* the entry point without context *)
| CLive           (* the *Ctx variant, context not done *)
| CDone.          (* the *Ctx variant, context already done *)

(* what the request does.  Besides nil / an ordinary error / an error the caller's predicate
   accepts / a panic, the request may return (or panic with) VALUES that collide with the
   ones the breaker itself produces: ErrServiceUnavailable bare or %w-wrapped (a nested or
   downstream breaker that is open), context.Canceled / DeadlineExceeded although the
   call's own context is live, the very value the fallback returns.  The caller's
   predicate (DoWithAcceptable, DoWithFallbackAcceptable) accepts nil, the "acceptable"
   error, the wrapped ErrServiceUnavailable and context.Canceled; the default predicate
   accepts nil only. *)
Inductive outcome :=
| OOk | OErrU | OErrA | OPanic
| OErrSU          (* returns breaker.ErrServiceUnavailable itself; unacceptable *)
| OErrSUW         (* returns fmt.Errorf("..: %w", ErrServiceUnavailable); acceptable to the caller's predicate *)
| OCanceled       (* returns context.Canceled (live context); acceptable to the caller's predicate *)
| ODeadline       (* returns context.DeadlineExceeded (live context); unacceptable *)
| OErrFB          (* returns the value the fallback would return; unacceptable *)
| OPanicSU        (* panic(ErrServiceUnavailable) *)
(* The caller's predicate is a user callback with a behaviour of its own: a function of the
   returned VALUE, nil included, that may look at side state of the request (rest/httpc:
   err == nil && resp.StatusCode < 500).  With the default predicate (Do, DoWithFallback) these
   three are plain returns of nil / of the unacceptable error. *)
| OOkRej          (* returns nil; the caller's predicate says "unacceptable" (e.g. an HTTP 5xx behind a nil error) *)
| OErrUAcc        (* returns the unacceptable error value; the caller's predicate accepts it this time *)
| OPredPanic.     (* returns nil; the caller's predicate panics *)

(* what the request hands back: nil? *)
Definition returns_nil (o : outcome) : bool :=
  match o with OOk | OOkRej | OPredPanic => true | _ => false end.

(* the answer of the CALLER'S predicate on the value the request returned; None: it is not
   asked (the request panicked) or it does not answer (it panics itself) *)
Definition pred_answer (o : outcome) : option bool :=
  match o with
  | OOk | OErrA | OErrSUW | OCanceled | OErrUAcc => Some true
  | OErrU | OErrSU | ODeadline | OErrFB | OOkRej => Some false
  | OPanic | OPanicSU | OPredPanic => None
  end.

Record call := mkCall
  { k_entry : entry; k_ctx : ctxmode; k_out : outcome;
    k_gap : Z;     (* the clock advances by gap before the call *)
    k_dur : Z;     (* the request (or the caller between Allow and Accept/Reject) takes dur *)
    k_u : Q }.     (* the draw r.Float64() of this call, if one is made *)

(* which VALUE came back (identity of the Go value, not who produced it): a rejected call
   and an admitted call whose request returned ErrServiceUnavailable both give
   RUnavailable - they differ in how often the request ran *)
Inductive result :=
| RNil | RUnavailable | RErrU | RErrA | RPanic
| RFallback       (* the value returned by the fallback *)
| RCtxDone        (* context.Canceled: ctx.Err() of the done context, or the request's own *)
| ROther          (* anything else (never produced by the model) *)
| RErrSUW         (* the request's wrapped ErrServiceUnavailable *)
| RDeadline       (* context.DeadlineExceeded *)
| RPanicSU.       (* panic value ErrServiceUnavailable *)

Definition has_fallback (e : entry) : bool :=
  match e with EDoFb | EDoFbAcc => true | _ => false end.
Definition is_allow (e : entry) : bool :=
  match e with EAllowAccept | EAllowReject => true | _ => false end.

(* is the call that was let through recorded as a success? *)
Definition counts_as_success (e : entry) (o : outcome) : bool :=
  match e with
  | EAllowAccept => true
  | EAllowReject => false
  | EDo | EDoFb => match o with OOk | OOkRej | OPredPanic => true | _ => false end   (* defaultAcceptable: err == nil *)
  | EDoAcc | EDoFbAcc =>                                 (* the caller's predicate, asked also about nil *)
    match o with OOk | OErrA | OErrSUW | OCanceled | OErrUAcc => true | _ => false end
  end.

(* what a call that was let through returns / raises *)
Definition result_of (e : entry) (o : outcome) : result :=
  if is_allow e then RNil
  else match o with
       | OOk => RNil | OErrU => RErrU | OErrA => RErrA | OPanic => RPanic
       | OErrSU => RUnavailable | OErrSUW => RErrSUW | OCanceled => RCtxDone
       | ODeadline => RDeadline | OErrFB => RFallback | OPanicSU => RPanicSU
       | OOkRej => RNil | OErrUAcc => RErrU
       | OPredPanic => match e with EDoAcc | EDoFbAcc => RPanic | _ => RNil end   (* the predicate's panic propagates *)
       end.

Record obs := mkObs
  { o_res : result;
    o_req : Z;              (* how many times the request ran *)
    o_fb : Z;               (* how many times the fallback ran *)
    o_verdict : option verdict }.   (* None: accept() was not reached (done context) *)

(* ghost log: every value handed to stat.Add with its time, oldest first, and every
   decision of accept() with its time *)
Record world := mkWorld
  { w_st : state;
    w_clock : Z;
    w_marks : list (Z * Z);
    w_decisions : list (Z * verdict) }.

Definition init_world (cfg : config) (base : Z) : world := mkWorld (init cfg base) base [] [].

Definition step (cfg : config) (w : world) (c : call) : world * obs :=
  let now := w_clock w + k_gap c in
  match k_ctx c with
  | CDone => (mkWorld (w_st w) now (w_marks w) (w_decisions w), mkObs RCtxDone 0 0 None)
  | _ =>
    let '(s1, v) := accept cfg (w_st w) now (k_u c) in
    if rejected v then
      (mkWorld (mark s1 now v_drop) now (w_marks w ++ [(now, v_drop)]) (w_decisions w ++ [(now, v)]),
       mkObs (if has_fallback (k_entry c) then RFallback else RUnavailable) 0
             (if has_fallback (k_entry c) then 1 else 0) (Some v))
    else
      let t := now + k_dur c in
      let x := if counts_as_success (k_entry c) (k_out c) then v_success else v_fail in
      (mkWorld (mark s1 t x) t (w_marks w ++ [(t, x)]) (w_decisions w ++ [(now, v)]),
       mkObs (result_of (k_entry c) (k_out c)) (if is_allow (k_entry c) then 0 else 1) 0 (Some v))
  end.

Fixpoint run (cfg : config) (w : world) (cs : list call) : world * list obs :=
  match cs with
  | [] => (w, [])
  | c :: cs' => let '(w1, o) := step cfg w c in
                let '(w2, os) := run cfg w1 cs' in (w2, o :: os)
  end.

Definition final (cfg : config) (w : world) (cs : list call) : world := fst (run cfg w cs).

(* ------------------------------------------------ concurrent calls (T5)
   Each call is a thread of three atomic actions, in this order:
     read    history(): the window sums, under the window's read lock;
     decide  lastPass.Load / the draw / lastPass.Set (atomics);
     mark    stat.Add under the window's write lock (drop, success or failure).
   A schedule is a list of (thread, dt): the clock advances by dt >= 0 and the thread
   performs its next action.  Between the read and the mark of one call any number of
   actions of other calls may happen: the decision is taken on an older window. *)

Inductive tstate :=
| TInit
| TRead (r : wres)                      (* history() returned r *)
| TDecided (r : wres) (v : verdict)     (* accept() returned *)
| TDone (r : option wres) (o : obs).    (* the call returned (r: what it had read) *)

Inductive event :=
| EvRead (tid : nat) (t : Z) (r : wres)
| EvDecide (tid : nat) (t : Z) (r : wres) (v : verdict)   (* decided v on the summary r it had read *)
| EvMark (tid : nat) (t : Z) (x : Z).

Record iworld := mkIW
  { i_st : state; i_clock : Z; i_threads : list tstate; i_log : list event }.

Definition init_iworld (cfg : config) (base : Z) (n : nat) : iworld :=
  mkIW (init cfg base) base (repeat TInit n) [].

Definition dummy_call : call := mkCall EDo CDone OOk 0 0 0.
Definition ctx_obs : obs := mkObs RCtxDone 0 0 None.

(* what a call hands to stat.Add, and what it returns, given the verdict of accept() *)
Definition mark_value (c : call) (v : verdict) : Z :=
  if rejected v then v_drop
  else if counts_as_success (k_entry c) (k_out c) then v_success else v_fail.

Definition call_obs (c : call) (v : verdict) : obs :=
  if rejected v then
    mkObs (if has_fallback (k_entry c) then RFallback else RUnavailable) 0
          (if has_fallback (k_entry c) then 1 else 0) (Some v)
  else
    mkObs (result_of (k_entry c) (k_out c)) (if is_allow (k_entry c) then 0 else 1) 0 (Some v).

Definition istep (cfg : config) (calls : list call) (w : iworld) (a : nat * Z) : iworld :=
  let '(tid, dt) := a in
  let now := i_clock w + dt in
  let c := nth tid calls dummy_call in
  let upd ts := set_nth tid ts (i_threads w) in
  if (length calls <=? tid)%nat then mkIW (i_st w) now (i_threads w) (i_log w) else
  match nth tid (i_threads w) (TDone None ctx_obs) with
  | TInit =>
    match k_ctx c with
    | CDone => mkIW (i_st w) now (upd (TDone None ctx_obs)) (i_log w)
    | _ => let r := history (swin (i_st w)) now in
           mkIW (i_st w) now (upd (TRead r)) (i_log w ++ [EvRead tid now r])
    end
  | TRead r =>
    let v := decide cfg r (slast (i_st w)) now (k_u c) in
    mkIW (mkSt (swin (i_st w)) (last_after v (slast (i_st w)) now)) now
         (upd (TDecided r v)) (i_log w ++ [EvDecide tid now r v])
  | TDecided r v =>
    mkIW (mark (i_st w) now (mark_value c v)) now
         (upd (TDone (Some r) (call_obs c v)))
         (i_log w ++ [EvMark tid now (mark_value c v)])
  | TDone _ _ => mkIW (i_st w) now (i_threads w) (i_log w)
  end.

Definition irun (cfg : config) (calls : list call) (w : iworld) (sched : list (nat * Z)) : iworld :=
  fold_left (istep cfg calls) sched w.

(* the marks of an interleaved log, as a window history *)
Fixpoint marks_of (l : list event) : list (Z * Z) :=
  match l with
  | [] => []
  | EvMark _ t x :: l' => (t, x) :: marks_of l'
  | _ :: l' => marks_of l'
  end.
