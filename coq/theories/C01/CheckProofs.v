(* C01 — the executable judgement of Check.v (prop_ok) against the model: the pieces of
   prop_ok that decide WHICH clause of the property applies to an observed call are exact on
   model-conformant observations, and its admission-law test (the property's own constants
   5 and 10 %) is implied by the model's rejection rule for today's constants - so prop_ok
   cannot raise an alarm on these grounds for an implementation that agrees with the model. *)
From Coq Require Import List ZArith QArith Bool Lia Lqa.
From GZ Require Import Lib.RollingWindow C01.Model C01.Spec C01.Proofs C01.Gen C01.GenProofs C01.Check.
Import ListNotations.
Open Scope Z_scope.

(* what prop_ok reads of an observation to classify it *)
Definition iobs_of (o : obs) : iobs := mkI (o_res o) (o_req o) (o_fb o) true 0 0 0 0 0 0 0 0 0 0 0 0 0.

(* "rejected iff the request did not run (Allow: iff it returned non-nil)" is exactly the
   model's verdict, for every entry point and every outcome - including the outcomes whose
   VALUE is ErrServiceUnavailable or the fallback's *)
Lemma pc_rejected_exact : forall cfg w c,
  k_ctx c <> CDone ->
  let o := snd (step cfg w c) in
  pc_rejected (k_entry c) (iobs_of o) = was_rejected o.
Proof.
  intros cfg w c Hctx. rewrite step_unfold. cbn zeta.
  destruct (k_ctx c); try contradiction.
  all: match goal with |- context [rejected ?v] => destruct v eqn:Ev end;
       cbn [rejected snd]; unfold pc_rejected, was_rejected, iobs_of;
       cbn [x_res x_req o_res o_req o_verdict];
       destruct (k_entry c); cbn; try reflexivity; destruct (k_out c); reflexivity.
Qed.

(* the admission-law test of prop_ok, non-accepted > 5 + 10 % of accepted, holds of every
   window summary on which the model (today's constants) rejects *)
Lemma over_limit_sound : forall r lp now u,
  0 <= w_accepts r -> 0 <= w_total r ->
  decide cfg_gen r lp now u = VReject -> over_limit r = true.
Proof.
  intros r lp now u Ha Ht H.
  pose proof (reject_over_read cfg_gen r lp now u Ha Ht H) as Hover.
  unfold over in Hover. unfold over_limit, prop_protection, prop_fraction.
  apply Qltb_true.
  pose proof gen_minK_ok as HM. rewrite gen_protection_ok in Hover.
  assert (HA : (0 <= inject_Z (w_accepts r))%Q) by (apply inject_Z_nonneg; exact Ha).
  set (A := inject_Z (w_accepts r)) in *. set (N := inject_Z (w_total r - w_accepts r)) in *.
  set (M := c_minK cfg_gen) in *.
  assert (E5 : (inject_Z 5 == 5)%Q) by reflexivity. rewrite E5 in *.
  assert ((1 # 10) * A <= (M - 1) * A)%Q by (apply Qmult_le_compat_r; [lra|exact HA]).
  lra.
Qed.

(* an admitted call judged by prop_ok's admitted-branch run checks: request count, fallback
   count and returned value of the model observation are the ones prop_ok demands *)
Lemma pc_admit_runs_exact : forall cfg w c,
  let o := snd (step cfg w c) in
  was_admitted o = true ->
  result_eqb (o_res o) (result_of (k_entry c) (k_out c)) = true /\
  (o_req o =? (if is_allow (k_entry c) then 0 else 1)) = true /\ (o_fb o =? 0) = true.
Proof.
  intros cfg w c. cbn zeta. intros Hadm.
  pose proof (run_exact_runs cfg [c] w) as R. cbn [run] in R.
  destruct (step cfg w c) as [w1 o]. cbn [snd] in *.
  inversion R as [|? ? ? ? (R1 & R2 & R3 & _) _]; subst.
  rewrite Hadm in R1. rewrite (R3 Hadm), R1, R2.
  assert (was_rejected o = false) as ->.
  { unfold was_admitted, was_rejected in *. destruct (o_verdict o) as [[]|]; try reflexivity; discriminate. }
  repeat split.
  - destruct (result_of (k_entry c) (k_out c)); reflexivity.
  - destruct (is_allow (k_entry c)); reflexivity.
Qed.

(* ---- the wrapper judgement.  wcall_prop carries its own table of failures (spec_is_failure,
   written out independently of WrapModel); it accepts the model's own record for every call
   site, admitted or rejected, every context life and every downstream outcome - so the two
   tables agree, and an implementation that agrees with the model cannot be flagged here. *)
Definition wobs_of (k : wkind) (d : derr) (r : wrapres) : wobs :=
  mkWO (wr_invoked r) (wr_succ r) (wr_fail r) (wr_drop r) (real_seen k d (wr_seen r)).

Lemma grpc_code_tables_agree : forall c,
  existsb (Z.eqb c) [4; 8; 12; 13; 14; 15] = grpc_failure_code c.
Proof.
  intros c. unfold grpc_failure_code. cbn [existsb].
  destruct (c =? 4), (c =? 8), (c =? 12), (c =? 13), (c =? 14), (c =? 15); reflexivity.
Qed.

Lemma grpc_code_tables_agree' : forall c,
  (c =? 4) || ((c =? 8) || ((c =? 12) || ((c =? 13) || ((c =? 14) || ((c =? 15) || false))))) = grpc_failure_code c.
Proof. exact grpc_code_tables_agree. Qed.

Lemma wcall_prop_accepts_model : forall k rej x d,
  wcall_prop (mkWC k rej x d) (wobs_of k d (wrapx k rej x d)) = true.
Proof.
  intros k rej x d.
  destruct k as [| | | | | | | | |m u|]; try destruct m; try destruct u; destruct rej; destruct x; destruct d as [| | | | | | | | | | | | | | | | | | | | | | |s b];
    try destruct b; try reflexivity;
    unfold wcall_prop, wobs_of, wrapx, wrap; cbn;
    rewrite ?grpc_code_tables_agree';
    try (destruct (grpc_failure_code code); reflexivity);
    try (destruct ((1 <=? i) && (i <=? n)); reflexivity).
Qed.
