(* C01 — proofs: bucket/histogram folds, the admission law, the window invariant of
   runs, accounting, force-pass, total failure (sequential histories). *)
From Coq Require Import List ZArith QArith Bool Lia Lqa.
From GZ Require Import Lib.RollingWindow Lib.RollingWindowSpec Lib.RollingWindowProofs.
From GZ Require Import C01.Model C01.Spec.
Import ListNotations.
Open Scope Z_scope.

(* ------------------------------------------------------------------ buckets *)

Lemma n_if_app : forall p l1 l2, n_if p (l1 ++ l2) = n_if p l1 + n_if p l2.
Proof. intros. unfold n_if. rewrite filter_app, app_length. lia. Qed.

Lemma n_total_app : forall l1 l2, n_total (l1 ++ l2) = n_total l1 + n_total l2.
Proof. intros. unfold n_total. rewrite app_length. lia. Qed.

Lemma n_if_nonneg : forall p l, 0 <= n_if p l.
Proof. intros. unfold n_if. lia. Qed.

Lemma n_partition : forall l, n_total l = n_success l + n_fail l + n_drop l.
Proof.
  induction l as [|v l IH]; [reflexivity|].
  unfold n_total, n_success, n_fail, n_drop, n_if in *. cbn [filter].
  unfold is_success, is_fail, is_drop in *.
  destruct (Z.eqb_spec v 1); destruct (Z.eqb_spec v 2); cbn [negb andb length]; lia.
Qed.

Lemma n_if_cons : forall p v l, n_if p (v :: l) = n_if p [v] + n_if p l.
Proof. intros. change (v :: l) with ([v] ++ l). apply n_if_app. Qed.

Lemma n_total_cons : forall v l, n_total (v :: l) = 1 + n_total l.
Proof. intros. unfold n_total. cbn [length]. lia. Qed.

Lemma bucket_add_stats : forall b v,
  b_sum (bucket_add b v) = b_sum b + 1 /\ b_succ (bucket_add b v) = b_succ b + n_success [v] /\
  b_fail (bucket_add b v) = b_fail b + n_fail [v] /\ b_drop (bucket_add b v) = b_drop b + n_drop [v].
Proof.
  intros b v. unfold bucket_add, n_success, n_fail, n_drop, n_if, is_success, is_fail, is_drop.
  cbn [filter].
  destruct (Z.eqb_spec v 1); destruct (Z.eqb_spec v 2); cbn; lia.
Qed.

Lemma bucket_fold : forall l b,
  let b' := fold_left bucket_add l b in
  b_sum b' = b_sum b + n_total l /\ b_succ b' = b_succ b + n_success l /\
  b_fail b' = b_fail b + n_fail l /\ b_drop b' = b_drop b + n_drop l.
Proof.
  induction l as [|v l IH]; intros b; cbn zeta.
  - cbn. unfold n_total, n_success, n_fail, n_drop, n_if. cbn. lia.
  - cbn [fold_left]. specialize (IH (bucket_add b v)). cbn zeta in IH.
    destruct IH as (H1 & H2 & H3 & H4). rewrite H1, H2, H3, H4.
    destruct (bucket_add_stats b v) as (A1 & A2 & A3 & A4). rewrite A1, A2, A3, A4.
    unfold n_success, n_fail, n_drop.
    rewrite n_total_cons, (n_if_cons is_success v l), (n_if_cons is_fail v l), (n_if_cons is_drop v l). lia.
Qed.

Lemma bucket_of_stats : forall l,
  b_sum (bucket_of l) = n_total l /\ b_succ (bucket_of l) = n_success l /\
  b_fail (bucket_of l) = n_fail l /\ b_drop (bucket_of l) = n_drop l.
Proof. intros l. pose proof (bucket_fold l b_zero) as H. cbn zeta in H. cbn in H. exact H. Qed.

(* ---------------------------------------------------------------- history() *)

Lemma hist_fold : forall ls r,
  let r' := fold_left hist_step (map bucket_of ls) r in
  w_total r' = w_total r + n_total (concat ls) /\
  w_accepts r' = w_accepts r + n_success (concat ls).
Proof.
  induction ls as [|l ls IH]; intros r; cbn zeta.
  - cbn. unfold n_total, n_success, n_if. cbn. lia.
  - cbn [map fold_left concat]. specialize (IH (hist_step r (bucket_of l))). cbn zeta in IH.
    destruct IH as (H1 & H2). rewrite H1, H2.
    unfold n_success. rewrite n_total_app, n_if_app.
    destruct (bucket_of_stats l) as (S1 & S2 & _). unfold hist_step. cbn [w_total w_accepts].
    rewrite S1, S2. unfold n_success. lia.
Qed.

(* accepts >= 0, and no success in the window means no working bucket *)
Lemma hist_working : forall ls r,
  0 <= w_accepts r -> (w_accepts r = 0 -> w_working r = 0) ->
  let r' := fold_left hist_step (map bucket_of ls) r in
  0 <= w_accepts r' /\ (w_accepts r' = 0 -> w_working r' = 0).
Proof.
  induction ls as [|l ls IH]; intros r H0 H1; cbn zeta.
  - cbn. auto.
  - cbn [map fold_left]. apply IH.
    + unfold hist_step. cbn. destruct (bucket_of_stats l) as (_ & S2 & _).
      rewrite S2. pose proof (n_if_nonneg is_success l). unfold n_success. lia.
    + unfold hist_step. cbn. destruct (bucket_of_stats l) as (_ & S2 & S3 & _).
      rewrite S2, S3. pose proof (n_if_nonneg is_success l). pose proof (n_if_nonneg is_fail l).
      unfold n_success, n_fail in *. intros E.
      destruct (Z.ltb_spec 0 (n_if is_fail l)); [reflexivity|].
      destruct (Z.ltb_spec 0 (n_if is_success l)); [lia|]. apply H1. lia.
Qed.

Lemma history_counts : forall w now,
  let h := history w now in
  w_total h = n_total (concat (rw_reduce w now)) /\
  w_accepts h = n_success (concat (rw_reduce w now)) /\
  0 <= w_accepts h /\ (w_accepts h = 0 -> w_working h = 0).
Proof.
  intros w now. cbn zeta. unfold history, hist_of.
  pose proof (hist_fold (rw_reduce w now) w_zero) as H. cbn zeta in H.
  pose proof (hist_working (rw_reduce w now) w_zero) as H'. cbn zeta in H'.
  cbn [w_total w_accepts w_working w_zero] in *.
  destruct H as (H1 & H2). destruct H' as (H3 & H4); [lia|auto|].
  repeat split; auto.
Qed.

Lemma sum_fold_fail : forall ls a,
  fold_left (fun a l => a + b_fail (bucket_of l)) ls a = a + n_fail (concat ls).
Proof.
  induction ls as [|l ls IH]; intros a; cbn [fold_left concat].
  - unfold n_fail, n_if. cbn. lia.
  - rewrite IH. destruct (bucket_of_stats l) as (_ & _ & S3 & _). rewrite S3.
    unfold n_fail. rewrite n_if_app. lia.
Qed.

Lemma sum_fold_drop : forall ls a,
  fold_left (fun a l => a + b_drop (bucket_of l)) ls a = a + n_drop (concat ls).
Proof.
  induction ls as [|l ls IH]; intros a; cbn [fold_left concat].
  - unfold n_drop, n_if. cbn. lia.
  - rewrite IH. destruct (bucket_of_stats l) as (_ & _ & _ & S4). rewrite S4.
    unfold n_drop. rewrite n_if_app. lia.
Qed.

(* ------------------------------------------------------- the admission law *)

Lemma Qltb_true : forall a b, Qltb a b = true <-> (a < b)%Q.
Proof.
  intros a b. unfold Qltb. rewrite negb_true_iff. split.
  - intros H. apply Qnot_le_lt. intros L. apply Qle_bool_iff in L. congruence.
  - intros H. destruct (Qle_bool b a) eqn:E; [|reflexivity].
    apply Qle_bool_iff in E. exfalso. apply (Qlt_not_le _ _ H E).
Qed.

Lemma Qle_bool_false : forall a b, Qle_bool a b = false <-> (b < a)%Q.
Proof.
  intros a b. pose proof (Qltb_true b a) as H. unfold Qltb in H. rewrite negb_true_iff in H. exact H.
Qed.

Lemma weight_ge_minK : forall cfg r, (c_minK cfg <= weight cfg r)%Q.
Proof.
  intros cfg r. unfold weight.
  match goal with |- context [Qltb ?a ?b] => destruct (Qltb a b) eqn:E end.
  - apply Qle_refl.
  - unfold Qltb in E. rewrite negb_false_iff in E. apply Qle_bool_iff in E. exact E.
Qed.

Lemma inject_Z_sub : forall a b, (inject_Z (a - b) == inject_Z a - inject_Z b)%Q.
Proof.
  intros. unfold Z.sub. rewrite inject_Z_plus, inject_Z_opp. reflexivity.
Qed.

Lemma inject_Z_pos : forall z, 0 < z -> (0 < inject_Z z)%Q.
Proof. intros z H. unfold Qlt, inject_Z. cbn. lia. Qed.

Lemma inject_Z_nonneg : forall z, 0 <= z -> (0 <= inject_Z z)%Q.
Proof. intros z H. unfold Qle, inject_Z. cbn. lia. Qed.

Lemma inject_Z_nonpos : forall z, z <= 0 -> (inject_Z z <= 0)%Q.
Proof. intros z H. unfold Qle, inject_Z. cbn. lia. Qed.

Lemma ratio_pos_num_pos : forall cfg r, 0 <= w_total r ->
  (0 < drop_ratio cfg r)%Q -> (0 < drop_num cfg r)%Q.
Proof.
  intros cfg r Ht H. unfold drop_ratio in H.
  assert (Hd : (0 < inject_Z (w_total r + 1))%Q) by (apply inject_Z_pos; lia).
  destruct (Qlt_le_dec 0 (drop_num cfg r)) as [L|L]; [exact L|].
  exfalso. apply (Qlt_not_le _ _ H).
  apply Qle_shift_div_r; [exact Hd|]. rewrite Qmult_0_l. exact L.
Qed.

Lemma num_pos_ratio_pos : forall cfg r, 0 <= w_total r ->
  (0 < drop_num cfg r)%Q -> (0 < drop_ratio cfg r)%Q.
Proof.
  intros cfg r Ht H. unfold drop_ratio.
  assert (Hd : (0 < inject_Z (w_total r + 1))%Q) by (apply inject_Z_pos; lia).
  apply Qlt_shift_div_l; [exact Hd|]. rewrite Qmult_0_l. exact H.
Qed.

(* T1, on what accept() read *)
Lemma throttling_over : forall cfg r,
  0 <= w_accepts r -> 0 <= w_total r ->
  (0 < drop_ratio cfg r)%Q -> over cfg (w_total r) (w_accepts r).
Proof.
  intros cfg r Ha Ht H. apply ratio_pos_num_pos in H; [|exact Ht].
  unfold drop_num in H. unfold over.
  pose proof (weight_ge_minK cfg r) as Hw.
  assert (Ha' : (0 <= inject_Z (w_accepts r))%Q) by (apply inject_Z_nonneg; exact Ha).
  rewrite inject_Z_sub in H. rewrite inject_Z_sub.
  set (W := weight cfg r) in *. set (A := inject_Z (w_accepts r)) in *.
  set (T := inject_Z (w_total r)) in *. set (P := inject_Z (c_protection cfg)) in *.
  set (M := c_minK cfg) in *.
  assert ((M * A <= W * A)%Q) by (apply Qmult_le_compat_r; assumption).
  lra.
Qed.

Lemma decide_reject : forall cfg r lp now u,
  decide cfg r lp now u = VReject ->
  (0 < drop_ratio cfg r)%Q /\ force_due cfg lp now = false /\ (u < scaled_ratio cfg r)%Q.
Proof.
  intros cfg r lp now u H. unfold decide in H.
  destruct (Qle_bool (drop_ratio cfg r) 0) eqn:E1; [discriminate|].
  destruct (force_due cfg lp now) eqn:E2; [discriminate|].
  destruct (Qltb u (scaled_ratio cfg r)) eqn:E3; [|discriminate].
  apply Qle_bool_false in E1. apply Qltb_true in E3. auto.
Qed.

Lemma reject_over_read : forall cfg r lp now u,
  0 <= w_accepts r -> 0 <= w_total r ->
  decide cfg r lp now u = VReject -> over cfg (w_total r) (w_accepts r).
Proof.
  intros cfg r lp now u Ha Ht H. apply decide_reject in H. destruct H as (H & _).
  apply throttling_over; assumption.
Qed.

(* T3, on one decision: a due force-pass lets the call through whatever the draw *)
Lemma force_due_passes : forall cfg r lp now u,
  0 < lp -> c_force cfg < now - lp -> decide cfg r lp now u <> VReject.
Proof.
  intros cfg r lp now u H1 H2 H. apply decide_reject in H. destruct H as (_ & H & _).
  unfold force_due in H. apply andb_false_iff in H. destruct H as [H|H].
  - apply Z.ltb_ge in H. lia.
  - apply Z.ltb_ge in H. lia.
Qed.

Lemma force_due_verdict : forall cfg r lp now u,
  0 < lp -> c_force cfg < now - lp ->
  decide cfg r lp now u = (if Qle_bool (drop_ratio cfg r) 0 then VAdmit else VForcePass).
Proof.
  intros cfg r lp now u H1 H2. unfold decide.
  destruct (Qle_bool (drop_ratio cfg r) 0); [reflexivity|].
  assert (force_due cfg lp now = true) as ->; [|reflexivity].
  unfold force_due. apply andb_true_iff. split; apply Z.ltb_lt; lia.
Qed.

(* T4, on one decision *)
Lemma total_failure_decide : forall cfg r lp now u T,
  1 <= c_buckets cfg -> 0 <= c_protection cfg ->
  w_accepts r = 0 -> w_working r = 0 -> 0 <= T -> T <= w_total r ->
  force_due cfg lp now = false ->
  (0 <= u)%Q -> (u < inject_Z (T - c_protection cfg) / inject_Z (T + 1))%Q ->
  decide cfg r lp now u = VReject.
Proof.
  intros cfg r lp now u T Hb Hp Ha Hw HT HTt Hf Hu0 Hu.
  assert (HT1 : (0 < inject_Z (T + 1))%Q) by (apply inject_Z_pos; lia).
  assert (Ht1 : (0 < inject_Z (w_total r + 1))%Q) by (apply inject_Z_pos; lia).
  assert (Hnum : (drop_num cfg r == inject_Z (w_total r - c_protection cfg))%Q).
  { unfold drop_num. rewrite Ha. unfold inject_Z at 2. ring. }
  (* (T-p)/(T+1) <= (t-p)/(t+1) *)
  assert (Hmono : (inject_Z (T - c_protection cfg) / inject_Z (T + 1) <=
                   inject_Z (w_total r - c_protection cfg) / inject_Z (w_total r + 1))%Q).
  { apply Qle_shift_div_l; [exact Ht1|].
    unfold Qdiv. rewrite <- Qmult_assoc, (Qmult_comm (/ _)), Qmult_assoc.
    apply Qle_shift_div_r; [exact HT1|].
    rewrite <- !inject_Z_mult, <- Zle_Qle.
    (* u >= 0 and u < (T-p)/(T+1) give T - p > 0 *)
    assert (0 < T - c_protection cfg).
    { apply Z.lt_nge. intros L. apply (Qlt_not_le _ _ Hu).
      apply Qle_trans with 0%Q; [|exact Hu0].
      apply Qle_shift_div_r; [exact HT1|]. rewrite Qmult_0_l.
      apply inject_Z_nonpos. lia. }
    assert (0 <= (1 + c_protection cfg) * (w_total r - T)) by (apply Z.mul_nonneg_nonneg; lia).
    lia. }
  assert (Hratio : (drop_ratio cfg r == inject_Z (w_total r - c_protection cfg) / inject_Z (w_total r + 1))%Q).
  { unfold drop_ratio. rewrite Hnum. reflexivity. }
  assert (Hscaled : (scaled_ratio cfg r == drop_ratio cfg r)%Q).
  { unfold scaled_ratio. rewrite Hw, Z.sub_0_r.
    assert (~ (inject_Z (c_buckets cfg) == 0)%Q).
    { intros E. assert ((0 < inject_Z (c_buckets cfg))%Q) by (apply inject_Z_pos; lia).
      rewrite E in H. apply (Qlt_irrefl _ H). }
    field. exact H. }
  assert (Hpos : (u < drop_ratio cfg r)%Q).
  { rewrite Hratio. eapply Qlt_le_trans; [exact Hu|exact Hmono]. }
  unfold decide.
  assert (Qle_bool (drop_ratio cfg r) 0 = false) as ->.
  { apply Qle_bool_false. eapply Qle_lt_trans; [exact Hu0|exact Hpos]. }
  rewrite Hf.
  assert (Qltb u (scaled_ratio cfg r) = true) as ->; [|reflexivity].
  apply Qltb_true. rewrite Hscaled. exact Hpos.
Qed.

(* ------------------------------------------------------ runs: the invariant *)

Definition winit (cfg : config) (base : Z) : rw :=
  rw_new (Z.to_nat (c_buckets cfg)) (bucket_duration cfg) base false.

Record world_inv (cfg : config) (base : Z) (w : world) : Prop :=
  { wv_win : swin (w_st w) = rw_run (winit cfg base) (w_marks w);
    wv_mono : rw_mono base (w_marks w);
    wv_clock : rw_last_time base (w_marks w) <= w_clock w;
    wv_base : base <= w_clock w;
    wv_lastp : slast (w_st w) = last_throttled (w_decisions w);
    wv_dec : Forall (fun d => base <= fst d) (w_decisions w) }.

Lemma init_inv : forall cfg base, world_inv cfg base (init_world cfg base).
Proof.
  intros. constructor; cbn; try reflexivity; try lia; auto.
Qed.

Lemma rw_run_snoc : forall w h p, rw_run w (h ++ [p]) = rw_add (rw_run w h) (fst p) (snd p).
Proof. intros. unfold rw_run. rewrite fold_left_app. reflexivity. Qed.

Lemma last_throttled_snoc : forall ds d,
  last_throttled (ds ++ [d]) = if throttled_pass (snd d) then fst d else last_throttled ds.
Proof. intros. unfold last_throttled. rewrite fold_left_app. reflexivity. Qed.

Lemma step_unfold : forall cfg w c,
  step cfg w c =
  let now := w_clock w + k_gap c in
  match k_ctx c with
  | CDone => (mkWorld (w_st w) now (w_marks w) (w_decisions w), mkObs RCtxDone 0 0 None)
  | _ =>
    let v := decide cfg (history (swin (w_st w)) now) (slast (w_st w)) now (k_u c) in
    let s1 := mkSt (swin (w_st w)) (last_after v (slast (w_st w)) now) in
    if rejected v then
      (mkWorld (mark s1 now v_drop) now (w_marks w ++ [(now, v_drop)]) (w_decisions w ++ [(now, v)]),
       mkObs (if has_fallback (k_entry c) then RFallback else RUnavailable) 0
             (if has_fallback (k_entry c) then 1 else 0) (Some v))
    else
      let t := now + k_dur c in
      let x := if counts_as_success (k_entry c) (k_out c) then v_success else v_fail in
      (mkWorld (mark s1 t x) t (w_marks w ++ [(t, x)]) (w_decisions w ++ [(now, v)]),
       mkObs (result_of (k_entry c) (k_out c)) (if is_allow (k_entry c) then 0 else 1) 0 (Some v))
  end.
Proof. intros. unfold step, accept. destruct (k_ctx c); reflexivity. Qed.

Lemma step_inv : forall cfg base w c,
  world_inv cfg base w -> 0 <= k_gap c -> 0 <= k_dur c ->
  world_inv cfg base (fst (step cfg w c)).
Proof.
  intros cfg base w c [Hw Hm Hc Hb Hl Hd] Hg Hdur.
  rewrite step_unfold. cbn zeta.
  assert (Hsnoc : forall t x v, w_clock w <= t -> base <= w_clock w + k_gap c ->
    world_inv cfg base
      (mkWorld (mark (mkSt (swin (w_st w)) (last_after v (slast (w_st w)) (w_clock w + k_gap c))) t x) t
               (w_marks w ++ [(t, x)]) (w_decisions w ++ [(w_clock w + k_gap c, v)]))).
  { intros t x v Ht Hb'. constructor; cbn [w_st w_clock w_marks w_decisions mark swin slast].
    - rewrite rw_run_snoc. cbn [fst snd]. rewrite Hw. reflexivity.
    - apply mono_snoc. split; [exact Hm|]. cbn [fst]. lia.
    - rewrite last_time_snoc. cbn [fst]. lia.
    - lia.
    - rewrite last_throttled_snoc. cbn [fst snd]. unfold last_after. rewrite Hl. reflexivity.
    - apply Forall_app. split; [exact Hd|]. constructor; [cbn [fst]; exact Hb'|constructor]. }
  destruct (k_ctx c).
  - destruct (rejected _); cbn [fst]; apply Hsnoc; lia.
  - destruct (rejected _); cbn [fst]; apply Hsnoc; lia.
  - cbn [fst]. constructor; cbn [w_st w_clock w_marks w_decisions]; auto; lia.
Qed.

Lemma final_cons : forall cfg w c cs,
  final cfg w (c :: cs) = final cfg (fst (step cfg w c)) cs.
Proof.
  intros. unfold final. cbn [run]. destruct (step cfg w c) as [w1 o]. cbn [fst].
  destruct (run cfg w1 cs). reflexivity.
Qed.

Lemma times_ok_app : forall a b, times_ok (a ++ b) <-> times_ok a /\ times_ok b.
Proof. intros. unfold times_ok. apply Forall_app. Qed.

Lemma run_inv : forall cfg base cs w,
  times_ok cs -> world_inv cfg base w -> world_inv cfg base (final cfg w cs).
Proof.
  induction cs as [|c cs IH]; intros w Ht Hw.
  - exact Hw.
  - rewrite final_cons. inversion Ht as [|? ? [Hg Hd] Ht']; subst.
    apply IH; [exact Ht'|]. apply step_inv; assumption.
Qed.

Lemma reach_inv : forall cfg base cs, times_ok cs -> world_inv cfg base (reach cfg base cs).
Proof. intros. unfold reach. apply run_inv; [assumption|apply init_inv]. Qed.

(* the window sums read at any later time are the counts of the recorded calls of the
   last `buckets` intervals *)
Lemma window_sums : forall cfg base w now,
  cfg_ok cfg -> world_inv cfg base w -> w_clock w <= now ->
  let h := history (swin (w_st w)) now in
  let vals := window_vals cfg base (w_marks w) now in
  w_total h = n_total vals /\ w_accepts h = n_success vals /\
  sum_fail (swin (w_st w)) now = n_fail vals /\ sum_drop (swin (w_st w)) now = n_drop vals.
Proof.
  intros cfg base w now (Hb & Hiv & Hp) [Hw Hm Hc Hbase Hl Hd] Hnow. cbn zeta.
  assert (Hcat : concat (rw_reduce (swin (w_st w)) now) = window_vals cfg base (w_marks w) now).
  { rewrite Hw. unfold winit, window_vals.
    rewrite reduce_concat_window; try assumption; try lia.
    rewrite Z2Nat.id by lia. reflexivity. }
  destruct (history_counts (swin (w_st w)) now) as (H1 & H2 & _).
  rewrite Hcat in H1, H2.
  unfold sum_fail, sum_drop. rewrite sum_fold_fail, sum_fold_drop, Hcat.
  repeat split; auto.
Qed.

(* --------------------------------------------------------------- T1 (runs) *)

(* a call that was let through either ran its request (once) or is an Allow that returned nil:
   the returned VALUE may well be ErrServiceUnavailable (the request's own), but then the
   request ran *)
Lemma result_of_not_reject : forall e o,
  is_allow e = true -> result_of e o <> RUnavailable /\ result_of e o <> RFallback.
Proof. intros e o H. unfold result_of. rewrite H. split; discriminate. Qed.

Lemma rejected_iff : forall v, rejected v = true <-> v = VReject.
Proof. destruct v; cbn; split; intros; try discriminate; reflexivity. Qed.

(* what identifies a rejection from outside: ErrServiceUnavailable / the fallback's value came
   back AND the request did not run *)
Lemma unavailable_is_reject : forall cfg w c,
  let o := snd (step cfg w c) in
  ((o_res o = RUnavailable \/ o_res o = RFallback) /\ o_req o = 0) <-> o_verdict o = Some VReject.
Proof.
  intros cfg w c. rewrite step_unfold. cbn zeta.
  destruct (k_ctx c).
  1,2: match goal with |- context [rejected ?v] => destruct (rejected v) eqn:E end; cbn [snd o_res o_verdict o_req].
  1,3: apply rejected_iff in E; rewrite E; split; [reflexivity|]; intros _;
       destruct (has_fallback (k_entry c)); auto.
  1,2: split; [|intros H; inversion H as [H']; rewrite H' in E; discriminate];
       intros (Hr & Hq); destruct (is_allow (k_entry c)) eqn:Ea; [|discriminate Hq];
       destruct (result_of_not_reject (k_entry c) (k_out c) Ea) as (N1 & N2);
       destruct Hr; contradiction.
  cbn. split; [intros ([H|H] & _); discriminate|discriminate].
Qed.

Lemma reject_only_if_over_run : forall cfg base cs c,
  cfg_ok cfg -> times_ok (cs ++ [c]) ->
  let w := reach cfg base cs in
  let now := w_clock w + k_gap c in
  let o := snd (step cfg w c) in
  (o_res o = RUnavailable \/ o_res o = RFallback) /\ o_req o = 0 ->
  let vals := window_vals cfg base (w_marks w) now in
  over cfg (n_total vals) (n_success vals).
Proof.
  intros cfg base cs c Hcfg Ht. cbn zeta. intros Hres.
  apply times_ok_app in Ht. destruct Ht as (Ht & Hc). inversion Hc as [|? ? [Hg Hd] _]; subst.
  pose proof (reach_inv cfg base cs Ht) as Hinv.
  apply unavailable_is_reject in Hres. rewrite step_unfold in Hres. cbn zeta in Hres.
  set (w := reach cfg base cs) in *. set (now := w_clock w + k_gap c) in *.
  destruct (window_sums cfg base w now Hcfg Hinv ltac:(lia)) as (S1 & S2 & _).
  rewrite <- S1, <- S2.
  destruct (history_counts (swin (w_st w)) now) as (C1 & C2 & C3 & _).
  assert (Hv : decide cfg (history (swin (w_st w)) now) (slast (w_st w)) now (k_u c) = VReject).
  { destruct (k_ctx c).
    1,2: match type of Hres with context [rejected ?v] => destruct (rejected v) eqn:E end;
         cbn [snd o_verdict] in Hres; inversion Hres as [H']; try reflexivity;
         rewrite H' in E; discriminate.
    cbn in Hres. discriminate. }
  eapply reject_over_read; [exact C3| |exact Hv].
  rewrite C1. unfold n_total. lia.
Qed.

(* --------------------------------------------------------------- T2 *)

Lemma exact_accounting_step : forall cfg w c,
  let now := w_clock w + k_gap c in
  let w' := fst (step cfg w c) in
  let o := snd (step cfg w c) in
  match k_ctx c with
  | CDone =>
    (* done context: ctx.Err(), nothing ran, nothing recorded, breaker untouched *)
    o_res o = RCtxDone /\ o_req o = 0 /\ o_fb o = 0 /\
    w_st w' = w_st w /\ w_marks w' = w_marks w
  | _ =>
    exists v, o_verdict o = Some v /\
    if rejected v then
      (* rejected: request not run, fallback exactly once iff there is one, one drop recorded *)
      o_req o = 0 /\ o_fb o = (if has_fallback (k_entry c) then 1 else 0) /\
      o_res o = (if has_fallback (k_entry c) then RFallback else RUnavailable) /\
      w_marks w' = w_marks w ++ [(now, v_drop)] /\
      swin (w_st w') = rw_add (swin (w_st w)) now v_drop
    else
      (* let through: request exactly once (Allow: the caller resolves the promise), its
         error / panic handed back unchanged, one success or failure recorded *)
      let x := if counts_as_success (k_entry c) (k_out c) then v_success else v_fail in
      o_req o = (if is_allow (k_entry c) then 0 else 1) /\ o_fb o = 0 /\
      o_res o = result_of (k_entry c) (k_out c) /\
      w_marks w' = w_marks w ++ [(now + k_dur c, x)] /\
      swin (w_st w') = rw_add (swin (w_st w)) (now + k_dur c) x
  end.
Proof.
  intros cfg w c. rewrite step_unfold. cbn zeta.
  destruct (k_ctx c).
  1,2: match goal with |- context [rejected ?v] => exists v; destruct (rejected v) eqn:E end;
       cbn; repeat split; reflexivity.
  cbn. repeat split; reflexivity.
Qed.

Lemma acceptability_table :
  (* default predicate (err == nil): exactly a nil return is a success - whatever the error
     value, whatever the caller's predicate would have said *)
  (forall e o, e = EDo \/ e = EDoFb -> (counts_as_success e o = true <-> returns_nil o = true)) /\
  (* caller's predicate: a success iff the predicate ANSWERS true on the returned value - nil
     included; a request or predicate that panics is a failure *)
  (forall e o, e = EDoAcc \/ e = EDoFbAcc ->
     (counts_as_success e o = true <-> pred_answer o = Some true)) /\
  (* the predicate of this development accepts nil, errA, the wrapped sentinel, context.Canceled -
     and, looking at side state, may reject a nil (OOkRej) or accept errU (OErrUAcc) *)
  (forall o, pred_answer o = Some true <-> o = OOk \/ o = OErrA \/ o = OErrSUW \/ o = OCanceled \/ o = OErrUAcc) /\
  (* the error comes back unchanged, the panic is re-raised - also when the value is one the
     breaker itself uses *)
  (forall e, is_allow e = false ->
     result_of e OOk = RNil /\ result_of e OErrU = RErrU /\
     result_of e OErrA = RErrA /\ result_of e OPanic = RPanic /\
     result_of e OErrSU = RUnavailable /\ result_of e OErrSUW = RErrSUW /\
     result_of e OCanceled = RCtxDone /\ result_of e ODeadline = RDeadline /\
     result_of e OErrFB = RFallback /\ result_of e OPanicSU = RPanicSU /\
     result_of e OOkRej = RNil /\ result_of e OErrUAcc = RErrU) /\
  (* promise: Accept is a success, Reject a failure *)
  (forall o, counts_as_success EAllowAccept o = true /\ counts_as_success EAllowReject o = false).
Proof.
  split; [|split; [|split; [|split]]].
  - intros e o [H|H]; subst; destruct o; cbn; split; intros; try discriminate; reflexivity.
  - intros e o [H|H]; subst; destruct o; cbn; split; intros; try discriminate; reflexivity.
  - intros o; destruct o; cbn; split; intros H; try discriminate; try reflexivity; auto 6;
      repeat match goal with H : _ \/ _ |- _ => destruct H end; discriminate.
  - intros e H. destruct e; cbn in H; try discriminate; repeat split; reflexivity.
  - intros o. split; reflexivity.
Qed.

(* seeded C01-11: the nil return is no exception - an admitted call whose request returned nil
   and whose predicate says "unacceptable" is recorded as a FAILURE, exactly once *)
Lemma nil_rejected_by_predicate_is_failure : forall cfg w c,
  k_ctx c <> CDone -> (k_entry c = EDoAcc \/ k_entry c = EDoFbAcc) -> k_out c = OOkRej ->
  rejected (snd (accept cfg (w_st w) (w_clock w + k_gap c) (k_u c))) = false ->
  let w' := fst (step cfg w c) in
  let o := snd (step cfg w c) in
  w_marks w' = w_marks w ++ [(w_clock w + k_gap c + k_dur c, v_fail)] /\ o_res o = RNil /\ o_req o = 1 /\ o_fb o = 0.
Proof.
  intros cfg w c Hctx He Ho Hadm. cbn zeta. unfold step.
  destruct (accept cfg (w_st w) (w_clock w + k_gap c) (k_u c)) as [s1 v] eqn:Ea. cbn [snd] in Hadm.
  destruct (k_ctx c); try contradiction; rewrite Hadm, Ho; destruct He as [-> | ->]; cbn; auto.
Qed.

Lemma marks_count : forall cfg cs w,
  n_total (map snd (w_marks (final cfg w cs))) = n_total (map snd (w_marks w)) + recorded_calls cs.
Proof.
  induction cs as [|c cs IH]; intros w.
  - unfold recorded_calls. cbn. lia.
  - rewrite final_cons, IH.
    pose proof (exact_accounting_step cfg w c) as H. cbn zeta in H.
    unfold recorded_calls. cbn [filter].
    destruct (k_ctx c).
    1,2: destruct H as (v & _ & H); destruct (rejected v);
         destruct H as (_ & _ & _ & H & _); rewrite H;
         rewrite map_app, n_total_app; unfold n_total; cbn [length map]; lia.
    destruct H as (_ & _ & _ & _ & H). rewrite H. lia.
Qed.

Lemma accounting_run : forall cfg base cs now,
  cfg_ok cfg -> times_ok cs ->
  let w := reach cfg base cs in
  w_clock w <= now ->
  let h := history (swin (w_st w)) now in
  let vals := window_vals cfg base (w_marks w) now in
  (* every call that reached accept() was recorded exactly once *)
  n_total (map snd (w_marks w)) = recorded_calls cs /\
  (* and the window sums are the counts of the recorded calls of the window *)
  w_total h = n_total vals /\ w_accepts h = n_success vals /\
  sum_fail (swin (w_st w)) now = n_fail vals /\ sum_drop (swin (w_st w)) now = n_drop vals /\
  n_total vals = n_success vals + n_fail vals + n_drop vals.
Proof.
  intros cfg base cs now Hcfg Ht. cbn zeta. intros Hnow.
  pose proof (reach_inv cfg base cs Ht) as Hinv.
  destruct (window_sums cfg base _ now Hcfg Hinv Hnow) as (S1 & S2 & S3 & S4).
  split; [|repeat split; auto using n_partition].
  unfold reach. rewrite marks_count. cbn. unfold n_total. cbn. lia.
Qed.

(* T2 over whole histories, run counts: along ANY history the request runs exactly for the
   admitted Do* calls (once), the fallback exactly for the rejected calls that have one
   (once) - never for an admitted call, whatever its request returned - and an admitted
   call hands back what its request returned *)
Lemma run_exact_runs : forall cfg cs w,
  Forall2 (fun c o =>
             o_req o = (if was_admitted o && negb (is_allow (k_entry c)) then 1 else 0) /\
             o_fb o = (if was_rejected o && has_fallback (k_entry c) then 1 else 0) /\
             (was_admitted o = true -> o_res o = result_of (k_entry c) (k_out c)) /\
             (was_rejected o = true ->
              o_res o = (if has_fallback (k_entry c) then RFallback else RUnavailable)))
          cs (snd (run cfg w cs)).
Proof.
  induction cs as [|c cs IH]; intros w; [constructor|].
  cbn [run]. destruct (step cfg w c) as [w1 o] eqn:Es.
  specialize (IH w1). destruct (run cfg w1 cs) as [w2 os]. cbn [snd] in *.
  constructor; [|exact IH].
  pose proof (exact_accounting_step cfg w c) as H. cbn zeta in H. rewrite Es in H. cbn [fst snd] in H.
  unfold was_admitted, was_rejected.
  destruct (k_ctx c) eqn:Ectx.
  1,2: destruct H as (v & Hv & H); rewrite Hv; destruct v; cbn [rejected negb andb] in *;
       destruct H as (H1 & H2 & H3 & _); rewrite H1, H2, H3;
       destruct (is_allow (k_entry c)), (has_fallback (k_entry c)); cbn; repeat split; intros; try discriminate; reflexivity.
  destruct H as (H1 & H2 & H3 & _).
  assert (Hn : o_verdict o = None).
  { rewrite step_unfold in Es. cbn zeta in Es. rewrite Ectx in Es. injection Es as _ <-. reflexivity. }
  rewrite Hn, H2, H3. cbn. repeat split; intros; discriminate.
Qed.

(* --------------------------------------------------------------- T3 *)

Lemma last_throttled_in : forall ds,
  some_throttled ds ->
  exists d, In d ds /\ throttled_pass (snd d) = true /\ last_throttled ds = fst d.
Proof.
  induction ds as [|d ds IH] using rev_ind; intros (d0 & Hin & Hthr).
  - destruct Hin.
  - rewrite last_throttled_snoc. destruct (throttled_pass (snd d)) eqn:E.
    + exists d. split; [apply in_or_app; right; left; reflexivity|auto].
    + apply in_app_or in Hin. destruct Hin as [Hin|[Hin|[]]].
      * destruct IH as (d1 & H1 & H2 & H3); [exists d0; auto|].
        exists d1. split; [apply in_or_app; left; exact H1|auto].
      * subst. congruence.
Qed.

Lemma probe_guaranteed_run : forall cfg base cs c,
  0 < base -> times_ok (cs ++ [c]) ->
  let w := reach cfg base cs in
  let now := w_clock w + k_gap c in
  some_throttled (w_decisions w) ->
  c_force cfg < now - last_throttled (w_decisions w) ->
  k_ctx c <> CDone ->
  forall u,
    let o := snd (step cfg w (with_draw c u)) in
    (o_verdict o = Some VAdmit \/ o_verdict o = Some VForcePass) /\
    o_res o = result_of (k_entry c) (k_out c) /\
    o_req o = (if is_allow (k_entry c) then 0 else 1) /\ o_fb o = 0.
Proof.
  intros cfg base cs c Hbase Ht. cbn zeta. intros Hsome Hlate Hctx u.
  apply times_ok_app in Ht. destruct Ht as (Ht & _).
  pose proof (reach_inv cfg base cs Ht) as [Hw Hm Hc Hb Hl Hd].
  set (w := reach cfg base cs) in *.
  destruct (last_throttled_in _ Hsome) as (d & Hin & _ & Hlast).
  assert (Hpos : 0 < slast (w_st w)).
  { rewrite Hl, Hlast. rewrite Forall_forall in Hd. specialize (Hd d Hin). cbn in Hd. lia. }
  rewrite step_unfold. cbn zeta. cbn [with_draw k_ctx k_gap k_u k_entry k_out k_dur].
  rewrite force_due_verdict; [|exact Hpos|rewrite Hl; exact Hlate].
  destruct (k_ctx c); try contradiction;
    destruct (Qle_bool _ 0); cbn; auto.
Qed.

(* --------------------------------------------------------------- T4 *)

Lemma total_failure_rejects_run : forall cfg base cs c T,
  cfg_ok cfg -> times_ok (cs ++ [c]) ->
  let w := reach cfg base cs in
  let now := w_clock w + k_gap c in
  let vals := window_vals cfg base (w_marks w) now in
  k_ctx c <> CDone ->
  n_success vals = 0 -> 0 <= T -> T <= n_total vals ->
  (last_throttled (w_decisions w) = 0 \/ now - last_throttled (w_decisions w) <= c_force cfg) ->
  (0 <= k_u c)%Q -> (k_u c < inject_Z (T - c_protection cfg) / inject_Z (T + 1))%Q ->
  let o := snd (step cfg w c) in
  o_verdict o = Some VReject /\ o_req o = 0 /\
  o_fb o = (if has_fallback (k_entry c) then 1 else 0) /\
  o_res o = (if has_fallback (k_entry c) then RFallback else RUnavailable).
Proof.
  intros cfg base cs c T Hcfg Ht. cbn zeta. intros Hctx Hsucc HT0 HT Hforce Hu0 Hu.
  apply times_ok_app in Ht. destruct Ht as (Ht & Hc). inversion Hc as [|? ? [Hg Hd] _]; subst.
  pose proof (reach_inv cfg base cs Ht) as Hinv.
  set (w := reach cfg base cs) in *. set (now := w_clock w + k_gap c) in *.
  destruct (window_sums cfg base w now Hcfg Hinv ltac:(lia)) as (S1 & S2 & _).
  destruct (history_counts (swin (w_st w)) now) as (_ & _ & _ & C4).
  destruct Hcfg as (Hb & Hiv & Hp).
  assert (Hv : decide cfg (history (swin (w_st w)) now) (slast (w_st w)) now (k_u c) = VReject).
  { apply total_failure_decide with (T := T); try assumption.
    - rewrite S2. exact Hsucc.
    - apply C4. rewrite S2. exact Hsucc.
    - rewrite S1. exact HT.
    - rewrite (wv_lastp _ _ _ Hinv). unfold force_due.
      destruct Hforce as [E|E].
      + rewrite E. reflexivity.
      + apply andb_false_iff. right. apply Z.ltb_ge. exact E. }
  rewrite step_unfold. cbn zeta. fold now. rewrite Hv.
  destruct (k_ctx c); try contradiction; cbn; auto.
Qed.

(* the admission law in the words of the property: with minK >= 1.1 and protection >= 5,
   [over] says  non-accepted > 5 + 10% of accepted,  i.e. 10*(total-accepts) > 50 + accepts *)
Lemma over_property_text : forall cfg total accepts,
  (11 # 10 <= c_minK cfg)%Q -> 5 <= c_protection cfg -> 0 <= accepts ->
  over cfg total accepts -> 50 + accepts < 10 * (total - accepts).
Proof.
  intros cfg total accepts HM HP HA H. unfold over in H.
  rewrite Zlt_Qlt, inject_Z_plus, inject_Z_mult.
  assert (HP' : (inject_Z 5 <= inject_Z (c_protection cfg))%Q) by (rewrite <- Zle_Qle; exact HP).
  assert (HA' : (0 <= inject_Z accepts)%Q) by (apply inject_Z_nonneg; exact HA).
  set (A := inject_Z accepts) in *. set (N := inject_Z (total - accepts)) in *.
  set (P := inject_Z (c_protection cfg)) in *. set (M := c_minK cfg) in *.
  assert (E5 : (inject_Z 5 == 5)%Q) by reflexivity.
  assert (E50 : (inject_Z 50 == 50)%Q) by reflexivity.
  assert (E10 : (inject_Z 10 == 10)%Q) by reflexivity.
  rewrite E50, E10. rewrite E5 in HP'.
  assert ((1 # 10) * A <= (M - 1) * A)%Q by (apply Qmult_le_compat_r; [lra|exact HA']).
  lra.
Qed.
