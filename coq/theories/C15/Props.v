(* C15 — property theorems only.  Every theorem is closed by [exact] of a lemma proved
   in Proofs.v and followed by [Print Assumptions].

   [vh] (the hash of every virtual-node string) and [R] (h.replicas) are universally
   quantified: the theorems below hold for EVERY hash function — murmur3, a custom
   Func, colliding or not — every history of Add / AddWithReplicas / AddWithWeight /
   Remove, every replica count / weight, and every lookup key (given by its two hashes).

   No hypothesis on the hash:
     ring_invariant, get_member_only, removed_never_returned, added_node_is_served.
   Under [collision_free_on vh R U] — distinct (node, index) pairs of the universe U of
   nodes the histories mention hash differently (the Prop form of the boolean
   Check.collision_free evaluated on every generated universe):
     history_independent, get_is_owner_of_successor, op_moves_only_to_or_from_its_node,
     add_moves_only_to_new, remove_moves_only_from_removed, readd_moves_only_to_or_from_it.
   Without the hypothesis history independence is false for the code as it is
   (known finding collision-bucket-insertion-order): Pinned.bucket_order_refuted. *)
From Coq Require Import List ZArith Bool Sorted Lia.
From GZ Require Import C15.Model C15.Check C15.Proofs C15.ProofsB.
Import ListNotations.
Open Scope Z_scope.

(* After every history: keys are sorted; there is exactly one key per ring entry (so keys
   is empty iff the ring is); no bucket is empty; every ring entry belongs to a node of
   the node set and sits at one of that node's R virtual-node hashes. *)
Theorem ring_invariant : forall vh R ops, Inv vh R (run vh R ops).
Proof. exact run_inv. Qed.
Print Assumptions ring_invariant.

(* Get never fails; it answers none iff the ring is empty; otherwise it returns a value
   stored in the ring whose node is in the node set. *)
Theorem get_member_only : forall vh R ops hp ihp,
  let s := run vh R ops in
  get s hp ihp <> GPanic /\
  (get s hp ihp = GNone <-> ring s = []) /\
  (forall x, get s hp ihp = GSome x ->
     In (nrepr x) (nodes s) /\ exists h, In h (keys s) /\ In x (bucket h (ring s))).
Proof. exact get_member_only_l. Qed.
Print Assumptions get_member_only.

(* After Remove(x), whatever happened before and whatever happens afterwards to other
   nodes, no key is ever answered with a value of that node — until it is added again. *)
Theorem removed_never_returned : forall vh R pre x post hp ihp y,
  forallb (fun o => negb (is_add o && (nrepr (op_node o) =? nrepr x))) post = true ->
  nrepr y = nrepr x ->
  get (run vh R (pre ++ ORemove x :: post)) hp ihp <> GSome y.
Proof. exact removed_never_returned_l. Qed.
Print Assumptions removed_never_returned.

(* Conversely the ring is not empty (Get answers every key) right after a node was added
   with at least one replica. *)
Theorem added_node_is_served : forall vh R pre x r hp ihp,
  0 < r -> 0 < R ->
  get (step vh R (run vh R pre) (OAddR x r)) hp ihp <> GNone.
Proof. exact added_is_served_l. Qed.
Print Assumptions added_node_is_served.

(* ======== under collision-freeness on the universe U ================================= *)

(* The ring (keys, every bucket) and every Get depend only on the final map
   node |-> (effective replicas, value) — [amap_run], the very map Check.prop_ok maintains —
   not on the order or number of adds and removes that produced it. *)
Theorem history_independent : forall vh R U, collision_free_on vh R U -> forall ops1 ops2,
  ops_in_U U ops1 -> ops_in_U U ops2 ->
  (forall n, alookup n (amap_run R ops1) = alookup n (amap_run R ops2)) ->
  keys (run vh R ops1) = keys (run vh R ops2) /\
  (forall h, bucket h (ring (run vh R ops1)) = bucket h (ring (run vh R ops2))) /\
  forall hp ihp, get (run vh R ops1) hp ihp = get (run vh R ops2) hp ihp.
Proof. exact history_independent_l. Qed.
Print Assumptions history_independent.

(* ... namely: Get answers x iff x is the value of the node owning the first live
   virtual-node hash >= the key's hash (wrapping to the least), and none iff no node has a
   live virtual node.  [Live m x k]: node (nrepr x) is in m with value (nval x) and
   k = vh (nrepr x) i for some i < its replica count. *)
Theorem get_is_owner_of_successor : forall vh R U, collision_free_on vh R U -> forall ops hp ihp,
  ops_in_U U ops ->
  let m := amap_run R ops in
  (forall x, get (run vh R ops) hp ihp = GSome x <->
             exists k, Live vh m x k /\ is_succ (live_hash vh m) hp k) /\
  (get (run vh R ops) hp ihp = GNone <-> forall h, ~ live_hash vh m h).
Proof. exact get_is_successor_owner_l. Qed.
Print Assumptions get_is_owner_of_successor.

(* Any operation on node n (add, re-add with another count or weight, remove), after any
   history: a key's answer is unchanged, or it was n's, or it becomes n's. *)
Theorem op_moves_only_to_or_from_its_node : forall vh R U, collision_free_on vh R U -> forall ops o hp ihp,
  ops_in_U U ops ->
  let s := run vh R ops in
  get (step vh R s o) hp ihp = get s hp ihp \/
  (exists y, get s hp ihp = GSome y /\ nrepr y = nrepr (op_node o)) \/
  (exists x', get (step vh R s o) hp ihp = GSome x' /\ nrepr x' = nrepr (op_node o)).
Proof. exact op_moves_only_its_node_l. Qed.
Print Assumptions op_moves_only_to_or_from_its_node.

(* Adding a node that is not in the ring moves keys only to it. *)
Theorem add_moves_only_to_new : forall vh R U, collision_free_on vh R U -> forall ops o hp ihp,
  ops_in_U U ops -> is_add o = true ->
  let s := run vh R ops in
  ~ In (nrepr (op_node o)) (nodes s) ->
  get (step vh R s o) hp ihp = get s hp ihp \/ get (step vh R s o) hp ihp = GSome (op_node o).
Proof. exact add_moves_only_to_new_l. Qed.
Print Assumptions add_moves_only_to_new.

(* Removing a node changes the answer only of keys that were answered with it. *)
Theorem remove_moves_only_from_removed : forall vh R U, collision_free_on vh R U -> forall ops x hp ihp y,
  ops_in_U U ops ->
  let s := run vh R ops in
  get s hp ihp = GSome y -> nrepr y <> nrepr x ->
  get (step vh R s (ORemove x)) hp ihp = GSome y.
Proof. exact remove_moves_only_from_removed_l. Qed.
Print Assumptions remove_moves_only_from_removed.

(* Re-adding a node (other replica count, weight, or value) moves keys only to or from it. *)
Theorem readd_moves_only_to_or_from_it : forall vh R U, collision_free_on vh R U -> forall ops o hp ihp,
  ops_in_U U ops -> is_add o = true ->
  let s := run vh R ops in
  get (step vh R s o) hp ihp = get s hp ihp \/
  (exists y, get s hp ihp = GSome y /\ nrepr y = nrepr (op_node o)) \/
  get (step vh R s o) hp ihp = GSome (op_node o).
Proof. exact readd_moves_only_to_or_from_it_l. Qed.
Print Assumptions readd_moves_only_to_or_from_it.

(* ---- non-vacuity ------------------------------------------------------------------ *)
Definition ex_hash (n i : Z) : Z := (n * 7919 + i * 104729) mod 1000003.
Definition ex_ops : list op :=
  [OAdd (mkNode 1 0); OAddW (mkNode 2 1) 50; OAddR (mkNode 3 2) 7; ORemove (mkNode 1 0); OAddR (mkNode 2 3) 0].

(* three nodes, one removed, one re-added with zero replicas: node 3 serves everything *)
Example ex_state :
  let s := run ex_hash 100 ex_ops in
  length (keys s) = 7%nat /\ nodes s = [3; 2] /\ get s 12345 1 = GSome (mkNode 3 2).
Proof. vm_compute. auto. Qed.

(* the hypotheses of removed_never_returned are satisfiable with a non-empty tail *)
Example ex_removed_hyp :
  forallb (fun o => negb (is_add o && (nrepr (op_node o) =? 1)))
          [OAddR (mkNode 2 3) 0; OAdd (mkNode 3 2)] = true.
Proof. reflexivity. Qed.

(* a small-range hash (everything collides): the theorems still apply *)
Example ex_colliding :
  let s := run (fun n i => (n + i) mod 3) 100 [OAdd (mkNode 1 0); OAdd (mkNode 2 1); ORemove (mkNode 1 0)] in
  length (keys s) = 100%nat /\ length (ring s) = 3%nat /\ get s 2 5 = GSome (mkNode 2 1).
Proof. vm_compute. auto. Qed.

(* The boolean that Check.prop_ok evaluates on the hash table of every generated case
   ([collision_free t && table_ok t R]) implies the hypothesis of the theorems above for the
   hash function the model is run with on that case, [vh_of t], on the case's universe:
   "checked per case" = "the hypothesis of the theorem holds for this case". *)
Theorem collision_free_spec : forall t R,
  collision_free t = true -> table_ok t R = true ->
  collision_free_on (vh_of t) R (fun n => In n (map fst t)).
Proof. exact collision_free_spec_l. Qed.
Print Assumptions collision_free_spec.

Example table_example :
  collision_free [(0, [5; 9]); (1, [7; 3])] = true /\ table_ok [(0, [5; 9]); (1, [7; 3])] 2 = true.
Proof. vm_compute. auto. Qed.

(* ---- non-vacuity of the collision-free theorems ----------------------------------------- *)
(* a hash that is injective on (node, index < 100) for every node *)
Definition cf_hash (n i : Z) : Z := n * 100 + i.
Example cf_hash_collision_free : collision_free_on cf_hash 100 (fun _ => True).
Proof. unfold collision_free_on, cf_hash. intros. lia. Qed.

(* two histories with the same final node map {2 |-> 50 replicas, 3 |-> 7 replicas} *)
Definition cf_ops1 : list op :=
  [OAdd (mkNode 1 0); OAddW (mkNode 2 1) 50; OAddR (mkNode 3 2) 7; ORemove (mkNode 1 0)].
Definition cf_ops2 : list op := [OAddR (mkNode 3 2) 7; OAddR (mkNode 2 9) 3; OAddR (mkNode 2 1) 50].
Example cf_same_map :
  ops_in_U (fun _ => True) cf_ops1 /\ ops_in_U (fun _ => True) cf_ops2 /\
  forall n, alookup n (amap_run 100 cf_ops1) = alookup n (amap_run 100 cf_ops2).
Proof.
  split; [repeat constructor|]. split; [repeat constructor|].
  intros n. vm_compute amap_run. cbn [alookup].
  destruct (2 =? n) eqn:E2; destruct (3 =? n) eqn:E3; try reflexivity.
  apply Z.eqb_eq in E2, E3. lia.
Qed.
(* keys 200..249 belong to node 2, 300..306 to node 3: key 250 is served by node 3, key 310
   wraps to node 2 — in both histories *)
Example cf_answers :
  get (run cf_hash 100 cf_ops1) 250 0 = GSome (mkNode 3 2) /\
  get (run cf_hash 100 cf_ops2) 250 0 = GSome (mkNode 3 2) /\
  get (run cf_hash 100 cf_ops1) 310 0 = GSome (mkNode 2 1).
Proof. vm_compute. auto. Qed.
(* adding the new node 4 (keys 400..499) takes key 310 from node 2, and nothing else moves *)
Example cf_add_moves :
  ~ In 4 (nodes (run cf_hash 100 cf_ops1)) /\
  get (step cf_hash 100 (run cf_hash 100 cf_ops1) (OAdd (mkNode 4 3))) 310 0 = GSome (mkNode 4 3) /\
  get (step cf_hash 100 (run cf_hash 100 cf_ops1) (OAdd (mkNode 4 3))) 250 0 = GSome (mkNode 3 2).
Proof. vm_compute. split; [|auto]. intros [H|[H|[]]]; discriminate. Qed.
